(* Property C17, text mode, the trailing and padded edits, analysis stage: [Proofs/EditTrailAnalysis.v]
   ([analyse_wblind_gen]: event streams related by [fwr] give the same recipe up to [rnorm]) WITHOUT the
   hypothesis [no_text_mode].

   In text mode (`>> [mode]: text`) every block is a paragraph and a component is copied as written
   (event_consumer.rs:570-595).  Two things change:
   - the copies of the two sides are related only up to blank space in which a line end counts as blank
     ("@sea \nsalt{}" / "@sea\nsalt{}" once the trailing comment is removed): the paragraph buffers are
     related by [Tq] / [TqE] of Proofs/EditTextNorm.v instead of [spins], and finished PARAGRAPH text is
     compared through [norm_textN] (runs of U+0020, TAB, LF, CR squeezed to one U+0020, none at either
     end) - the normal form [rnormN]; step text is compared as before ([norm_items]);
   - the one more blank text of the edited side before an End may come after a component of a
     paragraph ([after_item], third case).
   Hypothesis on the copies: [src_okN] for the component events in order ([Forall2] over the component
   events of the two streams: in [fwr] they are never skipped). *)
From Coq Require Import ZArith Lia List.
From CL Require Import Base.StrLemmas Model.Lexer Model.PText Model.CommentMask Model.Parser Model.Edits Model.EventBridge
  Proofs.EditParserProofs Proofs.EditSimDefs Proofs.EditInsDefs Proofs.EditAnalysis.
From CL Require Model.Events Model.Analysis Proofs.AnalysisTotal.
From CL Require Import Proofs.EditTrailDefs Proofs.EditTrailStr Proofs.EditTrailAnalysis Proofs.EditTextFrame Proofs.EditTextNorm.
Import ListNotations.
Open Scope N_scope.

Import Analysis.

Definition norm_contentN (c : content) : content :=
  match c with
  | CStep st => CStep {| st_items := norm_items true (merge_items (st_items st)); st_number := st_number st |}
  | CText t => CText (norm_textN t)
  end.
Definition norm_sectionN (s : section) : section :=
  {| sec_name := sec_name s; sec_content := map norm_contentN (sec_content s) |}.
(* the recipe up to blank space in step text and in paragraph text, line ends of paragraph text included *)
Definition rnormN (r : recipe) : recipe :=
  {| r_sections := map norm_sectionN (r_sections r); r_ingredients := r_ingredients r;
     r_cookware := r_cookware r; r_timers := r_timers r; r_inline := r_inline r |}.

Definition tqr (e : bool) : str -> str -> Prop := if e then TqE else Tq.

Lemma is_nil_app {A} (a b : list A) : Events.is_nil (a ++ b) = Events.is_nil a && Events.is_nil b.
Proof. destruct a; reflexivity. Qed.

(* everything but the block buffer: finished content up to the normal form, the rest equal *)
Record crelN (s1 s2 : astate) : Prop := {
  cn_secs : map norm_sectionN (a_sections s1) = map norm_sectionN (a_sections s2);
  cn_cur : norm_sectionN (a_cur s1) = norm_sectionN (a_cur s2);
  cn_ing : a_ingredients s1 = a_ingredients s2;
  cn_cw : a_cookware s1 = a_cookware s2;
  cn_tm : a_timers s1 = a_timers s2;
  cn_inl : a_inline s1 = a_inline s2;
  cn_def : a_define s1 = a_define s2;
  cn_dup : a_duplicate s1 = a_duplicate s2;
  cn_cnt : a_counter s1 = a_counter s2;
  cn_err : a_errors s1 = a_errors s2;
  cn_halt : a_halted s1 = a_halted s2 }.

Definition brelN (e : bool) (b1 b2 : option blockbuf) : Prop :=
  match b1, b2 with
  | None, None => True
  | Some (BStep i1), Some (BStep i2) => irel e i1 i2 /\ Events.is_nil i1 = Events.is_nil i2
  | Some (BText t1), Some (BText t2) => tqr e t1 t2 /\ Events.is_nil t1 = Events.is_nil t2
  | _, _ => False
  end.

(* once halted the collector ignores every event and has no output: the buffers are unrelated *)
Definition arelN (e : bool) (s1 s2 : astate) : Prop :=
  crelN s1 s2 /\ (a_halted s1 = false -> brelN e (a_block s1) (a_block s2)).

Ltac fcbn := cbn [a_sections a_cur a_ingredients a_cookware a_timers a_inline a_define a_duplicate a_block a_counter
                  a_errors a_halted set_block add_error set_modes set_halted set_sections set_ingredients set_cookware
                  set_timers set_inline].

Lemma crelN_refl s : crelN s s.
Proof. constructor; reflexivity. Qed.

Lemma crelN_set_block s1 s2 b1 b2 : crelN s1 s2 -> crelN (set_block s1 b1) (set_block s2 b2).
Proof. intros []. constructor; fcbn; assumption. Qed.
Lemma crelN_set_block_r s1 s2 b2 : crelN s1 s2 -> crelN s1 (set_block s2 b2).
Proof. intros []. constructor; fcbn; assumption. Qed.
Lemma crelN_set_inline_r s1 s2 : crelN s1 s2 -> crelN s1 (set_inline s2 (a_inline s2)).
Proof. intros []. constructor; fcbn; assumption. Qed.
Lemma crelN_add_error s1 s2 e : crelN s1 s2 -> crelN (add_error s1 e) (add_error s2 e).
Proof. intros []. constructor; fcbn; try assumption. congruence. Qed.
Lemma crelN_set_modes s1 s2 d u : crelN s1 s2 -> crelN (set_modes s1 d u) (set_modes s2 d u).
Proof. intros []. constructor; fcbn; try assumption; reflexivity. Qed.
Lemma crelN_set_halted s1 s2 : crelN s1 s2 -> crelN (set_halted s1) (set_halted s2).
Proof. intros []. constructor; fcbn; try assumption; reflexivity. Qed.
Lemma crelN_set_ingredients s1 s2 t : crelN s1 s2 -> crelN (set_ingredients s1 t) (set_ingredients s2 t).
Proof. intros []. constructor; fcbn; try assumption; reflexivity. Qed.
Lemma crelN_set_cookware s1 s2 t : crelN s1 s2 -> crelN (set_cookware s1 t) (set_cookware s2 t).
Proof. intros []. constructor; fcbn; try assumption; reflexivity. Qed.
Lemma crelN_set_timers s1 s2 t : crelN s1 s2 -> crelN (set_timers s1 t) (set_timers s2 t).
Proof. intros []. constructor; fcbn; try assumption; reflexivity. Qed.
Lemma crelN_set_inline s1 s2 n : crelN s1 s2 -> crelN (set_inline s1 n) (set_inline s2 n).
Proof. intros []. constructor; fcbn; try assumption; reflexivity. Qed.
Lemma crelN_set_sections s1 s2 l1 l2 c1 c2 n :
  map norm_sectionN l1 = map norm_sectionN l2 -> norm_sectionN c1 = norm_sectionN c2 -> crelN s1 s2 ->
  crelN (set_sections s1 l1 c1 n) (set_sections s2 l2 c2 n).
Proof. intros ? ? []. constructor; fcbn; try assumption; reflexivity. Qed.

Lemma brelN_weaken e b1 b2 : brelN false b1 b2 -> brelN e b1 b2.
Proof.
  unfold brelN. destruct b1 as [[i1|t1]|], b2 as [[i2|t2]|]; try exact (fun H => H).
  - intros [H N]. split; [apply irel_weaken; exact H | exact N].
  - intros [H N]. split; [destruct e; [apply Tq_TqE; exact H | exact H] | exact N].
Qed.

Lemma arelN_weaken e s1 s2 : arelN false s1 s2 -> arelN e s1 s2.
Proof. intros [Hc Hb]. split; [exact Hc|]. intro Hh. apply brelN_weaken. exact (Hb Hh). Qed.

Lemma arelN_halted e s1 s2 : crelN s1 s2 -> a_halted s1 = true -> arelN e s1 s2.
Proof. intros Hc Hh. split; [exact Hc|]. intro F. congruence. Qed.

Lemma arelN_intro e s1 s2 : crelN s1 s2 -> brelN e (a_block s1) (a_block s2) -> arelN e s1 s2.
Proof. intros Hc Hb. split; [exact Hc | intros _; exact Hb]. Qed.

(* ---- what the pass reads of finished content: its shape *)
Lemma nsec_inv c1 c2 : norm_sectionN c1 = norm_sectionN c2 ->
  sec_name c1 = sec_name c2 /\ map norm_contentN (sec_content c1) = map norm_contentN (sec_content c2).
Proof. unfold norm_sectionN. intro H. injection H as H1 H2. split; assumption. Qed.

Lemma is_step_norm c : is_step (norm_contentN c) = is_step c.
Proof. destruct c; reflexivity. Qed.

Lemma step_indices_norm l : forall i, step_indices_from i (map norm_contentN l) = step_indices_from i l.
Proof. induction l as [|c r IH]; intro i; [reflexivity|]. cbn [map step_indices_from]. rewrite is_step_norm, IH. reflexivity. Qed.

Lemma crelN_step_indices s1 s2 : crelN s1 s2 -> step_indices (sec_content (a_cur s1)) = step_indices (sec_content (a_cur s2)).
Proof.
  intro H. destruct (nsec_inv _ _ (cn_cur _ _ H)) as [_ E]. unfold step_indices.
  rewrite <- (step_indices_norm (sec_content (a_cur s1))), E. apply step_indices_norm.
Qed.

Lemma crelN_nsections s1 s2 : crelN s1 s2 -> length (a_sections s1) = length (a_sections s2).
Proof. intro H. pose proof (f_equal (@length section) (cn_secs _ _ H)) as E. rewrite !map_length in E. exact E. Qed.

Lemma crelN_cur_empty s1 s2 : crelN s1 s2 -> section_is_empty (a_cur s1) = section_is_empty (a_cur s2).
Proof.
  intro H. destruct (nsec_inv _ _ (cn_cur _ _ H)) as [E1 E2]. unfold section_is_empty. rewrite E1.
  destruct (sec_content (a_cur s1)), (sec_content (a_cur s2)); try discriminate E2; reflexivity.
Qed.

Lemma crelN_pushed s1 s2 : crelN s1 s2 -> map norm_sectionN (pushed_sections s1) = map norm_sectionN (pushed_sections s2).
Proof.
  intro H. unfold pushed_sections. rewrite (crelN_cur_empty _ _ H). destruct (section_is_empty (a_cur s2)).
  - exact (cn_secs _ _ H).
  - rewrite !map_app. cbn [map]. rewrite (cn_secs _ _ H), (cn_cur _ _ H). reflexivity.
Qed.

Section WBlindT.
  Variable ci_key : str -> str.
  Variable yaml_ok : str -> bool.
  Variable find_iq : str -> option (str * str).
  Variable unit_class : str -> N.
  Variable x : aext.
  Variable acfg : Analysis.acfg.
  Hypothesis yaml_ok_blind : crlf_blind yaml_ok.

  Notation astep inp := (step ci_key yaml_ok find_iq unit_class inp x acfg).
  Notation arun inp := (run ci_key yaml_ok find_iq unit_class inp x acfg).

  (* ---------------------------------------------------------------- the components: frame *)
  Lemma rir_frame s1 s2 d : crelN s1 s2 -> resolve_intermediate_ref s1 d = resolve_intermediate_ref s2 d.
  Proof. intro H. unfold resolve_intermediate_ref. rewrite (crelN_step_indices _ _ H), (crelN_nsections _ _ H). reflexivity. Qed.

  Lemma rr_frame s1 s2 tbl inh new : crelN s1 s2 ->
    resolve_reference ci_key s1 tbl inh new = resolve_reference ci_key s2 tbl inh new.
  Proof. intro H. unfold resolve_reference. rewrite (cn_def _ _ H), (cn_dup _ _ H). reflexivity. Qed.

  Ltac split_goal H s1 s2 :=
    repeat first
      [ rewrite (rir_frame s1 s2 _ H)
      | rewrite (rr_frame s1 s2 _ _ _ H)
      | progress cbv beta iota zeta
      | match goal with
        | |- context [match ?y with _ => _ end] =>
            lazymatch y with
            | context [match _ with _ => _ end] => fail
            | _ => destruct y eqn:?
            end
        end ].

  Definition rrel (r1 r2 : astate * nat) : Prop := crelN (fst r1) (fst r2) /\ snd r1 = snd r2.

  Lemma ingredient_frame s1 s2 ig : crelN s1 s2 -> outrel rrel (ingredient ci_key x s1 ig) (ingredient ci_key x s2 ig).
  Proof.
    intro H. unfold ingredient, outrel, obind, rrel. rewrite (cn_ing _ _ H), (cn_def _ _ H).
    split_goal H s1 s2; try reflexivity; try discriminate; cbn [fst snd];
      (split; [apply crelN_add_error, crelN_set_ingredients; exact H | reflexivity]).
  Qed.

  Lemma cookware_frame s1 s2 cw : crelN s1 s2 -> outrel rrel (cookware ci_key s1 cw) (cookware ci_key s2 cw).
  Proof.
    intro H. unfold cookware, outrel, obind, rrel. rewrite (cn_cw _ _ H), (cn_def _ _ H).
    split_goal H s1 s2; try reflexivity; try discriminate; cbn [fst snd];
      (split; [apply crelN_add_error, crelN_set_cookware; exact H | reflexivity]).
  Qed.

  Lemma timer_frame s1 s2 t : crelN s1 s2 -> rrel (timer unit_class x s1 t) (timer unit_class x s2 t).
  Proof.
    intro H. unfold timer, rrel. cbn [fst snd]. rewrite (cn_tm _ _ H).
    split; [apply crelN_add_error, crelN_set_timers; exact H | reflexivity].
  Qed.

  (* ---------------------------------------------------------------- the end of a block *)
  Lemma finish_frame s1 s2 c1 c2 :
    crelN s1 s2 -> norm_contentN c1 = norm_contentN c2 -> skipped acfg c1 = skipped acfg c2 ->
    outrel (arelN false) (finish_block acfg s1 c1) (finish_block acfg s2 c2).
  Proof.
    intros Hc Hn Hk. unfold finish_block. rewrite Hk, (cn_def _ _ Hc), (cn_cnt _ _ Hc).
    assert (Hs : is_step c1 = is_step c2) by (rewrite <- (is_step_norm c1), Hn; apply is_step_norm).
    unfold is_text. rewrite Hs.
    assert (Hcur : norm_sectionN {| sec_name := sec_name (a_cur s1); sec_content := sec_content (a_cur s1) ++ [c1] |}
                   = norm_sectionN {| sec_name := sec_name (a_cur s2); sec_content := sec_content (a_cur s2) ++ [c2] |}).
    { destruct (nsec_inv _ _ (cn_cur _ _ Hc)) as [E1 E2]. unfold norm_sectionN. cbn [sec_name sec_content].
      rewrite !map_app. cbn [map]. rewrite Hn, E1, E2. reflexivity. }
    destruct (negb (skipped acfg c2) && (negb (dm_eqb (a_define s2) DMComponents) || negb (is_step c2))).
    - destruct (is_step c2).
      + destruct (4294967295 <=? N.of_nat (a_counter s2)); [reflexivity|]. cbn [outrel].
        apply arelN_intro; [|exact I]. apply crelN_set_block, crelN_set_sections; [exact (cn_secs _ _ Hc) | exact Hcur | exact Hc].
      + cbn [outrel].
        apply arelN_intro; [|exact I]. apply crelN_set_block, crelN_set_sections; [exact (cn_secs _ _ Hc) | exact Hcur | exact Hc].
    - cbn [outrel]. apply arelN_intro; [|exact I]. apply crelN_set_block. exact Hc.
  Qed.

  Lemma step_end in1 in2 s1 s2 k :
    arelN true s1 s2 -> outrel (arelN false) (astep in1 s1 (Events.EEnd k)) (astep in2 s2 (Events.EEnd k)).
  Proof.
    intros [Hc Hb]. unfold step. rewrite <- (cn_halt _ _ Hc). destruct (a_halted s1) eqn:Hh.
    - cbn [outrel]. apply arelN_halted; assumption.
    - specialize (Hb eq_refl). unfold end_block. unfold brelN in Hb.
      destruct (a_block s1) as [[i1|t1]|], (a_block s2) as [[i2|t2]|]; try contradiction.
      + destruct Hb as [Hi Hn]. destruct (Events.block_kind_eqb k Events.BKStep); [|reflexivity].
        apply finish_frame; [exact Hc | |].
        * cbn [norm_contentN st_items st_number]. rewrite (irel_norm _ _ _ Hi), (cn_cnt _ _ Hc). reflexivity.
        * unfold skipped. cbn [st_items]. rewrite Hn. reflexivity.
      + destruct Hb as [Hs Hn]. rewrite (cn_def _ _ Hc).
        destruct (Events.block_kind_eqb k Events.BKText || dm_eqb (a_define s2) DMText); [|reflexivity].
        apply finish_frame; [exact Hc | |].
        * cbn [norm_contentN]. rewrite (TqE_norm _ _ Hs). reflexivity.
        * unfold skipped. rewrite Hn. reflexivity.
      + reflexivity.
  Qed.

  (* ---------------------------------------------------------------- a text event *)
  (* the INLINE_QUANTITIES extension is off, or the oracle for find_inline_quantity commutes with the
     edit ([iq_ws_stable]) and returns a remainder shorter than its argument ([iq_shrinks], the
     hypothesis of Proofs/AnalysisTotal.v under which the model's fuel never runs out) *)
  Hypothesis inline_ok : x_inline x = false \/ (iq_ws_stable find_iq /\ AnalysisTotal.iq_shrinks find_iq).

  Lemma step_text e in1 in2 s1 s2 (u1 u2 : text) :
    spins e (text_str u1) (text_str u2) -> (e = true -> text_str u1 <> []) -> arelN false s1 s2 ->
    outrel (arelN e) (astep in1 s1 (Events.EText u1)) (astep in2 s2 (Events.EText u2)).
  Proof.
    intros Hs Hne [Hc Hb]. unfold step. rewrite <- (cn_halt _ _ Hc). destruct (a_halted s1) eqn:Hh.
    - cbn [outrel]. apply arelN_halted; assumption.
    - specialize (Hb eq_refl). unfold brelN in Hb.
      destruct (a_block s1) as [[i1|t1]|] eqn:B1, (a_block s2) as [[i2|t2]|] eqn:B2; try contradiction.
      + destruct Hb as [Hi Hn]. unfold in_step. rewrite (cn_def _ _ Hc).
        destruct (dm_eqb (a_define s2) DMComponents).
        * cbn [outrel]. apply arelN_intro; [exact Hc|]. rewrite B1, B2. apply brelN_weaken. split; assumption.
        * destruct (x_inline x) eqn:Hx.
          -- destruct inline_ok as [F|[Hst Hsh]]; [congruence|]. rewrite (cn_inl _ _ Hc).
             destruct (split_iq_rel find_iq e Hst Hsh (S (length (text_str u1))) (S (length (text_str u2))) _ _ i1 i2 (a_inline s2)
                         (Nat.lt_succ_diag_r _) (Nat.lt_succ_diag_r _) Hs Hi (fun He => or_introl (Hne He)))
               as (j1 & j2 & n' & E1 & E2 & Hj & Hjn).
             rewrite E1, E2. cbn [obind outrel]. apply arelN_intro; [apply crelN_set_block, crelN_set_inline; exact Hc|].
             fcbn. cbn [brelN]. split; assumption.
          -- cbn [outrel]. apply arelN_intro; [apply crelN_set_block; exact Hc|]. fcbn. cbn [brelN]. split.
             ++ apply irel_snoc_text; assumption.
             ++ rewrite !is_nil_snoc. reflexivity.
      + destruct Hb as [Hu Hn]. unfold in_text. cbn [outrel].
        apply arelN_intro; [apply crelN_set_block; exact Hc|]. fcbn. cbn [brelN].
        split; [destruct e; cbn [tqr] in *; [apply TqE_app; [exact Hu | apply (TqE_spins true); exact Hs]
                                             | apply Tq_app; [exact Hu | apply Tq_spins; exact Hs]]|].
        rewrite !is_nil_app, Hn, (spins_is_nil e _ _ Hs Hne). reflexivity.
      + reflexivity.
  Qed.

  (* one more text of U+0020s on the right, after a component *)
  Definition after_item (s : astate) : Prop :=
    a_halted s = true \/ (exists it, a_block s = Some (BStep it) /\ it <> []) \/ (exists t, a_block s = Some (BText t) /\ t <> []).

  Lemma blank_no_iq w : iq_ws_stable find_iq -> AnalysisTotal.iq_shrinks find_iq -> sp32 w -> find_iq w = None.
  Proof.
    intros Hst Hsh Hw. pose proof (Hst true [] w (sp_end true w eq_refl Hw)) as St.
    destruct (find_iq []) as [[b a]|] eqn:F0.
    - apply Hsh in F0. cbn [length] in F0. lia.
    - destruct (find_iq w); [contradiction | reflexivity].
  Qed.

  Lemma step_blank_r inp s1 s2 t2 :
    sp32 (text_str t2) -> arelN false s1 s2 -> after_item s1 ->
    exists s2', astep inp s2 (abstract_event (EvText t2)) = Done s2' /\ arelN true s1 s2'.
  Proof.
    intros Hw [Hc Hb] Ha. cbn [abstract_event]. unfold step. rewrite <- (cn_halt _ _ Hc). destruct (a_halted s1) eqn:Hh.
    - eexists. split; [reflexivity|]. apply arelN_halted; assumption.
    - specialize (Hb eq_refl). destruct Ha as [Ha|[(it & B1 & Hit)|(tb & B1 & Htb)]]; [congruence| |].
      2:{ rewrite B1 in Hb. unfold brelN in Hb. destruct (a_block s2) as [[i2|u2]|] eqn:B2; try contradiction. destruct Hb as [Hq Hn].
          unfold in_text. rewrite abs_str. eexists. split; [reflexivity|]. apply arelN_intro; [apply crelN_set_block_r; exact Hc|].
          fcbn. rewrite B1. cbn [brelN tqr]. cbn [tqr] in Hq. split.
          - apply TqE_more; [apply Tq_TqE; exact Hq | apply sp32_blanksN; exact Hw].
          - assert (N1 : Events.is_nil tb = false) by (destruct tb; [contradiction Htb; reflexivity | reflexivity]).
            rewrite is_nil_app, <- Hn, N1. reflexivity. }
      rewrite B1 in Hb. unfold brelN in Hb.
      destruct (a_block s2) as [[i2|u2]|] eqn:B2; try contradiction. destruct Hb as [Hi Hn].
      assert (Hit' : Events.is_nil it = false) by (destruct it; [contradiction Hit; reflexivity | reflexivity]).
      unfold in_step. rewrite abs_str, <- (cn_def _ _ Hc).
      destruct (dm_eqb (a_define s1) DMComponents).
      + eexists. split; [reflexivity|]. apply arelN_intro; [exact Hc|]. rewrite B1, B2. apply (brelN_weaken true). split; assumption.
      + destruct (x_inline x) eqn:Hx.
        * destruct inline_ok as [F|[Hst Hsh]]; [congruence|]. cbn [split_iq]. rewrite (blank_no_iq _ Hst Hsh Hw). cbn [obind].
          eexists. split; [reflexivity|]. apply arelN_intro; [apply crelN_set_block_r, crelN_set_inline_r; exact Hc|].
          fcbn. rewrite B1. cbn [brelN]. remember (text_str t2) as w eqn:Ew. destruct w as [|c r]; cbn [Events.is_nil].
          -- split; [apply irel_weaken; exact Hi | exact Hn].
          -- split; [apply irel_snoc_blank; assumption | rewrite is_nil_snoc; exact Hit'].
        * eexists. split; [reflexivity|]. apply arelN_intro; [apply crelN_set_block_r; exact Hc|].
          fcbn. rewrite B1. cbn [brelN]. split; [apply irel_snoc_blank; assumption | rewrite is_nil_snoc; exact Hit'].
  Qed.

  (* ---------------------------------------------------------------- the same event in related states *)
  Lemma arelN_add_error e s1 s2 b : arelN e s1 s2 -> arelN e (add_error s1 b) (add_error s2 b).
  Proof. intros [Hc Hb]. split; [apply crelN_add_error; exact Hc | exact Hb]. Qed.
  Lemma arelN_set_modes e s1 s2 d u : arelN e s1 s2 -> arelN e (set_modes s1 d u) (set_modes s2 d u).
  Proof. intros [Hc Hb]. split; [apply crelN_set_modes; exact Hc | exact Hb]. Qed.

  Lemma brelN_refl b : brelN false (Some b) (Some b).
  Proof. destruct b; cbn [brelN tqr]; (split; [|reflexivity]); [apply irel_refl | apply Tq_refl]. Qed.

  Definition is_comp_ev (ev : Events.event) : bool :=
    match ev with Events.EIngredient _ | Events.ECookware _ | Events.ETimer _ => true | _ => false end.

  Lemma in_step_comp s1 s2 ev i1 i2 :
    crelN s1 s2 -> irel false i1 i2 -> is_comp_ev ev = true ->
    outrel (arelN false) (in_step ci_key find_iq unit_class x s1 ev i1) (in_step ci_key find_iq unit_class x s2 ev i2).
  Proof.
    intros Hc Hi H. destruct ev; try discriminate H; unfold in_step.
    - pose proof (ingredient_frame s1 s2 i Hc) as F.
      destruct (ingredient ci_key x s1 i) as [[s1' n1]|p1], (ingredient ci_key x s2 i) as [[s2' n2]|p2];
        cbn [outrel obind] in *; try contradiction; [|exact F].
      destruct F as [F1 F2]. cbn [fst snd] in *. subst n2. apply arelN_intro; [apply crelN_set_block; exact F1|].
      fcbn. cbn [brelN]. split; [apply irel_snoc_other; [exact Hi | reflexivity] | rewrite !is_nil_snoc; reflexivity].
    - pose proof (cookware_frame s1 s2 c Hc) as F.
      destruct (cookware ci_key s1 c) as [[s1' n1]|p1], (cookware ci_key s2 c) as [[s2' n2]|p2];
        cbn [outrel obind] in *; try contradiction; [|exact F].
      destruct F as [F1 F2]. cbn [fst snd] in *. subst n2. apply arelN_intro; [apply crelN_set_block; exact F1|].
      fcbn. cbn [brelN]. split; [apply irel_snoc_other; [exact Hi | reflexivity] | rewrite !is_nil_snoc; reflexivity].
    - pose proof (timer_frame s1 s2 t Hc) as F.
      destruct (timer unit_class x s1 t) as [s1' n1], (timer unit_class x s2 t) as [s2' n2].
      destruct F as [F1 F2]. cbn [fst snd outrel] in *. subst n2. apply arelN_intro; [apply crelN_set_block; exact F1|].
      fcbn. cbn [brelN]. split; [apply irel_snoc_other; [exact Hi | reflexivity] | rewrite !is_nil_snoc; reflexivity].
  Qed.

  (* ---------------------------------------------------------------- the copies of a component *)
  Definition src_okN (in1 in2 : str) (e1 e2 : pevent) : Prop :=
    match comp_span e1, comp_span e2 with
    | Some sp1, Some sp2 =>
        exists sl1 sl2, byte_slice in1 sp1 = Some sl1 /\ byte_slice in2 sp2 = Some sl2
          /\ Tq (comp_src acfg sl1) (comp_src acfg sl2) /\ comp_src acfg sl1 <> [] /\ comp_src acfg sl2 <> []
    | _, _ => True
    end.

  Lemma is_comp_abs e : is_comp_ev (abstract_event e) = is_comp e.
  Proof. destruct e; try reflexivity. cbn [abstract_event is_comp]. destruct (d_err d); reflexivity. Qed.

  (* ---------------------------------------------------------------- an event that is not a component *)
  Lemma step_blind_nc in1 in2 s e1 e2 : proj e1 = proj e2 -> is_comp e1 = false ->
    astep in1 s (abstract_event e1) = astep in2 s (abstract_event e2).
  Proof.
    intros H C. unfold step. destruct (a_halted s); [reflexivity|].
    destruct e1, e2; try discriminate H; try discriminate C; cbn [proj abstract_event] in *.
    - injection H as H. rewrite !abs_str, (yaml_ok_blind _ _ H). reflexivity.
    - injection H as Hk Hv. unfold metadata. rewrite !abs_trimmed, !abs_outer, Hk, Hv. reflexivity.
    - injection H as H. rewrite !abs_otrimmed, H. reflexivity.
    - injection H as ->. reflexivity.
    - injection H as ->. reflexivity.
    - injection H as H. destruct (a_block s) as [[items|tt]|]; [| |reflexivity].
      + unfold in_step. rewrite !abs_str, H. reflexivity.
      + unfold in_text. rewrite !abs_str, H. reflexivity.
    - injection H as H _. rewrite H. destruct (d_err d0); reflexivity.
  Qed.

  Lemma step_frame_nc inp s1 s2 ev :
    is_comp_ev ev = false -> arelN false s1 s2 -> outrel (arelN false) (astep inp s1 ev) (astep inp s2 ev).
  Proof.
    intros C Ha. destruct ev; try discriminate C.
    - pose proof Ha as [Hc Hb]. unfold step. rewrite <- (cn_halt _ _ Hc). destruct (a_halted s1) eqn:Hh; cbn [outrel].
      + apply arelN_halted; assumption.
      + apply arelN_add_error. exact Ha.
    - pose proof Ha as [Hc Hb]. unfold step. rewrite <- (cn_halt _ _ Hc). destruct (a_halted s1) eqn:Hh; cbn [outrel].
      + apply arelN_halted; assumption.
      + unfold metadata. rewrite (cn_def _ _ Hc), (cn_dup _ _ Hc).
        repeat match goal with |- context [if ?c then _ else _] => destruct c end;
          first [exact Ha | apply arelN_set_modes; exact Ha | apply arelN_add_error; exact Ha].
    - pose proof Ha as [Hc Hb]. unfold step. rewrite <- (cn_halt _ _ Hc). destruct (a_halted s1) eqn:Hh; cbn [outrel].
      + apply arelN_halted; assumption.
      + split; [|exact (proj2 Ha)]. apply crelN_set_sections; [apply crelN_pushed; exact Hc | reflexivity | exact Hc].
    - destruct Ha as [Hc Hb]. unfold step. rewrite <- (cn_halt _ _ Hc). destruct (a_halted s1) eqn:Hh; cbn [outrel].
      + apply arelN_halted; assumption.
      + rewrite (cn_def _ _ Hc). apply arelN_intro; [apply crelN_set_block; exact Hc|]. fcbn. apply brelN_refl.
    - apply step_end. apply arelN_weaken. exact Ha.
    - apply step_text; [apply spins_refl | discriminate | exact Ha].
    - destruct Ha as [Hc Hb]. unfold step. rewrite <- (cn_halt _ _ Hc). destruct (a_halted s1) eqn:Hh; cbn [outrel].
      + apply arelN_halted; assumption.
      + apply arelN_halted; [apply crelN_set_halted; exact Hc | reflexivity].
    - unfold step. pose proof Ha as [Hc Hb]. rewrite <- (cn_halt _ _ Hc).
      destruct (a_halted s1); cbn [outrel]; exact Ha.
  Qed.

  Lemma pair_step_nc in1 in2 s1 s2 e1 e2 :
    erel e1 e2 -> is_comp e1 = false -> arelN false s1 s2 ->
    outrel (arelN false) (astep in1 s1 (abstract_event e1)) (astep in2 s2 (abstract_event e2)).
  Proof.
    intros He C Ha. rewrite (step_blind_nc in1 in2 s1 e1 e2 He C).
    apply step_frame_nc; [|exact Ha]. rewrite is_comp_abs. unfold erel in He.
    destruct e1, e2; try discriminate He; try discriminate C; reflexivity.
  Qed.

  (* ---------------------------------------------------------------- a component *)
  Lemma in_step_comp2 s1 s2 ev1 ev2 i1 i2 :
    crelN s1 s2 -> irel false i1 i2 -> is_comp_ev ev2 = true ->
    (forall s it, in_step ci_key find_iq unit_class x s ev1 it = in_step ci_key find_iq unit_class x s ev2 it) ->
    outrel (arelN false) (in_step ci_key find_iq unit_class x s1 ev1 i1) (in_step ci_key find_iq unit_class x s2 ev2 i2).
  Proof. intros Hc Hi H E. rewrite E. apply in_step_comp; assumption. Qed.

  Lemma in_text_pair in1 in2 s1 s2 sp1 sp2 t1 t2 :
    crelN s1 s2 -> tqr false t1 t2 ->
    (exists sl1 sl2, byte_slice in1 sp1 = Some sl1 /\ byte_slice in2 sp2 = Some sl2
       /\ Tq (comp_src acfg sl1) (comp_src acfg sl2) /\ comp_src acfg sl1 <> [] /\ comp_src acfg sl2 <> []) ->
    outrel (arelN false)
      (if negb (dm_eqb (a_define s1) DMText) then Panic site_nontext_in_text
       else match byte_slice in1 sp1 with
            | Some sl => Done (set_block s1 (Some (BText (t1 ++ comp_src acfg sl)))) | None => Panic site_in_text_slice end)
      (if negb (dm_eqb (a_define s2) DMText) then Panic site_nontext_in_text
       else match byte_slice in2 sp2 with
            | Some sl => Done (set_block s2 (Some (BText (t2 ++ comp_src acfg sl)))) | None => Panic site_in_text_slice end).
  Proof.
    intros Hc Hq (sl1 & sl2 & B1 & B2 & T & N1 & N2). rewrite (cn_def _ _ Hc).
    destruct (negb (dm_eqb (a_define s2) DMText)); [reflexivity|]. rewrite B1, B2. cbn [outrel].
    apply arelN_intro; [apply crelN_set_block; exact Hc|]. fcbn. cbn [brelN tqr]. cbn [tqr] in Hq.
    split; [apply Tq_app; assumption|]. rewrite !is_nil_app.
    destruct (comp_src acfg sl1); [contradiction|]. destruct (comp_src acfg sl2); [contradiction|].
    cbn [Events.is_nil]. rewrite !Bool.andb_false_r. reflexivity.
  Qed.

  Lemma pair_step_comp in1 in2 s1 s2 e1 e2 :
    erel e1 e2 -> is_comp e1 = true -> src_okN in1 in2 e1 e2 -> arelN false s1 s2 ->
    outrel (arelN false) (astep in1 s1 (abstract_event e1)) (astep in2 s2 (abstract_event e2)).
  Proof.
    intros He C K [Hc Hb]. unfold step. rewrite <- (cn_halt _ _ Hc). destruct (a_halted s1) eqn:Hh.
    { cbn [outrel]. apply arelN_halted; assumption. }
    specialize (Hb eq_refl). unfold brelN in Hb. unfold erel in He. unfold src_okN in K.
    destruct e1, e2; try discriminate He; try discriminate C; cbn [abstract_event comp_span] in *.
    - destruct (a_block s1) as [[i1|t1]|], (a_block s2) as [[i2|t2]|]; try contradiction; [| |reflexivity].
      + destruct Hb as [Hi _]. apply in_step_comp2; [exact Hc | exact Hi | reflexivity|].
        intros s it. unfold in_step. pose proof (ingredient_blind ci_key x s i i0 He) as E. cbn [abstract_event] in E.
        rewrite -> E. reflexivity.
      + destruct Hb as [Hq _]. unfold in_text. cbn [Events.pi_span]. apply in_text_pair; assumption.
    - destruct (a_block s1) as [[i1|t1]|], (a_block s2) as [[i2|t2]|]; try contradiction; [| |reflexivity].
      + destruct Hb as [Hi _]. apply in_step_comp2; [exact Hc | exact Hi | reflexivity|].
        intros s it. unfold in_step. pose proof (cookware_blind ci_key s c c0 He) as E. cbn [abstract_event] in E.
        rewrite -> E. reflexivity.
      + destruct Hb as [Hq _]. unfold in_text. cbn [Events.pc_span]. apply in_text_pair; assumption.
    - destruct (a_block s1) as [[i1|t1]|], (a_block s2) as [[i2|t2]|]; try contradiction; [| |reflexivity].
      + destruct Hb as [Hi _]. apply in_step_comp2; [exact Hc | exact Hi | reflexivity|].
        intros s it. unfold in_step. pose proof (timer_blind unit_class x s t t0 He) as E. cbn [abstract_event] in E.
        rewrite -> E. reflexivity.
      + destruct Hb as [Hq _]. unfold in_text. cbn [Events.pt_span]. apply in_text_pair; assumption.
  Qed.

  Ltac crunch E :=
    repeat (cbv beta iota zeta in E;
            match type of E with
            | context [match ?y with _ => _ end] => destruct y eqn:?; try discriminate E
            end).

  Lemma comp_afterN in1 in2 s c c' s' :
    is_comp c = true -> erel c c' -> src_okN in1 in2 c c' -> astep in1 s (abstract_event c) = Done s' -> after_item s'.
  Proof.
    intros Hc He K E. unfold step in E. destruct (a_halted s) eqn:Hh.
    { injection E as <-. left. exact Hh. }
    unfold src_okN in K. unfold erel in He.
    destruct c, c'; try discriminate Hc; try discriminate He; cbn [abstract_event comp_span] in *;
      destruct K as (sl1 & sl2 & B1 & _ & _ & N1 & _);
      (destruct (a_block s) as [[it|u]|]; [| | discriminate E]).
    1,3,5: unfold in_step, obind in E; crunch E; injection E as <-; right; left; eexists; (split; [reflexivity|]);
           intro F; apply app_eq_nil in F as [_ F]; discriminate F.
    all: unfold in_text in E; cbn [Events.pi_span Events.pc_span Events.pt_span] in E;
      destruct (negb (dm_eqb (a_define s) DMText)); [discriminate E|]; rewrite B1 in E; injection E as <-;
      right; right; eexists; (split; [reflexivity|]); intro F; apply app_eq_nil in F as [_ F]; contradiction.
  Qed.

  (* ---------------------------------------------------------------- diagnostics *)
  Lemma warning_abs w : is_warning w = true -> abstract_event w = Events.EWarning 0.
  Proof. destruct w; try discriminate. cbn [is_warning abstract_event]. destruct (d_err d); [discriminate | reflexivity]. Qed.
  Lemma warning_nc w : is_warning w = true -> is_comp w = false.
  Proof. destruct w; try discriminate; reflexivity. Qed.

  Lemma step_warning inp s : astep inp s (Events.EWarning 0) = Done s.
  Proof. unfold step. destruct (a_halted s); reflexivity. Qed.

  Lemma step_errors in1 in2 s1 s2 d1 d2 :
    d_err d1 = true -> d_err d2 = true -> arelN false s1 s2 ->
    outrel (arelN false) (astep in1 s1 (abstract_event (EvDiag d1))) (astep in2 s2 (abstract_event (EvDiag d2))).
  Proof.
    intros H1 H2 [Hc Hb]. cbn [abstract_event]. rewrite H1, H2. unfold step. rewrite <- (cn_halt _ _ Hc).
    destruct (a_halted s1) eqn:Hh; cbn [outrel].
    - apply arelN_halted; assumption.
    - apply arelN_halted; [apply crelN_set_halted; exact Hc | reflexivity].
  Qed.

  (* ---------------------------------------------------------------- the event loop *)
  Notation comps := (filter is_comp).
  Definition SK (in1 in2 : str) (l1 l2 : list pevent) : Prop := Forall2 (src_okN in1 in2) (comps l1) (comps l2).

  Lemma erel_comp e1 e2 : erel e1 e2 -> is_comp e1 = is_comp e2.
  Proof. unfold erel. destruct e1, e2; cbn; intro H; try discriminate H; reflexivity. Qed.

  Lemma run_wblindN in1 in2 e1 e2 :
    fwr e1 e2 -> forall s1 s2, arelN false s1 s2 -> SK in1 in2 e1 e2 ->
    outrel (arelN false) (arun in1 s1 (abstract_events e1)) (arun in2 s2 (abstract_events e2)).
  Proof.
    unfold abstract_events, SK.
    induction 1 as [|a b l1 l2 He _ IH|t1 t2 l1 l2 Ht _ IH|d1 d2 l1 l2 H1 H2 _ IH|w l1 l2 Hw _ IH|w l1 l2 Hw _ IH
                   |k t1 t2 l1 l2 Ht Hn _ IH|k t2 c1 c2 l1 l2 Hb Hc He _ IH]; intros s1 s2 Ha Hk; cbn [map run].
    - exact Ha.
    - pose proof (erel_comp _ _ He) as Eb. cbn [filter] in Hk. rewrite <- Eb in Hk. destruct (is_comp a) eqn:Ca.
      + inversion Hk as [|? ? ? ? K1 K2]; subst.
        eapply outrel_bind; [apply pair_step_comp; assumption|]. intros u1 u2 Hu _ _. apply IH; assumption.
      + eapply outrel_bind; [apply pair_step_nc; assumption|]. intros u1 u2 Hu _ _. apply IH; assumption.
    - eapply outrel_bind; [apply (step_text false); [exact Ht | discriminate | exact Ha]|].
      intros u1 u2 Hu _ _. apply IH; [exact Hu | exact Hk].
    - eapply outrel_bind; [apply step_errors; assumption|]. intros u1 u2 Hu _ _. apply IH; [exact Hu | exact Hk].
    - rewrite (warning_abs _ Hw), step_warning. cbn [obind]. apply IH; [exact Ha|].
      cbn [filter] in Hk. rewrite (warning_nc _ Hw) in Hk. exact Hk.
    - rewrite (warning_abs _ Hw), step_warning. cbn [obind]. apply IH; [exact Ha|].
      cbn [filter] in Hk. rewrite (warning_nc _ Hw) in Hk. exact Hk.
    - eapply outrel_bind; [apply (step_text true); [exact Ht | intros _; exact Hn | exact Ha]|].
      intros u1 u2 Hu _ _.
      eapply outrel_bind; [apply step_end; exact Hu|]. intros v1 v2 Hv _ _. apply IH; [exact Hv | exact Hk].
    - assert (C2 : is_comp c2 = true) by (rewrite <- (erel_comp _ _ He); exact Hc).
      cbn [filter is_comp] in Hk. rewrite Hc, C2 in Hk. inversion Hk as [|? ? ? ? K1 K2]; subst.
      eapply outrel_bind; [apply pair_step_comp; assumption|]. intros u1 u2 Hu E1 _.
      destruct (step_blank_r in2 u1 u2 t2 Hb Hu (comp_afterN in1 in2 s1 c1 c2 u1 Hc He K1 E1)) as (u2' & E2 & Hu').
      rewrite E2. cbn [obind].
      eapply outrel_bind; [apply step_end; exact Hu'|]. intros v1 v2 Hv _ _. apply IH; assumption.
  Qed.

  (* ---------------------------------------------------------------- the result *)
  Lemma output_relN s1 s2 : crelN s1 s2 -> option_map rnormN (output s1) = option_map rnormN (output s2).
  Proof.
    intro H. unfold output. rewrite (cn_halt _ _ H). destruct (a_halted s2); [reflexivity|]. cbn [option_map]. unfold rnormN.
    cbn [r_sections r_ingredients r_cookware r_timers r_inline].
    rewrite (crelN_pushed _ _ H), (cn_ing _ _ H), (cn_cw _ _ H), (cn_tm _ _ H), (cn_inl _ _ H). reflexivity.
  Qed.

  Lemma valid_relN s1 s2 : crelN s1 s2 -> is_valid s1 = is_valid s2.
  Proof. intro H. unfold is_valid. rewrite (cn_halt _ _ H), (cn_err _ _ H). reflexivity. Qed.

  (* ANALYSIS, text mode included: event streams related by the trailing (or padded) edit whose
     component copies are related give the same recipe up to [rnormN], the same validity, the same panic *)
  Theorem analyse_wblind_text in1 in2 e1 e2 :
    fwr e1 e2 -> SK in1 in2 e1 e2 ->
    match analyse ci_key yaml_ok find_iq unit_class in1 x acfg (abstract_events e1),
          analyse ci_key yaml_ok find_iq unit_class in2 x acfg (abstract_events e2) with
    | Done (o1, v1), Done (o2, v2) => option_map rnormN o1 = option_map rnormN o2 /\ v1 = v2
    | Panic p1, Panic p2 => p1 = p2
    | _, _ => False
    end.
  Proof.
    intros H Hk. unfold analyse.
    assert (A0 : arelN false init init) by (apply arelN_intro; [apply crelN_refl | exact I]).
    pose proof (run_wblindN in1 in2 e1 e2 H init init A0 Hk) as R.
    destruct (arun in1 init (abstract_events e1)) as [s1|p1], (arun in2 init (abstract_events e2)) as [s2|p2];
      cbn [outrel obind] in *; try contradiction; [|exact R].
    destruct R as [Hc _]. split; [apply output_relN; exact Hc | apply valid_relN; exact Hc].
  Qed.
End WBlindT.
