(* Property C17, the padded block comment: the list lemmas of [psim] / [qsim] (EditPadDefs.v) and the
   relational Hoare rules for every primitive of the parser monad of Model/Parser.v (state relation
   [Sw], judgements [WL] / [WN] of EditTrailDefs.v; the monad rules of EditTrailPrim.v are generic in
   the token relation and are used as they are). *)
From Coq Require Import List Lia.
From CL Require Import Base.StrLemmas Model.Lexer Model.PText Model.CommentMask Model.Parser Model.Edits
  Proofs.EditParserProofs Proofs.EditSimDefs Proofs.EditInsDefs Proofs.EditInsPrim.
From CL Require Import Proofs.EditTrailDefs Proofs.EditTrailStr Proofs.EditTrailPrim Proofs.EditPadDefs.
Import ListNotations.

(* ================================================================ PART 1: strings *)
Lemma spins_app e a a' b b' : spins false a a' -> spins e b b' -> spins e (a ++ b) (a' ++ b').
Proof.
  intros Ha Hb. induction Ha as [|w He Hw|c r1 r2 _ IH|r1 r2 _ IH].
  - exact Hb.
  - discriminate.
  - cbn [app]. apply sp_cons. exact IH.
  - cbn [app] in *. apply sp_ins. exact IH.
Qed.

Lemma spins_hd s1 s2 : spins false s1 s2 -> hd 0 s1 = hd 0 s2.
Proof. destruct 1; try reflexivity. discriminate. Qed.

Lemma spins_last s1 s2 : spins false s1 s2 -> last s1 0 = last s2 0.
Proof.
  induction 1 as [|w He Hw|c r1 r2 H IH|r1 r2 H IH].
  - reflexivity.
  - discriminate.
  - pose proof (spins_nil_iff _ _ H) as N. destruct r1 as [|x y], r2 as [|x' y'].
    + reflexivity.
    + destruct N as [N _]. discriminate (N eq_refl).
    + destruct N as [_ N]. discriminate (N eq_refl).
    + cbn [last] in *. exact IH.
  - pose proof (spins_nil_iff _ _ H) as N. destruct r2 as [|x' y'].
    + destruct N as [_ N]. discriminate (N eq_refl).
    + change (last (32 :: x' :: y') 0) with (last (x' :: y') 0). exact IH.
Qed.

(* ================================================================ PART 2: lists *)
Lemma gapt_kind t : gapt t -> kind t = KWs \/ kind t = KBlockComment.
Proof. intros [H _]. destruct (kind t); try discriminate H; [left | right]; reflexivity. Qed.

Lemma gapt_f (f : tkind -> bool) t v : f KWs = v -> f KBlockComment = v -> gapt t -> f (kind t) = v.
Proof. intros F1 F2 H. destruct (gapt_kind _ H) as [-> | ->]; assumption. Qed.

Lemma gap_all_f (f : tkind -> bool) g v : f KWs = v -> f KBlockComment = v -> Forall gapt g ->
  Forall (fun t => f (kind t) = v) g.
Proof. intros F1 F2 H. eapply Forall_impl; [|exact H]. intros t Ht. exact (gapt_f f t v F1 F2 Ht). Qed.

Lemma gapl_cons w g : gapl w g -> exists w1 g', g = w1 :: g' /\ kind w1 = KWs.
Proof. intros (_ & _ & H & _). destruct g as [|w1 g']; [discriminate H|]. exists w1, g'. split; [reflexivity | exact H]. Qed.

Lemma gapl_hd w g r : gapl w g -> hdk (g ++ r) = KWs.
Proof. intro H. destruct (gapl_cons _ _ H) as (w1 & g' & -> & K). exact K. Qed.

Lemma gapl_ne w g r : gapl w g -> g ++ r <> [].
Proof. intro H. destruct (gapl_cons _ _ H) as (w1 & g' & -> & _). discriminate. Qed.

Lemma position_app_skip (f : tkind -> bool) g r : Forall (fun t => f (kind t) = false) g ->
  position f (g ++ r) = option_map (fun n => (length g + n)%nat) (position f r).
Proof.
  induction 1 as [|t g' Ht _ IH]; cbn [app length].
  - destruct (position f r); reflexivity.
  - cbn [position]. rewrite Ht, IH. destruct (position f r); reflexivity.
Qed.

Lemma firstn_app_len {A} (g r : list A) n : firstn (length g + n) (g ++ r) = g ++ firstn n r.
Proof. induction g as [|t g' IH]; [reflexivity|]. cbn [length plus app firstn]. rewrite IH. reflexivity. Qed.
Lemma skipn_app_len {A} (g r : list A) n : skipn (length g + n) (g ++ r) = skipn n r.
Proof. induction g as [|t g' IH]; [reflexivity|]. cbn [length plus app skipn]. exact IH. Qed.

Lemma cwc_app_pass g0 (g r : list tok) : Forall (fun t => g0 (kind t) = true) g -> cwc g0 (g ++ r) = (length g + cwc g0 r)%nat.
Proof.
  induction 1 as [|t g' Ht _ IH]; [reflexivity|]. cbn [app length plus]. rewrite cwc_cons, Ht, IH. reflexivity.
Qed.

(* ---------------------------------------------------------------- psim: heads *)
Lemma psim_hd m l1 l2 : psim m l1 l2 -> hdk l1 = hdk l2.
Proof.
  destruct 1 as [m|m a b r1 r2 Hab _ _|m w g r1 r2 _ Hg _]; [reflexivity | exact (krel_kind _ _ Hab)|].
  rewrite (gapl_hd _ _ r2 Hg). destruct Hg as (K & _). exact K.
Qed.
Lemma pany_hd l1 l2 : pany l1 l2 -> hdk l1 = hdk l2.
Proof. intros [m H]. exact (psim_hd _ _ _ H). Qed.

Lemma psim_nil_iff m l1 l2 : psim m l1 l2 -> (l1 = [] <-> l2 = []).
Proof.
  destruct 1 as [m|m a b r1 r2 _ _ _|m w g r1 r2 _ Hg _]; split; intro E; try reflexivity; try discriminate.
  exfalso. exact (gapl_ne _ _ _ Hg E).
Qed.
Lemma pany_nil_iff l1 l2 : pany l1 l2 -> (l1 = [] <-> l2 = []).
Proof. intros [m H]. exact (psim_nil_iff _ _ _ H). Qed.
Lemma pany_nil : pany [] [].
Proof. exists {| pg := false; pbr := MOut; pln := LStart |}. constructor. Qed.
Lemma pnog_nil : pnog [] [].
Proof. exists {| pg := false; pbr := MOut; pln := LStart |}. split; [reflexivity | constructor]. Qed.
Lemma pline_nil : pline [] [].
Proof. exists {| pg := false; pbr := MOut; pln := LStart |}. split; [reflexivity|]. split; [reflexivity | constructor]. Qed.

Lemma psim_pany m l1 l2 : psim m l1 l2 -> pany l1 l2.
Proof. intro H. exists m. exact H. Qed.
Lemma pnog_pany l1 l2 : pnog l1 l2 -> pany l1 l2.
Proof. intros (m & _ & H). exists m. exact H. Qed.
Lemma pline_pnog l1 l2 : pline l1 l2 -> pnog l1 l2.
Proof. intros (m & G & _ & H). exists m. split; assumption. Qed.

(* the left head is not a blank: the two heads correspond *)
Lemma psim_cons_inv m a r1 l2 :
  psim m (a :: r1) l2 -> (kind a = KWs -> gap_ok m = false) ->
  exists b r2, l2 = b :: r2 /\ krel a b /\ okc a r1 r2 /\ psim (pnext m (kind a)) r1 r2.
Proof.
  intros H K. remember (a :: r1) as l1 eqn:E. destruct H as [m|m a0 b r1' r2 Hab Ho H|m w g r1' r2 Hok Hg H]; try discriminate.
  - inversion E; subst. exists b, r2. split; [reflexivity|]. split; [assumption|]. split; assumption.
  - inversion E; subst. destruct Hg as (Kw & _). rewrite (K Kw) in Hok. discriminate.
Qed.

Lemma psynced_psim f m l1 l2 : psynced f m l1 l2 -> psim m l1 l2.
Proof. intros (a & b & r1 & r2 & -> & -> & H & _ & Ho & Hr). apply p_cons; assumption. Qed.

(* ---------------------------------------------------------------- qsim *)
Lemma psim_qsim m l1 l2 : psim m l1 l2 -> qsim l1 l2.
Proof. induction 1; [apply q_nil | apply q_cons; assumption | apply q_gap; assumption]. Qed.
Lemma pany_qsim l1 l2 : pany l1 l2 -> qsim l1 l2.
Proof. intros [m H]. exact (psim_qsim _ _ _ H). Qed.

Lemma ksim_qsim l1 l2 : ksim l1 l2 -> qsim l1 l2.
Proof. induction 1; [apply q_nil | apply q_cons; assumption]. Qed.

Lemma wi_cons_qsim l1 l2 : ksim l1 l2 -> qsim l1 l2.
Proof. apply ksim_qsim. Qed.

Lemma qsim_app a1 a2 b1 b2 : qsim a1 a2 -> qsim b1 b2 -> qsim (a1 ++ b1) (a2 ++ b2).
Proof.
  intros Ha Hb. induction Ha as [|a b r1 r2 Hab _ IH|w g r1 r2 Hg _ IH]; cbn [app].
  - exact Hb.
  - apply q_cons; assumption.
  - rewrite <- app_assoc. apply q_gap; assumption.
Qed.

Lemma qsim_hd l1 l2 : qsim l1 l2 -> hdk l1 = hdk l2.
Proof.
  destruct 1 as [|a b r1 r2 Hab _|w g r1 r2 Hg _]; [reflexivity | exact (krel_kind _ _ Hab)|].
  rewrite (gapl_hd _ _ r2 Hg). destruct Hg as (K & _). exact K.
Qed.

Lemma qsim_nil_iff l1 l2 : qsim l1 l2 -> (l1 = [] <-> l2 = []).
Proof.
  destruct 1 as [|a b r1 r2 _ _|w g r1 r2 Hg _]; split; intro E; try reflexivity; try discriminate.
  exfalso. exact (gapl_ne _ _ _ Hg E).
Qed.

Lemma qsim_cons_inv a r1 l2 : qsim (a :: r1) l2 -> kind a <> KWs -> exists b r2, l2 = b :: r2 /\ krel a b /\ qsim r1 r2.
Proof.
  intros H K. remember (a :: r1) as l1 eqn:E. destruct H as [|a0 b r1' r2 Hab H|w g r1' r2 Hg H]; try discriminate.
  - inversion E; subst. exists b, r2. split; [reflexivity|]. split; assumption.
  - inversion E; subst. destruct Hg as (Kw & _). contradiction.
Qed.

Lemma render_app a b : render (a ++ b) = render a ++ render b.
Proof. unfold render. rewrite map_app, concat_app. reflexivity. Qed.

Theorem qsim_render l1 l2 : qsim l1 l2 -> spins false (render l1) (render l2).
Proof.
  induction 1 as [|a b r1 r2 Hab _ IH|w g r1 r2 Hg _ IH].
  - apply sp_nil.
  - rewrite !render_cons, (krel_render _ _ Hab). apply spins_app_l. exact IH.
  - rewrite render_cons, render_app. destruct Hg as (Kw & _ & _ & _ & S). unfold render_tok at 1. rewrite Kw.
    apply spins_app; assumption.
Qed.

Lemma gap_ne g : Forall gapt g -> Forall (fun t => tstr t <> []) g.
Proof. intro H. eapply Forall_impl; [|exact H]. intros t [_ X]. exact X. Qed.
Lemma gap_nlok g : Forall gapt g -> Forall newline_ok g.
Proof. intro H. eapply Forall_impl; [|exact H]. intros t Ht K. destruct (gapt_kind _ Ht); congruence. Qed.

Lemma qsim_ne_l l1 l2 : qsim l1 l2 -> Forall (fun t => tstr t <> []) l1.
Proof.
  induction 1 as [|a b r1 r2 (_ & H & _) _ IH|w g r1 r2 (_ & H & _) _ IH]; constructor; assumption.
Qed.
Lemma qsim_ne_r l1 l2 : qsim l1 l2 -> Forall (fun t => tstr t <> []) l2.
Proof.
  induction 1 as [|a b r1 r2 (_ & _ & H & _) _ IH|w g r1 r2 (_ & _ & _ & H & _) _ IH]; [constructor | constructor; assumption|].
  apply Forall_app. split; [exact (gap_ne _ H) | exact IH].
Qed.
Lemma qsim_nlok_l l1 l2 : qsim l1 l2 -> Forall newline_ok l1.
Proof.
  induction 1 as [|a b r1 r2 (_ & _ & _ & H & _) _ IH|w g r1 r2 (K & _) _ IH]; constructor; try assumption.
  intro X. congruence.
Qed.
Lemma qsim_nlok_r l1 l2 : qsim l1 l2 -> Forall newline_ok l2.
Proof.
  induction 1 as [|a b r1 r2 (_ & _ & _ & _ & H & _) _ IH|w g r1 r2 (_ & _ & _ & H & _) _ IH]; [constructor | constructor; assumption|].
  apply Forall_app. split; [exact (gap_nlok _ H) | exact IH].
Qed.

Theorem qsim_text cfg o1 o2 l1 l2 : qsim l1 l2 -> OR (trw false) (text_of cfg o1 l1) (text_of cfg o2 l2).
Proof.
  intro H. unfold OR. destruct (text_of cfg o1 l1) as [t1|] eqn:E1; [|exact I].
  destruct (text_of cfg o2 l2) as [t2|] eqn:E2; [|exact I].
  pose proof (qsim_ne_l _ _ H) as N1. pose proof (qsim_ne_r _ _ H) as N2.
  pose proof (text_of_render _ _ _ _ N1 E1) as S1. pose proof (text_of_render _ _ _ _ N2 E2) as S2.
  pose proof (qsim_render _ _ H) as R. split; [rewrite S1, S2; exact R|]. split.
  - rewrite (text_of_empty_render _ _ _ _ (qsim_nlok_l _ _ H) N1 E1), (text_of_empty_render _ _ _ _ (qsim_nlok_r _ _ H) N2 E2).
    apply (spins_blank _ _ _ R).
  - intros _. rewrite (full_str_nil _ (text_of_full _ _ _ _ E1)), (full_str_nil _ (text_of_full _ _ _ _ E2)), S1, S2.
    apply spins_nil_iff. exact R.
Qed.

(* kind tests that do not see a gap *)
Lemma existsb_gap (f : tkind -> bool) g : f KWs = false -> f KBlockComment = false -> Forall gapt g ->
  existsb (fun t => f (kind t)) g = false.
Proof. intros F1 F2. induction 1 as [|t g' Ht _ IH]; [reflexivity|]. cbn [existsb]. rewrite (gapt_f f t false F1 F2 Ht), IH. reflexivity. Qed.
Lemma forallb_gap (f : tkind -> bool) g : f KWs = true -> f KBlockComment = true -> Forall gapt g ->
  forallb (fun t => f (kind t)) g = true.
Proof. intros F1 F2. induction 1 as [|t g' Ht _ IH]; [reflexivity|]. cbn [forallb]. rewrite (gapt_f f t true F1 F2 Ht), IH. reflexivity. Qed.

Lemma qsim_existsb (f : tkind -> bool) l1 l2 :
  f KWs = false -> f KBlockComment = false -> qsim l1 l2 ->
  existsb (fun t => f (kind t)) l1 = existsb (fun t => f (kind t)) l2.
Proof.
  intros F1 F2. induction 1 as [|a b r1 r2 Hab _ IH|w g r1 r2 (Kw & _ & _ & Hg & _) _ IH].
  - reflexivity.
  - cbn [existsb]. rewrite (krel_kind _ _ Hab), IH. reflexivity.
  - cbn [existsb]. rewrite existsb_app, Kw, F1, (existsb_gap f g F1 F2 Hg), IH. reflexivity.
Qed.

Lemma qsim_forallb (f : tkind -> bool) l1 l2 :
  f KWs = true -> f KBlockComment = true -> qsim l1 l2 ->
  forallb (fun t => f (kind t)) l1 = forallb (fun t => f (kind t)) l2.
Proof.
  intros F1 F2. induction 1 as [|a b r1 r2 Hab _ IH|w g r1 r2 (Kw & _ & _ & Hg & _) _ IH].
  - reflexivity.
  - cbn [forallb]. rewrite (krel_kind _ _ Hab), IH. reflexivity.
  - cbn [forallb]. rewrite forallb_app, Kw, F1, (forallb_gap f g F1 F2 Hg), IH. reflexivity.
Qed.

Lemma qsim_ballr l1 l2 : qsim l1 l2 -> ballr l1 l2.
Proof.
  intro H. unfold ballr, ball_test. f_equal.
  - apply (qsim_existsb (fun k => tk_eqb k KPercent)); [reflexivity | reflexivity | exact H].
  - apply (qsim_forallb is_empty_tok); [reflexivity | reflexivity | exact H].
Qed.
Lemma psim_ballr m l1 l2 : psim m l1 l2 -> ballr l1 l2.
Proof. intro H. apply qsim_ballr. exact (psim_qsim _ _ _ H). Qed.

Definition nwb (t : tok) : bool := negb (is_ws_block (kind t)).

Lemma filter_gap g : Forall gapt g -> filter nwb g = [].
Proof.
  induction 1 as [|t g' [Ht _] _ IH]; [reflexivity|]. cbn [filter]. assert (E : nwb t = false) by (unfold nwb; rewrite Ht; reflexivity).
  rewrite E. exact IH.
Qed.

Lemma qsim_filter_nwb l1 l2 : qsim l1 l2 -> ksim (filter nwb l1) (filter nwb l2).
Proof.
  induction 1 as [|a b r1 r2 Hab _ IH|w g r1 r2 (Kw & _ & _ & Hg & _) _ IH].
  - constructor.
  - cbn [filter]. assert (E : nwb b = nwb a) by (unfold nwb; rewrite (krel_kind _ _ Hab); reflexivity). rewrite E.
    destruct (nwb a); [constructor; assumption | exact IH].
  - cbn [filter]. assert (E : nwb w = false) by (unfold nwb; rewrite Kw; reflexivity). rewrite E, filter_app, (filter_gap _ Hg). exact IH.
Qed.

Definition qsynced (f : tkind -> bool) (l1 l2 : list tok) : Prop :=
  exists a b r1 r2, l1 = a :: r1 /\ l2 = b :: r2 /\ krel a b /\ f (kind a) = true /\ qsim r1 r2.

Theorem qsim_split (f : tkind -> bool) l1 l2 :
  f KWs = false -> f KBlockComment = false -> qsim l1 l2 ->
  match position f l1, position f l2 with
  | None, None => True
  | Some n1, Some n2 => qsim (firstn n1 l1) (firstn n2 l2) /\ qsynced f (skipn n1 l1) (skipn n2 l2)
  | _, _ => False
  end.
Proof.
  intros F1 F2. induction 1 as [|a b r1 r2 Hab H IH|w g r1 r2 Hg H IH].
  - exact I.
  - cbn [position]. rewrite <- (krel_kind _ _ Hab). destruct (f (kind a)) eqn:Fa.
    + cbn [firstn skipn]. split; [constructor|]. exists a, b, r1, r2. split; [reflexivity|]. split; [reflexivity|]. split; [assumption|]. split; assumption.
    + destruct (position f r1) as [n1|], (position f r2) as [n2|]; cbn [option_map]; try exact IH.
      destruct IH as [IH1 IH2]. cbn [firstn skipn]. split; [apply q_cons; assumption | exact IH2].
  - pose proof Hg as (Kw & _ & _ & Hgg & _). cbn [position]. rewrite Kw, F1.
    rewrite (position_app_skip f g r2 (gap_all_f f g false F1 F2 Hgg)).
    destruct (position f r1) as [n1|], (position f r2) as [n2|]; cbn [option_map]; try exact IH.
    destruct IH as [IH1 IH2]. rewrite firstn_app_len, skipn_app_len. cbn [firstn skipn].
    split; [apply q_gap; assumption | exact IH2].
Qed.

(* ---------------------------------------------------------------- psim: the split at a kind test *)
Theorem psim_split (f : tkind -> bool) m l1 l2 :
  f KWs = false -> f KBlockComment = false -> psim m l1 l2 ->
  match position f l1, position f l2 with
  | None, None => True
  | Some n1, Some n2 =>
      psim m (firstn n1 l1) (firstn n2 l2) /\ psynced f (pmode_after m (firstn n1 l1)) (skipn n1 l1) (skipn n2 l2)
  | _, _ => False
  end.
Proof.
  intros F1 F2. induction 1 as [m|m a b r1 r2 Hab Ho H IH|m w g r1 r2 Hok Hg H IH].
  - exact I.
  - cbn [position]. rewrite <- (krel_kind _ _ Hab). destruct (f (kind a)) eqn:Fa.
    + cbn [firstn skipn pmode_after]. split; [constructor|]. exists a, b, r1, r2.
      split; [reflexivity|]. split; [reflexivity|]. split; [assumption|]. split; [assumption|]. split; assumption.
    + destruct (position f r1) as [n1|] eqn:P1, (position f r2) as [n2|]; cbn [option_map]; try exact IH.
      destruct IH as [IH1 IH2]. cbn [firstn skipn pmode_after]. split; [|exact IH2].
      apply p_cons; [exact Hab | | exact IH1]. destruct Ho as [Ho | [-> _]]; [left; exact Ho | discriminate P1].
  - pose proof Hg as (Kw & _ & _ & Hgg & _). cbn [position]. rewrite Kw, F1.
    rewrite (position_app_skip f g r2 (gap_all_f f g false F1 F2 Hgg)).
    destruct (position f r1) as [n1|], (position f r2) as [n2|]; cbn [option_map]; try exact IH.
    destruct IH as [IH1 IH2]. rewrite firstn_app_len, skipn_app_len. cbn [firstn skipn pmode_after]. rewrite Kw.
    split; [apply p_gap; assumption | exact IH2].
Qed.

(* a test that passes the tokens of a gap *)
Theorem psim_run (g0 : tkind -> bool) m l1 l2 :
  g0 KWs = true -> g0 KBlockComment = true -> psim m l1 l2 ->
  (psim m (firstn (cwc g0 l1) l1) (firstn (cwc g0 l2) l2)
   /\ psynced (fun k => negb (g0 k)) (pmode_after m (firstn (cwc g0 l1) l1)) (skipn (cwc g0 l1) l1) (skipn (cwc g0 l2) l2))
  \/ (psim m (firstn (cwc g0 l1) l1) (firstn (cwc g0 l2) l2) /\ skipn (cwc g0 l1) l1 = [] /\ skipn (cwc g0 l2) l2 = []).
Proof.
  intros G1 G2 H. pose proof (psim_split (fun k => negb (g0 k)) m l1 l2) as X. cbv beta in X.
  rewrite G1, G2 in X. specialize (X eq_refl eq_refl H). unfold cwc.
  destruct (position _ l1) as [n1|], (position _ l2) as [n2|]; try contradiction.
  - left. exact X.
  - right. rewrite !firstn_all, !skipn_all. split; [exact H | split; reflexivity].
Qed.

(* a test that stops at blanks and comments: the runs are in lock step *)
Theorem psim_stop (g0 : tkind -> bool) m l1 l2 :
  g0 KWs = false -> g0 KBlockComment = false -> psim m l1 l2 ->
  cwc g0 l1 = cwc g0 l2 /\ Wi (firstn (cwc g0 l1) l1) (firstn (cwc g0 l2) l2)
  /\ ksim (firstn (cwc g0 l1) l1) (firstn (cwc g0 l2) l2)
  /\ psim (pmode_after m (firstn (cwc g0 l1) l1)) (skipn (cwc g0 l1) l1) (skipn (cwc g0 l2) l2).
Proof.
  intros G1 G2. unfold Wi. induction 1 as [m|m a b r1 r2 Hab Ho H IH|m w g r1 r2 Hok Hg H IH].
  - split; [reflexivity|]. split; [constructor|]. split; constructor.
  - rewrite !cwc_cons, <- (krel_kind _ _ Hab). destruct (g0 (kind a)).
    + destruct IH as (E & K1 & K2 & R). rewrite <- E. cbn [firstn skipn pmode_after]. split; [reflexivity|].
      rewrite <- E in K1, K2, R. split; [|split; [constructor; assumption | exact R]].
      apply w_cons; [exact Hab | | exact K1]. destruct Ho as [Ho | [-> ->]]; [left; exact Ho | right; split; reflexivity].
    + cbn [firstn skipn pmode_after]. split; [reflexivity|]. split; [constructor|]. split; [constructor | apply p_cons; assumption].
  - pose proof Hg as (Kw & _). destruct (gapl_cons _ _ Hg) as (w1 & g' & -> & K1).
    cbn [app]. rewrite !cwc_cons, Kw, K1, G1. cbn [firstn skipn pmode_after].
    split; [reflexivity|]. split; [constructor|]. split; [constructor|].
    change (w1 :: g' ++ r2) with ((w1 :: g') ++ r2). apply p_gap; assumption.
Qed.

(* inside braces: nothing is inserted before the closing brace *)
Lemma next_mode_in k : tk_eqb k KCloseBrace = false -> next_mode MIn k = MIn.
Proof. destruct k; try reflexivity. discriminate. Qed.

Theorem psim_split_in (f : tkind -> bool) m l1 l2 :
  f KCloseBrace = true -> pbr m = MIn -> psim m l1 l2 ->
  match position f l1, position f l2 with
  | None, None => True
  | Some n1, Some n2 => Wi (firstn n1 l1) (firstn n2 l2) /\ psynced f (pmode_after m (firstn n1 l1)) (skipn n1 l1) (skipn n2 l2)
  | _, _ => False
  end.
Proof.
  intros F Hm H. unfold Wi. induction H as [m|m a b r1 r2 Hab Ho H IH|m w g r1 r2 Hok Hg H IH].
  - exact I.
  - cbn [position]. rewrite <- (krel_kind _ _ Hab). destruct (f (kind a)) eqn:Fa.
    + cbn [firstn skipn pmode_after]. split; [constructor|]. exists a, b, r1, r2.
      split; [reflexivity|]. split; [reflexivity|]. split; [assumption|]. split; [assumption|]. split; assumption.
    + assert (Hm' : pbr (pnext m (kind a)) = MIn).
      { cbn [pnext pbr]. rewrite Hm. apply next_mode_in. destruct (tk_eqb (kind a) KCloseBrace) eqn:E; [|reflexivity].
        apply tkb_true in E. rewrite E, F in Fa. discriminate. }
      specialize (IH Hm').
      destruct (position f r1) as [n1|] eqn:P1, (position f r2) as [n2|]; cbn [option_map]; try exact IH.
      destruct IH as [IH1 IH2]. cbn [firstn skipn pmode_after]. split; [|exact IH2].
      apply w_cons; [exact Hab | | exact IH1]. destruct Ho as [Ho | [-> _]]; [left; exact Ho | discriminate P1].
  - exfalso. unfold gap_ok in Hok. rewrite Hm in Hok. cbn [br_out] in Hok. rewrite andb_false_r in Hok. discriminate.
Qed.

(* the value of a metadata line *)
Lemma lnext_val k : tk_eqb k KNewline = false -> lnext LVal k = LVal.
Proof. unfold lnext. intros ->. reflexivity. Qed.

Theorem psim_val m l1 l2 : pln m = LVal -> no_nl l1 -> psim m l1 l2 -> Wi l1 l2 /\ ksim l1 l2.
Proof.
  intros Hm N H. unfold Wi. induction H as [m|m a b r1 r2 Hab Ho H IH|m w g r1 r2 Hok Hg H IH].
  - split; constructor.
  - unfold no_nl in N. cbn [forallb] in N. apply andb_prop in N as [Na Nr]. apply negb_true_iff in Na.
    assert (Hm' : pln (pnext m (kind a)) = LVal) by (cbn [pnext pln]; rewrite Hm; apply lnext_val; exact Na).
    destruct (IH Hm' Nr) as [I1 I2]. split; [apply w_cons; assumption | constructor; assumption].
  - exfalso. unfold gap_ok in Hok. rewrite Hm in Hok. cbn [ln_free] in Hok. rewrite andb_false_r in Hok. discriminate.
Qed.

(* lock-step lists are related in every place *)
Lemma wi_cons_psim l1 l2 : ksim l1 l2 -> Forall (fun t => esc_lone t = false) l1 -> forall m, psim m l1 l2.
Proof.
  induction 1 as [|a b r1 r2 Hab _ IH]; intros N m; [constructor|]. inversion N; subst.
  apply p_cons; [exact Hab | left; assumption | apply IH; assumption].
Qed.

(* ================================================================ PART 3: the logic *)
Lemma Sw_psim_pany m s1 s2 : Sw (psim m) s1 s2 -> Sw pany s1 s2.
Proof. apply Sw_mono. intros l1 l2 H. exists m. exact H. Qed.

Lemma HJ_pany_elim {A B} (Q : A -> bp -> B -> bp -> Prop) (m1 : M A) (m2 : M B) :
  (forall m, HJ (Sw (psim m)) m1 m2 Q) -> HJ (Sw pany) m1 m2 Q.
Proof. intros H s1 s2 S. destruct S as ([m Hr] & Ha & He). apply (H m). split; [exact Hr | split; assumption]. Qed.

(* a text event *)
Lemma WN_event_text t1 t2 : spins false (text_str t1) (text_str t2) -> WN anyrel (event (EvText t1)) (event (EvText t2)).
Proof.
  intros H T s1 s2 (Hr & Ha & He). cbn. split; [exact I|]. split; [exact Hr|]. split; [exact Ha|]. cbn. apply evw_text; assumption.
Qed.

Lemma WN_textM_q cfg o1 o2 ts1 ts2 : qsim ts1 ts2 -> WN (trw false) (textM cfg o1 ts1) (textM cfg o2 ts2).
Proof. intro H. apply WN_lift. apply qsim_text. exact H. Qed.

(* ---------------------------------------------------------------- peek, at_kind *)
Definition phead (m : pmode) (k : tkind) (r1 r2 : list tok) : Prop := psim m r1 r2 /\ hdk r1 = k.

Lemma PJ_peek m :
  HJ (Sw (psim m)) peek peek (fun k1 s1 k2 s2 => k1 = k2 /\ Sw (phead m k1) s1 s2).
Proof.
  intros s1 s2 S. cbn. rewrite !peek_of_hdk. pose proof S as (Hr & _). split; [exact (psim_hd _ _ _ Hr)|].
  apply (Sw_rest _ _ _ _ S). split; [exact Hr | reflexivity].
Qed.

Lemma PL_peek : WL pany eq peek peek pany.
Proof. intros s1 s2 S. cbn. rewrite !peek_of_hdk. pose proof S as (Hr & _). split; [exact (pany_hd _ _ Hr) | exact S]. Qed.

Lemma PL_at_kind (T : TR) k : (forall l1 l2, T l1 l2 -> pany l1 l2) -> WL T eq (at_kind k) (at_kind k) T.
Proof.
  intros HT s1 s2 S. cbn. rewrite !peek_of_hdk. pose proof S as (Hr & _). rewrite (pany_hd _ _ (HT _ _ Hr)). split; [reflexivity | exact S].
Qed.

(* ---------------------------------------------------------------- consume, bump *)
Lemma PJ_consume k m : (k = KWs -> gap_ok m = false) ->
  HJ (Sw (psim m)) (consume k) (consume k)
     (fun o1 s1 o2 s2 => orel (krelk k) o1 o2 /\ Sw (psim (match o1 with Some _ => pnext m k | None => m end)) s1 s2).
Proof.
  intros K s1 s2 S. rewrite !consume_step. pose proof S as (Hr & _). pose proof (psim_hd _ _ _ Hr) as Hh.
  destruct (b_rest s1) as [|a r1] eqn:E1.
  - pose proof (psim_nil_iff _ _ _ Hr) as [N _]. rewrite (N eq_refl) in *.
    destruct (tk_eqb KEof k); [exact I|]. split; [exact I | exact S].
  - destruct (tk_eqb (kind a) k) eqn:Ea.
    + apply tkb_true in Ea. assert (Ka : kind a = KWs -> gap_ok m = false) by (intro X; apply K; congruence).
      destruct (psim_cons_inv _ _ _ _ Hr Ka) as (b & r2 & -> & Hab & _ & H).
      rewrite <- (krel_kind _ _ Hab), Ea, tkb_refl. split; [split; assumption|]. apply (Sw_step1 _ _ _ _ _ _ _ _ S). rewrite <- Ea. exact H.
    + cbn [hdk] in Hh. destruct (b_rest s2) as [|b r2] eqn:E2.
      * pose proof (psim_nil_iff _ _ _ Hr) as [_ N]. discriminate (N eq_refl).
      * cbn [hdk] in Hh. rewrite <- Hh, Ea. split; [exact I|]. apply (Sw_rest _ _ _ _ S). rewrite E1, E2. exact Hr.
Qed.

Lemma PL_consume k : k <> KWs -> WL pany (orel (krelk k)) (consume k) (consume k) pany.
Proof.
  intro K. unfold WL. apply HJ_pany_elim. intro m. eapply HJ_conseq; [intros s1 s2 X; exact X | apply (PJ_consume k m); intro; contradiction|].
  intros o1 s1 o2 s2 [Ho S]. split; [exact Ho | exact (Sw_psim_pany _ _ _ S)].
Qed.

Lemma PJ_bump k m : k <> KWs ->
  HJ (Sw (psim m)) (bump k) (bump k) (fun a s1 b s2 => krelk k a b /\ Sw (psim (pnext m k)) s1 s2).
Proof.
  intros K s1 s2 S. rewrite !bump_step. pose proof S as (Hr & _).
  destruct (b_rest s1) as [|a r1] eqn:E1; [exact I|].
  destruct (tk_eqb (kind a) k) eqn:Ea; [|exact I].
  apply tkb_true in Ea. assert (Ka : kind a = KWs -> gap_ok m = false) by (intro X; exfalso; apply K; congruence).
  destruct (psim_cons_inv _ _ _ _ Hr Ka) as (b & r2 & -> & Hab & _ & H).
  rewrite <- (krel_kind _ _ Hab), Ea, tkb_refl. split; [split; assumption|]. apply (Sw_step1 _ _ _ _ _ _ _ _ S). rewrite <- Ea. exact H.
Qed.

Lemma PL_bump k : k <> KWs -> WL pany (krelk k) (bump k) (bump k) pany.
Proof.
  intro K. unfold WL. apply HJ_pany_elim. intro m. eapply HJ_conseq; [intros s1 s2 X; exact X | apply (PJ_bump k m K)|].
  intros o1 s1 o2 s2 [Ho S]. split; [exact Ho | exact (Sw_psim_pany _ _ _ S)].
Qed.

Lemma PJ_bump_any_k k m : k <> KWs ->
  HJ (Sw (phead m k)) bump_any bump_any (fun a s1 b s2 => krelk k a b /\ Sw (psim (pnext m k)) s1 s2).
Proof.
  intros K s1 s2 S. rewrite !bump_any_step. pose proof S as ((Hr & Hk) & _).
  destruct (b_rest s1) as [|a r1] eqn:E1; [exact I|]. cbn [hdk] in Hk.
  assert (Ka : kind a = KWs -> gap_ok m = false) by (intro X; exfalso; apply K; congruence).
  destruct (psim_cons_inv _ _ _ _ Hr Ka) as (b & r2 & -> & Hab & _ & H).
  split; [split; assumption|]. apply (Sw_step1 _ _ _ _ _ _ _ _ S). rewrite <- Hk. exact H.
Qed.

(* ---------------------------------------------------------------- until, consume_while *)
Lemma PJ_until f m : f KWs = false -> f KBlockComment = false ->
  HJ (Sw (psim m)) (until f) (until f)
     (fun o1 s1 o2 s2 => orel (psim m) o1 o2 /\
        match o1 with Some l => Sw (psynced f (pmode_after m l)) s1 s2 | None => Sw (psim m) s1 s2 end).
Proof.
  intros F1 F2 s1 s2 S. unfold until. pose proof S as (Hr & _).
  pose proof (psim_split f m _ _ F1 F2 Hr) as X.
  destruct (position f (b_rest s1)) as [n1|], (position f (b_rest s2)) as [n2|]; try contradiction.
  - destruct X as [X1 X2]. split; [exact X1 | exact (Sw_advance _ _ _ _ _ _ S X2)].
  - split; [exact I | exact S].
Qed.

Lemma PL_until f : f KWs = false -> f KBlockComment = false -> WL pany (orel qsim) (until f) (until f) pany.
Proof.
  intros F1 F2. unfold WL. apply HJ_pany_elim. intro m. eapply HJ_conseq; [intros s1 s2 X; exact X | apply (PJ_until f m F1 F2)|].
  intros o1 s1 o2 s2 [Ho S]. destruct o1 as [l1|], o2 as [l2|]; cbn [orel] in *; try contradiction.
  - split; [exact (psim_qsim _ _ _ Ho)|]. eapply Sw_mono; [|exact S]. intros x y Hxy. eexists. exact (psynced_psim _ _ _ _ Hxy).
  - split; [exact I | exact (Sw_psim_pany _ _ _ S)].
Qed.

Lemma PJ_until_in f m : f KCloseBrace = true -> pbr m = MIn ->
  HJ (Sw (psim m)) (until f) (until f) (fun o1 s1 o2 s2 => orel Wi o1 o2 /\ Sw pany s1 s2).
Proof.
  intros F Hm s1 s2 S. unfold until. pose proof S as (Hr & _).
  pose proof (psim_split_in f m _ _ F Hm Hr) as X.
  destruct (position f (b_rest s1)) as [n1|], (position f (b_rest s2)) as [n2|]; try contradiction.
  - destruct X as [X1 X2]. split; [exact X1|]. apply (Sw_advance _ _ _ _ _ _ S). eexists. exact (psynced_psim _ _ _ _ X2).
  - split; [exact I | exact (Sw_psim_pany _ _ _ S)].
Qed.

(* a test that passes gaps: what is consumed, and where the runs stand *)
Lemma PJ_consume_while_pass g0 m : g0 KWs = true -> g0 KBlockComment = true ->
  HJ (Sw (psim m)) (consume_while g0) (consume_while g0)
     (fun l1 s1 l2 s2 => psim m l1 l2 /\
        (Sw (psynced (fun k => negb (g0 k)) (pmode_after m l1)) s1 s2 \/ (Sw pany s1 s2 /\ b_rest s1 = [] /\ b_rest s2 = []))).
Proof.
  intros G1 G2 s1 s2 S. rewrite !consume_while_cwc. pose proof S as (Hr & _).
  destruct (psim_run g0 m _ _ G1 G2 Hr) as [[X1 X2] | (X1 & X2 & X3)].
  - split; [exact X1|]. left. exact (Sw_advance _ _ _ _ _ _ S X2).
  - split; [exact X1|]. right. rewrite !advance_rest. split; [|split; assumption].
    apply (Sw_advance _ _ _ _ _ _ S). rewrite X2, X3. exact pany_nil.
Qed.

Lemma PL_consume_while_pass g0 : g0 KWs = true -> g0 KBlockComment = true ->
  WL pany qsim (consume_while g0) (consume_while g0) pany.
Proof.
  intros G1 G2. unfold WL. apply HJ_pany_elim. intro m.
  eapply HJ_conseq; [intros s1 s2 X; exact X | apply (PJ_consume_while_pass g0 m G1 G2)|].
  intros l1 s1 l2 s2 [Hl [S | (S & _)]]; (split; [exact (psim_qsim _ _ _ Hl)|]); [|exact S].
  eapply Sw_mono; [|exact S]. intros x y Hxy. eexists. exact (psynced_psim _ _ _ _ Hxy).
Qed.

Lemma PJ_consume_while_stop g0 m : g0 KWs = false -> g0 KBlockComment = false ->
  HJ (Sw (psim m)) (consume_while g0) (consume_while g0)
     (fun l1 s1 l2 s2 => (Wi l1 l2 /\ ksim l1 l2 /\ Forall (fun t => g0 (kind t) = true) l1) /\ Sw (psim (pmode_after m l1)) s1 s2).
Proof.
  intros G1 G2 s1 s2 S. rewrite !consume_while_cwc. pose proof S as (Hr & _).
  destruct (psim_stop g0 m _ _ G1 G2 Hr) as (_ & X1 & X2 & X3).
  split; [split; [exact X1 | split; [exact X2|]] | exact (Sw_advance _ _ _ _ _ _ S X3)].
  clear. induction (b_rest s1) as [|t r IH]; [constructor|]. rewrite cwc_cons. destruct (g0 (kind t)) eqn:E; [|constructor].
  cbn [firstn]. constructor; assumption.
Qed.

Lemma PL_consume_while_stop g0 : g0 KWs = false -> g0 KBlockComment = false ->
  WL pany (fun l1 l2 => Wi l1 l2 /\ ksim l1 l2 /\ Forall (fun t => g0 (kind t) = true) l1) (consume_while g0) (consume_while g0) pany.
Proof.
  intros G1 G2. unfold WL. apply HJ_pany_elim. intro m.
  eapply HJ_conseq; [intros s1 s2 X; exact X | apply (PJ_consume_while_stop g0 m G1 G2)|].
  intros l1 s1 l2 s2 [Hl S]. split; [exact Hl | exact (Sw_psim_pany _ _ _ S)].
Qed.

Lemma PL_ws_comments : WL pany anyrel ws_comments ws_comments pany.
Proof. eapply WL_conseq_R; [apply (PL_consume_while_pass is_ws_comment); reflexivity|]. intros; exact I. Qed.

Lemma PJ_ws_comments :
  HJ (Sw pany) ws_comments ws_comments (fun _ s1 _ s2 => Sw pany s1 s2 /\ (b_rest s1 = [] <-> b_rest s2 = [])).
Proof.
  eapply HJ_conseq; [intros s1 s2 X; exact X | apply PL_ws_comments|]. intros a s1 b s2 [_ S]. split; [exact S|].
  destruct S as (Hr & _). exact (pany_nil_iff _ _ Hr).
Qed.

Lemma PJ_consume_rest :
  HJ (Sw pany) consume_rest consume_rest (fun l1 s1 l2 s2 => qsim l1 l2 /\ Sw pany s1 s2 /\ b_rest s1 = [] /\ b_rest s2 = []).
Proof.
  intros s1 s2 S. unfold consume_rest, consume_while. pose proof S as (Hr & _).
  assert (P : forall l, position (fun _ : tkind => negb true) l = None).
  { induction l as [|t r IH]; [reflexivity|]. cbn [position]. rewrite IH. reflexivity. }
  rewrite !P, !firstn_all. split; [exact (pany_qsim _ _ Hr)|]. rewrite !advance_rest, !skipn_all.
  split; [|split; reflexivity]. apply (Sw_advance _ _ _ _ _ _ S). rewrite !skipn_all. exact pany_nil.
Qed.
Lemma PL_consume_rest : WL pany qsim consume_rest consume_rest pany.
Proof.
  unfold WL. eapply HJ_conseq; [intros s1 s2 X; exact X | apply PJ_consume_rest|].
  intros l1 s1 l2 s2 (H & S & _). split; assumption.
Qed.

(* the value of a metadata line: lock step *)
Lemma PJ_consume_rest_val m : pln m = LVal ->
  HJ (fun s1 s2 => Sw (psim m) s1 s2 /\ no_nl (b_rest s1)) consume_rest consume_rest
     (fun l1 s1 l2 s2 => ksim l1 l2 /\ Sw pany s1 s2).
Proof.
  intros Hm s1 s2 [S N]. unfold consume_rest, consume_while. pose proof S as (Hr & _).
  assert (P : forall l, position (fun _ : tkind => negb true) l = None).
  { induction l as [|t r IH]; [reflexivity|]. cbn [position]. rewrite IH. reflexivity. }
  rewrite !P, !firstn_all. destruct (psim_val _ _ _ Hm N Hr) as [_ K]. split; [exact K|].
  apply (Sw_advance _ _ _ _ _ _ S). rewrite !skipn_all. exact pany_nil.
Qed.

(* ---------------------------------------------------------------- sub_block: what is between the braces is in lock step *)
Lemma PN_sub_block {A B} (T' : TR) (R : A -> B -> Prop) ts1 ts2 (m1 : M A) (m2 : M B) :
  W ts1 ts2 -> WL W R m1 m2 T' -> WN R (sub_block ts1 m1) (sub_block ts2 m2).
Proof. apply WN_sub_block. Qed.
