(* Property C17, the trailing edit and the front-matter splitter (Model/Parser.v, parse_frontmatter).
   U+0020s and possibly a line comment ` --c` appended at the end of a line of a source without front
   matter give a source without front matter ([parse_frontmatter_trail_none]).
   The edit changes one line [L ++ e] ([e] the line ending) into [L ++ (w ++ lc) ++ e], or - at the
   end of a source that ends with LF (or is empty) - appends a last line [w ++ lc].  A changed line
   that is a fence was a fence, a changed line that is blank was blank, an appended line is no fence
   ([line_le_trail], [trail_not_fence]).  "Front matter found" is a function of the list of lines
   ([pfl], [parse_frontmatter_none_pfl]) that is monotone in that order ([pfl_mono]) and blind to
   lines without fence appended at the end ([pfl_app_nofence]). *)
From Coq Require Import List Lia.
From CL Require Import Base.StrLemmas Model.Lexer Model.PText Model.Parser Model.Edits
  Proofs.EditProofs Proofs.ParserFM Proofs.EditLink Proofs.EditSimFM Proofs.EditSimFM2
  Proofs.EditTrailDefs Proofs.EditTrailStr Proofs.EditTrailLex Proofs.EditTrailDoc.
Import ListNotations.

(* ---------------------------------------------------------------- the splitter as a predicate on lines *)

Definition has_fence (ls : list str) : bool := existsb is_fence ls.

(* two fences, and nothing but blank text before the first one unless [any] *)
Fixpoint pfl (any : bool) (ls : list str) : bool :=
  match ls with
  | [] => false
  | l :: r => if is_fence l then has_fence r else (any || str_blank l) && pfl any r
  end.

Lemma has_fence_split ls :
  has_fence ls = match split_fence ls with Some _ => true | None => false end.
Proof.
  induction ls as [|l r IH]; [reflexivity|]. unfold has_fence in *. cbn [existsb split_fence].
  destruct (is_fence l); [reflexivity|]. cbn [orb]. rewrite IH.
  destruct (split_fence r) as [[[p f] q]|]; reflexivity.
Qed.

Lemma pfl_split any ls :
  pfl any ls =
  match split_fence ls with
  | Some (p, f, q) => (any || str_blank (concat p)) && has_fence q
  | None => false
  end.
Proof.
  induction ls as [|l r IH]; [reflexivity|]. cbn [pfl split_fence].
  destruct (is_fence l).
  - cbn [concat]. unfold str_blank at 1. cbn [forallb]. rewrite orb_true_r. reflexivity.
  - rewrite IH. destruct (split_fence r) as [[[p f] q]|]; [|apply andb_false_r].
    cbn [concat]. rewrite str_blank_app.
    destruct any, (str_blank l), (str_blank (concat p)), (has_fence q); reflexivity.
Qed.

Theorem parse_frontmatter_none_pfl cfg s :
  parse_frontmatter cfg s = None <-> pfl (p_fm_anywhere cfg) (lines_inclusive s) = false.
Proof.
  rewrite parse_frontmatter_parts, pfl_split. unfold fm_parts.
  destruct (split_fence (lines_inclusive s)) as [[[p f1] q]|]; [|tauto].
  rewrite has_fence_split.
  destruct (split_fence q) as [[[m f2] t]|]; [|rewrite andb_false_r; tauto].
  rewrite andb_true_r.
  destruct (p_fm_anywhere cfg || str_blank (concat p)); split; (discriminate || reflexivity).
Qed.

(* the order on lines *)
Definition line_le (l l' : str) : Prop :=
  (is_fence l' = true -> is_fence l = true) /\ (str_blank l' = true -> str_blank l = true).

Lemma line_le_refl l : line_le l l.
Proof. split; intro H; exact H. Qed.

Lemma Forall2_line_le_refl ls : Forall2 line_le ls ls.
Proof. induction ls; constructor; [apply line_le_refl | assumption]. Qed.

Lemma has_fence_mono ls ls' : Forall2 line_le ls ls' -> has_fence ls' = true -> has_fence ls = true.
Proof.
  unfold has_fence. induction 1 as [|l l' r r' [Hf _] _ IH]; intro H; [exact H|].
  cbn [existsb] in *. apply orb_true_iff in H as [H|H].
  - rewrite (Hf H). reflexivity.
  - rewrite (IH H). apply orb_true_r.
Qed.

Lemma pfl_has_fence any ls : pfl any ls = true -> has_fence ls = true.
Proof.
  unfold has_fence. induction ls as [|l r IH]; intro H; [discriminate|]. cbn [pfl existsb] in *.
  destruct (is_fence l); [reflexivity|]. apply andb_true_iff in H as [_ H]. exact (IH H).
Qed.

Lemma pfl_mono any ls ls' : Forall2 line_le ls ls' -> pfl any ls' = true -> pfl any ls = true.
Proof.
  induction 1 as [|l l' r r' [Hf Hb] Hr IH]; intro H; [exact H|]. cbn [pfl] in *.
  destruct (is_fence l') eqn:F'.
  - rewrite (Hf eq_refl). exact (has_fence_mono _ _ Hr H).
  - apply andb_true_iff in H as [H1 H2]. destruct (is_fence l).
    + exact (has_fence_mono _ _ Hr (pfl_has_fence _ _ H2)).
    + rewrite (IH H2), andb_true_r. apply orb_true_iff in H1 as [-> | H1]; [reflexivity|].
      rewrite (Hb H1). apply orb_true_r.
Qed.

Lemma pfl_app_nofence any ls ex : has_fence ex = false -> pfl any (ls ++ ex) = pfl any ls.
Proof.
  intro Hx. induction ls as [|l r IH].
  - cbn [app pfl]. destruct (pfl any ex) eqn:E; [|reflexivity].
    apply pfl_has_fence in E. congruence.
  - cbn [app pfl]. rewrite IH. unfold has_fence in *. rewrite existsb_app, Hx, orb_false_r. reflexivity.
Qed.

(* the general step: some lines replaced by smaller ones, lines without fence appended *)
Lemma pfl_trail any ls ls' ex :
  Forall2 line_le ls ls' -> has_fence ex = false -> pfl any ls = false -> pfl any (ls' ++ ex) = false.
Proof.
  intros H Hx Hn. rewrite (pfl_app_nofence _ _ _ Hx).
  destruct (pfl any ls') eqn:E; [|reflexivity]. rewrite (pfl_mono _ _ _ H E) in Hn. discriminate.
Qed.

Lemma pfl_trail0 any ls ls' : Forall2 line_le ls ls' -> pfl any ls = false -> pfl any ls' = false.
Proof.
  intros H Hn. rewrite <- (app_nil_r ls'). exact (pfl_trail any ls ls' [] H eq_refl Hn).
Qed.

(* ---------------------------------------------------------------- lines of a text *)

Lemma lines_nolf p : no_newline p = true ->
  lines_inclusive p = match p with [] => [] | _ => [p] end.
Proof.
  induction p as [|c r IH]; intro H; [reflexivity|]. unfold no_newline in *. cbn [forallb] in H.
  apply andb_true_iff in H as [Hc Hr]. apply negb_true_iff in Hc. cbn [lines_inclusive].
  rewrite Hc, (IH Hr). destruct r; reflexivity.
Qed.

Lemma lines_nolf_lf p y : no_newline p = true ->
  lines_inclusive (p ++ 10 :: y) = (p ++ [10]) :: lines_inclusive y.
Proof.
  induction p as [|c r IH]; intro H; [reflexivity|]. unfold no_newline in *. cbn [forallb] in H.
  apply andb_true_iff in H as [Hc Hr]. apply negb_true_iff in Hc. cbn [app lines_inclusive].
  rewrite Hc, (IH Hr). reflexivity.
Qed.

Lemma no_newline_app p q : no_newline (p ++ q) = no_newline p && no_newline q.
Proof. apply forallb_app. Qed.

(* a text is whole lines followed by the beginning of a line *)
Lemma split_last_line a : exists a1 L, a = a1 ++ L /\ ends_line a1 /\ no_newline L = true.
Proof.
  induction a as [|c r (a1 & L & -> & [-> | (p & ->)] & HL)].
  - exists [], []. split; [reflexivity|]. split; [left; reflexivity | reflexivity].
  - destruct (c =? 10) eqn:E.
    + apply N.eqb_eq in E. subst c. exists [10], L. split; [reflexivity|].
      split; [right; exists []; reflexivity | exact HL].
    + exists [], (c :: L). split; [reflexivity|]. split; [left; reflexivity|].
      unfold no_newline in *. cbn [forallb]. rewrite E, HL. reflexivity.
  - exists ((c :: p) ++ [10]), L. split; [reflexivity|].
    split; [right; exists (c :: p); reflexivity | exact HL].
Qed.

(* ---------------------------------------------------------------- the changed line *)

Lemma trim_end_ws_app_keep p s : trim_end_ws s <> [] -> trim_end_ws (p ++ s) = p ++ trim_end_ws s.
Proof.
  intro H. induction p as [|c r IH]; [reflexivity|]. cbn [app trim_end_ws]. rewrite IH.
  destruct (r ++ trim_end_ws s) eqn:E; [|reflexivity].
  apply app_eq_nil in E as [_ E]. contradiction.
Qed.

Lemma trim_end_ws_dash q : exists t, trim_end_ws (45 :: q) = 45 :: t.
Proof.
  cbn [trim_end_ws]. destruct (trim_end_ws q) as [|x y].
  - exists []. reflexivity.
  - eexists. reflexivity.
Qed.

(* blanks, a comment, white space: never a fence *)
Lemma comment_not_fence L w c e : sp32 w -> w <> [] ->
  is_fence (L ++ (w ++ line_comment_text c) ++ e) = false.
Proof.
  intros Hw Hn. unfold is_fence. apply str_eqb_neq. intro H.
  destruct w as [|x w']; [contradiction|]. apply sp32_cons_inv in Hw as [-> Hw].
  unfold line_comment_text in H.
  replace (L ++ ((32 :: w') ++ 45 :: 45 :: c) ++ e)
    with ((L ++ 32 :: w' ++ [45]) ++ 45 :: c ++ e) in H
    by (rewrite <- !app_assoc; cbn [app]; rewrite <- !app_assoc; reflexivity).
  destruct (trim_end_ws_dash (c ++ e)) as (t & Ht).
  rewrite trim_end_ws_app_keep in H by (rewrite Ht; discriminate). rewrite Ht in H.
  pose proof (f_equal (@length N) H) as Hlen. rewrite !app_length in Hlen. cbn [length] in Hlen.
  rewrite app_length in Hlen. cbn [length] in Hlen.
  assert (HL : L = []) by (destruct L; [reflexivity | cbn [length] in Hlen; lia]).
  assert (Hw' : w' = []) by (destruct w'; [reflexivity | cbn [length] in Hlen; lia]).
  subst. cbn [app] in H. discriminate H.
Qed.

(* what is appended, alone on a line, is no fence *)
Lemma trail_not_fence w lc : trailing_text w lc -> is_fence (w ++ lc) = false.
Proof.
  intros [Hw [-> | (c & -> & _ & Hn)]].
  - rewrite app_nil_r. unfold is_fence. rewrite (trim_end_ws_blank _ (sp32_blank _ Hw)). reflexivity.
  - pose proof (comment_not_fence [] w c [] Hw Hn) as H. cbn [app] in H. rewrite app_nil_r in H. exact H.
Qed.

(* the changed line: a fence only if it was one, blank only if it was *)
Lemma line_le_trail L w lc e : trailing_text w lc -> forallb uni_ws e = true ->
  line_le (L ++ e) (L ++ (w ++ lc) ++ e).
Proof.
  intros [Hw [-> | (c & -> & _ & Hn)]] He.
  - rewrite app_nil_r. pose proof (sp32_blank _ Hw) as Hb. split.
    + rewrite (fence_blind L (w ++ e)) by (rewrite forallb_app, Hb, He; reflexivity).
      rewrite (fence_blind L e He). intro H; exact H.
    + rewrite !str_blank_app. unfold str_blank at 2. rewrite Hb. cbn [andb]. intro H; exact H.
  - split.
    + rewrite (comment_not_fence L w c e Hw Hn). discriminate.
    + rewrite !str_blank_app. unfold line_comment_text, str_blank at 3. cbn [forallb].
      change (uni_ws 45) with false. cbn [andb]. rewrite !andb_false_r. discriminate.
Qed.

Lemma trail_no_newline w lc : trailing_text w lc -> no_newline (w ++ lc) = true.
Proof.
  intros [Hw Hlc]. rewrite no_newline_app. apply andb_true_iff. split.
  - clear Hlc. induction w as [|x r IH]; [reflexivity|]. apply sp32_cons_inv in Hw as [-> Hw].
    unfold no_newline in *. cbn [forallb]. change (32 =? 10) with false. cbn [negb andb]. exact (IH Hw).
  - destruct Hlc as [-> | (c & -> & Hc & _)]; [reflexivity|].
    unfold line_comment_text, no_newline in *. cbn [forallb]. change (45 =? 10) with false.
    cbn [negb andb]. exact Hc.
Qed.

(* ---------------------------------------------------------------- the theorem *)

Theorem parse_frontmatter_trail_none cfg a b w lc :
  parse_frontmatter cfg (a ++ b) = None -> line_end b -> trailing_text w lc ->
  parse_frontmatter cfg (a ++ (w ++ lc) ++ b) = None.
Proof.
  intros H Hb Ht. rewrite parse_frontmatter_none_pfl in *.
  set (any := p_fm_anywhere cfg) in *. set (x := w ++ lc) in *.
  pose proof (trail_no_newline _ _ Ht) as Hx. fold x in Hx.
  destruct (split_last_line a) as (a1 & L & -> & Ha1 & HL).
  rewrite <- app_assoc in *.
  rewrite (lines_inclusive_app_endline a1 _ Ha1) in H. rewrite (lines_inclusive_app_endline a1 _ Ha1).
  set (A := lines_inclusive a1) in *.
  assert (HLx : no_newline (L ++ x) = true) by (rewrite no_newline_app, HL, Hx; reflexivity).
  destruct Hb as [-> | [(y & ->) | (y & ->)]].
  - (* the end of the input *)
    rewrite app_nil_r in *. rewrite (lines_nolf L HL) in H. rewrite (lines_nolf _ HLx).
    destruct L as [|c0 L'].
    + cbn [app] in *. rewrite app_nil_r in H.
      apply (pfl_trail any A A); [apply Forall2_line_le_refl | | exact H].
      destruct x eqn:Ex; [reflexivity|]. rewrite <- Ex. unfold has_fence. cbn [existsb].
      unfold x. rewrite (trail_not_fence _ _ Ht). reflexivity.
    + cbn [app]. apply (pfl_trail0 any (A ++ [c0 :: L'])); [| exact H].
      apply Forall2_app; [apply Forall2_line_le_refl|]. constructor; [|constructor].
      pose proof (line_le_trail (c0 :: L') w lc [] Ht eq_refl) as Hle.
      rewrite !app_nil_r in Hle. exact Hle.
  - (* LF *)
    rewrite (lines_nolf_lf L y HL) in H.
    rewrite (app_assoc L x), (lines_nolf_lf (L ++ x) y HLx).
    apply (pfl_trail0 any (A ++ (L ++ [10]) :: lines_inclusive y)); [| exact H].
    apply Forall2_app; [apply Forall2_line_le_refl|]. constructor; [|apply Forall2_line_le_refl].
    rewrite <- app_assoc. exact (line_le_trail L w lc [10] Ht eq_refl).
  - (* CRLF *)
    assert (HL13 : no_newline (L ++ [13]) = true) by (rewrite no_newline_app, HL; reflexivity).
    assert (HLx13 : no_newline ((L ++ x) ++ [13]) = true) by (rewrite no_newline_app, HLx; reflexivity).
    replace (L ++ 13 :: 10 :: y) with ((L ++ [13]) ++ 10 :: y) in H
      by (rewrite <- app_assoc; reflexivity).
    rewrite (lines_nolf_lf _ y HL13) in H.
    replace (L ++ x ++ 13 :: 10 :: y) with (((L ++ x) ++ [13]) ++ 10 :: y)
      by (rewrite <- !app_assoc; reflexivity).
    rewrite (lines_nolf_lf _ y HLx13).
    apply (pfl_trail0 any (A ++ ((L ++ [13]) ++ [10]) :: lines_inclusive y)); [| exact H].
    apply Forall2_app; [apply Forall2_line_le_refl|]. constructor; [|apply Forall2_line_le_refl].
    rewrite <- !app_assoc. exact (line_le_trail L w lc [13; 10] Ht eq_refl).
Qed.

(* the hypotheses are satisfiable: a fence lost (one fence left), a fence kept, a comment before
   two fences, blanks at the end of a source that ends with LF *)
Example parse_frontmatter_trail_none_example :
  let cfg := {| p_ext := 0; p_debug := false; p_strict_escape := false; p_note_label_old := false;
                p_fm_anywhere := false |} in
  parse_frontmatter cfg ([120; 10; 45; 45; 45] ++ [10; 45; 45; 45; 10]) = None
  /\ line_end [10; 45; 45; 45; 10] /\ trailing_text [32] (line_comment_text [99])
  /\ parse_frontmatter cfg ([120; 10; 45; 45; 45] ++ ([32] ++ line_comment_text [99]) ++ [10; 45; 45; 45; 10]) = None
  /\ trailing_text [32; 32] []
  /\ parse_frontmatter cfg ([120; 10; 45; 45; 45] ++ ([32; 32] ++ []) ++ [10; 45; 45; 45; 10]) = None
  /\ parse_frontmatter cfg ([45; 45; 45; 10] ++ []) = None /\ line_end []
  /\ parse_frontmatter cfg ([45; 45; 45; 10] ++ ([32] ++ line_comment_text [99]) ++ []) = None.
Proof.
  cbv zeta. repeat split; try (vm_compute; reflexivity).
  - right. left. eexists. reflexivity.
  - right. exists [99]. repeat split. discriminate.
  - left. reflexivity.
  - left. reflexivity.
Qed.

Print Assumptions parse_frontmatter_trail_none.
