(* Property C17, the padded block comment: the block-splitting functions of Model/Parser.v (pull_line,
   more_lines, strip_trailing_newlines, next_block, blocks_loop) under [psim].  A gap holds no newline
   token, so the lines of the two token lists correspond one to one; a line starts in the place
   "first token of a line, no word before" ([pline]), a block too ([pstart]). *)
From Coq Require Import List Lia.
From CL Require Import Base.StrLemmas Model.Lexer Model.PText Model.CommentMask Model.Parser Model.Edits
  Proofs.EditParserProofs Proofs.EditSimDefs Proofs.EditInsDefs Proofs.EditInsPrim Proofs.EditInsSplit.
From CL Require Import Proofs.EditTrailDefs Proofs.EditTrailStr Proofs.EditTrailPrim Proofs.EditTrailQty Proofs.EditTrailFun
  Proofs.EditTrailLine Proofs.EditTrailSplit Proofs.EditPadDefs Proofs.EditPadPrim Proofs.EditPadFun Proofs.EditPadStep.
Import ListNotations.

Definition lstart (m : pmode) : Prop := pg m = false /\ pln m = LStart.

(* ---------------------------------------------------------------- lists *)
Lemma pmode_after_app m a b : pmode_after m (a ++ b) = pmode_after (pmode_after m a) b.
Proof. revert m. induction a as [|t r IH]; intro m; [reflexivity|]. cbn [app pmode_after]. apply IH. Qed.

Lemma ps_app m a1 a2 : psim m a1 a2 -> Forall noesc a1 -> forall b1 b2,
  psim (pmode_after m a1) b1 b2 -> psim m (a1 ++ b1) (a2 ++ b2).
Proof.
  induction 1 as [m|m a b r1 r2 Hab Ho H IH|m w g r1 r2 Hok Hg H IH]; intros N b1 b2 Hb.
  - exact Hb.
  - inversion N; subst. cbn [app]. apply p_cons; [exact Hab | left; assumption | apply IH; assumption].
  - inversion N; subst. cbn [app]. rewrite <- app_assoc. apply p_gap; [exact Hok | exact Hg|]. apply IH; [assumption|].
    cbn [pmode_after] in Hb. destruct Hg as (Kw & _). rewrite Kw in Hb. exact Hb.
Qed.

Lemma gap_not_nl g : Forall gapt g -> Forall (fun t => tk_eqb (kind t) KNewline = false) g.
Proof. apply (gap_all_f (fun k => tk_eqb k KNewline)); reflexivity. Qed.

Lemma pull_line_app_nonl g r : Forall (fun t => tk_eqb (kind t) KNewline = false) g ->
  pull_line (g ++ r) = (g ++ fst (pull_line r), snd (pull_line r)).
Proof.
  induction 1 as [|t g' Ht _ IH]; cbn [app].
  - destruct (pull_line r); reflexivity.
  - cbn [pull_line]. rewrite Ht, IH. reflexivity.
Qed.

Lemma rstrip_app_nonl g r : Forall (fun t => tk_eqb (kind t) KNewline = false) g -> rstrip (g ++ r) = g ++ rstrip r.
Proof. induction 1 as [|t g' Ht _ IH]; [reflexivity|]. cbn [app]. rewrite (rstrip_keep _ _ Ht), IH. reflexivity. Qed.

(* ---------------------------------------------------------------- pull_line *)
Lemma pull_line_p m ts1 ts2 : psim m ts1 ts2 ->
  psim m (fst (pull_line ts1)) (fst (pull_line ts2))
  /\ psim (pmode_after m (fst (pull_line ts1))) (snd (pull_line ts1)) (snd (pull_line ts2))
  /\ (Forall noesc (fst (pull_line ts1)) \/ (snd (pull_line ts1) = [] /\ snd (pull_line ts2) = [])).
Proof.
  induction 1 as [m|m a b r1 r2 Hab Ho H IH|m w g r1 r2 Hok Hg H IH].
  - split; [constructor|]. split; [constructor | right; split; reflexivity].
  - cbn [pull_line]. rewrite <- (krel_kind _ _ Hab). destruct (tk_eqb (kind a) KNewline) eqn:Ka.
    + cbn [fst snd pmode_after]. split; [apply p_cons; [exact Hab | right; split; reflexivity | constructor]|].
      split; [exact H|]. left. constructor; [|constructor]. apply noesc_kind. apply tkb_true in Ka. rewrite Ka. discriminate.
    + destruct (pull_line r1) as [x1 y1] eqn:E1, (pull_line r2) as [x2 y2] eqn:E2. cbn [fst snd] in *.
      destruct IH as (Hx & Hy & Hd). cbn [pmode_after]. split; [|split; [exact Hy|]].
      * apply p_cons; [exact Hab | | exact Hx]. destruct Ho as [Ho | [-> ->]]; [left; exact Ho|].
        cbn in E1, E2. inversion E1; inversion E2; subst. right; split; reflexivity.
      * destruct Ho as [Ho | [-> ->]].
        -- destruct Hd as [Hd | Hd]; [left; constructor; assumption | right; exact Hd].
        -- cbn in E1, E2. inversion E1; inversion E2; subst. right; split; reflexivity.
  - pose proof Hg as (Kw & _ & _ & Hgg & _).
    assert (Nw : tk_eqb (kind w) KNewline = false) by (rewrite Kw; reflexivity).
    cbn [pull_line]. rewrite Nw, (pull_line_app_nonl g r2 (gap_not_nl _ Hgg)).
    destruct (pull_line r1) as [x1 y1], (pull_line r2) as [x2 y2]. cbn [fst snd] in *.
    destruct IH as (Hx & Hy & Hd). cbn [pmode_after]. rewrite Kw. split; [apply p_gap; assumption|]. split; [exact Hy|].
    destruct Hd as [Hd | Hd]; [left; constructor; [apply noesc_kind; rewrite Kw; discriminate | exact Hd] | right; exact Hd].
Qed.

(* what follows a line starts a line *)
Lemma pull_line_lstart ts : forall m, snd (pull_line ts) <> [] -> lstart (pmode_after m (fst (pull_line ts))).
Proof.
  induction ts as [|t r IH]; intros m H; [contradiction H; reflexivity|]. cbn [pull_line] in *.
  destruct (tk_eqb (kind t) KNewline) eqn:Kt.
  - cbn [fst snd pmode_after]. apply tkb_true in Kt. rewrite Kt. split; reflexivity.
  - destruct (pull_line r) as [x y]. cbn [fst snd] in *. cbn [pmode_after]. apply IH. exact H.
Qed.

Lemma pline_of m q1 q2 : psim m q1 q2 -> (q1 <> [] -> lstart m) -> pline q1 q2.
Proof.
  intros H Hm. destruct q1 as [|a r1].
  - pose proof (psim_nil_iff _ _ _ H) as [N _]. rewrite (N eq_refl). exact pline_nil.
  - destruct (Hm ltac:(discriminate)) as [G L]. exists m. split; [exact G | split; [exact L | exact H]].
Qed.

(* ---------------------------------------------------------------- the line tests *)
Lemma line_is_empty_p m l1 l2 : psim m l1 l2 -> line_is_empty l1 = line_is_empty l2.
Proof. intro H. apply (qsim_forallb is_empty_tok); [reflexivity | reflexivity | exact (psim_qsim _ _ _ H)]. Qed.

Lemma single_marker_p m l1 l2 : psim m l1 l2 -> is_single_line_marker l1 = is_single_line_marker l2.
Proof.
  intro H. pose proof (psim_hd _ _ _ H) as Hk. pose proof (psim_nil_iff _ _ _ H) as Hn. unfold is_single_line_marker.
  destruct l1 as [|a r1], l2 as [|b r2]; cbn [hdk] in Hk.
  - reflexivity.
  - destruct Hn as [N _]. discriminate (N eq_refl).
  - destruct Hn as [_ N]. discriminate (N eq_refl).
  - rewrite Hk. reflexivity.
Qed.

(* ---------------------------------------------------------------- trailing newlines *)
Lemma rstrip_p m l1 l2 : psim m l1 l2 -> psim m (rstrip l1) (rstrip l2).
Proof.
  induction 1 as [m|m a b r1 r2 Hab Ho H IH|m w g r1 r2 Hok Hg H IH].
  - constructor.
  - cbn [rstrip]. pose proof (psim_nil_iff _ _ _ IH) as N. rewrite <- (krel_kind _ _ Hab).
    destruct (rstrip r1) as [|x1 y1] eqn:E1, (rstrip r2) as [|x2 y2] eqn:E2.
    + destruct (tk_eqb (kind a) KNewline); [constructor | apply p_cons; [exact Hab | right; split; reflexivity | constructor]].
    + exfalso. destruct N as [N _]. specialize (N eq_refl). discriminate.
    + exfalso. destruct N as [_ N]. specialize (N eq_refl). discriminate.
    + apply p_cons; [exact Hab | | exact IH]. destruct Ho as [Ho | [-> ->]]; [left; exact Ho | discriminate E1].
  - pose proof Hg as (Kw & _ & _ & Hgg & _).
    assert (Nw : tk_eqb (kind w) KNewline = false) by (rewrite Kw; reflexivity).
    rewrite (rstrip_keep _ _ Nw), (rstrip_app_nonl g r2 (gap_not_nl _ Hgg)). apply p_gap; assumption.
Qed.

(* ---------------------------------------------------------------- more_lines *)
Lemma more_lines_p f1 : forall f2 m ts1 ts2, psim m ts1 ts2 -> (ts1 <> [] -> lstart m) ->
  (length ts1 < f1)%nat -> (length ts2 < f2)%nat ->
  psim m (fst (more_lines f1 ts1)) (fst (more_lines f2 ts2))
  /\ pline (snd (more_lines f1 ts1)) (snd (more_lines f2 ts2)).
Proof.
  induction f1 as [|f1 IH]; intros f2 m ts1 ts2 H Hm L1 L2; [lia|]. destruct f2 as [|f2]; [lia|].
  destruct (nil_or_not ts1) as [-> | Hne1].
  { assert (ts2 = []) as -> by (apply (psim_nil_iff _ _ _ H); reflexivity).
    cbn. split; [constructor | exact pline_nil]. }
  assert (Hne2 : ts2 <> []) by (intro E; apply Hne1; apply (psim_nil_iff _ _ _ H); exact E).
  rewrite (more_lines_S_ne f1 ts1 Hne1), (more_lines_S_ne f2 ts2 Hne2).
  rewrite (single_marker_p _ _ _ H).
  destruct (is_single_line_marker ts2); [split; [constructor | exact (pline_of _ _ _ H Hm)]|].
  pose proof (pull_line_p _ _ _ H) as (Pl & Pq & Pd). pose proof (pull_line_lstart ts1 m) as Ps.
  destruct (pull_line ts1) as [l1 q1] eqn:E1. destruct (pull_line ts2) as [l2 q2] eqn:E2.
  apply (pull_line_len _ _ _ Hne1) in E1. apply (pull_line_len _ _ _ Hne2) in E2. cbn [fst snd] in Pl, Pq, Pd, Ps.
  rewrite (line_is_empty_p _ _ _ Pl).
  destruct (line_is_empty l2); [split; [constructor | exact (pline_of _ _ _ Pq Ps)]|].
  assert (L1' : (length q1 < f1)%nat) by lia. assert (L2' : (length q2 < f2)%nat) by lia.
  destruct (IH f2 _ _ _ Pq Ps L1' L2') as [Hmm Hz].
  destruct Pd as [Pd | [-> ->]].
  - destruct (more_lines f1 q1) as [m1 z1], (more_lines f2 q2) as [m2 z2]. cbn [fst snd] in *.
    split; [apply ps_app; assumption | exact Hz].
  - rewrite !more_lines_nil in *. cbn [fst snd] in *. rewrite !app_nil_r. split; [exact Pl | exact Hz].
Qed.

(* ---------------------------------------------------------------- next_block *)
Definition nbp (o1 o2 : option (list tok * list tok)) : Prop :=
  match o1, o2 with
  | None, None => True
  | Some (b1, q1), Some (b2, q2) => pline b1 b2 /\ pline q1 q2
  | _, _ => False
  end.

Lemma finish_block_p m l1 l2 mm1 mm2 z1 z2 :
  lstart m -> psim m (l1 ++ mm1) (l2 ++ mm2) -> pline z1 z2 ->
  nbp (finish_block l1 mm1 z1) (finish_block l2 mm2 z2).
Proof.
  intros [G L] Hl Hz. unfold finish_block. rewrite <- !rstrip_spec.
  pose proof (rstrip_p _ _ _ Hl) as B. pose proof (psim_nil_iff _ _ _ B) as N.
  destruct (rstrip (l1 ++ mm1)) as [|x1 y1], (rstrip (l2 ++ mm2)) as [|x2 y2]; cbn.
  - exact I.
  - destruct N as [N _]. specialize (N eq_refl). discriminate.
  - destruct N as [_ N]. specialize (N eq_refl). discriminate.
  - split; [exists m; split; [exact G | split; [exact L | exact B]] | exact Hz].
Qed.

Lemma next_block_p f1 : forall f2 m ts1 ts2, psim m ts1 ts2 -> (ts1 <> [] -> lstart m) ->
  (length ts1 < f1)%nat -> (length ts2 < f2)%nat ->
  nbp (next_block f1 ts1) (next_block f2 ts2).
Proof.
  induction f1 as [|f1 IH]; intros f2 m ts1 ts2 H Hm L1 L2; [lia|]. destruct f2 as [|f2]; [lia|].
  destruct (nil_or_not ts1) as [-> | Hne1].
  { assert (ts2 = []) as -> by (apply (psim_nil_iff _ _ _ H); reflexivity). exact I. }
  assert (Hne2 : ts2 <> []) by (intro E; apply Hne1; apply (psim_nil_iff _ _ _ H); exact E).
  rewrite (next_block_S_ne f1 ts1 Hne1), (next_block_S_ne f2 ts2 Hne2).
  pose proof (pull_line_p _ _ _ H) as (Pl & Pq & Pd). pose proof (pull_line_lstart ts1 m) as Ps.
  destruct (pull_line ts1) as [l1 q1] eqn:E1. destruct (pull_line ts2) as [l2 q2] eqn:E2.
  apply (pull_line_len _ _ _ Hne1) in E1. apply (pull_line_len _ _ _ Hne2) in E2. cbn [fst snd] in Pl, Pq, Pd, Ps.
  rewrite (line_is_empty_p _ _ _ Pl).
  destruct (line_is_empty l2); [apply (IH f2 _ _ _ Pq Ps); lia|].
  rewrite (single_marker_p _ _ _ Pl). destruct (is_single_line_marker l2).
  - apply (finish_block_p m); [exact (Hm Hne1) | rewrite !app_nil_r; exact Pl | exact (pline_of _ _ _ Pq Ps)].
  - destruct (more_lines_p (S (length q1)) (S (length q2)) _ _ _ Pq Ps (Nat.lt_succ_diag_r _) (Nat.lt_succ_diag_r _))
      as [Hmm Hz].
    destruct Pd as [Pd | [-> ->]].
    + destruct (more_lines (S (length q1)) q1) as [m1 z1], (more_lines (S (length q2)) q2) as [m2 z2].
      cbn [fst snd] in Hmm, Hz. apply (finish_block_p m); [exact (Hm Hne1) | apply ps_app; assumption | exact Hz].
    + cbn [more_lines length is_single_line_marker fst snd] in *.
      apply (finish_block_p m); [exact (Hm Hne1) | rewrite !app_nil_r; exact Pl | exact Hz].
Qed.

(* ---------------------------------------------------------------- blocks_loop *)
Section Blocks.
  Variable cfg : pcfg.

  Lemma blocks_loop_p f1 : forall f2 ts1 ts2 old evs1 evs2,
    pline ts1 ts2 -> evw evs1 evs2 ->
    OR evw (blocks_loop cfg f1 ts1 old evs1) (blocks_loop cfg f2 ts2 old evs2).
  Proof.
    induction f1 as [|f1 IH]; intros f2 ts1 ts2 old evs1 evs2 (m & G & L & Ht) He; [exact I|].
    destruct f2 as [|f2]; [unfold OR; destruct (blocks_loop cfg (S f1) ts1 old evs1); exact I|].
    cbn [blocks_loop].
    pose proof (next_block_p (S (length ts1)) (S (length ts2)) m ts1 ts2 Ht (fun _ => conj G L)
                  (Nat.lt_succ_diag_r _) (Nat.lt_succ_diag_r _)) as Nb.
    pose proof (next_block_meta_no_nl (S (length ts1)) ts1) as Nm.
    destruct (next_block (S (length ts1)) ts1) as [[b1 q1]|], (next_block (S (length ts2)) ts2) as [[b2 q2]|];
      try contradiction; [|exact He].
    destruct Nb as [Hb Hq].
    pose proof (block_p cfg b1 b2 evs1 evs2 old (conj Hb (Nm b1 q1 eq_refl)) He) as R. unfold OR in R.
    destruct (run_block b1 evs1 (parse_block cfg old)) as [e1|]; cbn [obind]; [|exact I].
    destruct (run_block b2 evs2 (parse_block cfg old)) as [e2|]; cbn [obind].
    - apply IH; assumption.
    - unfold OR. destruct (blocks_loop cfg f1 q1 old e1); exact I.
  Qed.
End Blocks.
