(* The extension gates of the parser model (C02): with an extension off its
   syntax is not consulted at all; with it on, input without the trigger token
   takes the same path as with it off. *)
From CL Require Import Base.StrLemmas Model.Parser.

Section Gates.
  Variable cfg : pcfg.

  (* ---- RANGE_VALUES: quantity.rs 204-207 ---------------------------------- *)
  Lemma range_off ts : has cfg X_RANGE_VALUES = false -> range_value cfg ts = None.
  Proof. intro H. unfold range_value. rewrite H. reflexivity. Qed.

  Lemma range_untriggered ts :
    position (fun k => tk_eqb k KMinus) ts = None -> range_value cfg ts = None.
  Proof. intro H. unfold range_value. destruct (negb (has cfg X_RANGE_VALUES)); [reflexivity|]. rewrite H. reflexivity. Qed.

  (* hence the value reading does not depend on the extension when no `-` token occurs *)
  Lemma range_or_numeric_untriggered ts :
    position (fun k => tk_eqb k KMinus) ts = None ->
    range_or_numeric cfg ts =
      match numeric_value ts with
      | Some (inl e) => Some (inl e)
      | Some (inr n) => Some (inr (VNum n))
      | None => None
      end.
  Proof. intro H. unfold range_or_numeric. rewrite (range_untriggered ts H). reflexivity. Qed.

  (* ---- COMPONENT_ALIAS: step.rs 284-287, 529-531 --------------------------- *)
  Lemma alias_off ts off :
    has cfg X_COMPONENT_ALIAS = false ->
    parse_alias cfg ts off = bind (textM cfg off ts) (fun nt => ret (nt, None)).
  Proof. intro H. unfold parse_alias. rewrite H. reflexivity. Qed.

  Lemma alias_untriggered ts off :
    position (fun k => tk_eqb k KOr) ts = None ->
    parse_alias cfg ts off = bind (textM cfg off ts) (fun nt => ret (nt, None)).
  Proof. intro H. unfold parse_alias. destruct (has cfg X_COMPONENT_ALIAS); rewrite ?H; reflexivity. Qed.

  (* ---- COMPONENT_MODIFIERS / INTERMEDIATE_PREPARATIONS: step.rs 90-116 ------ *)
  Lemma modifiers_off : has cfg X_COMPONENT_MODIFIERS = false -> modifiers cfg = ret [].
  Proof. intro H. unfold modifiers. rewrite H. reflexivity. Qed.

  Definition is_modifier_kind (k : tkind) : bool :=
    match k with KAt | KQuestion | KPlus | KMinus | KAnd => true | _ => false end.

  Lemma modifiers_untriggered s :
    is_modifier_kind (peek_of s) = false -> modifiers cfg s = Done ([], s).
  Proof.
    intro H. unfold modifiers. destruct (negb (has cfg X_COMPONENT_MODIFIERS)); [reflexivity|].
    unfold bind, rest. cbn [modifiers_loop]. unfold bind, peek.
    destruct (peek_of s); try discriminate; reflexivity.
  Qed.

  (* ---- ADVANCED_UNITS: quantity.rs 31-36 ------------------------------------ *)
  Lemma advanced_off t ts :
    has cfg X_ADVANCED_UNITS = false ->
    parse_quantity cfg (t :: ts) = sub_block (t :: ts) (parse_regular_quantity cfg).
  Proof. intro H. unfold parse_quantity. rewrite H. reflexivity. Qed.

  (* with the extension on, a quantity that uses `%` is read by the regular path *)
  Lemma advanced_untriggered s :
    existsb (fun t => tk_eqb (kind t) KPercent) (b_all s) = true ->
    parse_advanced_quantity cfg s = Done (None, s).
  Proof. intro H. unfold parse_advanced_quantity, bind, all_tokens. rewrite H. reflexivity. Qed.

  (* ---- MODES: mod.rs 361-371 -------------------------------------------------- *)
  Lemma modes_off old_style key : has cfg X_MODES = false -> meta_kept cfg old_style key = old_style.
  Proof. intro H. unfold meta_kept. rewrite H, andb_false_r. reflexivity. Qed.

  Lemma modes_untriggered old_style key : is_config_key key = false -> meta_kept cfg old_style key = old_style.
  Proof. intro H. unfold meta_kept. rewrite H. reflexivity. Qed.
End Gates.

(* The 192 extension sets: every subset of the eight flags, where
   INTERMEDIATE_PREPARATIONS carries the COMPONENT_MODIFIERS bit. *)
Definition ext_flags : list N :=
  [X_COMPONENT_MODIFIERS; X_COMPONENT_ALIAS; X_ADVANCED_UNITS; X_MODES; X_INLINE_QUANTITIES;
   X_RANGE_VALUES; X_TIMER_REQUIRES_TIME; X_INTERMEDIATE_PREPARATIONS].

Fixpoint subsets_or (l : list N) : list N :=
  match l with
  | [] => [0]
  | x :: r => let s := subsets_or r in s ++ map (N.lor x) s
  end.

Fixpoint dedup (l : list N) : list N :=
  match l with
  | [] => []
  | x :: r => if existsb (N.eqb x) r then dedup r else x :: dedup r
  end.

Definition ext_sets : list N := dedup (subsets_or ext_flags).

Lemma ext_sets_192 : length ext_sets = 192%nat.
Proof. vm_compute. reflexivity. Qed.

Lemma ext_sets_intermediate_implies_modifiers :
  forallb (fun e => implb (ext_has e X_INTERMEDIATE_PREPARATIONS) (ext_has e X_COMPONENT_MODIFIERS)) ext_sets = true.
Proof. vm_compute. reflexivity. Qed.

Lemma ext_sets_within_all : forallb (fun e => N.land e X_ALL =? e) ext_sets = true.
Proof. vm_compute. reflexivity. Qed.
