(* Proofs about Model/Lexer.v: tiling, totality, adjacency of spans. *)
From CL Require Import Base.StrLemmas Model.Lexer.

Lemma span_while_app p s a b : span_while p s = (a, b) -> a ++ b = s.
Proof.
  revert a b. induction s as [|c r IH]; intros a b H; cbn [span_while] in H.
  - inversion H; reflexivity.
  - destruct (p c).
    + destruct (span_while p r) as [a' b'] eqn:E. inversion H; subst.
      cbn [app]. f_equal. apply IH. reflexivity.
    + inversion H; subst. reflexivity.
Qed.

Lemma span_while_all p s a b : span_while p s = (a, b) -> forallb p a = true.
Proof.
  revert a b. induction s as [|c r IH]; intros a b H; cbn [span_while] in H.
  - inversion H; reflexivity.
  - destruct (p c) eqn:Ep.
    + destruct (span_while p r) as [a' b'] eqn:E. inversion H; subst.
      cbn [forallb]. rewrite Ep. cbn [andb]. eapply IH. reflexivity.
    + inversion H; subst. reflexivity.
Qed.

Lemma span_while_stop p s a b : span_while p s = (a, b) -> match b with [] => True | x :: _ => p x = false end.
Proof.
  revert a b. induction s as [|c r IH]; intros a b H; cbn [span_while] in H.
  - inversion H; exact I.
  - destruct (p c) eqn:Ep.
    + destruct (span_while p r) as [a' b'] eqn:E. inversion H; subst. eapply IH. reflexivity.
    + inversion H; subst. exact Ep.
Qed.

Lemma next_is_cons d r : next_is d r = true -> r = d :: tl r.
Proof.
  destruct r as [|x r']; cbn [next_is tl]; [discriminate|]. intro H. apply N.eqb_eq in H. subst. reflexivity.
Qed.

Lemma block_body_app s a b : block_body s = (a, b) -> a ++ b = s.
Proof.
  revert a b. induction s as [|c r IH]; intros a b H; cbn [block_body] in H.
  - inversion H; reflexivity.
  - destruct ((c =? 45) && next_is 93 r) eqn:E.
    + inversion H; subst. apply andb_true_iff in E as [_ E]. apply next_is_cons in E.
      cbn [app]. f_equal. exact (eq_sym E).
    + destruct (block_body r) as [a' b'] eqn:E'. inversion H; subst.
      cbn [app]. f_equal. apply IH. reflexivity.
Qed.

Section LexProofs.
  Variable U : N -> ucls.

  Lemma lex_one_tiles c r k t rest :
    lex_one U c r = (k, t, rest) -> t ++ rest = c :: r /\ exists t', t = c :: t'.
  Proof.
    unfold lex_one. intro H.
    repeat match type of H with
    | (if ?b then _ else _) = _ => destruct b eqn:?
    | (match ?r with [] => _ | _ :: _ => _ end) = _ => destruct r
    | (let '(a, b) := ?e in _) = _ => destruct e as [? ?] eqn:?
    | (match ?o with Some _ => _ | None => _ end) = _ => destruct o
    end;
    inversion H; subst; clear H;
    repeat match goal with
    | E : next_is _ _ = true |- _ => apply next_is_cons in E
    | E : span_while _ _ = _ |- _ => apply span_while_app in E
    | E : block_body _ = _ |- _ => apply block_body_app in E
    | E : _ && _ = true |- _ => apply andb_true_iff in E as [? ?]
    end; subst; cbn [app tl] in *;
    (split; [try reflexivity; try congruence | eexists; reflexivity]).
    all: try (match goal with E : ?x = _ :: tl ?x |- _ => rewrite E at 2; reflexivity end).
    all: try (match goal with E : ?x = _ :: tl ?x, E2 : _ ++ _ = tl ?x |- _ => rewrite E, E2; reflexivity end).
  Qed.

  Lemma lex_one_shorter c r k t rest :
    lex_one U c r = (k, t, rest) -> (length rest <= length r)%nat.
  Proof.
    intro H. apply lex_one_tiles in H as [H [t' ->]].
    cbn [app] in H. injection H as H. rewrite <- H, app_length. lia.
  Qed.

  Lemma lex_fuel_total fuel s off :
    (length s <= fuel)%nat -> exists ts, lex_fuel U fuel s off = Some ts.
  Proof.
    revert s off. induction fuel as [|f IH]; intros s off Hl.
    - destruct s; [eexists; reflexivity | cbn in Hl; lia].
    - destruct s as [|c r]; [eexists; reflexivity|].
      cbn [lex_fuel]. destruct (lex_one U c r) as [[k t] rest] eqn:E.
      pose proof (lex_one_shorter _ _ _ _ _ E) as Hs.
      destruct (IH rest (off + blen t)) as [ts Hts]; [cbn in Hl; lia|].
      rewrite Hts. eexists. reflexivity.
  Qed.

  Lemma lex_fuel_tiles fuel s off ts :
    lex_fuel U fuel s off = Some ts -> concat (map tstr ts) = s.
  Proof.
    revert s off ts. induction fuel as [|f IH]; intros s off ts H.
    - destruct s; cbn in H; [inversion H; reflexivity | discriminate].
    - destruct s as [|c r]; cbn [lex_fuel] in H; [inversion H; reflexivity|].
      destruct (lex_one U c r) as [[k t] rest] eqn:E.
      destruct (lex_fuel U f rest (off + blen t)) as [ts'|] eqn:E'; [|discriminate].
      inversion H; subst. cbn [map concat tstr]. rewrite (IH _ _ _ E').
      apply lex_one_tiles in E as [E _]. exact E.
  Qed.

  (* tokens are adjacent: each starts where the previous one ends *)
  Fixpoint adjacent_from (off : N) (ts : list tok) : Prop :=
    match ts with
    | [] => True
    | t :: r => tstart t = off /\ adjacent_from (tend t) r
    end.

  Lemma lex_fuel_adjacent fuel s off ts :
    lex_fuel U fuel s off = Some ts -> adjacent_from off ts.
  Proof.
    revert s off ts. induction fuel as [|f IH]; intros s off ts H.
    - destruct s; cbn in H; [inversion H; exact I | discriminate].
    - destruct s as [|c r]; cbn [lex_fuel] in H; [inversion H; exact I|].
      destruct (lex_one U c r) as [[k t] rest] eqn:E.
      destruct (lex_fuel U f rest (off + blen t)) as [ts'|] eqn:E'; [|discriminate].
      inversion H; subst. cbn [adjacent_from tstart]. split; [reflexivity|].
      unfold tend; cbn [tstart tstr]. eapply IH. exact E'.
  Qed.

  Lemma lex_fuel_nonempty fuel s off ts :
    lex_fuel U fuel s off = Some ts -> Forall (fun t => tstr t <> []) ts.
  Proof.
    revert s off ts. induction fuel as [|f IH]; intros s off ts H.
    - destruct s; cbn in H; [inversion H; constructor | discriminate].
    - destruct s as [|c r]; cbn [lex_fuel] in H; [inversion H; constructor|].
      destruct (lex_one U c r) as [[k t] rest] eqn:E.
      destruct (lex_fuel U f rest (off + blen t)) as [ts'|] eqn:E'; [|discriminate].
      inversion H; subst. constructor; [|eapply IH; exact E'].
      cbn [tstr]. apply lex_one_tiles in E as [_ [t' ->]]. discriminate.
  Qed.

  Theorem lex_total s off : exists ts, lex_at U s off = Some ts.
  Proof. apply lex_fuel_total. apply le_n. Qed.

  Theorem lex_tiles s off ts : lex_at U s off = Some ts -> concat (map tstr ts) = s.
  Proof. apply lex_fuel_tiles. Qed.

  Theorem lex_adjacent s off ts : lex_at U s off = Some ts -> adjacent_from off ts.
  Proof. apply lex_fuel_adjacent. Qed.

  (* every token edge is a character boundary of the input *)
  Lemma adjacent_tiles_sub ts : forall off pre s,
    adjacent_from off ts -> blen pre = off -> s = pre ++ concat (map tstr ts) ->
    Forall (fun t => sub s (tstr t) (tstart t)) ts.
  Proof.
    induction ts as [|t r IH]; intros off pre s Ha Hp Hs; [constructor|].
    destruct Ha as [H1 H2]. constructor.
    - exists pre, (concat (map tstr r)). cbn [map concat] in Hs. split; [exact Hs | congruence].
    - apply (IH (tend t) (pre ++ tstr t)); [exact H2 | |].
      + unfold tend. rewrite blen_app, Hp, H1. reflexivity.
      + cbn [map concat] in Hs. rewrite <- app_assoc. exact Hs.
  Qed.

  Theorem lex_tokens_located s ts :
    lex U s = Some ts -> Forall (fun t => sub s (tstr t) (tstart t)) ts.
  Proof.
    intro H. apply (adjacent_tiles_sub ts 0 [] s).
    - apply (lex_adjacent s 0). exact H.
    - reflexivity.
    - cbn [app]. symmetry. apply (lex_tiles s 0). exact H.
  Qed.
End LexProofs.
