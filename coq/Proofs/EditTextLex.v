(* Property C17, text mode: the comment mask of a run of tokens.
   [lex_run_mask]: for the tokens [D] of any input and any contiguous run [c] of them, the comment
   scanner of Model/CommentMask.v run over the text of [c] ALONE marks exactly the characters of
   the comment tokens of [c] - a token boundary of the whole input is a boundary of every piece
   cut at token boundaries.  Hence [Analysis.strip_comments] (what `in_text` does to the copied
   source of a component after the repair 200c896: a fresh `lexer::Cursor` over the slice) removes
   exactly the comment tokens the component has in the document ([strip_run]). *)
From Coq Require Import Lia.
From CL Require Import Base.StrLemmas Model.Lexer Model.CommentMask Proofs.LexerProofs Proofs.MaskProofs
  Proofs.EditProofs Proofs.EditAnalysis Proofs.EditTextSim.
From CL Require Model.Analysis.
Open Scope N_scope.

Lemma next_is_trunc k l w : next_is k (l ++ w) = false -> next_is k l = false.
Proof. destruct l; cbn [app next_is]; auto. Qed.
Lemma next_is_keep k l w : l <> [] -> next_is k (l ++ w) = next_is k l.
Proof. destruct l; [congruence|]. reflexivity. Qed.

Lemma span_while_trunc p : forall r a z w, span_while p r = (a, z ++ w) -> span_while p (a ++ z) = (a, z).
Proof.
  induction r as [|x r IH]; intros a z w H; cbn [span_while] in H.
  - inversion H as [[Ha Hz]]. symmetry in Hz. apply app_eq_nil in Hz as [-> _]. reflexivity.
  - destruct (p x) eqn:Px.
    + destruct (span_while p r) as [a' b'] eqn:E. inversion H; subst. cbn [app span_while]. rewrite Px.
      rewrite (IH a' z w eq_refl). reflexivity.
    + inversion H as [[Ha Hz]]. cbn [app]. destruct z as [|y z'].
      * reflexivity.
      * cbn [app] in Hz. injection Hz as -> _. cbn [span_while]. rewrite Px. reflexivity.
Qed.

Lemma block_body_trunc : forall s a z w,
  block_body s = (a, z ++ w) -> block_body (a ++ z) = (a, z) /\ a ++ z ++ w = s.
Proof.
  induction s as [|c r IH]; intros a z w H; cbn [block_body] in H.
  - inversion H as [[Ha Hz]]. symmetry in Hz. apply app_eq_nil in Hz as [-> ->]. split; reflexivity.
  - destruct ((c =? 45) && next_is 93 r) eqn:E.
    + injection H as <- Hz. apply andb_true_iff in E as [E1 E2]. apply next_is_cons in E2. split.
      * cbn [app block_body next_is]. rewrite E1. change (93 =? 93) with true. cbn [andb tl]. reflexivity.
      * cbn [app]. rewrite <- Hz. rewrite E2 at 2. reflexivity.
    + destruct (block_body r) as [a' b'] eqn:Eb. inversion H; subst. destruct (IH a' z w eq_refl) as [I1 I2]. split.
      * cbn [app block_body]. rewrite I1.
        assert (T : (c =? 45) && next_is 93 (a' ++ z) = false).
        { destruct (c =? 45); [|reflexivity]. cbn [andb] in *. apply (next_is_trunc 93 (a' ++ z) w).
          rewrite <- app_assoc, I2. exact E. }
        rewrite T. reflexivity.
      * cbn [app]. rewrite I2. reflexivity.
Qed.

Section Run.
  Variable U : N -> ucls.
  Hypothesis special_breaks : forall c, special c = true -> is_word_char U c = false /\ is_lex_ws U c = false.

  (* [scan_token] of Proofs/MaskProofs.v with the input cut anywhere at or after the end of the token *)
  Lemma scan_token_pre c r k t rest z w :
    lex_one U c r = (k, t, rest) -> rest = z ++ w ->
    scan MNormal (t ++ z) = repeat (is_comment k) (length t) ++ scan MNormal z.
  Proof.
    unfold lex_one. intros H Er.
    destruct (c =? 92) eqn:E92.
    { destruct r as [|d r']; inversion H; subst.
      - destruct z; [|discriminate]. cbn [app scan]. rewrite E92. reflexivity.
      - cbn [app scan]. rewrite E92. reflexivity. }
    destruct (c =? 62) eqn:E62.
    { apply N.eqb_eq in E62. subst c.
      destruct (next_is 62 r) eqn:En; inversion H; subst.
      - exact (scan_plain_run [62; 62] z eq_refl).
      - exact (scan_plain_run [62] z eq_refl). }
    destruct (c =? 45) eqn:E45.
    { destruct (next_is 45 r) eqn:En.
      - destruct (span_while (fun x => negb (x =? 10)) r) as [a b] eqn:Es. inversion H; subst.
        pose proof (span_while_app _ _ _ _ Es) as Ha.
        assert (Hn : next_is 45 (a ++ z) = true).
        { rewrite <- (next_is_keep 45 (a ++ z) w), <- app_assoc, Ha; [exact En|].
          destruct a; [|discriminate]. cbn [span_while app] in *. subst r.
          destruct (z ++ w) as [|d q] eqn:Ez; [discriminate En|]. cbn [span_while next_is] in Es, En.
          apply N.eqb_eq in En. subst d. change (negb (45 =? 10)) with true in Es.
          destruct (span_while (fun x => negb (x =? 10)) q); discriminate Es. }
        cbn [app scan]. rewrite E92, E45, Hn. cbn [andb is_comment length repeat app]. f_equal.
        apply scan_line. apply (span_while_trunc _ r a z w). exact Es.
      - inversion H; subst. cbn [app scan]. rewrite E92, E45, (next_is_trunc 45 z w En). cbn [andb].
        destruct (c =? 91); reflexivity. }
    destruct ((c =? 91) && next_is 45 r) eqn:E91.
    { destruct (block_body (tl r)) as [a b] eqn:Eb. inversion H; subst.
      cbn [app scan]. rewrite E92, E45. cbn [next_is]. change (45 =? 45) with true.
      apply andb_true_iff in E91 as [E91 En]. rewrite E91. cbn [andb is_comment length repeat app scan]. do 2 f_equal.
      apply scan_body. exact (proj1 (block_body_trunc _ _ _ _ Eb)). }
    assert (Hc : forall X w', r = X ++ w' -> scan MNormal (c :: X) = false :: scan MNormal X).
    { intros X w' EX. cbn [scan]. rewrite E92, E45.
      assert (T : (c =? 91) && next_is 45 X = false).
      { destruct (c =? 91); [|reflexivity]. cbn [andb] in *. apply (next_is_trunc 45 X w'). rewrite <- EX. exact E91. }
      rewrite T. reflexivity. }
    destruct (c =? 10) eqn:E10.
    { inversion H; subst. cbn [app]. rewrite (Hc z w eq_refl). reflexivity. }
    destruct ((c =? 13) && next_is 10 r) eqn:E13.
    { inversion H; subst. apply andb_true_iff in E13 as [_ En]. apply next_is_cons in En.
      cbn [app]. rewrite (Hc (10 :: z) w); [|rewrite En at 1; cbn [app]; f_equal; assumption].
      rewrite scan_plain by reflexivity. reflexivity. }
    destruct (is_digit c) eqn:Ed.
    { destruct (span_while is_digit r) as [a b] eqn:Es. inversion H; subst.
      pose proof (span_while_app _ _ _ _ Es) as Ha. pose proof (span_while_all _ _ _ _ Es) as Hall.
      cbn [app]. rewrite (Hc (a ++ z) w); [|rewrite <- app_assoc; symmetry; exact Ha].
      rewrite scan_plain_run by (apply digit_chars_plain; exact Hall).
      destruct a; [reflexivity|]. destruct (c =? 48); reflexivity. }
    destruct (single_kind c) as [k'|] eqn:Ek.
    { inversion H; subst. cbn [app]. rewrite (Hc z w eq_refl). rewrite (single_kind_not_comment _ _ Ek). reflexivity. }
    destruct (is_lex_ws U c) eqn:Ew.
    { destruct (span_while (is_lex_ws U) r) as [a b] eqn:Es. inversion H; subst.
      pose proof (span_while_app _ _ _ _ Es) as Ha. pose proof (span_while_all _ _ _ _ Es) as Hall.
      cbn [app]. rewrite (Hc (a ++ z) w); [|rewrite <- app_assoc; symmetry; exact Ha].
      rewrite scan_plain_run by (apply (ws_chars_plain U special_breaks); exact Hall). reflexivity. }
    destruct (u_punct (U c)) eqn:Ep.
    { inversion H; subst. cbn [app]. rewrite (Hc z w eq_refl). reflexivity. }
    destruct (span_while (is_word_char U) r) as [a b] eqn:Es. inversion H; subst.
    pose proof (span_while_app _ _ _ _ Es) as Ha. pose proof (span_while_all _ _ _ _ Es) as Hall.
    cbn [app]. rewrite (Hc (a ++ z) w); [|rewrite <- app_assoc; symmetry; exact Ha].
    rewrite scan_plain_run by (apply (word_chars_plain U special_breaks); exact Hall). reflexivity.
  Qed.

  (* a prefix of the token list *)
  Lemma scan_prefix : forall c q s off,
    lex_at U s off = Some (c ++ q) -> scan MNormal (concat (map tstr c)) = token_mask c.
  Proof.
    induction c as [|t c IH]; intros q s off L; [reflexivity|].
    destruct s as [|ch r]; [cbn in L; discriminate|].
    rewrite lex_at_cons in L. destruct (lex_one U ch r) as [[k tt] rest] eqn:E.
    destruct (lex_at U rest (off + blen tt)) as [ts|] eqn:L'; [|discriminate].
    cbn [app] in L. injection L as <- ->.
    pose proof (lex_tiles U _ _ _ L') as Ht. rewrite map_app, concat_app in Ht.
    unfold token_mask. cbn [map concat kind tstr mk]. fold (token_mask c).
    rewrite (scan_token_pre ch r k tt rest (concat (map tstr c)) (concat (map tstr q)) E (eq_sym Ht)).
    f_equal. exact (IH q rest _ L').
  Qed.

  (* a suffix of the token list is the token list of a suffix of the input *)
  Lemma lex_suffix : forall p c s off,
    lex_at U s off = Some (p ++ c) -> exists s' off', lex_at U s' off' = Some c.
  Proof.
    induction p as [|t p IH]; intros c s off L; [exists s, off; exact L|].
    destruct s as [|ch r]; [cbn in L; discriminate|].
    rewrite lex_at_cons in L. destruct (lex_one U ch r) as [[k tt] rest] eqn:E.
    destruct (lex_at U rest (off + blen tt)) as [ts|] eqn:L'; [|discriminate].
    cbn [app] in L. injection L as _ ->. exact (IH c rest _ L').
  Qed.

  Theorem lex_run_mask s off D c :
    lex_at U s off = Some D -> sr D c -> mask (concat (map tstr c)) = token_mask c.
  Proof.
    intros L (p & q & ->). destruct (lex_suffix p (c ++ q) s off L) as (s' & off' & L'). exact (scan_prefix c q s' off' L').
  Qed.

  Theorem strip_run s off D c :
    lex_at U s off = Some D -> sr D c ->
    Analysis.strip_comments (concat (map tstr c)) = concat (map tstr (filter not_comment c)).
  Proof.
    intros L H. unfold Analysis.strip_comments. rewrite (lex_run_mask s off D c L H). apply keep_unmasked_tokens.
  Qed.
End Run.
