(* C07: the hypotheses of the placement theorems of Proofs/DiagPlaced.v are satisfiable, and the
   class of clean streams of Proofs/AnalysisSound.v is not trivial.  Every example runs the parser
   model on a text (the construct of checks/c07_catalog.py named in the comment), feeds the events
   before the offending one to the decorated collector, and shows that the state reached and the
   offending event satisfy the hypotheses, together with the diagnostic that is pushed.
   Oracles of the examples: identity for ci_key; units g kg (mass) ml l (volume) min (time);
   ASCII letters and digits are alphanumeric; the front matter is rejected iff it contains `[` or
   a line `...`, with the error located at its end resp. not located. *)
From Coq Require Import ZArith List Bool.
From CL Require Import Base.Chars Model.Parser Model.Diag Model.EventBridge Model.AnalysisLabels Model.AnalysisDiag
  Proofs.DiagPlaced Proofs.AnalysisSound.
From CL Require Model.Analysis.
Import ListNotations.
Open Scope N_scope.

Definition s_g : str := [103]. Definition s_kg : str := [107;103]. Definition s_ml : str := [109;108].
Definition s_min : str := [109;105;110]. Definition s_l : str := [108].
Definition ex_unit_class (u : str) : N :=
  if str_eqb u s_min then 1 else if str_eqb u s_g || str_eqb u s_kg || str_eqb u s_ml || str_eqb u s_l then 2 else 0.
Definition ex_unit_pq (u : str) : option N :=
  if str_eqb u s_min then Some 2 else if str_eqb u s_g || str_eqb u s_kg then Some 0
  else if str_eqb u s_ml || str_eqb u s_l then Some 1 else None.
Definition ex_alnum (c : N) : bool := ((48 <=? c) && (c <=? 57)) || ((65 <=? c) && (c <=? 90)) || ((97 <=? c) && (c <=? 122)).
Definition ex_U (c : N) : ucls :=
  {| u_alpha := ex_alnum c && negb ((48 <=? c) && (c <=? 57)); u_zs := c =? 32;
     u_punct := negb (ex_alnum c) && negb (c =? 32) && negb (c =? 10) && (c <? 128);
     u_ws := (c =? 32) || (c =? 10); u_alnum := ex_alnum c |}.
Definition ex_x (e : N) : Analysis.aext :=
  {| Analysis.x_modes := N.testbit e 6; Analysis.x_inline := N.testbit e 7; Analysis.x_advanced := N.testbit e 5 |}.
Definition ex_cfg (e : N) : pcfg :=
  {| p_ext := e; p_debug := true; p_strict_escape := false; p_note_label_old := false; p_fm_anywhere := false |}.
Fixpoint has_dots_line (y : str) : bool :=
  match y with
  | 10 :: 46 :: 46 :: 46 :: 10 :: _ => true
  | _ :: r => has_dots_line r
  | [] => false
  end.
Definition ex_yaml_ok (y : str) : bool := negb (existsb (N.eqb 91) y) && negb (has_dots_line y).
Definition ex_yaml_err (y : str) : option N := if has_dots_line y then None else Some (blen y).
Definition ex_id (s : str) : str := s.
Definition ex_noiq (s : str) : option (str * str) := None.
Definition ex_nokeys (y : str) : list str := [].
Definition ex_haskey (y k : str) : bool := false.
Definition ex_stdok (k v : str) : bool := true.

Definition E : N := 3818.    (* all extensions *)
Notation xdstep := (dstep ex_id ex_yaml_ok ex_noiq ex_unit_class [] (ex_x E) Analysis.cfgF dcfg_now ex_yaml_err ex_nokeys ex_haskey ex_stdok ex_alnum ex_unit_pq).
Notation xdrun := (drun ex_id ex_yaml_ok ex_noiq ex_unit_class [] (ex_x E) Analysis.cfgF dcfg_now ex_yaml_err ex_nokeys ex_haskey ex_stdok ex_alnum ex_unit_pq).
Notation xdstep_old := (dstep ex_id ex_yaml_ok ex_noiq ex_unit_class [] (ex_x E) Analysis.cfgF dcfg_before_45a4888 ex_yaml_err ex_nokeys ex_haskey ex_stdok ex_alnum ex_unit_pq).
Notation xclean := (clean_run ex_id ex_yaml_ok ex_noiq ex_unit_class [] (ex_x E) Analysis.cfgF dcfg_now ex_yaml_err ex_nokeys ex_haskey ex_stdok ex_alnum ex_unit_pq).

Definition ex_events (s : str) : list pevent := match events ex_U (ex_cfg E) s with Done evs => evs | Panic _ => [] end.

(* the collector state before the n-th event of the stream of [s], and that event *)
Definition ex_at (s : str) (n : nat) : option (dstate * pevent) :=
  let evs := ex_events s in
  match xdrun dinit (firstn n evs), nth_error evs n with
  | Done (st, _), Some ev => Some (st, ev)
  | _, _ => None
  end.

Definition err (l : list span) : sdiag := {| sd_sev := SevError; sd_stage := StAnalysis; sd_labels := l |}.
Definition wrn (l : list span) : sdiag := {| sd_sev := SevWarning; sd_stage := StAnalysis; sd_labels := l |}.

Ltac ex_solve := repeat match goal with |- _ /\ _ => split end; try (vm_compute; reflexivity); try (eexists; vm_compute; reflexivity); try (vm_compute; discriminate).

(* '@&zznowhere{}\n' *)
Definition t_dangling : str := [64;38;122;122;110;111;119;104;101;114;101;123;125;10].
(* '#&zznopan{}\n' *)
Definition t_dangling_cw : str := [35;38;122;122;110;111;112;97;110;123;125;10].
(* '@+&zzthyme\n' *)
Definition t_new_ref : str := [64;43;38;122;122;116;104;121;109;101;10].
(* 'step one\n\n@&(~1)-zzdough{}\n' *)
Definition t_inter_mods : str := [115;116;101;112;32;111;110;101;10;10;64;38;40;126;49;41;45;122;122;100;111;117;103;104;123;125;10].
(* '@&(0)zzdough{}\n' *)
Definition t_inter_zero : str := [64;38;40;48;41;122;122;100;111;117;103;104;123;125;10].
(* '@zzdef{1%g} then @&-zzdef{}\n' *)
Definition t_conflict_mods : str := [64;122;122;100;101;102;123;49;37;103;125;32;116;104;101;110;32;64;38;45;122;122;100;101;102;123;125;10].
(* '#zzpan{} then #&?zzpan{}\n' *)
Definition t_conflict_mods_cw : str := [35;122;122;112;97;110;123;125;32;116;104;101;110;32;35;38;63;122;122;112;97;110;123;125;10].
(* '@zzdef{1%g} then @&zzdef{}(sifted)\n' *)
Definition t_note : str := [64;122;122;100;101;102;123;49;37;103;125;32;116;104;101;110;32;64;38;122;122;100;101;102;123;125;40;115;105;102;116;101;100;41;10].
(* '#zzpan{} and #&zzpan(big)\n' *)
Definition t_note_cw : str := [35;122;122;112;97;110;123;125;32;97;110;100;32;35;38;122;122;112;97;110;40;98;105;103;41;10].
(* '>> [mode]: components\n@zzdef{1%g}\n>> [mode]: all\n@&zzdef{2%g}\n' *)
Definition t_conflict_qty : str := [62;62;32;91;109;111;100;101;93;58;32;99;111;109;112;111;110;101;110;116;115;10;64;122;122;100;101;102;123;49;37;103;125;10;62;62;32;91;109;111;100;101;93;58;32;97;108;108;10;64;38;122;122;100;101;102;123;50;37;103;125;10].
(* '>> [define]: ingredients\n#zzpan{1}\n>> [define]: default\n#&zzpan{2}\n' *)
Definition t_conflict_qty_cw : str := [62;62;32;91;100;101;102;105;110;101;93;58;32;105;110;103;114;101;100;105;101;110;116;115;10;35;122;122;112;97;110;123;49;125;10;62;62;32;91;100;101;102;105;110;101;93;58;32;100;101;102;97;117;108;116;10;35;38;122;122;112;97;110;123;50;125;10].
(* '@zzdef{1%g} then @&zzdef{1%ml}\n' *)
Definition t_units : str := [64;122;122;100;101;102;123;49;37;103;125;32;116;104;101;110;32;64;38;122;122;100;101;102;123;49;37;109;108;125;10].
(* '~{5%kg}\n' *)
Definition t_timer_unit : str := [126;123;53;37;107;103;125;10].
(* '~zzrest{a while%min}\n' *)
Definition t_timer_text : str := [126;122;122;114;101;115;116;123;97;32;119;104;105;108;101;37;109;105;110;125;10].
(* '>> [mode]: nonsense\nhello\n' *)
Definition t_bad_mode : str := [62;62;32;91;109;111;100;101;93;58;32;110;111;110;115;101;110;115;101;10;104;101;108;108;111;10].
(* '---\ntitle: [1\n---\nhi\n' *)
Definition t_fm : str := [45;45;45;10;116;105;116;108;101;58;32;91;49;10;45;45;45;10;104;105;10].
(* '---\na: 1\n...\nb: 2\n---\nhi\n' *)
Definition t_fm_multi : str := [45;45;45;10;97;58;32;49;10;46;46;46;10;98;58;32;50;10;45;45;45;10;104;105;10].
(* '---\ntitle: Soup\n---\n>> [duplicate]: default\nBoil @water{1%l} in a #pot{}.\n\nAdd @salt{2%g} and wait ~{5%min}.\n\n== Serve ==\nStir the @&water{} with the #&pot, rest ~nap{1%min}.\n' *)
Definition t_sound : str := [45;45;45;10;116;105;116;108;101;58;32;83;111;117;112;10;45;45;45;10;62;62;32;91;100;117;112;108;105;99;97;116;101;93;58;32;100;101;102;97;117;108;116;10;66;111;105;108;32;64;119;97;116;101;114;123;49;37;108;125;32;105;110;32;97;32;35;112;111;116;123;125;46;10;10;65;100;100;32;64;115;97;108;116;123;50;37;103;125;32;97;110;100;32;119;97;105;116;32;126;123;53;37;109;105;110;125;46;10;10;61;61;32;83;101;114;118;101;32;61;61;10;83;116;105;114;32;116;104;101;32;64;38;119;97;116;101;114;123;125;32;119;105;116;104;32;116;104;101;32;35;38;112;111;116;44;32;114;101;115;116;32;126;110;97;112;123;49;37;109;105;110;125;46;10].
(* '>> servings: 2\nMix @flour{1%kg} and @water{1%l}.\n' *)
Definition t_sound_notice : str := [62;62;32;115;101;114;118;105;110;103;115;58;32;50;10;77;105;120;32;64;102;108;111;117;114;123;49;37;107;103;125;32;97;110;100;32;64;119;97;116;101;114;123;49;37;108;125;46;10].

(* dangling_ref_igr *)
Example ex_dangling_reference :
  exists st i st' ds, ex_at t_dangling 1 = Some (st, EvIngredient i) /\
    Analysis.a_halted (ds_a st) = false /\ in_step_block st /\ i_inter i = None /\
    treated_as_ref ex_id (ds_a st) (Analysis.a_ingredients (ds_a st)) (imods i) (iname i) = true /\
    Analysis.same_name ex_id (Analysis.a_ingredients (ds_a st)) (iname i) = None /\
    xdstep st (EvIngredient i) = Done (st', ds) /\ i_span i = (0, 13) /\ map to_sdiag ds = [err [(0, 13)]].
Proof. eexists _, _, _, _. split; [vm_compute; reflexivity|]. ex_solve. Qed.

(* dangling_ref_cw *)
Example ex_dangling_reference_cookware :
  exists st c st' ds, ex_at t_dangling_cw 1 = Some (st, EvCookware c) /\
    Analysis.a_halted (ds_a st) = false /\ in_step_block st /\
    treated_as_ref ex_id (ds_a st) (Analysis.a_cookware (ds_a st)) (cmods c) (cname c) = true /\
    Analysis.same_name ex_id (Analysis.a_cookware (ds_a st)) (cname c) = None /\
    xdstep st (EvCookware c) = Done (st', ds) /\ c_span c = (0, 11) /\ map to_sdiag ds = [err [(0, 11)]].
Proof. eexists _, _, _, _. split; [vm_compute; reflexivity|]. ex_solve. Qed.

(* forbidden_new_ref *)
Example ex_new_ref_modifiers :
  exists st i st' ds, ex_at t_new_ref 1 = Some (st, EvIngredient i) /\
    Analysis.a_halted (ds_a st) = false /\ in_step_block st /\
    Events.m_new (imods i) && Events.m_ref (imods i) = true /\
    xdstep st (EvIngredient i) = Done (st', ds) /\ i_mods_span i = (1, 3) /\ map to_sdiag ds = [err [(1, 3)]].
Proof. eexists _, _, _, _. split; [vm_compute; reflexivity|]. ex_solve. Qed.

(* forbidden_inter_hidden, after one step *)
Example ex_intermediate_modifiers :
  exists st i d st' ds, ex_at t_inter_mods 4 = Some (st, EvIngredient i) /\
    Analysis.a_halted (ds_a st) = false /\ in_step_block st /\ i_inter i = Some d /\
    Events.mods_intersects (imods i) Analysis.inter_invalid = true /\
    xdstep st (EvIngredient i) = Done (st', ds) /\ i_mods_span i = (11, 17) /\ map to_sdiag ds = [err [(11, 17)]].
Proof. eexists _, _, _, _, _. split; [vm_compute; reflexivity|]. ex_solve. Qed.

(* inter_zero *)
Example ex_intermediate_reference :
  exists st i d st' ds, ex_at t_inter_zero 1 = Some (st, EvIngredient i) /\
    Analysis.a_halted (ds_a st) = false /\ in_step_block st /\ i_inter i = Some d /\
    Analysis.resolve_intermediate_ref (ds_a st) (abstract_inter d) = Done None /\
    xdstep st (EvIngredient i) = Done (st', ds) /\ im_span d = (2, 5) /\ map to_sdiag ds = [err [(2, 5)]].
Proof. eexists _, _, _, _, _. split; [vm_compute; reflexivity|]. ex_solve. Qed.

(* conflict_ref_mods *)
Example ex_conflicting_modifiers :
  exists st i j def st' ds, ex_at t_conflict_mods 3 = Some (st, EvIngredient i) /\
    Analysis.a_halted (ds_a st) = false /\ in_step_block st /\ i_inter i = None /\
    refers_to ex_id (ds_a st) (Analysis.a_ingredients (ds_a st)) (imods i) (iname i) j /\
    nth_error (Analysis.a_ingredients (ds_a st)) j = Some def /\
    Events.mods_is_empty (Events.mods_diff (Events.mods_diff (imods i)
       (Events.mods_and (Analysis.c_mods def) Analysis.inherit_ingredient)) Events.M_ref_only) = false /\
    xdstep st (EvIngredient i) = Done (st', ds) /\ i_mods_span i = (18, 20) /\ map to_sdiag ds = [err [(18, 20)]].
Proof. eexists _, _, O, _, _, _. split; [vm_compute; reflexivity|]. ex_solve. Qed.

(* conflict_ref_mods_cw *)
Example ex_conflicting_modifiers_cookware :
  exists st c j def st' ds, ex_at t_conflict_mods_cw 3 = Some (st, EvCookware c) /\
    Analysis.a_halted (ds_a st) = false /\ in_step_block st /\
    refers_to ex_id (ds_a st) (Analysis.a_cookware (ds_a st)) (cmods c) (cname c) j /\
    nth_error (Analysis.a_cookware (ds_a st)) j = Some def /\
    Events.mods_is_empty (Events.mods_diff (Events.mods_diff (cmods c)
       (Events.mods_and (Analysis.c_mods def) Analysis.inherit_cookware)) Events.M_ref_only) = false /\
    xdstep st (EvCookware c) = Done (st', ds) /\ c_mods_span c = (15, 17) /\ map to_sdiag ds = [err [(15, 17)]].
Proof. eexists _, _, O, _, _, _. split; [vm_compute; reflexivity|]. ex_solve. Qed.

(* note_on_ref *)
Example ex_note_on_reference :
  exists st i j n st' ds, ex_at t_note 3 = Some (st, EvIngredient i) /\
    Analysis.a_halted (ds_a st) = false /\ in_step_block st /\ i_inter i = None /\
    refers_to ex_id (ds_a st) (Analysis.a_ingredients (ds_a st)) (imods i) (iname i) j /\ i_note i = Some n /\
    xdstep st (EvIngredient i) = Done (st', ds) /\ text_span n = (27, 33) /\ map to_sdiag ds = [err [(27, 33); (11, 11)]].
Proof. eexists _, _, O, _, _, _. split; [vm_compute; reflexivity|]. ex_solve. Qed.

(* note_on_ref_cw *)
Example ex_note_on_reference_cookware :
  exists st c j n st' ds, ex_at t_note_cw 3 = Some (st, EvCookware c) /\
    Analysis.a_halted (ds_a st) = false /\ in_step_block st /\
    refers_to ex_id (ds_a st) (Analysis.a_cookware (ds_a st)) (cmods c) (cname c) j /\ c_note c = Some n /\
    xdstep st (EvCookware c) = Done (st', ds) /\ text_span n = (21, 24) /\ map to_sdiag ds = [err [(21, 24); (8, 8)]].
Proof. eexists _, _, O, _, _, _. split; [vm_compute; reflexivity|]. ex_solve. Qed.

(* conflict_ref_qty *)
Example ex_conflicting_quantity :
  exists st i j def q st' ds, ex_at t_conflict_qty 6 = Some (st, EvIngredient i) /\
    Analysis.a_halted (ds_a st) = false /\ in_step_block st /\ i_inter i = None /\
    refers_to ex_id (ds_a st) (Analysis.a_ingredients (ds_a st)) (imods i) (iname i) j /\
    nth_error (Analysis.a_ingredients (ds_a st)) j = Some def /\
    Events.is_some (Analysis.c_qty def) = true /\ def_in_step def = false /\ i_qty i = Some q /\
    xdstep st (EvIngredient i) = Done (st', ds) /\ q_span q = (57, 60) /\ map to_sdiag ds = [err [(57, 60); (22, 33)]].
Proof. eexists _, _, O, _, _, _, _. split; [vm_compute; reflexivity|]. ex_solve. Qed.

(* conflict_ref_qty_cw *)
Example ex_conflicting_quantity_cookware :
  exists st c j def v qsp st' ds, ex_at t_conflict_qty_cw 6 = Some (st, EvCookware c) /\
    Analysis.a_halted (ds_a st) = false /\ in_step_block st /\
    refers_to ex_id (ds_a st) (Analysis.a_cookware (ds_a st)) (cmods c) (cname c) j /\
    nth_error (Analysis.a_cookware (ds_a st)) j = Some def /\
    Events.is_some (Analysis.c_qty def) = true /\ def_in_step def = false /\ c_qty c = Some (v, qsp) /\
    xdstep st (EvCookware c) = Done (st', ds) /\ qsp = (64, 65) /\ map to_sdiag ds = [err [(64, 65); (25, 34)]].
Proof. eexists _, _, O, _, _, _, _, _. split; [vm_compute; reflexivity|]. ex_solve. Qed.

(* conflict_ref_units: g against ml *)
Example ex_incompatible_units :
  exists st i j def rf b q k c qi st' ds, ex_at t_units 3 = Some (st, EvIngredient i) /\
    Analysis.a_halted (ds_a st) = false /\ in_step_block st /\ i_inter i = None /\
    Analysis.x_advanced (ex_x E) = true /\
    refers_to ex_id (ds_a st) (Analysis.a_ingredients (ds_a st)) (imods i) (iname i) j /\
    nth_error (Analysis.a_ingredients (ds_a st)) j = Some def /\ Analysis.c_rel def = Analysis.RDef rf b /\
    i_qty i = Some q /\ In k (j :: rf) /\ nth_error (Analysis.a_ingredients (ds_a st)) k = Some c /\
    Analysis.c_qty c = Some qi /\
    compatible_unit ex_unit_pq (Analysis.qi_unit qi) (option_map text_trimmed (q_unit q)) <> IcOk /\
    xdstep st (EvIngredient i) = Done (st', ds) /\ uq_span q = (27, 29) /\ map to_sdiag ds = [wrn [(27, 29); (9, 10)]].
Proof.
  eexists _, _, O, _, _, _, _, O, _, _, _, _. split; [vm_compute; reflexivity|]. ex_solve. left. reflexivity.
Qed.

(* timer_unit_mass *)
Example ex_timer_unit :
  exists st t q u st' ds, ex_at t_timer_unit 1 = Some (st, EvTimer t) /\
    Analysis.a_halted (ds_a st) = false /\ in_step_block st /\ Analysis.x_advanced (ex_x E) = true /\
    t_qty t = Some q /\ q_unit q = Some u /\ ex_unit_class (text_trimmed u) <> 1 /\
    xdstep st (EvTimer t) = Done (st', ds) /\ text_span u = (4, 6) /\ map to_sdiag ds = [err [(4, 6)]].
Proof. eexists _, _, _, _, _, _. split; [vm_compute; reflexivity|]. ex_solve. Qed.

(* timer_value_text *)
Example ex_timer_text_value :
  exists st t q st' ds, ex_at t_timer_text 1 = Some (st, EvTimer t) /\
    Analysis.a_halted (ds_a st) = false /\ in_step_block st /\ Analysis.x_advanced (ex_x E) = true /\
    t_qty t = Some q /\ Events.pvalue_is_text (abstract_value (qv (q_val q))) = true /\
    xdstep st (EvTimer t) = Done (st', ds) /\ qv_span (q_val q) = (8, 15) /\ map to_sdiag ds = [err [(8, 15)]].
Proof. eexists _, _, _, _, _. split; [vm_compute; reflexivity|]. ex_solve. Qed.

(* bad_mode *)
Example ex_bad_mode_value :
  exists st k v st' ds, ex_at t_bad_mode 0 = Some (st, EvMetadata k v) /\
    Analysis.a_halted (ds_a st) = false /\ Analysis.x_modes (ex_x E) = true /\
    text_trimmed k = 91 :: Analysis.s_mode ++ [93] /\ bad_config_value Analysis.s_mode (text_outer_trimmed v) = true /\
    xdstep st (EvMetadata k v) = Done (st', ds) /\ text_span v = (10, 19) /\ map to_sdiag ds = [err [(10, 19); (2, 9)]].
Proof. eexists _, _, _, _, _. split; [vm_compute; reflexivity|]. ex_solve. Qed.

(* fm_flow_open: serde_yaml locates the error (here: at the end of the text) *)
Example ex_bad_front_matter :
  exists st t idx st' ds, ex_at t_fm 0 = Some (st, EvYaml t) /\
    Analysis.a_halted (ds_a st) = false /\ ev_fact (EvYaml t) /\ ex_yaml_ok (text_str t) = false /\
    ex_yaml_err (text_str t) = Some idx /\ (forall i, ex_yaml_err (text_str t) = Some i -> i <= blen (text_str t)) /\
    xdstep st (EvYaml t) = Done (st', ds) /\ text_span t = (4, 14) /\ map to_sdiag ds = [err [(14, 14)]].
Proof.
  eexists _, _, _, _, _. split; [vm_compute; reflexivity|]. ex_solve.
  - match goal with |- ev_fact (EvYaml ?t) => exists (text_str t), (fst (text_span t)); vm_compute; reflexivity end.
  - intros i Hi. vm_compute in Hi. injection Hi as <-. vm_compute. discriminate.
Qed.

(* a front matter with two YAML documents ("---\na: 1\n...\nb: 2\n---\nhi\n"): serde_yaml reports no
   location.  The code as it is now labels the error with the whole front matter text ... *)
Example ex_bad_front_matter_unlocated :
  exists st t st' ds, ex_at t_fm_multi 0 = Some (st, EvYaml t) /\
    Analysis.a_halted (ds_a st) = false /\ ev_fact (EvYaml t) /\ ex_yaml_ok (text_str t) = false /\
    ex_yaml_err (text_str t) = None /\
    xdstep st (EvYaml t) = Done (st', ds) /\ text_span t = (4, 18) /\ map to_sdiag ds = [err [(4, 18)]].
Proof.
  eexists _, _, _, _. split; [vm_compute; reflexivity|]. ex_solve.
  match goal with |- ev_fact (EvYaml ?t) => exists (text_str t), (fst (text_span t)); vm_compute; reflexivity end.
Qed.

(* ... the code before 45a4888 did not label it at all: the Error diagnostic lies on nothing.  The
   implementation of that commit did the same on this input (recipe harness:
   ["e","Analysis",[],"deserializing from YAML containing more than one document is not supported"]) *)
Theorem front_matter_unlabeled_refuted_before_fix :
  exists ci_key yaml_ok find_iq unit_class input x cfg yaml_err_index yaml_std_bad yaml_has_key std_check is_alnum
         unit_pq st t st' ds,
    ex_at t_fm_multi 0 = Some (st, EvYaml t) /\
    Analysis.a_halted (ds_a st) = false /\ ev_fact (EvYaml t) /\ yaml_ok (text_str t) = false /\
    dstep ci_key yaml_ok find_iq unit_class input x cfg dcfg_before_45a4888 yaml_err_index yaml_std_bad yaml_has_key
          std_check is_alnum unit_pq st (EvYaml t) = Done (st', ds) /\
    map to_sdiag ds = [err []] /\ forall sev sp, ~ placed ds sev sp.
Proof.
  exists ex_id, ex_yaml_ok, ex_noiq, ex_unit_class, [], (ex_x E), Analysis.cfgF, ex_yaml_err, ex_nokeys, ex_haskey,
         ex_stdok, ex_alnum, ex_unit_pq.
  eexists _, _, _, _. split; [vm_compute; reflexivity|]. ex_solve.
  - match goal with |- ev_fact (EvYaml ?t) => exists (text_str t), (fst (text_span t)); vm_compute; reflexivity end.
  - intros sev sp (d & l & Hin & _ & _ & Hl & _). vm_compute in Hin. destruct Hin as [<-|[]]. discriminate.
Qed.

(* ---- soundness: a recipe with a front matter, a config entry, three steps in two sections,
   definitions, references to them, cookware and timers is a clean stream of 26 events ---- *)
Example ex_clean_stream :
  length (ex_events t_sound) = 26%nat /\ xclean dinit (ex_events t_sound) = true /\
  exists st, xdrun dinit (ex_events t_sound) = Done (st, []) /\ dfinish st = [] /\
    length (Analysis.a_ingredients (ds_a st)) = 3%nat /\ length (Analysis.a_cookware (ds_a st)) = 2%nat /\
    length (Analysis.a_timers (ds_a st)) = 2%nat.
Proof. split; [vm_compute; reflexivity|]. split; [vm_compute; reflexivity|]. eexists. ex_solve. Qed.

(* with an old-style entry the only diagnostic is the deprecation notice, labelled with the entry *)
Example ex_clean_stream_notice :
  xclean dinit (ex_events t_sound_notice) = true /\
  exists st, xdrun dinit (ex_events t_sound_notice) = Done (st, []) /\ map to_sdiag (dfinish st) = [wrn [(2, 14)]].
Proof. split; [vm_compute; reflexivity|]. eexists. ex_solve. Qed.

(* the class is not trivial the other way round either: one dangling reference makes a stream unclean *)
Example ex_unclean_stream : xclean dinit (ex_events t_dangling) = false.
Proof. vm_compute. reflexivity. Qed.
