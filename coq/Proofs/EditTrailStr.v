(* Property C17, the trailing edit: strings and texts.  [spins]-related strings have the same
   [text_trimmed] form (runs of U+0020 collapse), the same emptiness; related token lists render to
   related strings. *)
From Coq Require Import List Lia.
From CL Require Import Base.StrLemmas Model.Lexer Model.PText Model.CommentMask Model.Parser Model.Edits
  Proofs.EditParserProofs Proofs.EditLink Proofs.EditSimDefs Proofs.EditInsDefs.
From CL Require Import Proofs.EditTrailDefs.
Import ListNotations.

(* ---------------------------------------------------------------- sp32 *)
Lemma sp32_nil : sp32 []. Proof. reflexivity. Qed.
Lemma sp32_app a b : sp32 a -> sp32 b -> sp32 (a ++ b).
Proof. unfold sp32. intros Ha Hb. rewrite forallb_app, Ha, Hb. reflexivity. Qed.
Lemma sp32_cons_inv c r : sp32 (c :: r) -> c = 32 /\ sp32 r.
Proof.
  unfold sp32. cbn [forallb]. intro H. apply andb_prop in H as [H1 H2]. split; [|exact H2].
  unfold is32 in H1. apply N.eqb_eq in H1. exact H1.
Qed.
Lemma sp32_cons r : sp32 r -> sp32 (32 :: r).
Proof. unfold sp32. cbn [forallb]. intro H. rewrite H. reflexivity. Qed.
Lemma sp32_blank w : sp32 w -> forallb uni_ws w = true.
Proof.
  induction w as [|c r IH]; intro H; [reflexivity|]. apply sp32_cons_inv in H as [-> H]. cbn [forallb].
  rewrite (IH H). reflexivity.
Qed.
Lemma sp32_repeat k : sp32 (repeat 32 k).
Proof. induction k; [reflexivity | apply sp32_cons; assumption]. Qed.

(* ---------------------------------------------------------------- spins *)
Lemma spins_weaken e s1 s2 : spins false s1 s2 -> spins e s1 s2.
Proof. induction 1; [apply sp_nil | discriminate | apply sp_cons; assumption | apply sp_ins; assumption]. Qed.

Lemma spins_refl e s : spins e s s.
Proof. induction s; [apply sp_nil | apply sp_cons; assumption]. Qed.

Lemma spins_app_l e x s1 s2 : spins e s1 s2 -> spins e (x ++ s1) (x ++ s2).
Proof. intro H. induction x as [|c r IH]; [exact H | cbn [app]; apply sp_cons; exact IH]. Qed.

Lemma spins_nil_l e s2 : spins e [] s2 -> sp32 s2 /\ (e = false -> s2 = []).
Proof.
  intro H. inversion H; subst.
  - split; [reflexivity | reflexivity].
  - split; [assumption | intro; congruence].
Qed.

Lemma spins_nil_iff s1 s2 : spins false s1 s2 -> (s1 = [] <-> s2 = []).
Proof. destruct 1; split; intro E; try reflexivity; try discriminate. Qed.

(* U+0020s in front of a U+0020, or at the end *)
Lemma spins_ins32 e w x y : sp32 w -> spins e (32 :: x) y -> spins e (32 :: x) (w ++ y).
Proof.
  induction w as [|c r IH]; intros Hw H; [exact H|]. apply sp32_cons_inv in Hw as [-> Hw].
  cbn [app]. apply sp_ins. apply IH; assumption.
Qed.
Lemma spins_end32 w y : sp32 w -> spins true [] y -> spins true [] (w ++ y).
Proof.
  intros Hw H. apply spins_nil_l in H as [Hy _]. apply sp_end; [reflexivity | apply sp32_app; assumption].
Qed.

Lemma spins_blank e s1 s2 : spins e s1 s2 -> str_blank s1 = str_blank s2.
Proof.
  induction 1 as [|w _ Hw|c r1 r2 _ IH|r1 r2 _ IH].
  - reflexivity.
  - unfold str_blank. rewrite (sp32_blank _ Hw). reflexivity.
  - unfold str_blank in *. cbn [forallb]. rewrite IH. reflexivity.
  - unfold str_blank in *. cbn [forallb] in *. rewrite <- IH. reflexivity.
Qed.

Lemma spins_drop e s1 s2 : spins e s1 s2 -> spins e (drop_while uni_ws s1) (drop_while uni_ws s2).
Proof.
  induction 1 as [|w He Hw|c r1 r2 H IH|r1 r2 H IH].
  - apply sp_nil.
  - cbn [drop_while]. assert (E : drop_while uni_ws w = []).
    { clear He. induction w as [|c r IHw]; [reflexivity|]. apply sp32_cons_inv in Hw as [-> Hw]. cbn [drop_while].
      change (uni_ws 32) with true. cbv iota. apply IHw. exact Hw. }
    rewrite E. apply sp_nil.
  - cbn [drop_while]. destruct (uni_ws c); [exact IH | apply sp_cons; exact H].
  - cbn [drop_while] in *. change (uni_ws 32) with true in *. cbv iota in *. exact IH.
Qed.

Lemma trim_end_blank w : forallb uni_ws w = true -> trim_end_ws w = [].
Proof.
  induction w as [|c r IH]; intro H; [reflexivity|]. cbn [forallb] in H. apply andb_prop in H as [H1 H2].
  cbn [trim_end_ws]. rewrite (IH H2), H1. reflexivity.
Qed.

Lemma spins_trim_end e s1 s2 : spins e s1 s2 -> spins false (trim_end_ws s1) (trim_end_ws s2).
Proof.
  induction 1 as [|w He Hw|c r1 r2 H IH|r1 r2 H IH].
  - apply sp_nil.
  - cbn [trim_end_ws]. rewrite (trim_end_blank _ (sp32_blank _ Hw)). apply sp_nil.
  - cbn [trim_end_ws]. pose proof (spins_nil_iff _ _ IH) as N.
    destruct (trim_end_ws r1) as [|x1 y1], (trim_end_ws r2) as [|x2 y2].
    + destruct (uni_ws c); [apply sp_nil | apply sp_cons; apply sp_nil].
    + exfalso. destruct N as [N _]. discriminate (N eq_refl).
    + exfalso. destruct N as [_ N]. discriminate (N eq_refl).
    + apply sp_cons. exact IH.
  - pose proof (spins_nil_iff _ _ IH) as N. cbn [trim_end_ws] in *. change (uni_ws 32) with true in *.
    destruct (trim_end_ws r1) as [|x1 y1], (trim_end_ws r2) as [|x2 y2].
    + apply sp_nil.
    + exfalso. destruct N as [N _]. discriminate (N eq_refl).
    + exfalso. destruct N as [_ N]. discriminate (N eq_refl).
    + apply sp_ins. exact IH.
Qed.

Lemma spins_trim e s1 s2 : spins e s1 s2 -> spins false (trim s1) (trim s2).
Proof. intro H. unfold trim. eapply spins_trim_end. apply spins_drop. exact H. Qed.

Lemma spins_collapse s1 s2 : spins false s1 s2 -> forall p, collapse_spaces p s1 = collapse_spaces p s2.
Proof.
  induction 1 as [|w He Hw|c r1 r2 H IH|r1 r2 H IH]; intro p.
  - reflexivity.
  - discriminate.
  - cbn [collapse_spaces]. rewrite (IH c). reflexivity.
  - cbn [collapse_spaces]. change (32 =? 32) with true. cbn [negb orb].
    rewrite <- (IH 32). cbn [collapse_spaces]. change (32 =? 32) with true. cbn [negb orb]. reflexivity.
Qed.

(* ---------------------------------------------------------------- texts *)
Lemma trw_weaken e t1 t2 : trw false t1 t2 -> trw e t1 t2.
Proof.
  intros (H1 & H2 & H3). split; [apply spins_weaken; exact H1|]. split; [exact H2|]. intros _. apply H3. reflexivity.
Qed.

Lemma trw_tx e t1 t2 : trw e t1 t2 -> tx t1 = tx t2.
Proof.
  intros (H & _). unfold tx, text_trimmed, text_outer_trimmed. apply spins_collapse. eapply spins_trim. exact H.
Qed.
Lemma trw_trimmed e t1 t2 : trw e t1 t2 -> text_trimmed t1 = text_trimmed t2.
Proof. apply trw_tx. Qed.
Lemma trw_empty e t1 t2 : trw e t1 t2 -> is_text_empty t1 = is_text_empty t2.
Proof. intros (_ & H & _). exact H. Qed.
Lemma otrw_map_tx e o1 o2 : orel (trw e) o1 o2 -> option_map tx o1 = option_map tx o2.
Proof. destruct o1, o2; cbn; try tauto. intro H. rewrite (trw_tx _ _ _ H). reflexivity. Qed.

Lemma trT_outer t1 t2 : trT t1 t2 -> text_outer_trimmed t1 = text_outer_trimmed t2.
Proof.
  intros [(w & Hw & E) _]. unfold text_outer_trimmed. rewrite E. symmetry.
  clear E. unfold trim. induction (text_str t1) as [|c r IH].
  - cbn [app drop_while]. assert (D : drop_while uni_ws w = []).
    { induction w as [|x y IHw]; [reflexivity|]. apply sp32_cons_inv in Hw as [-> Hw]. cbn [drop_while].
      change (uni_ws 32) with true. cbv iota. apply IHw. exact Hw. }
    rewrite D. reflexivity.
  - cbn [app drop_while]. destruct (uni_ws c); [exact IH|].
    exact (trim_end_ws_app_blank (c :: r) w (sp32_blank _ Hw)).
Qed.
Lemma trT_tx t1 t2 : trT t1 t2 -> tx t1 = tx t2.
Proof. intro H. unfold tx, text_trimmed. rewrite (trT_outer _ _ H). reflexivity. Qed.
Lemma trT_empty t1 t2 : trT t1 t2 -> is_text_empty t1 = is_text_empty t2.
Proof. intros [_ H]. exact H. Qed.

(* ---------------------------------------------------------------- rendering related token lists *)
Lemma krel_render a b : krel a b -> render_tok a = render_tok b.
Proof.
  intros (Hk & _ & _ & _ & _ & Hs). unfold render_tok. rewrite <- Hk.
  destruct (kind a) eqn:K; try reflexivity; rewrite (Hs eq_refl); reflexivity.
Qed.

Lemma gtok_render g : gtok g -> sp32 (render_tok g).
Proof.
  intros [(K & S & _) | (K & _)]; unfold render_tok; rewrite K; [exact S | reflexivity].
Qed.

Lemma wsx_render a b : wsx a b -> exists s, sp32 s /\ render_tok b = render_tok a ++ s.
Proof.
  intros (Ka & Kb & _ & s & E & S). exists s. split; [exact S|]. unfold render_tok. rewrite Ka, Kb. exact E.
Qed.

Lemma atnl_render e r : atnl e r -> (r = [] /\ e = true) \/ exists x, render r = 32 :: x.
Proof.
  destruct r as [|t q]; cbn [atnl]; intro H; [left; split; [reflexivity | exact H]|].
  right. rewrite render_cons. unfold render_tok. rewrite H. eexists. reflexivity.
Qed.

Lemma wsimb_nil_l e l2 : wsimb e [] l2 -> sp32 (render l2) /\ (e = false -> l2 = []).
Proof.
  intro H. remember [] as l1 eqn:E. induction H as [|a b r1 r2 _ _ _ _|a b r1 r2 _ _ _ _|g r1 r2 Hg Ha _ IH]; try discriminate.
  - split; [reflexivity | reflexivity].
  - subst r1. destruct (IH eq_refl) as [S F]. cbn [atnl] in Ha. split.
    + rewrite render_cons. apply sp32_app; [apply gtok_render; exact Hg | exact S].
    + intro X. congruence.
Qed.

Theorem wsimb_render e l1 l2 : wsimb e l1 l2 -> spins e (render l1) (render l2).
Proof.
  induction 1 as [|a b r1 r2 Hab _ H IH|a b r1 r2 Hab Ha H IH|g r1 r2 Hg Ha H IH].
  - apply sp_nil.
  - rewrite !render_cons, (krel_render _ _ Hab). apply spins_app_l. exact IH.
  - rewrite !render_cons. destruct (wsx_render _ _ Hab) as (s & Hs & E). rewrite E, <- app_assoc.
    apply spins_app_l. destruct (atnl_render _ _ Ha) as [[-> He] | [x Ex]].
    + subst e. apply spins_end32; [exact Hs | exact IH].
    + rewrite Ex in *. apply spins_ins32; assumption.
  - rewrite render_cons. pose proof (gtok_render _ Hg) as Hs. destruct (atnl_render _ _ Ha) as [[-> He] | [x Ex]].
    + subst e. apply spins_end32; [exact Hs | exact IH].
    + rewrite Ex in *. apply spins_ins32; assumption.
Qed.

(* without a newline token on the left: blanks appended at the end, nothing else *)
Definition no_nl (l : list tok) : Prop := forallb (fun t => negb (tk_eqb (kind t) KNewline)) l = true.

Lemma atnl_no_nl e r : atnl e r -> no_nl r -> r = [].
Proof.
  destruct r as [|t q]; [reflexivity|]. cbn [atnl]. unfold no_nl. cbn [forallb]. intros -> H. discriminate.
Qed.

Theorem wsimb_render_tail e l1 l2 : wsimb e l1 l2 -> no_nl l1 -> exists w, sp32 w /\ render l2 = render l1 ++ w.
Proof.
  induction 1 as [|a b r1 r2 Hab _ H IH|a b r1 r2 Hab Ha H IH|g r1 r2 Hg Ha H IH]; intro N.
  - exists []. split; reflexivity.
  - unfold no_nl in N. cbn [forallb] in N. apply andb_prop in N as [_ N]. destruct (IH N) as (w & Hw & E).
    exists w. split; [exact Hw|]. rewrite !render_cons, (krel_render _ _ Hab), E, app_assoc. reflexivity.
  - unfold no_nl in N. cbn [forallb] in N. apply andb_prop in N as [_ N]. pose proof (atnl_no_nl _ _ Ha N) as ->.
    destruct (wsx_render _ _ Hab) as (s & Hs & E). destruct (wsimb_nil_l _ _ H) as [S _].
    exists (s ++ render r2). split; [apply sp32_app; assumption|]. rewrite !render_cons, E, render_nil, app_nil_r, app_assoc. reflexivity.
  - pose proof (atnl_no_nl _ _ Ha N) as ->. destruct (wsimb_nil_l _ _ H) as [S _].
    exists (render (g :: r2)). split; [|reflexivity]. rewrite render_cons. apply sp32_app; [apply gtok_render; exact Hg | exact S].
Qed.

(* ---------------------------------------------------------------- what related lists are made of *)
Lemma gtok_nonempty g : gtok g -> tstr g <> [].
Proof. intros [(_ & _ & H) | (_ & H)]; exact H. Qed.
Lemma gtok_nlok g : gtok g -> newline_ok g.
Proof. intros [(K & _) | (K & _)] X; congruence. Qed.

Lemma wsimb_ne_l e l1 l2 : wsimb e l1 l2 -> Forall (fun t => tstr t <> []) l1.
Proof.
  induction 1 as [|a b r1 r2 (_ & H & _) _ _ IH|a b r1 r2 (_ & _ & H & _) _ _ IH|g r1 r2 _ _ _ IH]; try constructor; assumption.
Qed.
Lemma wsimb_ne_r e l1 l2 : wsimb e l1 l2 -> Forall (fun t => tstr t <> []) l2.
Proof.
  induction 1 as [|a b r1 r2 (_ & _ & H & _) _ _ IH|a b r1 r2 (Ka & Kb & Ha & s & E & _) _ _ IH|g r1 r2 Hg _ _ IH];
    try constructor; try assumption.
  - rewrite E. intro X. apply app_eq_nil in X as [X _]. contradiction.
  - apply gtok_nonempty. exact Hg.
Qed.
Lemma wsimb_nlok_l e l1 l2 : wsimb e l1 l2 -> Forall newline_ok l1.
Proof.
  induction 1 as [|a b r1 r2 (_ & _ & _ & H & _) _ _ IH|a b r1 r2 (Ka & _) _ _ IH|g r1 r2 _ _ _ IH]; try constructor; try assumption.
  intro X. congruence.
Qed.
Lemma wsimb_nlok_r e l1 l2 : wsimb e l1 l2 -> Forall newline_ok l2.
Proof.
  induction 1 as [|a b r1 r2 (_ & _ & _ & _ & H & _) _ _ IH|a b r1 r2 (_ & Kb & _) _ _ IH|g r1 r2 Hg _ _ IH];
    try constructor; try assumption.
  - intro X. congruence.
  - apply gtok_nlok. exact Hg.
Qed.

(* ---------------------------------------------------------------- the text builder *)
Theorem wsimb_text cfg e o1 o2 l1 l2 : wsimb e l1 l2 -> OR (trw e) (text_of cfg o1 l1) (text_of cfg o2 l2).
Proof.
  intro H. unfold OR. destruct (text_of cfg o1 l1) as [t1|] eqn:E1; [|exact I].
  destruct (text_of cfg o2 l2) as [t2|] eqn:E2; [|exact I].
  pose proof (wsimb_ne_l _ _ _ H) as N1. pose proof (wsimb_ne_r _ _ _ H) as N2.
  pose proof (text_of_render _ _ _ _ N1 E1) as S1. pose proof (text_of_render _ _ _ _ N2 E2) as S2.
  pose proof (wsimb_render _ _ _ H) as R. split; [rewrite S1, S2; exact R|]. split.
  - rewrite (text_of_empty_render _ _ _ _ (wsimb_nlok_l _ _ _ H) N1 E1), (text_of_empty_render _ _ _ _ (wsimb_nlok_r _ _ _ H) N2 E2).
    apply (spins_blank _ _ _ R).
  - intros ->. rewrite (full_str_nil _ (text_of_full _ _ _ _ E1)), (full_str_nil _ (text_of_full _ _ _ _ E2)), S1, S2.
    apply spins_nil_iff. exact R.
Qed.

Theorem wsimb_text_tail cfg e o1 o2 l1 l2 : wsimb e l1 l2 -> no_nl l1 -> OR trT (text_of cfg o1 l1) (text_of cfg o2 l2).
Proof.
  intros H N. unfold OR. destruct (text_of cfg o1 l1) as [t1|] eqn:E1; [|exact I].
  destruct (text_of cfg o2 l2) as [t2|] eqn:E2; [|exact I].
  pose proof (wsimb_ne_l _ _ _ H) as N1. pose proof (wsimb_ne_r _ _ _ H) as N2.
  pose proof (text_of_render _ _ _ _ N1 E1) as S1. pose proof (text_of_render _ _ _ _ N2 E2) as S2.
  destruct (wsimb_render_tail _ _ _ H N) as (w & Hw & R). split.
  - exists w. split; [exact Hw|]. rewrite S1, S2. exact R.
  - rewrite (text_of_empty_render _ _ _ _ (wsimb_nlok_l _ _ _ H) N1 E1), (text_of_empty_render _ _ _ _ (wsimb_nlok_r _ _ _ H) N2 E2).
    rewrite R, str_blank_app. unfold str_blank at 3. rewrite (sp32_blank _ Hw), andb_true_r. reflexivity.
Qed.

(* a left list that renders to nothing while the right one does not is made of comments *)
Lemma render_tok_empty a : tstr a <> [] -> render_tok a = [] -> esc_lone a = false -> is_comment (kind a) = true.
Proof.
  unfold render_tok, esc_lone. intros N R L. destruct (kind a) eqn:K; try reflexivity; try contradiction.
  - cbn [tk_eqb tkind_beq andb] in L. rewrite R in L. discriminate.
  - discriminate.
Qed.

Lemma wsimb_render_empty e l1 l2 :
  wsimb e l1 l2 -> render l1 = [] -> render l2 <> [] -> forallb (fun t => is_empty_tok (kind t)) l1 = true.
Proof.
  induction 1 as [|a b r1 r2 Hab Ho H IH|a b r1 r2 Hab Ha H IH|g r1 r2 Hg Ha H IH]; intros R1 R2.
  - contradiction R2; reflexivity.
  - rewrite render_cons in R1. apply app_eq_nil in R1 as [Ra Rr]. rewrite render_cons, <- (krel_render _ _ Hab), Ra in R2.
    cbn [app] in R2. destruct Ho as [Ho | [-> ->]]; [|contradiction R2; reflexivity].
    pose proof Hab as (_ & Na & _). pose proof (render_tok_empty a Na Ra Ho) as C.
    cbn [forallb]. rewrite (IH Rr R2), andb_true_r. destruct (kind a); try discriminate; reflexivity.
  - exfalso. rewrite render_cons in R1. apply app_eq_nil in R1 as [Ra _]. destruct Hab as (Ka & _ & Na & _).
    unfold render_tok in Ra. rewrite Ka in Ra. contradiction.
  - destruct r1 as [|t q]; [reflexivity|]. cbn [atnl] in Ha. rewrite render_cons in R1. unfold render_tok in R1.
    rewrite Ha in R1. discriminate.
Qed.
