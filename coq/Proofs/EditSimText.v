(* Property C17, event level: a step block without component markers is one text; two such blocks
   whose tokens are [tsim] (comments anywhere, newline spelling, positions) give the same events.
   Direct computation of parse_step / parse_block on an explicit start state. *)
From CL Require Import Base.StrLemmas Model.Lexer Model.PText Model.CommentMask Model.Parser Model.Edits
  Proofs.EditParserProofs Proofs.EditSimDefs.

Definition st0 (b : list tok) (evs : list pevent) : bp := {| b_all := b; b_done := []; b_rest := b; b_evs := evs |}.
Definition no_marker (ts : list tok) : bool := forallb (fun t => negb (is_marker (kind t))) ts.

Lemma position_none_no_marker r : no_marker r = true -> position (fun k => negb (negb (is_marker k))) r = None.
Proof.
  induction r as [|t r IH]; intro H; [reflexivity|]. cbn [no_marker forallb] in H. apply andb_true_iff in H as [H1 H2].
  cbn [position]. apply negb_true_iff in H1. rewrite H1. cbn [negb]. rewrite (IH H2). reflexivity.
Qed.

Lemma advance_all r : forall a d e, advance (length r) {| b_all := a; b_done := d; b_rest := r; b_evs := e |}
  = {| b_all := a; b_done := rev r ++ d; b_rest := []; b_evs := e |}.
Proof.
  induction r as [|t r IH]; intros a d e; [reflexivity|]. cbn [length advance b_rest b_all b_done b_evs].
  rewrite IH. cbn [rev]. rewrite <- app_assoc. reflexivity.
Qed.

Lemma bind_run {A B} (m : M A) (f : A -> M B) s :
  bind m f s = match m s with Done (a, s') => f a s' | Panic p => Panic p end.
Proof. reflexivity. Qed.

Lemma step_loop_nil cfg f s : b_rest s = [] -> step_loop cfg (S f) s = Done (tt, s).
Proof. intro H. cbn [step_loop]. rewrite bind_run. cbn [rest]. rewrite H. reflexivity. Qed.

(* a step block without component markers is one text *)
Lemma parse_step_text cfg x r evs :
  no_marker (x :: r) = true ->
  parse_step cfg (st0 (x :: r) evs) =
  match text_of cfg (tstart x) (x :: r) with
  | Done t => Done (tt, {| b_all := x :: r; b_done := rev r ++ [x]; b_rest := [];
                           b_evs := EvEnd true :: match frags t with [] => [] | _ => [EvText t] end ++ EvStart true :: evs |})
  | Panic p => Panic p
  end.
Proof.
  intro H. cbn [no_marker forallb] in H. apply andb_true_iff in H as [Hx Hr]. apply negb_true_iff in Hx.
  unfold parse_step, st0. rewrite bind_run. cbn [event b_all b_done b_rest b_evs].
  rewrite bind_run. cbn [rest b_rest]. rewrite bind_run.
  change (length (x :: r)) with (S (length r)). remember (S (length r)) as f eqn:Ef.
  cbn [step_loop]. rewrite bind_run. cbn [rest b_rest]. rewrite bind_run. cbn [peek peek_of b_rest].
  assert (C : (match kind x with
               | KAt => with_recover (ingredient_p cfg) | KHash => with_recover (cookware_p cfg)
               | KTilde => with_recover (timer_p cfg) | _ => ret None end) = ret None).
  { destruct (kind x); try reflexivity; discriminate. }
  rewrite C. rewrite bind_run. cbn [ret]. rewrite bind_run.
  cbn [current_offset current_offset_of b_done base_offset b_all].
  rewrite bind_run. unfold bump_any. rewrite bind_run. cbn [next_token b_rest ret b_all b_done b_evs].
  rewrite bind_run. unfold consume_while. cbn [b_rest].
  rewrite (position_none_no_marker _ Hr), firstn_all, advance_all.
  rewrite bind_run. unfold textM, lift. destruct (text_of cfg (tstart x) (x :: r)) as [t|p]; [|reflexivity].
  rewrite bind_run. subst f.
  destruct (frags t) eqn:F.
  - cbn [ret]. rewrite step_loop_nil by reflexivity. reflexivity.
  - cbn [event b_all b_done b_rest b_evs]. rewrite step_loop_nil by reflexivity. reflexivity.
Qed.

Lemma tsim_all_empty a b : tsim a b -> forallb (fun t => is_empty_tok (kind t)) a = forallb (fun t => is_empty_tok (kind t)) b.
Proof.
  induction 1 as [|x y r1 r2 Hk Hs _ IH|x y r1 r2 Hx Hy _ IH|x r1 r2 Hx _ IH|y r1 r2 Hy _ IH]; cbn [forallb].
  - reflexivity.
  - rewrite Hk, IH. reflexivity.
  - rewrite Hx, Hy, IH. reflexivity.
  - rewrite <- IH. destruct (kind x); try discriminate; reflexivity.
  - rewrite IH. destruct (kind y); try discriminate; reflexivity.
Qed.

(* the text step: blocks without component markers that are [tsim] give the same events *)
Theorem step_text_blind cfg x1 r1 x2 r2 evs1 evs2 :
  no_marker (x1 :: r1) = true -> no_marker (x2 :: r2) = true ->
  tsim (x1 :: r1) (x2 :: r2) ->
  Forall (fun t => tstr t <> []) (x1 :: r1) -> Forall (fun t => tstr t <> []) (x2 :: r2) ->
  Forall2 erel evs1 evs2 ->
  match parse_step cfg (st0 (x1 :: r1) evs1), parse_step cfg (st0 (x2 :: r2) evs2) with
  | Done (_, s1), Done (_, s2) => Forall2 erel (b_evs s1) (b_evs s2) /\ b_rest s1 = [] /\ b_rest s2 = []
  | _, _ => True
  end.
Proof.
  intros M1 M2 Ht N1 N2 He. rewrite (parse_step_text cfg x1 r1 evs1 M1), (parse_step_text cfg x2 r2 evs2 M2).
  destruct (text_of cfg (tstart x1) (x1 :: r1)) as [t1|] eqn:E1; [|exact I].
  destruct (text_of cfg (tstart x2) (x2 :: r2)) as [t2|] eqn:E2; [|exact I].
  cbn [b_evs b_rest]. split; [|split; reflexivity].
  pose proof (text_blind cfg _ _ _ _ t1 t2 Ht N1 N2 E1 E2) as S.
  pose proof (full_str_nil _ (text_of_full _ _ _ _ E1)) as F1. pose proof (full_str_nil _ (text_of_full _ _ _ _ E2)) as F2.
  constructor; [reflexivity|]. apply Forall2_app; [|constructor; [reflexivity | exact He]].
  destruct (frags t1) eqn:G1, (frags t2) eqn:G2.
  - constructor.
  - exfalso. destruct F1 as [F1 _]. specialize (F1 eq_refl). rewrite S in F1. apply F2 in F1. discriminate.
  - exfalso. destruct F2 as [F2 _]. specialize (F2 eq_refl). rewrite <- S in F2. apply F1 in F2. discriminate.
  - constructor; [|constructor]. unfold erel. cbn [proj]. rewrite S. reflexivity.
Qed.

(* ... and at block level: a block that starts neither with `>>`, `=` nor `>` *)
Definition plain_start (k : tkind) : bool :=
  match k with KMeta | KEq | KTextStep => false | _ => true end.

Lemma run_block_text cfg old x r evs :
  plain_start (kind x) = true -> forallb (fun t => is_empty_tok (kind t)) (x :: r) = false ->
  run_block (x :: r) evs (parse_block cfg old) =
  match parse_step cfg (st0 (x :: r) evs) with
  | Done (_, s) => match b_rest s with [] => Done (b_evs s) | _ => Panic site_bp_finish end
  | Panic p => Panic p
  end.
Proof.
  intros Hk He. unfold run_block. fold (st0 (x :: r) evs). unfold parse_block. rewrite bind_run.
  cbn [peek peek_of st0 b_rest].
  assert (C : (match kind x with
               | KMeta => with_recover (obindM (metadata_entry cfg) (fun ev => match ev with
                     | EvMetadata key _ => if meta_kept cfg old key then ret (Some ev) else ret None
                     | _ => ret (Some ev) end))
               | KEq => with_recover (section_p cfg) | _ => ret None end) = ret None).
  { destruct (kind x); try reflexivity; discriminate. }
  rewrite C. rewrite bind_run. cbn [ret]. unfold parse_multiline_block. rewrite bind_run.
  cbn [all_tokens b_all]. change (b_all (st0 (x :: r) evs)) with (x :: r). rewrite He. rewrite bind_run.
  cbn [peek]. change (peek_of (st0 (x :: r) evs)) with (kind x).
  assert (C2 : (match kind x with KTextStep => parse_text_block cfg | _ => parse_step cfg end) = parse_step cfg).
  { destruct (kind x); try reflexivity; discriminate. }
  rewrite C2. reflexivity.
Qed.

Theorem text_block_blind cfg old x1 r1 x2 r2 evs1 evs2 :
  plain_start (kind x1) = true -> kind x1 = kind x2 ->
  forallb (fun t => is_empty_tok (kind t)) (x1 :: r1) = false ->
  no_marker (x1 :: r1) = true -> no_marker (x2 :: r2) = true ->
  tsim (x1 :: r1) (x2 :: r2) ->
  Forall (fun t => tstr t <> []) (x1 :: r1) -> Forall (fun t => tstr t <> []) (x2 :: r2) ->
  Forall2 erel evs1 evs2 ->
  OR (Forall2 erel) (run_block (x1 :: r1) evs1 (parse_block cfg old)) (run_block (x2 :: r2) evs2 (parse_block cfg old)).
Proof.
  intros Hk Hkk E1 M1 M2 Ht N1 N2 He.
  pose proof (tsim_all_empty _ _ Ht) as Ee.
  rewrite (run_block_text cfg old x1 r1 evs1 Hk E1).
  rewrite (run_block_text cfg old x2 r2 evs2); [|rewrite <- Hkk; exact Hk | rewrite <- Ee; exact E1].
  pose proof (step_text_blind cfg x1 r1 x2 r2 evs1 evs2 M1 M2 Ht N1 N2 He) as R. unfold OR.
  destruct (parse_step cfg (st0 (x1 :: r1) evs1)) as [[u1 s1]|]; [|exact I].
  destruct (parse_step cfg (st0 (x2 :: r2) evs2)) as [[u2 s2]|]; [|destruct (b_rest s1); exact I].
  destruct R as (R & -> & ->). exact R.
Qed.
