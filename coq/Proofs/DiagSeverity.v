(* C07: the severity of a parse-stage diagnostic is a function of its code - for every input.

   Model/Parser.v builds a diagnostic either with [error code labels] (d_err = true) or with [warn code labels]
   (d_err = false), or - for the two number errors - as a literal record.  [DiagMap.pcode_sev] lists, for each of
   the 27 codes, which of the two it is.  This file proves that the list is what the model does:
       events U c s = Done evs -> In (EvDiag d) evs -> DiagMap.pcode_sev (d_code d) = Some (d_err d)
   i.e. every diagnostic the parser model emits, on any source under any extension set, has one of the 27 codes
   and the severity the table gives that code.  With Proofs/DiagMapProofs.v (the entry of the regenerated
   inventory that stands for the code has that severity) this ties the `error!` / `warning!` of each place of
   src/parser to the severity of the model's diagnostics.

   The proof is the traversal of Proofs/C02Off.v (Section Post2: one pass over every function of Model/Parser.v,
   partial correctness, with a predicate P on pushed events) with the hypothesis on diagnostics changed from
   "its code is possible under the configuration" to [dok]: "its code is in the table with its severity"; every
   [error] / [warn] site is discharged by computation.  The lemmas that do not mention diagnostics are those of
   C02Off's imports. *)
From CL Require Import Base.StrLemmas Model.Parser Proofs.ParserGates Proofs.C02Invariance Proofs.C02Wide
  Proofs.C02Quiet Proofs.C02Converse Proofs.ParserOrder.
From CL Require Model.DiagMap.

Definition dok (d : diag) : Prop := DiagMap.pcode_sev (d_code d) = Some (d_err d).

Lemma numeric_value_code ts e :
  numeric_value ts = Some (inl e) -> dok e.
Proof.
  unfold numeric_value. destruct (trim_tokens ts) as [|t0 tr]; [discriminate|].
  match goal with |- match ?S with _ => _ end = _ -> _ => destruct S as [n|] end; [discriminate|].
  assert (I1 : forall a d, int_of a = inl d -> dok d).
  { intros a d. unfold int_of. destruct (_ <=? _); intro H; inversion H. reflexivity. }
  assert (F1 : forall a b d, frac_of a b = inl d -> dok d).
  { intros a b d. unfold frac_of. destruct (int_of a) as [d1|av] eqn:Ea; [intro H; inversion H; subst; exact (I1 _ _ Ea)|].
    destruct (int_of b) as [d2|bv] eqn:Eb; [intro H; inversion H; subst; exact (I1 _ _ Eb)|].
    destruct (bv =? 0); intro H; inversion H. reflexivity. }
  destruct (filter not_ws_comment (t0 :: tr)) as [|x1 [|x2 [|x3 [|x4 [|x5 l]]]]]; try discriminate.
  - destruct (_ && _); [|discriminate]. intro H. inversion H as [H1]. exact (F1 _ _ _ H1).
  - destruct (_ && _); [|discriminate]. intro H. inversion H as [H1].
    destruct (int_of x1) as [d1|iv] eqn:Ei; [inversion H1; subst; exact (I1 _ _ Ei)|].
    destruct (frac_of x2 x4) as [d2|[q|w n d]] eqn:Ef; inversion H1; subst. exact (F1 _ _ _ Ef).
Qed.

Lemma range_or_numeric_code c ts e :
  range_or_numeric c ts = Some (inl e) -> dok e.
Proof.
  unfold range_or_numeric, range_value.
  destruct (negb (has c X_RANGE_VALUES)).
  - destruct (numeric_value ts) as [[d|n]|] eqn:E; intro H; inversion H; subst. exact (numeric_value_code _ _ E).
  - destruct (position _ ts) as [mid|].
    + destruct (numeric_value (firstn mid ts)) as [[d|a]|] eqn:E1.
      * intro H; inversion H; subst. exact (numeric_value_code _ _ E1).
      * destruct (numeric_value (skipn (S mid) ts)) as [[d|b]|] eqn:E2.
        -- intro H; inversion H; subst. exact (numeric_value_code _ _ E2).
        -- discriminate.
        -- destruct (numeric_value ts) as [[d|n]|] eqn:E; intro H; inversion H; subst. exact (numeric_value_code _ _ E).
      * destruct (numeric_value ts) as [[d|n]|] eqn:E; intro H; inversion H; subst. exact (numeric_value_code _ _ E).
    + destruct (numeric_value ts) as [[d|n]|] eqn:E; intro H; inversion H; subst. exact (numeric_value_code _ _ E).
Qed.

Lemma incl_skipn {A} n (l D : list A) : incl l D -> incl (skipn n l) D.
Proof. intros H x Hx. apply H. rewrite <- (firstn_skipn n l). apply in_or_app. right. exact Hx. Qed.
Lemma incl_firstn {A} n (l D : list A) : incl l D -> incl (firstn n l) D.
Proof. intros H x Hx. apply H. rewrite <- (firstn_skipn n l). apply in_or_app. left. exact Hx. Qed.

Section Post2.
  Variable c : pcfg.
  Variable old : bool.
  Variable D : list tok.
  Variable P : pevent -> Prop.
  Hypothesis Pdiag : forall d, dok d -> P (EvDiag d).
  Hypothesis Pstart : forall b, P (EvStart b).
  Hypothesis Pend : forall b, P (EvEnd b).
  Hypothesis Ptext : forall t, P (EvText t).
  Hypothesis Psection : forall n, P (EvSection n).
  Hypothesis Pmeta : forall k v, meta_kept c old k = true -> P (EvMetadata k v).
  Definition inD (s : bp) : Prop := incl (b_rest s) D.
  Definition oP2 (o : option pevent) : Prop := match o with Some ev => P ev | None => True end.
  Hypothesis Hing : forall s o s', inD s -> ingredient_p c s = Done (o, s') -> oP2 o.
  Hypothesis Hcw : forall s o s', inD s -> cookware_p c s = Done (o, s') -> oP2 o.
  Hypothesis Htm : forall s o s', inD s -> timer_p c s = Done (o, s') -> oP2 o.

  Lemma sfx_inD {A} (m : M A) s a s' : sfx m -> m s = Done (a, s') -> inD s -> inD s'.
  Proof. intros Hs E Hi. destruct (Hs _ _ _ E) as [n En]. unfold inD. rewrite En. apply incl_skipn, Hi. Qed.

  Definition evp {A} (m : M A) : Prop :=
    forall s a s', m s = Done (a, s') -> Forall P (b_evs s) -> Forall P (b_evs s').

  Lemma evp_bind {A B} (m : M A) (f : A -> M B) : evp m -> (forall a, evp (f a)) -> evp (bind m f).
  Proof.
    intros Hm Hf s b s2 H G. apply bind_inv in H. destruct H as [a [s1 [E1 E2]]].
    exact (Hf a _ _ _ E2 (Hm _ _ _ E1 G)).
  Qed.
  (* the continuation may use a fact about the value *)
  Lemma evp_bind_val {A B} (Q : A -> Prop) (m : M A) (f : A -> M B) :
    evp m -> retk Q m -> (forall a, Q a -> evp (f a)) -> evp (bind m f).
  Proof.
    intros Hm Hq Hf s b s2 H G. apply bind_inv in H. destruct H as [a [s1 [E1 E2]]].
    exact (Hf a (Hq _ _ _ E1) _ _ _ E2 (Hm _ _ _ E1 G)).
  Qed.
  Lemma evp_same {A} (m : M A) : (forall s a s', m s = Done (a, s') -> b_evs s' = b_evs s) -> evp m.
  Proof. intros H s a s' E G. rewrite (H _ _ _ E). exact G. Qed.

  Ltac same := apply evp_same; intros s r0 s' H;
    cbv beta delta [ret get peek at_kind rest all_tokens parsed current_offset panic] in H; inversion H; reflexivity.

  Lemma evp_ret {A} (a : A) : evp (ret a). Proof. same. Qed.
  Lemma evp_peek : evp peek. Proof. same. Qed.
  Lemma evp_at_kind k : evp (at_kind k). Proof. same. Qed.
  Lemma evp_rest : evp rest. Proof. same. Qed.
  Lemma evp_all_tokens : evp all_tokens. Proof. same. Qed.
  Lemma evp_current_offset : evp current_offset. Proof. same. Qed.
  Lemma evp_panic {A} p : evp (@panic A p). Proof. intros s a s' H. discriminate. Qed.
  Lemma evp_lift {A} (o : outcome A) : evp (lift o).
  Proof. apply evp_same. intros s a s' H. unfold lift in H. destruct o; inversion H. reflexivity. Qed.
  Lemma evp_textM cfg off ts : evp (textM cfg off ts). Proof. apply evp_lift. Qed.
  Lemma evp_event ev : P ev -> evp (event ev).
  Proof. intros Hp s a s' H G. unfold event in H. inversion H; subst. cbn [b_evs]. constructor; assumption. Qed.
  Lemma evp_error k l : DiagMap.pcode_sev k = Some true -> evp (error k l).
  Proof. intro H. unfold error, mkdiag. apply evp_event, Pdiag. exact H. Qed.
  Lemma evp_warn k l : DiagMap.pcode_sev k = Some false -> evp (warn k l).
  Proof. intro H. unfold warn, mkdiag. apply evp_event, Pdiag. exact H. Qed.
  Lemma evp_next_token : evp next_token.
  Proof. apply evp_same. intros s a s' H. unfold next_token in H. destruct (b_rest s); inversion H; reflexivity. Qed.
  Lemma evp_bump_any : evp bump_any.
  Proof. unfold bump_any. apply evp_bind; [apply evp_next_token|]. intros [t|]; [apply evp_ret | apply evp_panic]. Qed.
  Lemma evp_bump k : evp (bump k).
  Proof. unfold bump. apply evp_bind; [apply evp_bump_any|]. intros t. destruct (tk_eqb _ _); [apply evp_ret | apply evp_panic]. Qed.
  Lemma evp_consume k : evp (consume k).
  Proof.
    unfold consume. apply evp_bind; [apply evp_at_kind|]. intros [|]; [|apply evp_ret].
    apply evp_bind; [apply evp_bump_any | intros; apply evp_ret].
  Qed.
  Lemma evp_until f : evp (until f).
  Proof.
    apply evp_same. intros s a s' H. unfold until in H. destruct (position f (b_rest s)); inversion H; subst;
      [apply advance_evs | reflexivity].
  Qed.
  Lemma evp_consume_while f : evp (consume_while f).
  Proof. apply evp_same. intros s a s' H. rewrite consume_while_exact in H. inversion H; subst. apply advance_evs. Qed.
  Lemma evp_with_recover {A} (m : M (option A)) : evp m -> evp (with_recover m).
  Proof.
    intros Hm s a s' H G. unfold with_recover in H.
    destruct (m s) as [[[x|] s1]|] eqn:E; inversion H; subst; [|cbn [b_evs]]; exact (Hm _ _ _ E G).
  Qed.
  Lemma evp_obindM {A B} (m : M (option A)) (f : A -> M (option B)) :
    evp m -> (forall a, evp (f a)) -> evp (obindM m f).
  Proof. intros Hm Hf. unfold obindM. apply evp_bind; [exact Hm|]. intros [a|]; [apply Hf | apply evp_ret]. Qed.
  Lemma evp_sub_block {A} ts (m : M A) : evp m -> evp (sub_block ts m).
  Proof.
    intros Hm s a s' H G. unfold sub_block in H. destruct ts; [discriminate|].
    match type of H with match m ?st with _ => _ end = _ => destruct (m st) as [[x s2]|] eqn:E end; inversion H; subst.
    cbn [b_evs]. exact (Hm _ _ _ E G).
  Qed.

  (* a code is possible: free codes by computation, gated codes from a flag in the context *)
  Ltac code_ok := reflexivity.

  Ltac evp_auto :=
    repeat first
      [ apply evp_ret | apply evp_peek | apply evp_at_kind
      | apply evp_rest | apply evp_all_tokens | apply evp_current_offset | apply evp_panic | apply evp_textM
      | apply evp_lift | apply evp_bump_any | apply evp_bump | apply evp_consume | apply evp_until
      | apply evp_consume_while
      | match goal with
        | |- evp (error _ _) => apply evp_error; code_ok
        | |- evp (warn _ _) => apply evp_warn; code_ok
        | |- evp (event (EvStart _)) => apply evp_event, Pstart
        | |- evp (event (EvEnd _)) => apply evp_event, Pend
        | |- evp (event (EvText _)) => apply evp_event, Ptext
        | |- evp (sub_block _ _) => apply evp_sub_block
        | |- evp (with_recover _) => apply evp_with_recover
        | |- evp (obindM _ _) => apply evp_obindM; [|intros]
        | |- evp (bind _ _) => apply evp_bind; [|intros]
        | |- evp (match ?x with _ => _ end) => destruct x eqn:?
        | |- evp (if ?x then _ else _) => destruct x eqn:?
        | |- evp (let '(_, _) := ?x in _) => destruct x
        end ].

  Lemma evp_comp_body : evp comp_body. Proof. unfold comp_body. evp_auto. Qed.
  Lemma evp_note : evp (note c). Proof. unfold note. evp_auto. Qed.
  Lemma evp_check_note : evp (check_note c). Proof. unfold check_note. evp_auto. Qed.
  Lemma evp_parse_alias ts off : evp (parse_alias c ts off).
  Proof. unfold parse_alias. destruct (has c X_COMPONENT_ALIAS) eqn:Ha; evp_auto. Qed.
  Lemma evp_check_empty_name t : evp (check_empty_name t). Proof. unfold check_empty_name. evp_auto. Qed.
  Lemma evp_parse_inter ts : has c X_INTERMEDIATE_PREPARATIONS = true -> evp (parse_inter ts).
  Proof. intro Hi. unfold parse_inter. cbv zeta. evp_auto. Qed.
  Lemma evp_modifiers_loop fuel : forall acc, evp (modifiers_loop c fuel acc).
  Proof. induction fuel as [|f IH]; intros acc; cbn [modifiers_loop]; evp_auto; try apply IH. Qed.
  Lemma evp_modifiers : evp (modifiers c).
  Proof. unfold modifiers. evp_auto; try apply evp_modifiers_loop. Qed.
  (* without COMPONENT_MODIFIERS no modifier token is collected *)
  Lemma retk_modifiers : retk (fun mts => mts <> [] -> has c X_COMPONENT_MODIFIERS = true) (modifiers c).
  Proof.
    unfold modifiers. destruct (has c X_COMPONENT_MODIFIERS) eqn:H; cbn [negb].
    - intros s a s' _ _. reflexivity.
    - apply retk_ret. intro K. exfalso. apply K. reflexivity.
  Qed.

  Lemma evp_parse_mods_loop fuel : forall ts msp mods inter,
    (ts <> [] -> has c X_COMPONENT_MODIFIERS = true) -> evp (parse_mods_loop c fuel ts msp mods inter).
  Proof.
    induction fuel as [|f IH]; intros ts msp mods inter Hm; cbn [parse_mods_loop]; [apply evp_panic|].
    destruct ts as [|t r]; [apply evp_ret|].
    assert (Hmod : has c X_COMPONENT_MODIFIERS = true) by (apply Hm; discriminate).
    destruct (mod_bit (kind t)); [|apply evp_panic].
    apply evp_bind.
    - destruct (tk_eqb (kind t) KAnd && has c X_INTERMEDIATE_PREPARATIONS) eqn:E; [|apply evp_ret].
      apply andb_prop in E. apply evp_parse_inter, E.
    - intros [i' r']. destruct (_ =? _).
      + apply evp_bind; [apply evp_error; code_ok | intros _; apply IH; intros _; exact Hmod].
      + apply IH; intros _; exact Hmod.
  Qed.
  Lemma evp_parse_modifiers mts mpos :
    (mts <> [] -> has c X_COMPONENT_MODIFIERS = true) -> evp (parse_modifiers c mts mpos).
  Proof.
    intro Hm. unfold parse_modifiers. destruct mts as [|m0 mr]; [apply evp_ret|].
    apply evp_bind; [apply evp_parse_mods_loop, Hm|]. intros [m i]. apply evp_ret.
  Qed.
  (* no modifier token: no bits, no data; without INTERMEDIATE_PREPARATIONS: no data *)
  Lemma retk_parse_modifiers mts mpos :
    retk (fun r => (mts = [] -> fst (fst r) = 0) /\ (has c X_INTERMEDIATE_PREPARATIONS = false -> snd r = None))
         (parse_modifiers c mts mpos).
  Proof.
    unfold parse_modifiers. destruct mts as [|m0 mr].
    - apply retk_ret. split; reflexivity.
    - intros s [[m msp] i] s' E. apply bind_inv in E. destruct E as [[m1 i1] [s1 [E1 E2]]].
      unfold ret in E2. inversion E2; subst. cbn [fst snd]. split; [discriminate|].
      intro Hoff. exact (intermediate_off c _ Hoff _ _ _ _ _ _ _ _ E1).
  Qed.

  Lemma evp_scaling_lock : evp scaling_lock. Proof. unfold scaling_lock, ws_comments. evp_auto. Qed.
  Lemma evp_diag_of ts e : range_or_numeric c ts = Some (inl e) -> evp (event (EvDiag e)).
  Proof. intro H. apply evp_event, Pdiag. exact (range_or_numeric_code c ts e H). Qed.
  Lemma evp_parse_value ts : evp (parse_value c ts).
  Proof.
    unfold parse_value. apply evp_bind; [apply evp_current_offset|]. intros co.
    destruct (range_or_numeric c ts) as [[e|v]|] eqn:E.
    - apply evp_bind; [exact (evp_diag_of ts e E) | intros; apply evp_ret].
    - apply evp_ret.
    - unfold text_value. evp_auto.
  Qed.
  Lemma evp_parse_regular_quantity : evp (parse_regular_quantity c).
  Proof.
    unfold parse_regular_quantity, value_p, consume_rest.
    repeat first [apply evp_scaling_lock | apply evp_parse_value | progress evp_auto].
  Qed.
  Lemma evp_parse_advanced_quantity : evp (parse_advanced_quantity c).
  Proof.
    unfold parse_advanced_quantity, ws_comments, consume_rest.
    repeat first
      [ apply evp_scaling_lock
      | match goal with
        | |- evp (match range_or_numeric c ?v with _ => _ end) =>
            destruct (range_or_numeric c v) as [[e|v0]|] eqn:?
        | |- evp (event (EvDiag ?e)) => eapply evp_diag_of; eassumption
        end
      | progress evp_auto ].
  Qed.
  Lemma evp_parse_quantity ts : evp (parse_quantity c ts).
  Proof.
    unfold parse_quantity.
    repeat first [apply evp_parse_regular_quantity | apply evp_parse_advanced_quantity | progress evp_auto].
  Qed.

  Ltac evp_comp :=
    repeat first [ apply evp_modifiers | apply evp_comp_body | apply evp_note | apply evp_check_note | apply evp_parse_alias
                 | apply evp_check_empty_name | apply evp_parse_quantity
                 | progress evp_auto ].

  Lemma evp_ingredient_p : evp (ingredient_p c).
  Proof.
    unfold ingredient_p. apply evp_bind; [apply evp_current_offset|]. intros start.
    apply evp_obindM; [apply evp_consume|]. intros at_.
    apply evp_bind; [apply evp_current_offset|]. intros mpos.
    apply (evp_bind_val _ _ _ evp_modifiers retk_modifiers). intros mts Hm.
    apply evp_bind; [apply evp_current_offset|]. intros noff.
    apply evp_obindM; [apply evp_comp_body|]. intros bd.
    apply evp_bind; [apply evp_note|]. intros nt.
    apply evp_bind; [apply evp_current_offset|]. intros en.
    apply evp_bind; [apply evp_parse_alias|]. intros [name alias].
    apply evp_bind; [apply evp_check_empty_name|]. intros _.
    apply evp_bind; [apply evp_parse_modifiers, Hm|]. intros [[m msp] inter].
    evp_comp.
  Qed.

  Lemma evp_cookware_p : evp (cookware_p c).
  Proof.
    unfold cookware_p. apply evp_bind; [apply evp_current_offset|]. intros start.
    apply evp_obindM; [apply evp_consume|]. intros h_.
    apply evp_bind; [apply evp_current_offset|]. intros mpos.
    apply (evp_bind_val _ _ _ evp_modifiers retk_modifiers). intros mts Hm.
    apply evp_bind; [apply evp_current_offset|]. intros noff.
    apply evp_obindM; [apply evp_comp_body|]. intros bd.
    apply evp_bind; [apply evp_note|]. intros nt.
    apply evp_bind; [apply evp_current_offset|]. intros en.
    apply evp_bind; [apply evp_parse_alias|]. intros [name alias].
    apply evp_bind; [apply evp_check_empty_name|]. intros _.
    apply evp_bind; [evp_comp|]. intros q.
    apply (evp_bind_val _ _ _ (evp_parse_modifiers mts mpos Hm) (retk_parse_modifiers mts mpos)).
    intros [[m msp] inter] [Hz Hi]. cbn [fst snd] in Hz, Hi.
    apply evp_bind.
    { destruct inter as [d|]; [|apply evp_ret].
      destruct (has c X_INTERMEDIATE_PREPARATIONS) eqn:Ei; [apply evp_error; code_ok|].
      discriminate (Hi eq_refl). }
    intros _. apply evp_bind; [|intros _; apply evp_ret].
    destruct (N.land m M_RECIPE =? M_RECIPE) eqn:Er; [|apply evp_ret].
    assert (Hmod : has c X_COMPONENT_MODIFIERS = true).
    { apply Hm. intro K. rewrite (Hz K) in Er. vm_compute in Er. discriminate. }
    destruct (find _ mts); [apply evp_error; code_ok | apply evp_panic].
  Qed.

  Lemma evp_timer_p : evp (timer_p c).
  Proof.
    unfold timer_p. apply evp_bind; [apply evp_current_offset|]. intros start.
    apply evp_obindM; [apply evp_consume|]. intros t_.
    apply (evp_bind_val _ _ _ evp_modifiers retk_modifiers). intros mts Hm.
    apply evp_bind; [apply evp_current_offset|]. intros noff.
    apply evp_obindM; [apply evp_comp_body|]. intros bd.
    apply evp_bind; [apply evp_current_offset|]. intros en.
    apply evp_bind.
    { destruct mts as [|m0 mr]; [apply evp_ret|].
      assert (Hmod : has c X_COMPONENT_MODIFIERS = true) by (apply Hm; discriminate).
      apply evp_error; code_ok. }
    intros _. evp_comp.
  Qed.

  Lemma evp_metadata_entry : evp (metadata_entry c).
  Proof. unfold metadata_entry, consume_rest. evp_auto. Qed.
  Lemma evp_section_p : evp (section_p c).
  Proof. unfold section_p, ws_comments. evp_auto. Qed.
  Lemma evp_text_block_loop fuel : evp (text_block_loop c fuel).
  Proof. induction fuel as [|f IH]; cbn [text_block_loop]; evp_auto; try apply IH. Qed.
  Lemma evp_parse_text_block : evp (parse_text_block c).
  Proof. unfold parse_text_block. evp_auto. apply evp_text_block_loop. Qed.

  (* ---- blocks: from here on the states stay inside D ---- *)
  Definition evd {A} (m : M A) : Prop :=
    forall s a s', m s = Done (a, s') -> inD s -> Forall P (b_evs s) -> Forall P (b_evs s').
  Lemma evd_of_evp {A} (m : M A) : evp m -> evd m.
  Proof. intros H s a s' E _ G. exact (H _ _ _ E G). Qed.

  Lemma sfx_text_piece :
    sfx (start <- current_offset ;; t0 <- bump_any ;; more <- consume_while (fun k => negb (is_marker k)) ;;
         t <- textM c start (t0 :: more) ;;
         (match frags t with [] => ret tt | _ => event (EvText t) end)).
  Proof. sfx_auto. Qed.

  Lemma evd_step_loop fuel : evd (step_loop c fuel).
  Proof.
    induction fuel as [|f IH]; cbn [step_loop]; [apply evd_of_evp, evp_panic|].
    intros s u s' E Hi G. apply bind_inv in E. destruct E as [r [s1 [E1 E]]].
    apply keep_rest in E1. destruct E1 as [-> ->].
    destruct (b_rest s) as [|t0 r0] eqn:Er; [unfold ret in E; inversion E; subst; exact G|].
    apply bind_inv in E. destruct E as [k [s1 [E1 E]]]. apply keep_peek in E1. destruct E1 as [-> ->].
    apply bind_inv in E. destruct E as [comp [s2 [E2 E]]].
    assert (H2 : Forall P (b_evs s2) /\ oP2 comp /\ inD s2).
    { destruct (peek_of s); try (unfold ret in E2; inversion E2; subst; repeat split; [exact G | exact Hi]).
      - split; [exact (evp_with_recover _ evp_ingredient_p _ _ _ E2 G)|]. split.
        + unfold with_recover in E2. destruct (ingredient_p c s) as [[[x|] sx]|] eqn:Ei; inversion E2; subst; [|exact I].
          exact (Hing _ _ _ Hi Ei).
        + exact (sfx_inD _ _ _ _ (sfx_with_recover _ (sfx_ingredient_p c)) E2 Hi).
      - split; [exact (evp_with_recover _ evp_cookware_p _ _ _ E2 G)|]. split.
        + unfold with_recover in E2. destruct (cookware_p c s) as [[[x|] sx]|] eqn:Ei; inversion E2; subst; [|exact I].
          exact (Hcw _ _ _ Hi Ei).
        + exact (sfx_inD _ _ _ _ (sfx_with_recover _ (sfx_cookware_p c)) E2 Hi).
      - split; [exact (evp_with_recover _ evp_timer_p _ _ _ E2 G)|]. split.
        + unfold with_recover in E2. destruct (timer_p c s) as [[[x|] sx]|] eqn:Ei; inversion E2; subst; [|exact I].
          exact (Htm _ _ _ Hi Ei).
        + exact (sfx_inD _ _ _ _ (sfx_with_recover _ (sfx_timer_p c)) E2 Hi). }
    destruct H2 as [G2 [Pc Hi2]].
    destruct comp as [ev|].
    - apply bind_inv in E. destruct E as [u1 [s3 [E3 E]]].
      refine (IH _ _ _ E (sfx_inD _ _ _ _ (sfx_event ev) E3 Hi2) (evp_event ev Pc _ _ _ E3 G2)).
    - apply bind_inv in E. destruct E as [st [s3 [E3 E]]]. apply keep_current_offset in E3. subst s3.
      apply bind_inv in E. destruct E as [tk [s3 [E3 E]]].
      apply bind_inv in E. destruct E as [more [s4 [E4 E]]].
      apply bind_inv in E. destruct E as [tx [s5 [E5 E]]].
      apply bind_inv in E. destruct E as [u1 [s6 [E6 E]]].
      pose proof (sfx_inD _ _ _ _ sfx_bump_any E3 Hi2) as Hi3.
      pose proof (sfx_inD _ _ _ _ (sfx_consume_while _) E4 Hi3) as Hi4.
      pose proof (sfx_inD _ _ _ _ (sfx_textM c _ _) E5 Hi4) as Hi5.
      pose proof (evp_bump_any _ _ _ E3 G2) as G3.
      pose proof (evp_consume_while _ _ _ _ E4 G3) as G4.
      pose proof (evp_textM c _ _ _ _ _ E5 G4) as G5.
      assert (H6 : inD s6 /\ Forall P (b_evs s6)).
      { destruct (frags tx).
        - unfold ret in E6. inversion E6; subst. split; assumption.
        - split; [exact (sfx_inD _ _ _ _ (sfx_event _) E6 Hi5) | exact (evp_event _ (Ptext tx) _ _ _ E6 G5)]. }
      exact (IH _ _ _ E (proj1 H6) (proj2 H6)).
  Qed.

  Lemma evd_parse_step : evd (parse_step c).
  Proof.
    unfold parse_step. intros s u s' E Hi G.
    apply bind_inv in E. destruct E as [u1 [s1 [E1 E]]].
    apply bind_inv in E. destruct E as [r [s2 [E2 E]]]. apply keep_rest in E2. destruct E2 as [-> ->].
    apply bind_inv in E. destruct E as [u2 [s3 [E3 E]]].
    pose proof (evd_step_loop _ _ _ _ E3 (sfx_inD _ _ _ _ (sfx_event _) E1 Hi) (evp_event _ (Pstart true) _ _ _ E1 G)) as G3.
    exact (evp_event _ (Pend true) _ _ _ E G3).
  Qed.

  Lemma evd_parse_multiline_block : evd (parse_multiline_block c).
  Proof.
    unfold parse_multiline_block. intros s u s' E Hi G.
    apply bind_inv in E. destruct E as [al [s1 [E1 E]]]. unfold all_tokens in E1. inversion E1; subst al s1. clear E1.
    destruct (forallb _ (b_all s)).
    - revert E G. generalize s u s'. change (evp (_r <- consume_rest ;; ret tt)). unfold consume_rest. evp_auto.
    - apply bind_inv in E. destruct E as [k [s1 [E1 E]]]. apply keep_peek in E1. destruct E1 as [-> ->].
      destruct (peek_of s); try exact (evd_parse_step _ _ _ E Hi G).
      exact (evp_parse_text_block _ _ _ E G).
  Qed.

  Lemma evd_parse_block : evd (parse_block c old).
  Proof.
    unfold parse_block. intros s u s' E Hi G.
    apply bind_inv in E. destruct E as [k [s1 [E1 E]]]. apply keep_peek in E1. destruct E1 as [-> ->].
    apply bind_inv in E. destruct E as [mos [s2 [E2 E]]].
    assert (H2 : Forall P (b_evs s2) /\ oP2 mos /\ inD s2).
    { destruct (peek_of s); try (unfold ret in E2; inversion E2; subst; repeat split; [exact G | exact Hi]).
      - split; [|split].
        + refine (evp_with_recover _ _ _ _ _ E2 G). apply evp_obindM; [apply evp_metadata_entry|].
          intros ev. destruct ev; try apply evp_ret. destruct (meta_kept c old key); apply evp_ret.
        + unfold with_recover in E2.
          match type of E2 with match ?m s with _ => _ end = _ => destruct (m s) as [[[x|] sx]|] eqn:Ei end;
            inversion E2; subst; [|exact I].
          apply obindM_inv in Ei. destruct Ei as [ev0 [s3 [Em Ef]]].
          pose proof (retk_metadata_entry c _ _ _ Em) as Hk. cbn [is_meta_or_none] in Hk.
          destruct ev0; try contradiction.
          destruct (meta_kept c old key) eqn:Ek; unfold ret in Ef; inversion Ef. apply Pmeta, Ek.
        + unfold with_recover in E2.
          match type of E2 with match ?m s with _ => _ end = _ => destruct (m s) as [[[x|] sx]|] eqn:Ei end;
            inversion E2; subst; [|exact Hi].
          refine (sfx_inD _ _ _ _ _ Ei Hi). apply sfx_obindM; [unfold metadata_entry, consume_rest; sfx_auto|].
          intros ev. destruct ev; try apply sfx_ret. destruct (meta_kept c old key); apply sfx_ret.
      - split; [exact (evp_with_recover _ evp_section_p _ _ _ E2 G)|]. split.
        + assert (R : retk oP2 (section_p c)).
          { unfold section_p. repeat first [ apply retk_panic | (apply retk_ret; first [exact I | apply Psection])
              | match goal with
                | |- retk _ (obindM _ _) => apply retk_obindM_skip; [exact I | intros]
                | |- retk _ (bind _ _) => apply retk_bind_skip; intros
                | |- retk _ (match ?x with _ => _ end) => destruct x
                end ]. }
          exact (retk_with_recover oP2 _ I R _ _ _ E2).
        + refine (sfx_inD _ _ _ _ (sfx_with_recover _ _) E2 Hi). unfold section_p, ws_comments. sfx_auto. }
    destruct H2 as [G2 [Pc Hi2]].
    destruct mos as [ev|]; [exact (evp_event ev Pc _ _ _ E G2) | exact (evd_parse_multiline_block _ _ _ E Hi2 G2)].
  Qed.

  Lemma run_block_post2 ts evs evs' :
    incl ts D -> run_block ts evs (parse_block c old) = Done evs' -> Forall P evs -> Forall P evs'.
  Proof.
    intros Hi E G. unfold run_block in E. destruct ts as [|t r]; [discriminate|].
    match type of E with match ?m with _ => _ end = _ => destruct m as [[u s']|] eqn:Em end; [|discriminate].
    destruct (b_rest s'); inversion E; subst. exact (evd_parse_block _ _ _ Em Hi G).
  Qed.

  Lemma blocks_loop_post2 fuel : forall ts evs evs',
    incl ts D -> blocks_loop c fuel ts old evs = Done evs' -> Forall P evs -> Forall P evs'.
  Proof.
    induction fuel as [|f IH]; intros ts evs evs' Hi E G; cbn [blocks_loop] in E; [discriminate|].
    destruct (next_block (S (length ts)) ts) as [[blk r]|] eqn:En; [|inversion E; subst; exact G].
    destruct (next_block_app _ _ _ _ En) as (p & q & Ets).
    assert (Hb : incl blk D).
    { intros x Hx. apply Hi. rewrite Ets. apply in_or_app. right. apply in_or_app. left. exact Hx. }
    assert (Hr : incl r D).
    { intros x Hx. apply Hi. rewrite Ets. apply in_or_app. right. apply in_or_app. right. apply in_or_app. right. exact Hx. }
    destruct (run_block blk evs (parse_block c old)) as [evs1|] eqn:Er; cbn [obind] in E; [|discriminate].
    exact (IH _ _ _ Hr E (run_block_post2 blk evs evs1 Hb Er G)).
  Qed.
End Post2.

(* the tokens the block loop of [events] runs over, and its metadata style *)
Definition doc_tokens (U : N -> ucls) (c : pcfg) (s : str) : list tok :=
  match parse_frontmatter c s with
  | Some fm => match lex_at U (cook_text fm) (cook_off fm) with Some ts => ts | None => [] end
  | None => match lex_at U s 0 with Some ts => ts | None => [] end
  end.
Definition doc_old (c : pcfg) (s : str) : bool :=
  match parse_frontmatter c s with Some _ => false | None => true end.

Theorem events_post2 (U : N -> ucls) (c : pcfg) (s : str) (P : pevent -> Prop) :
  (forall d, dok d -> P (EvDiag d)) ->
  (forall b, P (EvStart b)) -> (forall b, P (EvEnd b)) -> (forall t, P (EvText t)) ->
  (forall n, P (EvSection n)) -> (forall t, P (EvYaml t)) ->
  (forall k v, meta_kept c (doc_old c s) k = true -> P (EvMetadata k v)) ->
  (forall st o st', incl (b_rest st) (doc_tokens U c s) -> ingredient_p c st = Done (o, st') -> oP2 P o) ->
  (forall st o st', incl (b_rest st) (doc_tokens U c s) -> cookware_p c st = Done (o, st') -> oP2 P o) ->
  (forall st o st', incl (b_rest st) (doc_tokens U c s) -> timer_p c st = Done (o, st') -> oP2 P o) ->
  forall evs, events U c s = Done evs -> Forall P evs.
Proof.
  intros Pdiag Pstart Pend Ptext Psection Pyaml Pmeta Hing Hcw Htm evs E.
  unfold events in E. unfold doc_tokens, doc_old in *. destruct (parse_frontmatter c s) as [fm|].
  - destruct (lex_at U (cook_text fm) (cook_off fm)) as [ts|]; [|discriminate].
    match type of E with obind ?b _ = _ => destruct b as [revs|] eqn:Eb end; cbn [obind] in E; inversion E; subst.
    apply Forall_rev.
    refine (blocks_loop_post2 c false ts P Pdiag Pstart Pend Ptext Psection Pmeta Hing Hcw Htm _ ts _ revs (incl_refl _) Eb _).
    constructor; [apply Pyaml | constructor].
  - destruct (lex_at U s 0) as [ts|]; [|discriminate].
    match type of E with obind ?b _ = _ => destruct b as [revs|] eqn:Eb end; cbn [obind] in E; inversion E; subst.
    apply Forall_rev.
    exact (blocks_loop_post2 c true ts P Pdiag Pstart Pend Ptext Psection Pmeta Hing Hcw Htm _ ts _ revs (incl_refl _) Eb (Forall_nil _)).
Qed.

(* ---------------------------------------------------------------- what the component parsers return *)
Ltac skip1 :=
  first [ apply retk_obindM_skip; [exact I | intros] | apply retk_bind_skip; intros ];
  repeat match goal with |- retk _ (let '(_, _) := ?x in _) => destruct x end.

Lemma ingredient_any (Q : pevent -> Prop) c : (forall i, Q (EvIngredient i)) -> retk (oP2 Q) (ingredient_p c).
Proof. intro HQ. unfold ingredient_p. skip_auto ltac:(first [exact I | apply HQ]). Qed.
Lemma cookware_any (Q : pevent -> Prop) c : (forall k, Q (EvCookware k)) -> retk (oP2 Q) (cookware_p c).
Proof. intro HQ. unfold cookware_p. skip_auto ltac:(first [exact I | apply HQ]). Qed.
Lemma timer_any2 (Q : pevent -> Prop) c : (forall t, Q (EvTimer t)) -> retk (oP2 Q) (timer_p c).
Proof. intro HQ. unfold timer_p. skip_auto ltac:(first [exact I | apply HQ]). Qed.

(* ---------------------------------------------------------------- the severity of every diagnostic *)
Definition Psev (ev : pevent) : Prop := match ev with EvDiag d => dok d | _ => True end.

Theorem events_code_severity U c s evs d :
  events U c s = Done evs -> In (EvDiag d) evs ->
  DiagMap.pcode_sev (d_code d) = Some (d_err d).
Proof.
  intros E Hin.
  assert (F : Forall Psev evs).
  { refine (events_post2 U c s Psev _ _ _ _ _ _ _ _ _ _ evs E); try (intros; exact I).
    - intros d0 H. exact H.
    - intros st o st' _. apply ingredient_any. intros; exact I.
    - intros st o st' _. apply cookware_any. intros; exact I.
    - intros st o st' _. apply timer_any2. intros; exact I. }
  exact (proj1 (Forall_forall _ _) F _ Hin).
Qed.
