(* C03_parser_shaped: every event stream of the pull-parser model lies in the stream grammar
   of Model/Events.v ([parser_shaped]) after the bridge of Model/EventBridge.v - blocks are
   bracketed by Start k / End k and not nested, text and components occur only inside a block
   (components only in a step), front matter / metadata / sections only between blocks, a text
   event is never empty, intermediate-reference data comes only with the REF modifier and a
   non-negative value, a timer has a name or a quantity.  This is the hypothesis of the analysis
   theorems (C06).  Partial correctness suffices (if [events] returns, the stream is shaped), so
   nothing is assumed about the configuration flags; that [events] returns is C03_events_total. *)
From CL Require Import Base.StrLemmas Model.Lexer Model.Parser Model.EventBridge
  Proofs.LexerProofs Proofs.ParserSeg Proofs.ParserWp.
From CL Require Model.Events.

(* ------------------------------------------------------------------ the grammar on a reversed queue *)

Lemma shape_run_app p a b :
  Events.shape_run p (a ++ b) = match Events.shape_run p a with Some p' => Events.shape_run p' b | None => None end.
Proof.
  revert p. induction a as [|e a IH]; intro p; cbn [app Events.shape_run]; [reflexivity|].
  destruct (Events.shape_step p e); [apply IH|reflexivity].
Qed.

(* the events pushed so far (newest first) form a prefix of a stream, ending in state p *)
Definition shp (evs : list pevent) (p : Events.pstate) : Prop :=
  Events.shape_run Events.POut (abstract_events (rev evs)) = Some p.

Lemma shp_push ev evs p p' :
  shp evs p -> Events.shape_step p (abstract_event ev) = Some p' -> shp (ev :: evs) p'.
Proof.
  unfold shp, abstract_events. intros H Hs. cbn [rev]. rewrite map_app, shape_run_app, H.
  cbn [map Events.shape_run]. rewrite Hs. reflexivity.
Qed.

Lemma shp_diags ds evs p : Forall (fun e => is_diag e = true) ds -> shp evs p -> shp (ds ++ evs) p.
Proof.
  induction 1 as [|d ds Hd _ IH]; intro H; cbn [app]; [exact H|].
  eapply shp_push; [apply IH; exact H|]. destruct d; try discriminate.
  cbn [abstract_event]. destruct (d_err d); reflexivity.
Qed.

Lemma shp_quiet s s' p : quiet s s' -> shp (b_evs s) p -> shp (b_evs s') p.
Proof. intros (ds & E1 & F) H. rewrite E1. apply shp_diags; assumption. Qed.

Lemma shp_rl k s s' p : rl k s s' -> shp (b_evs s) p -> shp (b_evs s') p.
Proof. intros (Q1 & _). apply shp_quiet. exact Q1. Qed.

(* [m] takes a queue in grammar state p to one in state q, and its result satisfies P *)
Definition moves {A} (p q : Events.pstate) (m : M A) (P : A -> Prop) : Prop :=
  forall s a s', m s = Done (a, s') -> (shp (b_evs s) p -> shp (b_evs s') q) /\ P a.

Definition any {A} (_ : A) : Prop := True.

Lemma moves_bind {A B} p q r (m : M A) (f : A -> M B) P Q :
  moves p q m P -> (forall a, P a -> moves q r (f a) Q) -> moves p r (bind m f) Q.
Proof.
  intros Hm Hf s b s2 E1. unfold bind in E1. destruct (m s) as [[a s1]|x] eqn:Em; [|discriminate].
  destruct (Hm _ _ _ Em) as (H1 & Pa). destruct (Hf a Pa _ _ _ E1) as (H2 & Qb). split; [tauto|exact Qb].
Qed.

Lemma moves_relv k {A} (m : M A) p P : rel k m -> valp m P -> moves p p m P.
Proof. intros Hr Hv s a s' E1. split; [eapply shp_rl, Hr; exact E1|eapply Hv; exact E1]. Qed.

Lemma moves_rel k {A} (m : M A) p : rel k m -> moves p p m any.
Proof. intros Hr. eapply moves_relv; [exact Hr|]. intros s a s' _. exact I. Qed.

Lemma moves_ret {A} (a : A) p (P : A -> Prop) : P a -> moves p p (ret a) P.
Proof. intros H s a' s' E1. injection E1 as <- <-. tauto. Qed.

Lemma moves_panic {A} site p q (P : A -> Prop) : moves p q (panic site) P.
Proof. intros s a s' E1. discriminate. Qed.

Lemma moves_event ev p q : Events.shape_step p (abstract_event ev) = Some q -> moves p q (event ev) any.
Proof. intros H s a s' E1. injection E1 as _ <-. split; [|exact I]. cbn [b_evs]. intro H0. eapply shp_push; eassumption. Qed.

Lemma moves_weaken {A} p q (m : M A) (P P' : A -> Prop) : moves p q m P -> (forall a, P a -> P' a) -> moves p q m P'.
Proof. intros H HI s a s' E1. destruct (H _ _ _ E1) as (H1 & H2). split; [exact H1|apply HI; exact H2]. Qed.

Lemma item_step ev : item_ok ev -> Events.shape_step (Events.PIn Events.BKStep) (abstract_event ev) = Some (Events.PIn Events.BKStep).
Proof.
  unfold item_ok. intro H. destruct (abstract_event ev); cbn [Events.shape_step]; rewrite ?H; try reflexivity;
    cbn [Events.item_event_ok] in H; discriminate.
Qed.

Lemma text_step k t : item_ok (EvText t) -> Events.shape_step (Events.PIn k) (abstract_event (EvText t)) = Some (Events.PIn k).
Proof. unfold item_ok. cbn [abstract_event Events.shape_step]. intros ->. reflexivity. Qed.

(* ------------------------------------------------------------------ texts are never empty events *)

Definition frags_full (t : text) : Prop := Forall (fun f => ftext f <> []) (frags t).

Lemma append_fragment_full t f t' : frags_full t -> append_fragment t f = Done t' -> frags_full t'.
Proof.
  unfold append_fragment. intros H E1. destruct (_ <=? _); [|discriminate].
  destruct (ftext f) as [|c r] eqn:Ef; injection E1 as <-; [exact H|].
  unfold frags_full; cbn [frags]. apply Forall_app. split; [exact H|]. constructor; [rewrite Ef; discriminate|constructor].
Qed.

Lemma append_str_full t x off t' : frags_full t -> append_str t x off = Done t' -> frags_full t'.
Proof. unfold append_str. apply append_fragment_full. Qed.

Lemma text_loop_full cfg ts : forall t cs cur t',
  frags_full t -> text_loop cfg ts t cs cur = Done t' -> frags_full t'.
Proof.
  induction ts as [|tk r IH]; intros t cs cur t' H E1; cbn [text_loop] in E1.
  - eapply append_str_full; eassumption.
  - destruct (kind tk); try (eapply IH; eassumption);
      (destruct (append_str t cur cs) as [t1|] eqn:Ea; cbn [obind] in E1; [|discriminate]);
      pose proof (append_str_full _ _ _ _ H Ea) as H1.
    + destruct (_ && _); [discriminate|]. eapply IH; eassumption.
    + match type of E1 with obind ?x _ = _ => destruct x as [t2|] eqn:Eb; cbn [obind] in E1; [|discriminate] end.
      eapply IH; [|exact E1]. eapply append_fragment_full; eassumption.
    + eapply IH; eassumption.
    + eapply IH; eassumption.
Qed.

Lemma text_of_full cfg off ts t : text_of cfg off ts = Done t -> frags_full t.
Proof.
  unfold text_of. destruct ts as [|t0 r]; [intro E1; injection E1 as <-; constructor|].
  destruct (_ =? _); [|discriminate]. apply text_loop_full. constructor.
Qed.

Lemma full_text_str t : frags_full t -> frags t <> [] -> text_str t <> [].
Proof.
  unfold frags_full, text_str. destruct (frags t) as [|f r]; [congruence|]. intros H _.
  inversion H as [|? ? Hf _]; subst. cbn [map concat]. destruct (fsoft f); [discriminate|].
  destruct (ftext f); [congruence|discriminate].
Qed.

Lemma text_str_abstract t : text_str (abstract_text t) = text_str t.
Proof. reflexivity. Qed.

Lemma text_item_ok t : frags_full t -> frags t <> [] -> item_ok (EvText t).
Proof.
  intros H Hn. unfold item_ok. cbn [abstract_event Events.item_event_ok]. rewrite text_str_abstract.
  pose proof (full_text_str t H Hn). destruct (text_str t); [congruence|reflexivity].
Qed.

Lemma not_text_empty_frags t : is_text_empty t = false -> frags t <> [].
Proof. unfold is_text_empty. destruct (frags t); [discriminate|discriminate]. Qed.

Lemma moves_textM cfg off ts p : moves p p (textM cfg off ts) frags_full.
Proof.
  intros s t s' E1. unfold textM, lift in E1. destruct (text_of cfg off ts) as [t0|] eqn:Et; [|discriminate].
  injection E1 as <- <-. split; [tauto|]. eapply text_of_full; exact Et.
Qed.

(* ------------------------------------------------------------------ blocks *)

Section Blocks.
  Variable cfg : pcfg.

  Notation In1 := (Events.PIn Events.BKStep).
  Notation In0 := (Events.PIn Events.BKText).

  Lemma step_comp_moves k :
    moves In1 In1 (match k with
                   | KAt => with_recover (ingredient_p cfg)
                   | KHash => with_recover (cookware_p cfg)
                   | KTilde => with_recover (timer_p cfg)
                   | _ => ret None
                   end) opt_item_ok.
  Proof.
    destruct k; try (apply moves_ret; apply opt_item_ok_none);
      (eapply moves_relv; [apply rel_with_recover; auto with prel|apply valp_with_recover]).
    - apply valp_ingredient_p.
    - apply valp_cookware_p.
    - apply valp_timer_p.
  Qed.

  Ltac mrel := eapply moves_bind; [eapply (moves_rel false); first [solve [auto with prel]|apply rel_weaken; solve [auto with prel]]|intros ? _].

  Lemma step_loop_moves fuel : moves In1 In1 (step_loop cfg fuel) any.
  Proof.
    induction fuel as [|f IH]; cbn [step_loop]; [apply moves_panic|].
    eapply moves_bind; [eapply (moves_rel false); auto with prel|]. intros r _.
    destruct r as [|r0 rr]; [apply moves_ret; exact I|].
    mrel. eapply moves_bind; [apply step_comp_moves|]. intros [ev|] Hev.
    - eapply moves_bind; [apply moves_event, item_step, Hev; reflexivity|]. intros _ _. exact IH.
    - mrel. mrel. mrel. eapply moves_bind; [apply moves_textM|]. intros t Ht.
      eapply (moves_bind _ _ _ _ _ any); [|intros _ _; exact IH].
      destruct (frags t) as [|f0 fr] eqn:Ef; [apply moves_ret; exact I|].
      apply moves_event, text_step, text_item_ok; [exact Ht|rewrite Ef; discriminate].
  Qed.

  Lemma parse_step_moves : moves Events.POut Events.POut (parse_step cfg) any.
  Proof.
    unfold parse_step. eapply moves_bind; [apply (moves_event _ Events.POut In1); reflexivity|]. intros _ _.
    mrel. eapply moves_bind; [apply step_loop_moves|]. intros _ _.
    apply (moves_event _ In1 Events.POut). reflexivity.
  Qed.

  Lemma text_block_loop_moves fuel : moves In0 In0 (text_block_loop cfg fuel) any.
  Proof.
    induction fuel as [|f IH]; cbn [text_block_loop]; [apply moves_panic|].
    eapply moves_bind; [eapply (moves_rel false); auto with prel|]. intros r _.
    destruct r as [|r0 rr]; [apply moves_ret; exact I|].
    mrel. eapply moves_bind; [eapply (moves_rel false)|intros ? _].
    { match goal with |- rel _ (match ?x with _ => _ end) => destruct x end; rel_auto. }
    mrel. mrel. mrel. eapply moves_bind; [apply moves_textM|]. intros t Ht.
    eapply (moves_bind _ _ _ _ _ any).
    - destruct (is_text_empty t) eqn:Ee; [apply moves_ret; exact I|].
      apply moves_event, text_step, text_item_ok; [exact Ht|apply not_text_empty_frags; exact Ee].
    - intros _ _. mrel. destruct (_ <? _)%nat; [exact IH|apply moves_panic].
  Qed.

  Lemma parse_text_block_moves : moves Events.POut Events.POut (parse_text_block cfg) any.
  Proof.
    unfold parse_text_block. eapply moves_bind; [apply (moves_event _ Events.POut In0); reflexivity|]. intros _ _.
    mrel. eapply moves_bind; [apply text_block_loop_moves|]. intros _ _.
    apply (moves_event _ In0 Events.POut). reflexivity.
  Qed.

  Lemma parse_multiline_block_moves : moves Events.POut Events.POut (parse_multiline_block cfg) any.
  Proof.
    unfold parse_multiline_block. mrel. destruct (forallb _ _).
    - eapply (moves_rel false). rel_auto.
    - mrel. match goal with |- moves _ _ (match ?x with _ => _ end) _ => destruct x end;
        first [apply parse_text_block_moves|apply parse_step_moves].
  Qed.

  (* the single-line events *)
  Definition line_ev (ev : pevent) : Prop :=
    match ev with EvMetadata _ _ | EvSection _ => True | _ => False end.
  Definition opt_line_ev (o : option pevent) : Prop := forall ev, o = Some ev -> line_ev ev.

  Lemma opt_line_none : opt_line_ev None.
  Proof. intros ev H. discriminate. Qed.

  Lemma line_step ev : line_ev ev -> Events.shape_step Events.POut (abstract_event ev) = Some Events.POut.
  Proof. destruct ev; cbn [line_ev]; try contradiction; reflexivity. Qed.

  Ltac lskip :=
    lazymatch goal with
    | |- valp (obindM _ _) _ => apply valp_oskip; [apply opt_line_none|intros ?]
    | |- valp (bind _ _) _ => apply valp_skip; intros ?
    end.

  Lemma valp_metadata_entry : valp (metadata_entry cfg) opt_line_ev.
  Proof.
    unfold metadata_entry. do 3 lskip. destruct a1.
    - do 6 lskip. apply valp_ret. intros ev H. injection H as <-. exact I.
    - do 2 lskip. apply valp_ret. apply opt_line_none.
  Qed.

  Lemma valp_section_p : valp (section_p cfg) opt_line_ev.
  Proof.
    unfold section_p. do 8 lskip. destruct a6.
    - apply valp_ret. intros ev H. injection H as <-. exact I.
    - lskip. apply valp_ret. apply opt_line_none.
  Qed.

  Lemma parse_block_moves old_style : moves Events.POut Events.POut (parse_block cfg old_style) any.
  Proof.
    unfold parse_block. mrel.
    eapply (moves_bind _ Events.POut _ _ _ opt_line_ev).
    - match goal with |- moves _ _ (match ?x with _ => _ end) _ => destruct x end;
        try (apply moves_ret; apply opt_line_none).
      + eapply moves_relv; [rel_auto|]. apply valp_with_recover.
        eapply (valp_bind _ _ opt_line_ev); [apply valp_metadata_entry|]. intros [ev|] Hev; [|apply valp_ret; apply opt_line_none].
        pose proof (Hev ev eq_refl) as Hl.
        destruct ev; try (apply valp_ret; exact Hev). destruct (meta_kept _ _ _); apply valp_ret; [exact Hev|apply opt_line_none].
      + eapply moves_relv; [rel_auto|]. apply valp_with_recover, valp_section_p.
    - intros [ev|] Hev; [|apply parse_multiline_block_moves].
      apply moves_event, line_step, Hev. reflexivity.
  Qed.

  Lemma run_block_shape ts evs old_style evs' :
    run_block ts evs (parse_block cfg old_style) = Done evs' -> shp evs Events.POut -> shp evs' Events.POut.
  Proof.
    unfold run_block. destruct ts as [|t0 tr]; [discriminate|].
    match goal with |- match ?y with _ => _ end = _ -> _ => destruct y as [[u s1]|x] eqn:Em; [|discriminate] end.
    destruct (b_rest s1); [|discriminate]. intro H. injection H as <-.
    destruct (parse_block_moves old_style _ _ _ Em) as (H1 & _). exact H1.
  Qed.

  Lemma blocks_loop_shape fuel : forall ts old_style evs evs',
    blocks_loop cfg fuel ts old_style evs = Done evs' -> shp evs Events.POut -> shp evs' Events.POut.
  Proof.
    induction fuel as [|f IH]; intros ts old_style evs evs' H H0; cbn [blocks_loop] in H; [discriminate|].
    destruct (next_block (S (length ts)) ts) as [[blk r]|]; [|injection H as <-; exact H0].
    destruct (run_block blk evs (parse_block cfg old_style)) as [evs1|] eqn:Er; cbn [obind] in H; [|discriminate].
    eapply IH; [exact H|]. eapply run_block_shape; eassumption.
  Qed.
End Blocks.

(* ------------------------------------------------------------------ whole documents *)

Theorem events_shaped (U : N -> ucls) (cfg : pcfg) (s : str) (evs : list pevent) :
  events U cfg s = Done evs -> Events.parser_shaped (abstract_events evs).
Proof.
  unfold events. intro H. destruct (parse_frontmatter cfg s) as [fm|].
  - destruct (lex_at U (cook_text fm) (cook_off fm)) as [ts|]; [|discriminate].
    match type of H with obind ?y _ = _ => destruct y as [evs1|] eqn:Eb; cbn [obind] in H; [|discriminate] end.
    injection H as <-. eapply (blocks_loop_shape cfg) in Eb; [exact Eb|]. reflexivity.
  - destruct (lex_at U s 0) as [ts|]; [|discriminate].
    match type of H with obind ?y _ = _ => destruct y as [evs1|] eqn:Eb; cbn [obind] in H; [|discriminate] end.
    injection H as <-. eapply (blocks_loop_shape cfg) in Eb; [exact Eb|]. reflexivity.
Qed.

(* a stream cut anywhere is a prefix of a shaped stream *)
Lemma shape_run_prefix p a b q : Events.shape_run p (a ++ b) = Some q -> exists r, Events.shape_run p a = Some r.
Proof. rewrite shape_run_app. destruct (Events.shape_run p a) as [r|]; [intros _; exists r; reflexivity|discriminate]. Qed.

Theorem events_prefix_shaped (U : N -> ucls) (cfg : pcfg) (s : str) (evs : list pevent) n :
  events U cfg s = Done evs -> Events.parser_shaped_prefix (abstract_events (firstn n evs)).
Proof.
  intro H. apply events_shaped in H. unfold Events.parser_shaped, Events.parser_shaped_prefix in *.
  rewrite <- (firstn_skipn n evs) in H. unfold abstract_events in *. rewrite map_app in H.
  eapply shape_run_prefix. exact H.
Qed.

(* the metadata-only iterator: front matter alone, or metadata events and diagnostics *)
Section Meta.
  Variable cfg : pcfg.

  Lemma meta_loop_shape fuel : forall ts evs evs',
    meta_loop cfg fuel ts evs = Done evs' -> shp evs Events.POut -> shp evs' Events.POut.
  Proof.
    induction fuel as [|f IH]; intros ts evs evs' H H0; cbn [meta_loop] in H; [discriminate|].
    destruct (skip_to_meta ts true) as [|t0 tr]; [injection H as <-; exact H0|].
    destruct (meta_take_line (t0 :: tr)) as [blk r]. destruct blk as [|b0 br]; [discriminate|].
    match type of H with match ?y with _ => _ end = _ => destruct y as [[ok s1]|x] eqn:Em; [|discriminate] end.
    assert (Hs : shp (b_evs s1) Events.POut).
    { assert (Hm : moves Events.POut Events.POut
               (o <- metadata_entry cfg ;; match o with Some ev => event ev ;;; ret true | None => ret false end) any).
      { eapply (moves_bind _ Events.POut _ _ _ (opt_line_ev)); [eapply moves_relv; [auto with prel|apply valp_metadata_entry]|].
        intros [ev|] Hev; [|apply moves_ret; exact I].
        eapply moves_bind; [apply moves_event, line_step, Hev; reflexivity|]. intros _ _. apply moves_ret; exact I. }
      destruct (Hm _ _ _ Em) as (H1 & _). apply H1. exact H0. }
    destruct ok.
    - destruct (b_rest s1); [|discriminate]. eapply IH; eassumption.
    - eapply IH; eassumption.
  Qed.
End Meta.

Theorem meta_events_shaped (U : N -> ucls) (cfg : pcfg) (s : str) (evs : list pevent) :
  meta_events U cfg s = Done evs -> Events.parser_shaped (abstract_events evs).
Proof.
  unfold meta_events. intro H. destruct (parse_frontmatter cfg s) as [fm|].
  - injection H as <-. reflexivity.
  - destruct (lex_at U s 0) as [ts|]; [|discriminate].
    match type of H with obind ?y _ = _ => destruct y as [evs1|] eqn:Eb; cbn [obind] in H; [|discriminate] end.
    injection H as <-. eapply (meta_loop_shape cfg) in Eb; [exact Eb|]. reflexivity.
Qed.
