(* Every location carried by a parser event is well placed (C04): the spans of an event, the
   fragments of its texts, the labels of its diagnostics.  Consequences of the invariant
   [ev_ok] established for every event of [events]/[meta_events] in ParserTotal.v. *)
From CL Require Import Base.StrLemmas Model.Lexer Model.Parser Proofs.LexerProofs Proofs.ParserSeg
  Proofs.ParserTotal.

(* ------------------------------------------------------------------ the spans of an event *)

Definition frag_span (f : frag) : span := (foff f, frag_end f).

(* TextData::span and the span of every fragment *)
Definition text_spans (t : text) : list span := text_span t :: map frag_span (frags t).

Definition otext_spans (o : option text) : list span :=
  match o with Some t => text_spans t | None => [] end.

Definition qvalue_spans (v : qvalue) : list span :=
  qv_span v :: match qlock v with Some l => [l] | None => [] end.

Definition quantity_spans (q : quantity) : list span :=
  q_span q :: qvalue_spans (q_val q) ++ otext_spans (q_unit q).

Definition event_spans (ev : pevent) : list span :=
  match ev with
  | EvYaml t => text_spans t
  | EvMetadata k v => text_spans k ++ text_spans v
  | EvSection n => otext_spans n
  | EvStart _ | EvEnd _ => []
  | EvText t => text_spans t
  | EvIngredient i =>
      i_span i :: i_mods_span i ::
      (match i_inter i with Some d => [im_span d] | None => [] end) ++
      text_spans (i_name i) ++ otext_spans (i_alias i) ++
      (match i_qty i with Some q => quantity_spans q | None => [] end) ++
      otext_spans (i_note i)
  | EvCookware c =>
      c_span c :: c_mods_span c ::
      text_spans (c_name c) ++ otext_spans (c_alias c) ++
      (match c_qty c with Some (v, sp) => sp :: qvalue_spans v | None => [] end) ++
      otext_spans (c_note c)
  | EvTimer t =>
      t_span t :: otext_spans (t_name t) ++
      (match t_qty t with Some q => quantity_spans q | None => [] end)
  | EvDiag d => d_labels d
  end.

(* the texts of an event *)
Definition otext_list (o : option text) : list text := match o with Some t => [t] | None => [] end.

Definition quantity_texts (o : option quantity) : list text :=
  match o with Some q => otext_list (q_unit q) | None => [] end.

Definition event_texts (ev : pevent) : list text :=
  match ev with
  | EvYaml t => [t]
  | EvMetadata k v => [k; v]
  | EvSection n => otext_list n
  | EvStart _ | EvEnd _ => []
  | EvText t => [t]
  | EvIngredient i => i_name i :: otext_list (i_alias i) ++ quantity_texts (i_qty i) ++ otext_list (i_note i)
  | EvCookware c => c_name c :: otext_list (c_alias c) ++ otext_list (c_note c)
  | EvTimer t => otext_list (t_name t) ++ quantity_texts (t_qty t)
  | EvDiag _ => []
  end.

Section Spans.
  Variable src : str.
  Variable cfg : pcfg.
  Hypothesis new_label : p_note_label_old cfg = false.

  Notation sp_ok := (span_ok src).

  Lemma text_spans_ok t : text_ok src t -> Forall sp_ok (text_spans t).
  Proof.
    intro H. unfold text_spans. constructor; [apply text_span_ok; exact H|].
    destruct H as (HF & _). apply Forall_map. eapply Forall_impl; [|exact HF].
    intros f Hf. unfold frag_span, frag_end. apply sub_span_ok. exact Hf.
  Qed.

  Lemma otext_spans_ok o : opt_ok (text_ok src) o -> Forall sp_ok (otext_spans o).
  Proof. destruct o as [t|]; cbn [opt_ok otext_spans]; [apply text_spans_ok|constructor]. Qed.

  Lemma qvalue_spans_ok v : qvalue_ok src v -> Forall sp_ok (qvalue_spans v).
  Proof.
    intros (H1 & H2). unfold qvalue_spans. constructor; [exact H1|].
    destruct (qlock v); cbn [opt_ok] in H2; [constructor; [exact H2|constructor]|constructor].
  Qed.

  Lemma quantity_spans_ok q : quantity_ok src q -> Forall sp_ok (quantity_spans q).
  Proof.
    intros (H1 & H2 & H3). unfold quantity_spans. constructor; [exact H3|].
    apply Forall_app. split; [apply qvalue_spans_ok; exact H1|apply otext_spans_ok; exact H2].
  Qed.

  Lemma event_spans_ok ev : ev_ok src cfg ev -> Forall sp_ok (event_spans ev).
  Proof.
    destruct ev as [t|k v|n|b|b|t|i|c|t|d]; cbn [ev_ok event_spans].
    - apply text_spans_ok.
    - intros (H1 & H2). apply Forall_app. split; apply text_spans_ok; assumption.
    - apply otext_spans_ok.
    - constructor.
    - constructor.
    - apply text_spans_ok.
    - intros (H1 & H2 & H3 & H4 & H5 & H6 & H7). constructor; [exact H7|]. constructor; [exact H1|].
      repeat (apply Forall_app; split).
      + destruct (i_inter i); cbn [opt_ok] in H2; [constructor; [exact H2|constructor]|constructor].
      + apply text_spans_ok; exact H3.
      + apply otext_spans_ok; exact H4.
      + destruct (i_qty i); cbn [opt_ok] in H5; [apply quantity_spans_ok; exact H5|constructor].
      + apply otext_spans_ok; exact H6.
    - intros (H1 & H2 & H3 & H4 & H5 & H6). constructor; [exact H6|]. constructor; [exact H1|].
      repeat (apply Forall_app; split).
      + apply text_spans_ok; exact H2.
      + apply otext_spans_ok; exact H3.
      + destruct (c_qty c) as [[v sp]|]; cbn [opt_ok fst snd] in H4; [|constructor].
        constructor; [apply H4|apply qvalue_spans_ok; apply H4].
      + apply otext_spans_ok; exact H5.
    - intros (H1 & H2 & H3). constructor; [exact H3|]. apply Forall_app. split.
      + apply otext_spans_ok; exact H1.
      + destruct (t_qty t); cbn [opt_ok] in H2; [apply quantity_spans_ok; exact H2|constructor].
    - intro H. apply H. exact new_label.
  Qed.

  Lemma otext_list_ok o : opt_ok (text_ok src) o -> Forall (text_ok src) (otext_list o).
  Proof. destruct o; cbn [opt_ok otext_list]; [intro H; constructor; [exact H|constructor]|constructor]. Qed.

  Lemma quantity_texts_ok o : opt_ok (quantity_ok src) o -> Forall (text_ok src) (quantity_texts o).
  Proof. destruct o as [q|]; cbn [opt_ok quantity_texts]; [intros (_ & H & _); apply otext_list_ok; exact H|constructor]. Qed.

  Lemma event_texts_ok ev : ev_ok src cfg ev -> Forall (text_ok src) (event_texts ev).
  Proof.
    destruct ev as [t|k v|n|b|b|t|i|c|t|d]; cbn [ev_ok event_texts].
    - intro H. constructor; [exact H|constructor].
    - intros (H1 & H2). constructor; [exact H1|constructor; [exact H2|constructor]].
    - apply otext_list_ok.
    - constructor.
    - constructor.
    - intro H. constructor; [exact H|constructor].
    - intros (H1 & H2 & H3 & H4 & H5 & H6 & H7). constructor; [exact H3|].
      repeat (apply Forall_app; split); [apply otext_list_ok; exact H4|apply quantity_texts_ok; exact H5|apply otext_list_ok; exact H6].
    - intros (H1 & H2 & H3 & H4 & H5 & H6). constructor; [exact H2|].
      apply Forall_app; split; apply otext_list_ok; assumption.
    - intros (H1 & H2 & H3). apply Forall_app; split; [apply otext_list_ok; exact H1|apply quantity_texts_ok; exact H2].
    - constructor.
  Qed.
End Spans.

(* ------------------------------------------------------------------ the statements of C04 *)

Theorem event_spans_all_ok (U : N -> ucls) (cfg : pcfg) (s : str) (evs : list pevent) :
  p_strict_escape cfg = false -> p_note_label_old cfg = false ->
  events U cfg s = Done evs -> Forall (span_ok s) (flat_map event_spans evs).
Proof.
  intros H1 H2 E. destruct (events_ok U cfg s H1) as (evs' & E' & Hev). rewrite E in E'. injection E' as <-.
  apply Forall_flat_map. eapply Forall_impl; [|exact Hev]. intros ev Hok. eapply event_spans_ok; eassumption.
Qed.

Theorem meta_event_spans_all_ok (U : N -> ucls) (cfg : pcfg) (s : str) (evs : list pevent) :
  p_strict_escape cfg = false -> p_note_label_old cfg = false ->
  meta_events U cfg s = Done evs -> Forall (span_ok s) (flat_map event_spans evs).
Proof.
  intros H1 H2 E. destruct (meta_events_ok U cfg s H1) as (evs' & E' & Hev). rewrite E in E'. injection E' as <-.
  apply Forall_flat_map. eapply Forall_impl; [|exact Hev]. intros ev Hok. eapply event_spans_ok; eassumption.
Qed.

(* every fragment (soft line breaks included: their text is the newline token) is the input slice at its offset *)
Theorem fragments_faithful (U : N -> ucls) (cfg : pcfg) (s : str) (evs : list pevent) :
  p_strict_escape cfg = false ->
  events U cfg s = Done evs ->
  forall ev t f, In ev evs -> In t (event_texts ev) -> In f (frags t) -> sub s (ftext f) (foff f).
Proof.
  intros H1 E ev t f Hev Ht Hf. destruct (events_ok U cfg s H1) as (evs' & E' & Hok). rewrite E in E'. injection E' as <-.
  rewrite Forall_forall in Hok. pose proof (event_texts_ok s cfg ev (Hok ev Hev)) as Hts.
  rewrite Forall_forall in Hts. destruct (Hts t Ht) as (HF & _). rewrite Forall_forall in HF. exact (HF f Hf).
Qed.

Theorem meta_fragments_faithful (U : N -> ucls) (cfg : pcfg) (s : str) (evs : list pevent) :
  p_strict_escape cfg = false ->
  meta_events U cfg s = Done evs ->
  forall ev t f, In ev evs -> In t (event_texts ev) -> In f (frags t) -> sub s (ftext f) (foff f).
Proof.
  intros H1 E ev t f Hev Ht Hf. destruct (meta_events_ok U cfg s H1) as (evs' & E' & Hok). rewrite E in E'. injection E' as <-.
  rewrite Forall_forall in Hok. pose proof (event_texts_ok s cfg ev (Hok ev Hev)) as Hts.
  rewrite Forall_forall in Hts. destruct (Hts t Ht) as (HF & _). rewrite Forall_forall in HF. exact (HF f Hf).
Qed.

(* the labels of every parse-stage diagnostic *)
Theorem diag_labels_ok (U : N -> ucls) (cfg : pcfg) (s : str) (evs : list pevent) :
  p_strict_escape cfg = false -> p_note_label_old cfg = false ->
  events U cfg s = Done evs ->
  forall d, In (EvDiag d) evs -> Forall (span_ok s) (d_labels d).
Proof.
  intros H1 H2 E d Hd. destruct (events_ok U cfg s H1) as (evs' & E' & Hok). rewrite E in E'. injection E' as <-.
  rewrite Forall_forall in Hok. apply (Hok _ Hd). exact H2.
Qed.

Theorem meta_diag_labels_ok (U : N -> ucls) (cfg : pcfg) (s : str) (evs : list pevent) :
  p_strict_escape cfg = false -> p_note_label_old cfg = false ->
  meta_events U cfg s = Done evs ->
  forall d, In (EvDiag d) evs -> Forall (span_ok s) (d_labels d).
Proof.
  intros H1 H2 E d Hd. destruct (meta_events_ok U cfg s H1) as (evs' & E' & Hok). rewrite E in E'. injection E' as <-.
  rewrite Forall_forall in Hok. apply (Hok _ Hd). exact H2.
Qed.

(* ------------------------------------------------------------------ the behaviours before the repairs *)

(* a classification under which every non-blank character is a word character *)
Definition U_plain (c : N) : ucls :=
  {| u_alpha := false; u_zs := c =? 32; u_punct := false; u_ws := c =? 32; u_alnum := false |}.

Definition cfg_old_label : pcfg :=
  {| p_ext := 0; p_debug := true; p_strict_escape := false; p_note_label_old := true; p_fm_anywhere := false |}.

Definition cfg_old_escape : pcfg :=
  {| p_ext := 0; p_debug := true; p_strict_escape := true; p_note_label_old := false; p_fm_anywhere := false |}.

(* step.rs:561 before the repair: the "add a space here" label of a timer note was placed one
   BYTE before the parenthesis; on "~" U+540D "(x)" that is inside the three-byte character *)
Theorem note_label_old_refuted :
  exists U cfg s evs d sp,
    p_strict_escape cfg = false /\ p_note_label_old cfg = true /\
    events U cfg s = Done evs /\ In (EvDiag d) evs /\ In sp (d_labels d) /\ ~ span_ok s sp.
Proof.
  exists U_plain, cfg_old_label, [126; 21517; 40; 120; 41].
  eexists. eexists. exists (3, 3).
  split; [reflexivity|]. split; [reflexivity|]. split; [vm_compute; reflexivity|].
  split; [right; left; reflexivity|]. split; [right; left; reflexivity|].
  intros (_ & _ & (p & q & E & Hb) & _). cbn [fst] in Hb.
  destruct p as [|a [|b p']]; cbn [app] in E.
  - cbn [blen] in Hb. discriminate.
  - injection E as Ea _. subst a. change (blen [126]) with 1 in Hb. discriminate.
  - injection E as Ea Eb _. subst a b. cbn [blen] in Hb. change (utf8_len 126) with 1 in Hb. change (utf8_len 21517) with 3 in Hb. lia.
Qed.

(* block_parser.rs:156 before the repair: debug_assert that an escaped token has two bytes *)
Theorem strict_escape_old_refuted :
  exists U cfg s, p_strict_escape cfg = true /\ events U cfg s = Panic site_escaped_len.
Proof. exists U_plain, cfg_old_escape, [92; 233]. split; [reflexivity|vm_compute; reflexivity]. Qed.
