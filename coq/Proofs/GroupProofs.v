(* Proofs for property C10 about Model/Group.v.
   Part 1: the abstraction (summary, contrib, total) and its algebra.
   Part 2: try_add / add / add_all / merge / fit conserve the total.
   Part 3: GroupedValue.  Part 4a: one BTreeMap operation as a permutation.
   4b: categorize.  4d: units kept by add/fit, fit under a conditional oracle.
   4c: definitions and references.  4e: IngredientList.  4f: sorted keys.
   4g: cookware definitions.  Then the witnesses.  (Quantity::fit of
   Model/Convert.v as the oracle: Proofs/GroupFit.v.) *)
From CL Require Import Base.StrLemmas Model.Aisle Model.Group.
From Coq Require Import QArith Lia Lqa Permutation Setoid Morphisms.
Local Open Scope Q_scope.

(* ------------------------------------------------------------------ *)
(* Part 1: summaries                                                   *)

(* a pair of rationals: the two ends of a range (a number is a degenerate range) *)
Definition pr := (Q * Q)%type.
Definition peq (a b : pr) : Prop := fst a == fst b /\ snd a == snd b.
Definition padd (a b : pr) : pr := (fst a + fst b, snd a + snd b).
Definition pzero : pr := (0, 0).
Definition pscale (r : Q) (a : pr) : pr := (fst a * r, snd a * r).

(* what a group amounts to: per physical quantity a pair in base units, per
   unknown unit a pair, a pair for unit-less values, the multiset of text
   values (text, unit) as a counting function *)
Record summary := {
  s_known : pq -> pr;
  s_unknown : str -> pr;
  s_nounit : pr;
  s_text : str -> option str -> nat
}.

Definition seq (a b : summary) : Prop :=
  (forall p, peq (s_known a p) (s_known b p)) /\
  (forall k, peq (s_unknown a k) (s_unknown b k)) /\
  peq (s_nounit a) (s_nounit b) /\
  (forall t u, s_text a t u = s_text b t u).

Definition splus (a b : summary) : summary :=
  {| s_known := fun p => padd (s_known a p) (s_known b p);
     s_unknown := fun k => padd (s_unknown a k) (s_unknown b k);
     s_nounit := padd (s_nounit a) (s_nounit b);
     s_text := fun t u => (s_text a t u + s_text b t u)%nat |}.

Definition szero : summary :=
  {| s_known := fun _ => pzero; s_unknown := fun _ => pzero; s_nounit := pzero;
     s_text := fun _ _ => 0%nat |}.

Infix "≡" := seq (at level 70).
Infix "⊕" := splus (at level 50, left associativity).

Lemma peq_refl a : peq a a.
Proof. split; reflexivity. Qed.
Lemma peq_sym a b : peq a b -> peq b a.
Proof. intros [H1 H2]; split; symmetry; assumption. Qed.
Lemma peq_trans a b c : peq a b -> peq b c -> peq a c.
Proof. intros [H1 H2] [H3 H4]; split; etransitivity; eassumption. Qed.
Lemma padd_proper a a' b b' : peq a a' -> peq b b' -> peq (padd a b) (padd a' b').
Proof. intros [H1 H2] [H3 H4]; split; cbn [padd fst snd]; lra. Qed.

Global Instance seq_equiv : Equivalence seq.
Proof.
  split.
  - intro a. repeat split; reflexivity.
  - intros a b (H1 & H2 & H3 & H4). repeat split; intros; try (apply peq_sym; auto); try (symmetry; auto);
      first [apply H1 | apply H2 | apply H3 | idtac].
  - intros a b c (H1 & H2 & H3 & H4) (G1 & G2 & G3 & G4).
    split; [|split; [|split]]; intros.
    + eapply peq_trans; [apply H1 | apply G1].
    + eapply peq_trans; [apply H2 | apply G2].
    + eapply peq_trans; [apply H3 | apply G3].
    + rewrite H4. apply G4.
Qed.

Global Instance splus_proper : Proper (seq ==> seq ==> seq) splus.
Proof.
  intros a a' (H1 & H2 & H3 & H4) b b' (G1 & G2 & G3 & G4).
  split; [|split; [|split]]; intros; cbn [splus s_known s_unknown s_nounit s_text].
  - apply padd_proper; auto.
  - apply padd_proper; auto.
  - apply padd_proper; auto.
  - rewrite H4, G4. reflexivity.
Qed.

(* equations of the commutative monoid over opaque summaries *)
Ltac smon :=
  unfold seq, splus, szero; cbn [s_known s_unknown s_nounit s_text];
  repeat split; intros; unfold peq, padd, pzero; cbn [fst snd];
  repeat split; try ring; try lia.

Lemma splus_comm a b : a ⊕ b ≡ b ⊕ a.
Proof. smon. Qed.
Lemma splus_assoc a b c : a ⊕ b ⊕ c ≡ a ⊕ (b ⊕ c).
Proof. smon. Qed.
Lemma splus_zero_r a : a ⊕ szero ≡ a.
Proof. smon. Qed.
Lemma splus_zero_l a : szero ⊕ a ≡ a.
Proof. smon. Qed.

Lemma splus_cancel_r a b c : a ⊕ c ≡ b ⊕ c -> a ≡ b.
Proof.
  intros (H1 & H2 & H3 & H4).
  split; [|split; [|split]]; intros.
  - specialize (H1 p). unfold peq, splus, padd in *. cbn [s_known fst snd] in *. split; lra.
  - specialize (H2 k). unfold peq, splus, padd in *. cbn [s_unknown fst snd] in *. split; lra.
  - unfold peq, splus, padd in *. cbn [s_nounit fst snd] in *. split; lra.
  - specialize (H4 t u). cbn [splus s_text] in H4. lia.
Qed.

(* point summaries *)
Definition s_at_known (p0 : pq) (x : pr) : summary :=
  {| s_known := fun p => if pq_eqb p p0 then x else pzero; s_unknown := fun _ => pzero;
     s_nounit := pzero; s_text := fun _ _ => 0%nat |}.
Definition s_at_unknown (k0 : str) (x : pr) : summary :=
  {| s_known := fun _ => pzero; s_unknown := fun k => if str_eqb k k0 then x else pzero;
     s_nounit := pzero; s_text := fun _ _ => 0%nat |}.
Definition s_at_nounit (x : pr) : summary :=
  {| s_known := fun _ => pzero; s_unknown := fun _ => pzero; s_nounit := x;
     s_text := fun _ _ => 0%nat |}.
Definition ostr_eqb (a b : option str) : bool :=
  match a, b with
  | None, None => true
  | Some x, Some y => str_eqb x y
  | _, _ => false
  end.
Definition s_at_text (t0 : str) (u0 : option str) : summary :=
  {| s_known := fun _ => pzero; s_unknown := fun _ => pzero; s_nounit := pzero;
     s_text := fun t u => if str_eqb t t0 && ostr_eqb u u0 then 1%nat else 0%nat |}.

(* the bucket a non-text value with unit [u] falls into *)
Definition bucket (T : table) (u : option str) (x : pr) : summary :=
  match u with
  | None => s_at_nounit x
  | Some k =>
      match find_unit T k with
      | Some un => s_at_known (upq un) (pscale (ratio un) x)
      | None => s_at_unknown k x
      end
  end.

(* what one quantity contributes *)
Definition contrib (T : table) (q : qty) : summary :=
  match qval q with
  | VText t => s_at_text t (qunit q)
  | VNum v => bucket T (qunit q) (v, v)
  | VRange s e => bucket T (qunit q) (s, e)
  end.

Fixpoint ssum (l : list summary) : summary :=
  match l with
  | [] => szero
  | s :: r => s ⊕ ssum r
  end.

Definition sum_contrib (T : table) (qs : list qty) : summary := ssum (map (contrib T) qs).

(* the abstraction: the sum of what iter() shows *)
Definition total (T : table) (g : gq) : summary := sum_contrib T (Group.iter g).

Definition pair_of (v : value) : option pr :=
  match v with
  | VNum x => Some (x, x)
  | VRange s e => Some (s, e)
  | VText _ => None
  end.

Lemma contrib_pair T q x : pair_of (qval q) = Some x -> contrib T q = bucket T (qunit q) x.
Proof. unfold contrib. destruct (qval q); cbn; intro H; inversion H; reflexivity. Qed.

Lemma pair_of_text v : pair_of v = None <-> is_text v = true.
Proof. destruct v; cbn; split; intro; try discriminate; reflexivity. Qed.

Lemma ssum_app a b : ssum (a ++ b) ≡ ssum a ⊕ ssum b.
Proof.
  induction a as [|x a IH]; cbn [app ssum].
  - symmetry. apply splus_zero_l.
  - rewrite IH. symmetry. apply splus_assoc.
Qed.

Lemma sum_contrib_app T a b : sum_contrib T (a ++ b) ≡ sum_contrib T a ⊕ sum_contrib T b.
Proof. unfold sum_contrib. rewrite map_app. apply ssum_app. Qed.

Lemma ssum_perm a b : Permutation a b -> ssum a ≡ ssum b.
Proof.
  induction 1; cbn [ssum].
  - reflexivity.
  - rewrite IHPermutation. reflexivity.
  - rewrite <- !splus_assoc. rewrite (splus_comm y x). reflexivity.
  - etransitivity; eassumption.
Qed.

Lemma sum_contrib_perm T a b : Permutation a b -> sum_contrib T a ≡ sum_contrib T b.
Proof. intro H. apply ssum_perm. apply Permutation_map. exact H. Qed.

Lemma pq_eqb_eq a b : pq_eqb a b = true <-> a = b.
Proof. destruct a, b; cbn; split; intro H; try reflexivity; discriminate. Qed.
Lemma pq_eqb_refl a : pq_eqb a a = true.
Proof. destruct a; reflexivity. Qed.

Lemma s_at_known_add p x y : s_at_known p x ⊕ s_at_known p y ≡ s_at_known p (padd x y).
Proof.
  unfold seq, splus, s_at_known; cbn [s_known s_unknown s_nounit s_text].
  repeat split; intros; try (destruct (pq_eqb _ _)); unfold padd, pzero; cbn [fst snd]; try ring; try lia.
Qed.
Lemma s_at_unknown_add k x y : s_at_unknown k x ⊕ s_at_unknown k y ≡ s_at_unknown k (padd x y).
Proof.
  unfold seq, splus, s_at_unknown; cbn [s_known s_unknown s_nounit s_text].
  repeat split; intros; try (destruct (str_eqb _ _)); unfold padd, pzero; cbn [fst snd]; try ring; try lia.
Qed.
Lemma s_at_nounit_add x y : s_at_nounit x ⊕ s_at_nounit y ≡ s_at_nounit (padd x y).
Proof.
  unfold seq, splus, s_at_nounit; cbn [s_known s_unknown s_nounit s_text].
  repeat split; intros; unfold padd, pzero; cbn [fst snd]; try ring; try lia.
Qed.

Lemma s_at_known_proper p x y : peq x y -> s_at_known p x ≡ s_at_known p y.
Proof.
  intro H. unfold seq, s_at_known; cbn [s_known s_unknown s_nounit s_text].
  repeat split; intros; try (destruct (pq_eqb _ _)); try apply H; reflexivity.
Qed.
Lemma s_at_unknown_proper k x y : peq x y -> s_at_unknown k x ≡ s_at_unknown k y.
Proof.
  intro H. unfold seq, s_at_unknown; cbn [s_known s_unknown s_nounit s_text].
  repeat split; intros; try (destruct (str_eqb _ _)); try apply H; reflexivity.
Qed.
Lemma s_at_nounit_proper x y : peq x y -> s_at_nounit x ≡ s_at_nounit y.
Proof.
  intro H. unfold seq, s_at_nounit; cbn [s_known s_unknown s_nounit s_text].
  repeat split; intros; try apply H; reflexivity.
Qed.

Lemma pscale_add r x y : peq (pscale r (padd x y)) (padd (pscale r x) (pscale r y)).
Proof. split; unfold pscale, padd; cbn [fst snd]; ring. Qed.
Lemma pscale_proper r x y : peq x y -> peq (pscale r x) (pscale r y).
Proof. intros [H1 H2]. split; unfold pscale; cbn [fst snd]; [rewrite H1 | rewrite H2]; reflexivity. Qed.

Lemma bucket_add T u x y : bucket T u x ⊕ bucket T u y ≡ bucket T u (padd x y).
Proof.
  unfold bucket. destruct u as [k|]; [destruct (find_unit T k)|].
  - rewrite s_at_known_add. apply s_at_known_proper. apply peq_sym, pscale_add.
  - apply s_at_unknown_add.
  - apply s_at_nounit_add.
Qed.

Lemma bucket_proper T u x y : peq x y -> bucket T u x ≡ bucket T u y.
Proof.
  intro H. unfold bucket. destruct u as [k|]; [destruct (find_unit T k)|].
  - apply s_at_known_proper, pscale_proper, H.
  - apply s_at_unknown_proper, H.
  - apply s_at_nounit_proper, H.
Qed.

(* ------------------------------------------------------------------ *)
(* Part 2: try_add, add                                                *)

(* hypotheses on tables *)
Definition agrees (T' T : table) : Prop :=
  forall k u, find_unit T' k = Some u -> find_unit T k = Some u.

Lemma agrees_refl T : agrees T T.
Proof. intros k u H; exact H. Qed.
Lemma agrees_nil T : agrees [] T.
Proof. intros k u H; discriminate. Qed.

Lemma find_unit_in T k u : find_unit T k = Some u -> exists k', In (k', u) T.
Proof.
  induction T as [|[k0 u0] T IH]; cbn [find_unit]; [discriminate|].
  destruct (str_eqb k k0).
  - intro H; inversion H; subst. exists k0. left; reflexivity.
  - intro H. destruct (IH H) as [k' Hk]. exists k'. right; exact Hk.
Qed.

Lemma sane_ratio T k u : sane T = true -> find_unit T k = Some u -> 0 < ratio u.
Proof.
  unfold sane. intros H F. apply andb_true_iff in H as [H _].
  destruct (find_unit_in _ _ _ F) as [k' Hin].
  rewrite forallb_forall in H. specialize (H _ Hin). cbn [snd] in H.
  apply Z.ltb_lt in H. unfold Qlt. cbn. lia.
Qed.

Lemma sane_uid T k1 k2 u1 u2 :
  sane T = true -> find_unit T k1 = Some u1 -> find_unit T k2 = Some u2 -> uid u1 = uid u2 ->
  ratio u1 == ratio u2 /\ difference u1 == difference u2 /\ upq u1 = upq u2.
Proof.
  unfold sane. intros H F1 F2 E. apply andb_true_iff in H as [_ H].
  destruct (find_unit_in _ _ _ F1) as [k1' H1]. destruct (find_unit_in _ _ _ F2) as [k2' H2].
  rewrite forallb_forall in H. specialize (H _ H1). rewrite forallb_forall in H. specialize (H _ H2).
  cbn [snd] in H. rewrite E, N.eqb_refl in H. unfold unit_same in H.
  apply andb_true_iff in H as [H Hp]. apply andb_true_iff in H as [Hr Hd].
  apply Qeq_bool_iff in Hr. apply Qeq_bool_iff in Hd. apply pq_eqb_eq in Hp. auto.
Qed.

(* the correction an offset unit introduces when [b] is converted to the unit of [a] *)
Definition shift (T' : table) (a b : qty) : summary :=
  if is_text (qval a) || is_text (qval b) then szero else
  match qunit a, qunit b with
  | Some ka, Some kb =>
      match find_unit T' ka, find_unit T' kb with
      | Some x, Some y =>
          if pq_eqb (upq x) (upq y) then
            if (uid y =? uid x)%N then szero
            else let c := difference y * ratio y - difference x * ratio x in s_at_known (upq x) (c, c)
          else szero
      | _, _ => szero
      end
  | _, _ => szero
  end.

Lemma value_add_pair a b v :
  value_add a b = Some v ->
  exists pa pb pv, pair_of a = Some pa /\ pair_of b = Some pb /\ pair_of v = Some pv /\ peq pv (padd pa pb).
Proof.
  destruct a, b; cbn [value_add]; intro H; inversion H; subst; cbn [pair_of];
    do 3 eexists; (split; [reflexivity|]); (split; [reflexivity|]); (split; [reflexivity|]);
    split; unfold padd; cbn [fst snd]; ring.
Qed.

Lemma value_add_none a b : value_add a b = None -> is_text a || is_text b = true.
Proof. destruct a, b; cbn; intro H; try discriminate; reflexivity. Qed.

(* the converted value of one end *)
Definition cf (from to : uinfo) (v : Q) : Q :=
  if (uid from =? uid to)%N then v
  else (v + difference from) * ratio from / ratio to - difference to.

Lemma convert_f64_ok v from to :
  pq_eqb (upq from) (upq to) = true -> convert_f64 v from to = Done (cf from to v).
Proof. intro H. unfold convert_f64, cf. destruct (uid from =? uid to)%N; [reflexivity|]. rewrite H. reflexivity. Qed.

Lemma convert_value_ok v from to :
  pq_eqb (upq from) (upq to) = true ->
  match pair_of v with
  | Some p => exists v', convert_value v from to = Done (Some v')
                         /\ pair_of v' = Some (cf from to (fst p), cf from to (snd p))
  | None => convert_value v from to = Done None
  end.
Proof.
  intro H. destruct v; cbn [pair_of convert_value fst snd].
  - rewrite (convert_f64_ok _ _ _ H). cbn [obind]. eexists; split; reflexivity.
  - rewrite !(convert_f64_ok _ _ _ H). cbn [obind]. eexists; split; reflexivity.
  - reflexivity.
Qed.

Lemma is_text_pair v : is_text v = false -> exists p, pair_of v = Some p.
Proof. destruct v; cbn; intro H; try discriminate; eexists; reflexivity. Qed.

(* try_add never panics; on success the sum is the sum (plus the offset
   correction), on failure there is no correction to account for *)
Lemma try_add_spec T' T a b :
  sane T = true -> agrees T' T ->
  exists r, try_add T' a b = Done r /\
    match r with
    | Some s => contrib T s ≡ contrib T a ⊕ contrib T b ⊕ shift T' a b
    | None => shift T' a b = szero
    end.
Proof.
  intros Hs Ha. unfold try_add, compatible_unit, shift.
  destruct (qunit a) as [ka|] eqn:Ua, (qunit b) as [kb|] eqn:Ub.
  - (* both have a unit *)
    destruct (find_unit T' ka) as [x|] eqn:Fa; [destruct (find_unit T' kb) as [y|] eqn:Fb|].
    + (* both known *)
      destruct (pq_eqb (upq x) (upq y)) eqn:Epq.
      2:{ eexists; split; [reflexivity|]. destruct (_ || _); reflexivity. }
      unfold convert_qty. rewrite Ub, Fb.
      assert (Epq' : pq_eqb (upq y) (upq x) = true).
      { apply pq_eqb_eq in Epq. rewrite Epq. apply pq_eqb_refl. }
      destruct (is_text (qval b)) eqn:Tb.
      { cbn [obind]. eexists; split; [reflexivity|]. rewrite orb_true_r. reflexivity. }
      rewrite Epq'.
      destruct (is_text_pair _ Tb) as [pb Hpb].
      pose proof (convert_value_ok (qval b) y x Epq') as Hc. rewrite Hpb in Hc.
      destruct Hc as (vb' & Hc & Hpb'). rewrite Hc. cbn [obind].
      destruct (value_add (qval a) vb') as [v|] eqn:Hv.
      2:{ eexists; split; [reflexivity|]. apply value_add_none in Hv.
          assert (is_text vb' = false) by (destruct vb'; cbn in *; try reflexivity; discriminate).
          rewrite H, orb_false_r in Hv. rewrite Hv. reflexivity. }
      eexists; split; [reflexivity|].
      destruct (value_add_pair _ _ _ Hv) as (pa & pb2 & pv & Hpa & Hpb2 & Hpv & Hsum).
      rewrite Hpb' in Hpb2. inversion Hpb2; subst pb2; clear Hpb2.
      assert (Ta : is_text (qval a) = false) by (destruct (qval a); cbn in *; try reflexivity; discriminate).
      rewrite Ta. cbn [orb].
      rewrite (contrib_pair T _ pv) by exact Hpv. rewrite (contrib_pair T a pa) by exact Hpa.
      rewrite (contrib_pair T b pb) by exact Hpb. cbn [qunit]. rewrite Ua, Ub. unfold bucket.
      rewrite (Ha _ _ Fa), (Ha _ _ Fb).
      pose proof (sane_ratio _ _ _ Hs (Ha _ _ Fa)) as Rx.
      apply pq_eqb_eq in Epq. rewrite <- Epq.
      unfold cf in *. destruct (uid y =? uid x)%N eqn:Eid.
      * apply N.eqb_eq in Eid.
        destruct (sane_uid _ _ _ _ _ Hs (Ha _ _ Fb) (Ha _ _ Fa) Eid) as (Hr & _ & _).
        rewrite splus_zero_r, s_at_known_add. apply s_at_known_proper.
        destruct Hsum as [S1 S2]. cbn [fst snd padd] in S1, S2.
        split; unfold pscale, padd; cbn [fst snd]; [rewrite S1 | rewrite S2]; rewrite Hr; ring.
      * rewrite !s_at_known_add. apply s_at_known_proper.
        destruct Hsum as [S1 S2]. cbn [fst snd padd] in S1, S2.
        split; unfold pscale, padd; cbn [fst snd]; [rewrite S1 | rewrite S2]; field; lra.
    + (* a known, b unknown *)
      destruct (str_eqb ka kb) eqn:E.
      2:{ eexists; split; [reflexivity|]. destruct (_ || _); reflexivity. }
      apply str_eqb_eq in E. subst kb. congruence.
    + (* a unknown *)
      assert (Hsh : (if is_text (qval a) || is_text (qval b) then szero else szero) = szero)
        by (destruct (_ || _); reflexivity).
      destruct (str_eqb ka kb) eqn:E.
      2:{ eexists; split; [reflexivity|]. destruct (find_unit T' kb); exact Hsh. }
      apply str_eqb_eq in E. subst kb. cbn [obind].
      destruct (value_add (qval a) (qval b)) as [v|] eqn:Hv.
      2:{ eexists; split; [reflexivity|]. destruct (find_unit T' ka); exact Hsh. }
      eexists; split; [reflexivity|].
      destruct (value_add_pair _ _ _ Hv) as (pa & pb & pv & Hpa & Hpb & Hpv & Hsum).
      rewrite (contrib_pair T _ pv) by exact Hpv. rewrite (contrib_pair T a pa) by exact Hpa.
      rewrite (contrib_pair T b pb) by exact Hpb. cbn [qunit]. rewrite Ua, Ub.
      replace (match find_unit T' ka with Some _ | _ => szero end) with szero by (destruct (find_unit T' ka); reflexivity).
      rewrite Hsh, splus_zero_r, bucket_add. apply bucket_proper, Hsum.
  - eexists; split; [reflexivity|]. destruct (_ || _); reflexivity.
  - eexists; split; [reflexivity|]. destruct (_ || _); reflexivity.
  - (* no units *)
    cbn [obind].
    assert (Hsh : (if is_text (qval a) || is_text (qval b) then szero else szero) = szero)
      by (destruct (_ || _); reflexivity).
    destruct (value_add (qval a) (qval b)) as [v|] eqn:Hv.
    2:{ eexists; split; [reflexivity|]. exact Hsh. }
    eexists; split; [reflexivity|].
    destruct (value_add_pair _ _ _ Hv) as (pa & pb & pv & Hpa & Hpb & Hpv & Hsum).
    rewrite (contrib_pair T _ pv) by exact Hpv. rewrite (contrib_pair T a pa) by exact Hpa.
    rewrite (contrib_pair T b pb) by exact Hpb. cbn [qunit]. rewrite Ua, Ub.
    rewrite Hsh, splus_zero_r, bucket_add. apply bucket_proper, Hsum.
Qed.

(* --- totals of the four kinds of update ------------------------------ *)

Definition copt (T : table) (o : option qty) : summary := sum_contrib T (opt_list o).

Lemma sum_contrib_cons T q l : sum_contrib T (q :: l) = contrib T q ⊕ sum_contrib T l.
Proof. reflexivity. Qed.

Lemma total_push_other T g q : total T (push_other g q) ≡ total T g ⊕ contrib T q.
Proof.
  unfold total, Group.iter, push_other; cbn [known unknown no_unit other].
  repeat rewrite sum_contrib_app. rewrite sum_contrib_cons. unfold sum_contrib at 4; cbn [map ssum].
  smon.
Qed.

Lemma total_set_no_unit T g s :
  total T (set_no_unit g s) ⊕ copt T (no_unit g) ≡ total T g ⊕ contrib T s.
Proof.
  unfold total, Group.iter, set_no_unit, copt; cbn [known unknown no_unit other].
  repeat rewrite sum_contrib_app. cbn [opt_list]. rewrite sum_contrib_cons.
  unfold sum_contrib at 4; cbn [map ssum]. smon.
Qed.

Lemma sum_contrib_slots T (f : pq -> option qty) ps :
  sum_contrib T (flat_map (fun p => opt_list (f p)) ps) ≡ ssum (map (fun p => copt T (f p)) ps).
Proof.
  induction ps as [|p r IH]; cbn [flat_map map ssum]; [reflexivity|].
  rewrite sum_contrib_app, IH. reflexivity.
Qed.

Lemma pick_slot (A : summary) p : ssum (map (fun x => if pq_eqb x p then A else szero) pq_all) ≡ A.
Proof. destruct p; cbn [pq_all map ssum pq_eqb]; smon. Qed.

Lemma slots_set T (f : pq -> option qty) p s ps :
  ssum (map (fun x => copt T (if pq_eqb x p then Some s else f x)) ps)
    ⊕ ssum (map (fun x => if pq_eqb x p then copt T (f p) else szero) ps)
  ≡ ssum (map (fun x => copt T (f x)) ps)
    ⊕ ssum (map (fun x => if pq_eqb x p then contrib T s else szero) ps).
Proof.
  induction ps as [|x r IH]; cbn [map ssum]; [reflexivity|].
  destruct (pq_eqb x p) eqn:E.
  - apply pq_eqb_eq in E. subst x.
    assert (Hs : copt T (Some s) ≡ contrib T s)
      by (unfold copt, sum_contrib; cbn [opt_list map ssum]; apply splus_zero_r).
    rewrite Hs. revert IH. generalize (contrib T s) (copt T (f p)). intros S P.
    generalize (ssum (map (fun x => copt T (if pq_eqb x p then Some s else f x)) r))
      (ssum (map (fun x => if pq_eqb x p then P else szero) r))
      (ssum (map (fun x => copt T (f x)) r))
      (ssum (map (fun x => if pq_eqb x p then S else szero) r)).
    intros A B C D IH.
    transitivity (S ⊕ P ⊕ (A ⊕ B)); [smon|]. rewrite IH. smon.
  - revert IH. generalize (contrib T s) (copt T (f p)) (copt T (f x)). intros S P X.
    generalize (ssum (map (fun x => copt T (if pq_eqb x p then Some s else f x)) r))
      (ssum (map (fun x => if pq_eqb x p then P else szero) r))
      (ssum (map (fun x => copt T (f x)) r))
      (ssum (map (fun x => if pq_eqb x p then S else szero) r)).
    intros A B C D IH.
    transitivity (X ⊕ (A ⊕ B)); [smon|]. rewrite IH. smon.
Qed.

Lemma total_set_known T g p s :
  total T (set_known g p s) ⊕ copt T (known g p) ≡ total T g ⊕ contrib T s.
Proof.
  unfold total, Group.iter, set_known; cbn [known unknown no_unit other].
  rewrite !sum_contrib_app, !sum_contrib_slots.
  pose proof (slots_set T (known g) p s pq_all) as H. rewrite !pick_slot in H. revert H.
  generalize (copt T (known g p)) (contrib T s). intros P S.
  generalize (ssum (map (fun x => copt T (if pq_eqb x p then Some s else known g x)) pq_all))
    (ssum (map (fun p0 => copt T (known g p0)) pq_all))
    (sum_contrib T (map snd (unknown g))) (sum_contrib T (other g))
    (sum_contrib T (opt_list (no_unit g))).
  intros A B U O N H.
  transitivity (A ⊕ P ⊕ (U ⊕ (O ⊕ N))); [smon|]. rewrite H. smon.
Qed.

Lemma sumU_insert T k s U :
  sum_contrib T (map snd (map_insert k s U)) ⊕ copt T (aget k U)
  ≡ sum_contrib T (map snd U) ⊕ contrib T s.
Proof.
  induction U as [|[k' v'] r IH]; cbn [map_insert aget map snd].
  - unfold copt, sum_contrib; cbn [opt_list map ssum]. smon.
  - destruct (str_eqb k k'); cbn [map snd].
    + unfold copt; cbn [opt_list]. rewrite !sum_contrib_cons. unfold sum_contrib at 2; cbn [map ssum]. smon.
    + rewrite !sum_contrib_cons. rewrite splus_assoc, IH. smon.
Qed.

Lemma total_set_unknown T g k s :
  total T (set_unknown g k s) ⊕ copt T (aget k (unknown g)) ≡ total T g ⊕ contrib T s.
Proof.
  unfold total, Group.iter, set_unknown; cbn [known unknown no_unit other].
  repeat rewrite sum_contrib_app.
  pose proof (sumU_insert T k s (unknown g)) as H.
  set (A := sum_contrib T (map snd (map_insert k s (unknown g)))) in *.
  set (B := sum_contrib T (map snd (unknown g))) in *.
  set (C := copt T (aget k (unknown g))) in *.
  transitivity (sum_contrib T (flat_map (fun p => opt_list (known g p)) pq_all)
                ⊕ (A ⊕ C) ⊕ sum_contrib T (other g) ⊕ sum_contrib T (opt_list (no_unit g))).
  { smon. }
  rewrite H. smon.
Qed.

(* --- add -------------------------------------------------------------- *)

(* the stored quantity [q] meets in its bucket, if any *)
Definition stored_for (T' : table) (g : gq) (q : qty) : option qty :=
  if is_text (qval q) then None
  else match qunit q with
       | None => no_unit g
       | Some k =>
           match find_unit T' k with
           | Some u => known g (upq u)
           | None => aget k (unknown g)
           end
       end.

Definition shift_in (T' : table) (g : gq) (q : qty) : summary :=
  match stored_for T' g q with
  | Some st => shift T' st q
  | None => szero
  end.

Lemma add_to_spec T' T g stored q store :
  sane T = true -> agrees T' T ->
  (forall s, total T (store s) ⊕ contrib T stored ≡ total T g ⊕ contrib T s) ->
  exists g', add_to T' g stored q store = Done g' /\
             total T g' ≡ total T g ⊕ contrib T q ⊕ shift T' stored q.
Proof.
  intros Hs Ha Hst. unfold add_to.
  destruct (try_add_spec T' T stored q Hs Ha) as (r & Hr & Hspec). rewrite Hr. cbn [obind].
  destruct r as [s|].
  - eexists; split; [reflexivity|].
    apply (splus_cancel_r _ _ (contrib T stored)). rewrite Hst, Hspec. smon.
  - eexists; split; [reflexivity|]. rewrite Hspec, splus_zero_r. apply total_push_other.
Qed.

Lemma copt_some T q : copt T (Some q) ≡ contrib T q.
Proof. unfold copt, sum_contrib; cbn [opt_list map ssum]. apply splus_zero_r. Qed.
Lemma copt_none T : copt T None = szero.
Proof. reflexivity. Qed.

(* GroupedQuantity::add never panics and adds exactly the contribution of q
   (plus the offset correction), for EVERY group g, reachable or not *)
Lemma add_spec T' T g q :
  sane T = true -> agrees T' T ->
  exists g', add T' g q = Done g' /\
             total T g' ≡ total T g ⊕ contrib T q ⊕ shift_in T' g q.
Proof.
  intros Hs Ha. unfold add, shift_in, stored_for.
  destruct (is_text (qval q)) eqn:Tq.
  { eexists; split; [reflexivity|]. rewrite splus_zero_r. apply total_push_other. }
  destruct (qunit q) as [k|] eqn:Uq.
  - destruct (find_unit T' k) as [u|] eqn:Fu.
    + destruct (known g (upq u)) as [st|] eqn:Kg.
      * apply add_to_spec; auto. intro s.
        rewrite <- (copt_some T st), <- Kg. apply total_set_known.
      * eexists; split; [reflexivity|]. rewrite splus_zero_r.
        rewrite <- (total_set_known T g (upq u) q), Kg, copt_none, splus_zero_r. reflexivity.
    + destruct (aget k (unknown g)) as [st|] eqn:Ug.
      * apply add_to_spec; auto. intro s.
        rewrite <- (copt_some T st), <- Ug. apply total_set_unknown.
      * eexists; split; [reflexivity|]. rewrite splus_zero_r.
        rewrite <- (total_set_unknown T g k q), Ug, copt_none, splus_zero_r. reflexivity.
  - destruct (no_unit g) as [st|] eqn:Ng.
    + apply add_to_spec; auto. intro s.
      rewrite <- (copt_some T st), <- Ng. apply total_set_no_unit.
    + eexists; split; [reflexivity|]. rewrite splus_zero_r.
      rewrite <- (total_set_no_unit T g q), Ng, copt_none, splus_zero_r. reflexivity.
Qed.

(* --- offset-free quantities ------------------------------------------- *)

(* every unit of physical quantity [p] is a pure ratio (no difference) *)
Definition pq_free (T : table) (p : pq) : Prop :=
  forall k u, find_unit T k = Some u -> upq u = p -> difference u == 0.

(* [q] is unit-less, has an unknown unit, or a unit of an offset-free quantity *)
Definition q_free (T : table) (q : qty) : Prop :=
  forall k u, qunit q = Some k -> find_unit T k = Some u -> pq_free T (upq u).

Definition pq_free_b (T : table) (p : pq) : bool :=
  forallb (fun ku => negb (pq_eqb (upq (snd ku)) p) || Qeq_bool (difference (snd ku)) 0) T.

Lemma pq_free_b_ok T p : pq_free_b T p = true -> pq_free T p.
Proof.
  unfold pq_free_b, pq_free. intros H k u F E.
  destruct (find_unit_in _ _ _ F) as [k' Hin].
  rewrite forallb_forall in H. specialize (H _ Hin). cbn [snd] in H.
  rewrite E, pq_eqb_refl in H. cbn in H. apply Qeq_bool_iff in H. exact H.
Qed.

Lemma s_at_known_zero p x : peq x pzero -> s_at_known p x ≡ szero.
Proof.
  intros [H1 H2]. unfold seq, s_at_known, szero; cbn [s_known s_unknown s_nounit s_text].
  repeat split; intros; try (destruct (pq_eqb _ _)); cbn [pzero fst snd] in *; auto; reflexivity.
Qed.

Lemma shift_free T' T a b : agrees T' T -> q_free T b -> shift T' a b ≡ szero.
Proof.
  intros Ha Hf. unfold shift. destruct (_ || _); [reflexivity|].
  destruct (qunit a) as [ka|]; [|reflexivity]. destruct (qunit b) as [kb|] eqn:Ub; [|reflexivity].
  destruct (find_unit T' ka) as [x|] eqn:Fa; [|reflexivity].
  destruct (find_unit T' kb) as [y|] eqn:Fb; [|reflexivity].
  destruct (pq_eqb (upq x) (upq y)) eqn:E; [|reflexivity].
  destruct (uid y =? uid x)%N; [reflexivity|].
  apply pq_eqb_eq in E. pose proof (Hf kb y Ub (Ha _ _ Fb)) as Hp.
  apply s_at_known_zero.
  pose proof (Hp kb y (Ha _ _ Fb) eq_refl) as Dy. pose proof (Hp ka x (Ha _ _ Fa) E) as Dx.
  split; cbn [fst snd pzero]; rewrite Dy, Dx; ring.
Qed.

Lemma shift_in_free T' T g q : agrees T' T -> q_free T q -> shift_in T' g q ≡ szero.
Proof.
  intros Ha Hf. unfold shift_in. destruct (stored_for T' g q); [|reflexivity].
  eapply shift_free; eassumption.
Qed.

Lemma add_free T' T g q :
  sane T = true -> agrees T' T -> q_free T q ->
  exists g', add T' g q = Done g' /\ total T g' ≡ total T g ⊕ contrib T q.
Proof.
  intros Hs Ha Hf. destruct (add_spec T' T g q Hs Ha) as (g' & H1 & H2).
  exists g'. split; [exact H1|]. rewrite H2, (shift_in_free _ _ _ _ Ha Hf). apply splus_zero_r.
Qed.

Lemma add_all_free T' T qs : forall g,
  sane T = true -> agrees T' T -> Forall (q_free T) qs ->
  exists g', add_all T' g qs = Done g' /\ total T g' ≡ total T g ⊕ sum_contrib T qs.
Proof.
  induction qs as [|q r IH]; intros g Hs Ha Hf; cbn [add_all].
  - exists g. split; [reflexivity|]. unfold sum_contrib; cbn [map ssum]. symmetry. apply splus_zero_r.
  - inversion Hf as [|? ? Hq Hr]; subst.
    destruct (add_free T' T g q Hs Ha Hq) as (g1 & H1 & H2). rewrite H1. cbn [obind].
    destruct (IH g1 Hs Ha Hr) as (g2 & H3 & H4). exists g2. split; [exact H3|].
    rewrite H4, H2, sum_contrib_cons. apply splus_assoc.
Qed.

Lemma total_empty T : total T gq_empty ≡ szero.
Proof. unfold total, Group.iter, gq_empty, sum_contrib; cbn. smon. Qed.

Lemma fold_free T qs :
  sane T = true -> Forall (q_free T) qs ->
  exists g, add_all T gq_empty qs = Done g /\ total T g ≡ sum_contrib T qs.
Proof.
  intros Hs Hf. destruct (add_all_free T T qs gq_empty Hs (agrees_refl T) Hf) as (g & H1 & H2).
  exists g. split; [exact H1|]. rewrite H2, total_empty. apply splus_zero_l.
Qed.

Lemma order_independent T qs qs' :
  sane T = true -> Forall (q_free T) qs -> Permutation qs qs' ->
  exists g g', add_all T gq_empty qs = Done g /\ add_all T gq_empty qs' = Done g' /\
               total T g ≡ total T g'.
Proof.
  intros Hs Hf Hp.
  assert (Hf' : Forall (q_free T) qs').
  { rewrite Forall_forall in *. intros x Hx. apply Hf. eapply Permutation_in; [symmetry; exact Hp | exact Hx]. }
  destruct (fold_free T qs Hs Hf) as (g & H1 & H2). destruct (fold_free T qs' Hs Hf') as (g' & H3 & H4).
  exists g, g'. split; [exact H1|]. split; [exact H3|]. rewrite H2, H4. apply sum_contrib_perm, Hp.
Qed.

Lemma merge_free T' T a b :
  sane T = true -> agrees T' T -> Forall (q_free T) (Group.iter b) ->
  exists g, merge T' a b = Done g /\ total T g ≡ total T a ⊕ total T b.
Proof. intros Hs Ha Hf. unfold merge. apply add_all_free; assumption. Qed.

(* --- fit -------------------------------------------------------------- *)

Section Fit.
  Variable T : table.
  Variable fitq : qty -> option qty.
  (* C09: Quantity::fit keeps the amount *)
  Hypothesis fit_amount : forall q q', fitq q = Some q' -> contrib T q' ≡ contrib T q.

  Lemma fit_slots_total ps : forall g, total T (fst (fit_slots fitq g ps)) ≡ total T g.
  Proof.
    induction ps as [|p r IH]; intro g; cbn [fit_slots fst]; [reflexivity|].
    destruct (known g p) as [q|] eqn:K; [|apply IH].
    destruct (fitq q) as [q'|] eqn:F; [|reflexivity].
    rewrite IH. apply (splus_cancel_r _ _ (copt T (known g p))).
    rewrite total_set_known, K, copt_some, (fit_amount _ _ F). reflexivity.
  Qed.

  Lemma fit_total g : total T (fst (fit fitq g)) ≡ total T g.
  Proof. apply fit_slots_total. Qed.
End Fit.

(* ------------------------------------------------------------------ *)
(* Part 3: GroupedValue (cookware amounts)                             *)

(* a bare value is a unit-less quantity; no unit table is involved *)
Definition vq (v : value) : qty := {| qval := v; qunit := None |}.
Definition vcontrib (v : value) : summary := contrib [] (vq v).
Definition gv_total (g : gv) : summary := sum_contrib [] (map vq g).

(* the shape GroupedValue keeps: at most one numeric entry, and it is the first *)
Definition gv_wf (g : gv) : Prop := Forall (fun v => is_text v = true) (tl g).

Lemma gv_total_cons v g : gv_total (v :: g) = vcontrib v ⊕ gv_total g.
Proof. reflexivity. Qed.

Lemma gv_total_snoc g v : gv_total (g ++ [v]) ≡ gv_total g ⊕ vcontrib v.
Proof.
  unfold gv_total. rewrite map_app, sum_contrib_app. cbn [map]. rewrite sum_contrib_cons.
  change (sum_contrib [] []) with szero. rewrite splus_zero_r. reflexivity.
Qed.

Lemma gv_add_spec g v :
  exists g', gv_add g v = Done g' /\ gv_total g' ≡ gv_total g ⊕ vcontrib v /\ (gv_wf g -> gv_wf g').
Proof.
  unfold gv_add. destruct g as [|h r].
  - eexists; split; [reflexivity|]. split.
    + rewrite gv_total_cons. apply splus_comm.
    + intros _. constructor.
  - destruct (is_text v) eqn:Tv.
    { eexists; split; [reflexivity|]. split; [apply gv_total_snoc|].
      unfold gv_wf. cbn [tl app]. intro W. apply Forall_app. split; [exact W|]. repeat constructor. exact Tv. }
    destruct (is_text h) eqn:Th.
    { eexists; split; [reflexivity|]. split.
      - rewrite (gv_total_cons v). apply splus_comm.
      - unfold gv_wf. cbn [tl]. intro W. constructor; assumption. }
    destruct (value_add h v) as [s|] eqn:Hv.
    2:{ apply value_add_none in Hv. rewrite Th, Tv in Hv. discriminate. }
    eexists; split; [reflexivity|]. split.
    + destruct (value_add_pair _ _ _ Hv) as (pa & pb & pv & Hpa & Hpb & Hpv & Hsum).
      rewrite !gv_total_cons. unfold vcontrib.
      rewrite (contrib_pair [] (vq s) pv) by exact Hpv. rewrite (contrib_pair [] (vq h) pa) by exact Hpa.
      rewrite (contrib_pair [] (vq v) pb) by exact Hpb. cbn [vq qunit].
      rewrite (bucket_proper [] None _ _ Hsum), <- bucket_add.
      generalize (bucket [] None pa) (bucket [] None pb) (gv_total r). intros A B R. smon.
    + unfold gv_wf. cbn [tl]. intro W; exact W.
Qed.

Lemma gv_add_all_spec vs : forall g,
  exists g', gv_add_all g vs = Done g' /\ gv_total g' ≡ gv_total g ⊕ ssum (map vcontrib vs) /\ (gv_wf g -> gv_wf g').
Proof.
  induction vs as [|v r IH]; intro g; cbn [gv_add_all map ssum].
  - exists g. split; [reflexivity|]. split; [symmetry; apply splus_zero_r | auto].
  - destruct (gv_add_spec g v) as (g1 & H1 & H2 & W1). rewrite H1. cbn [obind].
    destruct (IH g1) as (g2 & H3 & H4 & W2). exists g2. split; [exact H3|]. split; [|auto].
    rewrite H4, H2. apply splus_assoc.
Qed.

Lemma gv_total_ssum g : gv_total g = ssum (map vcontrib g).
Proof. unfold gv_total, sum_contrib. rewrite map_map. reflexivity. Qed.

Lemma gv_merge_spec a b :
  exists g, gv_merge a b = Done g /\ gv_total g ≡ gv_total a ⊕ gv_total b /\ (gv_wf a -> gv_wf g).
Proof. unfold gv_merge. rewrite (gv_total_ssum b). apply gv_add_all_spec. Qed.

(* ------------------------------------------------------------------ *)
(* Part 4a: one BTreeMap operation, as a permutation of the entries    *)

Lemma bt_alter_perm {V} k (f : option V -> outcome V) m : forall m',
  bt_alter k f m = Done m' ->
  exists o v, f o = Done v /\
    match o with
    | None => Permutation m' ((k, v) :: m)
    | Some v0 => exists m0, Permutation m ((k, v0) :: m0) /\ Permutation m' ((k, v) :: m0)
    end.
Proof.
  induction m as [|[k' v'] r IH]; intros m'; cbn [bt_alter].
  - destruct (f None) as [v|] eqn:F; cbn [obind]; intro H; inversion H; subst.
    exists None, v. split; [exact F|]. reflexivity.
  - destruct (str_eqb k k') eqn:E.
    + apply str_eqb_eq in E. subst k'.
      destruct (f (Some v')) as [v|] eqn:F; cbn [obind]; intro H; inversion H; subst.
      exists (Some v'), v. split; [exact F|]. exists r. split; reflexivity.
    + destruct (str_ltb k k').
      * destruct (f None) as [v|] eqn:F; cbn [obind]; intro H; inversion H; subst.
        exists None, v. split; [exact F|]. reflexivity.
      * destruct (bt_alter k f r) as [r'|] eqn:B; cbn [obind]; intro H; inversion H; subst.
        destruct (IH r' eq_refl) as (o & v & F & P). exists o, v. split; [exact F|].
        destruct o as [v0|].
        -- destruct P as (m0 & P1 & P2). exists ((k', v') :: m0). split.
           ++ rewrite P1. apply perm_swap.
           ++ rewrite P2. apply perm_swap.
        -- rewrite P. apply perm_swap.
Qed.

Lemma bt_alter_total {V} k (f : option V -> outcome V) m :
  (forall o, exists v, f o = Done v) -> exists m', bt_alter k f m = Done m'.
Proof.
  intro Hf. induction m as [|[k' v'] r IH]; cbn [bt_alter].
  - destruct (Hf None) as [v F]. rewrite F. eexists; reflexivity.
  - destruct (str_eqb k k').
    + destruct (Hf (Some v')) as [v F]. rewrite F. eexists; reflexivity.
    + destruct (str_ltb k k').
      * destruct (Hf None) as [v F]. rewrite F. eexists; reflexivity.
      * destruct IH as [r' B]. rewrite B. eexists; reflexivity.
Qed.

(* ------------------------------------------------------------------ *)
(* Part 4b: categorize                                                 *)

(* where an entry of a categorized list lives: Some category / None = the
   uncategorized rest (shown last, as "other"), and the name inside it *)
Definition ckey := (option str * str)%type.

Definition ckey_eqb (a b : ckey) : bool := ostr_eqb (fst a) (fst b) && str_eqb (snd a) (snd b).

(* where the aisle information sends a listed name *)
Definition dest (inf : list (str * (str * str))) (name : str) : ckey :=
  match info_get name inf with
  | Some (category, common) => (Some category, common)
  | None => (None, name)
  end.

Definition rekey (inf : list (str * (str * str))) (e : str * gq) : ckey * gq := (dest inf (fst e), snd e).

Definition tag (c : str) (e : str * gq) : ckey * gq := ((Some c, fst e), snd e).
Definition cat_entries (cats : list (str * ilist)) : list (ckey * gq) :=
  flat_map (fun ci => map (tag (fst ci)) (snd ci)) cats.
Definition untagged (e : str * gq) : ckey * gq := ((None, fst e), snd e).

(* everything CategorizedIngredientList::iter shows, with its place *)
Definition entries (c : clist) : list (ckey * gq) := cat_entries (ccats c) ++ map untagged (cother c).

(* the known class: two listed names are sent to the same (category, common name) *)
Definition pair_eqb (a b : str * str) : bool := str_eqb (fst a) (fst b) && str_eqb (snd a) (snd b).
Fixpoint dup_b (l : list (str * str)) : bool :=
  match l with
  | [] => false
  | x :: r => existsb (pair_eqb x) r || dup_b r
  end.
Definition cat_dests (inf : list (str * (str * str))) (l : ilist) : list (str * str) :=
  flat_map (fun e => opt_list (info_get (fst e) inf)) l.
Definition synonym_collision (inf : list (str * (str * str))) (l : ilist) : bool := dup_b (cat_dests inf l).

(* the total found under one key *)
Definition key_total (T : table) (key : ckey) (es : list (ckey * gq)) : summary :=
  ssum (map (fun e => if ckey_eqb (fst e) key then total T (snd e) else szero) es).

(* conservation: under every key the categorized list shows the sum of the
   listed entries sent there (so nothing is lost and nothing invented) *)
Definition categorize_conserves (T : table) (inf : list (str * (str * str))) (l : ilist) (c : clist) : Prop :=
  forall key, key_total T key (entries c) ≡ key_total T key (map (rekey inf) l).

Lemma key_total_perm T key a b : Permutation a b -> key_total T key a ≡ key_total T key b.
Proof. intro H. apply ssum_perm, Permutation_map, H. Qed.

Lemma cat_entries_perm a b : Permutation a b -> Permutation (cat_entries a) (cat_entries b).
Proof. apply Permutation_flat_map. Qed.

Lemma pair_eqb_eq a b : pair_eqb a b = true <-> a = b.
Proof.
  destruct a as [a1 a2], b as [b1 b2]. unfold pair_eqb; cbn [fst snd]. rewrite andb_true_iff, !str_eqb_eq.
  split; [intros [-> ->]; reflexivity | intro H; inversion H; auto].
Qed.

Lemma dup_b_false l : dup_b l = false -> NoDup l.
Proof.
  induction l as [|x r IH]; cbn [dup_b]; intro H; [constructor|].
  apply orb_false_iff in H as [H1 H2]. constructor; [|auto].
  intro Hin. assert (existsb (pair_eqb x) r = true); [|congruence].
  apply existsb_exists. exists x. split; [exact Hin | apply pair_eqb_eq; reflexivity].
Qed.

Lemma dest_cases inf name :
  (exists c n, info_get name inf = Some (c, n) /\ dest inf name = (Some c, n)) \/
  (info_get name inf = None /\ dest inf name = (None, name)).
Proof. unfold dest. destruct (info_get name inf) as [[c n]|]; [left; eauto | right; auto]. Qed.

Lemma rekey_nodup inf l :
  NoDup (map fst l) -> synonym_collision inf l = false -> NoDup (map fst (map (rekey inf) l)).
Proof.
  unfold synonym_collision. intros Hn Hc. apply dup_b_false in Hc. revert Hn Hc.
  induction l as [|[name g] r IH]; cbn [map fst cat_dests flat_map]; intros Hn Hc; [constructor|].
  inversion Hn as [|? ? Hnin Hn']; subst.
  assert (Hr : NoDup (cat_dests inf r)).
  { destruct (info_get name inf); cbn [opt_list app] in Hc; [inversion Hc; assumption | exact Hc]. }
  constructor; [|apply IH; assumption].
  unfold rekey at 1; cbn [fst snd]. rewrite map_map. intro Hin. apply in_map_iff in Hin as ([n2 g2] & E & Hin2).
  unfold rekey in E; cbn [fst snd] in E.
  destruct (dest_cases inf name) as [(c & n & I1 & D1) | (I1 & D1)];
    destruct (dest_cases inf n2) as [(c2 & m2 & I2 & D2) | (I2 & D2)]; rewrite D1, D2 in E; inversion E; subst.
  - (* both categorized alike: a collision *)
    rewrite I1 in Hc. cbn [opt_list app] in Hc. inversion Hc as [|? ? Hnin2 _]; subst. apply Hnin2.
    unfold cat_dests. apply in_flat_map. exists (n2, g2). split; [exact Hin2|]. cbn [fst]. rewrite I2. left; reflexivity.
  - (* same name twice *)
    apply Hnin. apply in_map_iff. exists (name, g2). split; [reflexivity | exact Hin2].
Qed.

(* one step of categorize (old behaviour) on a fresh key adds exactly the entry *)
Lemma categorize_step_cat category common quantity cats :
  ~ In (Some category, common) (map fst (cat_entries cats)) ->
  exists cats',
    bt_alter category (fun o => bt_alter common (put false quantity)
                                  (match o with Some il => il | None => [] end)) cats = Done cats' /\
    Permutation (cat_entries cats') (((Some category, common), quantity) :: cat_entries cats).
Proof.
  intro Hfresh.
  destruct (bt_alter_total category (fun o => bt_alter common (put false quantity)
              (match o with Some il => il | None => [] end)) cats) as [cats' Hb].
  { intro o. apply bt_alter_total. intros [e|]; eexists; reflexivity. }
  exists cats'. split; [exact Hb|].
  destruct (bt_alter_perm _ _ _ _ Hb) as (o & il' & Hin & P).
  destruct (bt_alter_perm _ _ _ _ Hin) as (o2 & v & Hput & P2).
  assert (v = quantity) by (destruct o2; cbn in Hput; inversion Hput; reflexivity). subst v.
  destruct o as [il0|].
  - destruct P as (m0 & P0 & P1).
    destruct o2 as [v0|].
    + exfalso. apply Hfresh. destruct P2 as (i0 & Q0 & _).
      apply (Permutation_in (l := map fst (cat_entries ((category, il0) :: m0)))).
      { apply Permutation_map, cat_entries_perm. symmetry. exact P0. }
      unfold cat_entries; cbn [flat_map fst snd]. rewrite map_app. apply in_or_app. left.
      rewrite map_map. apply in_map_iff. exists (common, v0). split; [reflexivity|].
      apply (Permutation_in (l := (common, v0) :: i0)); [symmetry; exact Q0 | left; reflexivity].
    + rewrite (cat_entries_perm _ _ P1), (cat_entries_perm _ _ P0).
      unfold cat_entries; cbn [flat_map fst snd]. rewrite (Permutation_map (tag category) P2). reflexivity.
  - destruct o2 as [v0|].
    + destruct P2 as (i0 & Q0 & _). apply Permutation_nil_cons in Q0. contradiction.
    + rewrite (cat_entries_perm _ _ P).
      unfold cat_entries; cbn [flat_map fst snd]. rewrite (Permutation_map (tag category) P2). reflexivity.
Qed.

Lemma categorize_step_other name quantity (oth : ilist) :
  ~ In (None, name) (map fst (map untagged oth)) ->
  exists oth', bt_alter name (fun _ => Done quantity) oth = Done oth' /\
               Permutation (map untagged oth') (((None, name), quantity) :: map untagged oth).
Proof.
  intro Hfresh.
  destruct (bt_alter_total name (fun _ : option gq => Done quantity) oth) as [oth' Hb].
  { intro o. eexists; reflexivity. }
  exists oth'. split; [exact Hb|].
  destruct (bt_alter_perm _ _ _ _ Hb) as (o & v & Hv & P). inversion Hv; subst v.
  destruct o as [v0|].
  - exfalso. apply Hfresh. destruct P as (m0 & P0 & _). rewrite map_map.
    apply in_map_iff. exists (name, v0). split; [reflexivity|].
    apply (Permutation_in (l := (name, v0) :: m0)); [symmetry; exact P0 | left; reflexivity].
  - rewrite (Permutation_map untagged P). reflexivity.
Qed.

Lemma categorize_from_perm inf l : forall c,
  NoDup (map fst (entries c ++ map (rekey inf) l)) ->
  exists c', categorize_from false inf l c = Done c' /\
             Permutation (entries c') (entries c ++ map (rekey inf) l).
Proof.
  induction l as [|[name quantity] r IH]; intros c Hn; cbn [categorize_from map].
  - exists c. split; [reflexivity|]. rewrite app_nil_r. reflexivity.
  - assert (Hfresh : ~ In (dest inf name) (map fst (entries c))).
    { rewrite map_app in Hn. cbn [map] in Hn. apply NoDup_remove_2 in Hn.
      intro Hin. apply Hn. apply in_or_app. left. exact Hin. }
    assert (Hstep : forall c1, Permutation (entries c1) ((dest inf name, quantity) :: entries c) ->
              exists c', categorize_from false inf r c1 = Done c' /\
                         Permutation (entries c') (entries c ++ rekey inf (name, quantity) :: map (rekey inf) r)).
    { intros c1 P1. destruct (IH c1) as (c' & H1 & H2).
      - apply (Permutation_NoDup (l := map fst (entries c ++ rekey inf (name, quantity) :: map (rekey inf) r)));
          [|exact Hn].
        apply Permutation_map. rewrite P1. unfold rekey at 1; cbn [fst snd app]. symmetry. apply Permutation_middle.
      - exists c'. split; [exact H1|]. rewrite H2, P1. unfold rekey at 3; cbn [fst snd app]. apply Permutation_middle. }
    unfold dest in Hfresh, Hstep. destruct (info_get name inf) as [[category common]|].
    + unfold entries in Hfresh. rewrite map_app in Hfresh.
      destruct (categorize_step_cat category common quantity (ccats c)) as (cats' & Hb & P).
      { intro Hin. apply Hfresh. apply in_or_app. left. exact Hin. }
      rewrite Hb. cbn [obind]. apply Hstep. unfold entries; cbn [ccats cother]. rewrite P. reflexivity.
    + unfold entries in Hfresh. rewrite map_app in Hfresh.
      destruct (categorize_step_other name quantity (cother c)) as (oth' & Hb & P).
      { intro Hin. apply Hfresh. apply in_or_app. right. exact Hin. }
      rewrite Hb. cbn [obind]. apply Hstep. unfold entries; cbn [ccats cother]. rewrite P.
      symmetry. apply Permutation_middle.
Qed.

(* categorize (the code as it is) without a collision only re-keys: every
   listed group is found verbatim under its destination, nothing else is there *)
Lemma categorize_perm inf l :
  NoDup (map fst l) -> synonym_collision inf l = false ->
  exists c, categorize false inf l = Done c /\ Permutation (entries c) (map (rekey inf) l).
Proof.
  intros Hn Hc. unfold categorize.
  destruct (categorize_from_perm inf l {| ccats := []; cother := [] |}) as (c & H1 & H2).
  - cbn [entries ccats cother cat_entries flat_map map app]. apply rekey_nodup; assumption.
  - exists c. split; [exact H1|]. exact H2.
Qed.

Lemma categorize_conserves_ok T inf l :
  NoDup (map fst l) -> synonym_collision inf l = false ->
  exists c, categorize false inf l = Done c /\ Permutation (entries c) (map (rekey inf) l)
            /\ categorize_conserves T inf l c.
Proof.
  intros Hn Hc. destruct (categorize_perm inf l Hn Hc) as (c & H1 & H2).
  exists c. split; [exact H1|]. split; [exact H2|]. intro key. apply key_total_perm, H2.
Qed.

(* ------------------------------------------------------------------ *)
(* Part 4d: what a group holds keeps the units of what went in          *)

Lemma in_iter g x :
  In x (Group.iter g) <->
  (exists p, known g p = Some x) \/ In x (map snd (unknown g)) \/ In x (other g) \/ no_unit g = Some x.
Proof.
  unfold Group.iter. rewrite !in_app_iff, in_flat_map.
  assert (K : (exists p, In p pq_all /\ In x (opt_list (known g p))) <-> (exists p, known g p = Some x)).
  { split; intros (p & H).
    - exists p. destruct H as [_ H]. destruct (known g p); cbn in H; [destruct H as [->|[]]; reflexivity | contradiction].
    - exists p. split; [destruct p; cbn; tauto|]. rewrite H. left; reflexivity. }
  assert (N : In x (opt_list (no_unit g)) <-> no_unit g = Some x).
  { destruct (no_unit g); cbn; split; intro H; try contradiction; try discriminate.
    - destruct H as [->|[]]; reflexivity.
    - inversion H; auto. }
  rewrite K, N. tauto.
Qed.

Lemma in_map_insert {V} k (s : V) U x : In x (map snd (map_insert k s U)) -> x = s \/ In x (map snd U).
Proof.
  induction U as [|[k' v'] r IH]; cbn [map_insert map snd In].
  - intros [H|[]]; auto.
  - destruct (str_eqb k k'); cbn [map snd In]; intros [H|H]; auto. destruct (IH H); auto.
Qed.

Lemma in_iter_push_other g q x : In x (Group.iter (push_other g q)) -> x = q \/ In x (Group.iter g).
Proof.
  rewrite !in_iter. unfold push_other; cbn [known unknown other no_unit]. rewrite in_app_iff. cbn [In].
  intros [H|[H|[[H|[H|[]]]|H]]]; auto 6.
Qed.
Lemma in_iter_set_no_unit g q x : In x (Group.iter (set_no_unit g q)) -> x = q \/ In x (Group.iter g).
Proof.
  rewrite !in_iter. unfold set_no_unit; cbn [known unknown other no_unit].
  intros [H|[H|[H|H]]]; auto 6. inversion H; auto.
Qed.
Lemma in_iter_set_known g p q x : In x (Group.iter (set_known g p q)) -> x = q \/ In x (Group.iter g).
Proof.
  rewrite !in_iter. unfold set_known; cbn [known unknown other no_unit].
  intros [(p' & H)|[H|[H|H]]]; auto 6. destruct (pq_eqb p' p); [inversion H; auto | right; left; eauto].
Qed.
Lemma in_iter_set_unknown g k q x : In x (Group.iter (set_unknown g k q)) -> x = q \/ In x (Group.iter g).
Proof.
  rewrite !in_iter. unfold set_unknown; cbn [known unknown other no_unit].
  intros [H|[H|[H|H]]]; auto 6. destruct (in_map_insert _ _ _ _ H); auto.
Qed.

Lemma try_add_unit T' a b s : try_add T' a b = Done (Some s) -> qunit s = qunit a.
Proof.
  unfold try_add. destruct (compatible_unit T' a b) as [to|]; [|discriminate].
  destruct (match to with Some u => convert_qty T' b u | None => Done (Some (qval b)) end) as [r|]; cbn [obind]; [|discriminate].
  destruct r as [vb|]; [|discriminate]. destruct (value_add (qval a) vb); intro H; inversion H; reflexivity.
Qed.

Section UnitInvariant.
  Variable P : qty -> Prop.
  Hypothesis P_unit : forall a b, qunit a = qunit b -> P a -> P b.

  Lemma add_to_forall T' g stored q store g' :
    (forall s x, In x (Group.iter (store s)) -> x = s \/ In x (Group.iter g)) ->
    Forall P (Group.iter g) -> In stored (Group.iter g) -> P q ->
    add_to T' g stored q store = Done g' -> Forall P (Group.iter g').
  Proof.
    intros Hst Hg Hin Hq. unfold add_to. destruct (try_add T' stored q) as [r|] eqn:E; cbn [obind]; [|discriminate].
    rewrite Forall_forall in Hg.
    destruct r as [s|]; intro H; inversion H; subst g'; apply Forall_forall; intros x Hx.
    - destruct (Hst _ _ Hx) as [->|Hx']; [|auto]. apply (P_unit stored); [symmetry; eapply try_add_unit; eassumption | auto].
    - destruct (in_iter_push_other _ _ _ Hx) as [->|Hx']; auto.
  Qed.

  Lemma add_forall T' g q g' :
    Forall P (Group.iter g) -> P q -> add T' g q = Done g' -> Forall P (Group.iter g').
  Proof.
    intros Hg Hq. unfold add.
    assert (Hfresh : forall g1, (forall x, In x (Group.iter g1) -> x = q \/ In x (Group.iter g)) -> Forall P (Group.iter g1)).
    { intros g1 H1. apply Forall_forall. intros x Hx. rewrite Forall_forall in Hg. destruct (H1 _ Hx) as [->|]; auto. }
    destruct (is_text (qval q)).
    { intro H; inversion H; subst. apply Hfresh. apply in_iter_push_other. }
    destruct (qunit q) as [k|].
    - destruct (find_unit T' k) as [u|].
      + destruct (known g (upq u)) as [st|] eqn:K.
        * apply add_to_forall; auto; [intros; eapply in_iter_set_known; eassumption | apply in_iter; eauto].
        * intro H; inversion H; subst. apply Hfresh. apply in_iter_set_known.
      + destruct (aget k (unknown g)) as [st|] eqn:K.
        * apply add_to_forall; auto; [intros; eapply in_iter_set_unknown; eassumption|].
          apply in_iter. right; left. clear -K. induction (unknown g) as [|[k' v'] r IH]; cbn [aget] in K; [discriminate|].
          cbn [map snd In]. destruct (str_eqb k k'); [inversion K; auto | auto].
        * intro H; inversion H; subst. apply Hfresh. apply in_iter_set_unknown.
    - destruct (no_unit g) as [st|] eqn:K.
      + apply add_to_forall; auto; [intros; eapply in_iter_set_no_unit; eassumption | apply in_iter; auto 6].
      + intro H; inversion H; subst. apply Hfresh. apply in_iter_set_no_unit.
  Qed.

  Lemma add_all_forall T' qs : forall g g',
    Forall P (Group.iter g) -> Forall P qs -> add_all T' g qs = Done g' -> Forall P (Group.iter g').
  Proof.
    induction qs as [|q r IH]; intros g g' Hg Hq; cbn [add_all].
    - intro H; inversion H; subst; exact Hg.
    - inversion Hq; subst. destruct (add T' g q) as [g1|] eqn:E; cbn [obind]; [|discriminate].
      apply IH; [eapply add_forall; eassumption | assumption].
  Qed.

  Lemma fit_slots_forall fitq ps : forall g,
    (forall q q', fitq q = Some q' -> P q -> P q') ->
    Forall P (Group.iter g) -> Forall P (Group.iter (fst (fit_slots fitq g ps))).
  Proof.
    induction ps as [|p r IH]; intros g Hfit Hg; cbn [fit_slots fst]; [exact Hg|].
    destruct (known g p) as [q|] eqn:K; [|apply IH; auto].
    destruct (fitq q) as [q'|] eqn:F; [|exact Hg].
    apply IH; [exact Hfit|]. apply Forall_forall. intros x Hx. rewrite Forall_forall in Hg.
    destruct (in_iter_set_known _ _ _ _ Hx) as [->|]; [|auto].
    apply (Hfit q q' F). apply Hg. apply in_iter. eauto.
  Qed.
End UnitInvariant.

Lemma q_free_unit T a b : qunit a = qunit b -> q_free T a -> q_free T b.
Proof. unfold q_free. intros E H k u. rewrite <- E. apply H. Qed.

Definition gfree (T : table) (g : gq) : Prop := Forall (q_free T) (Group.iter g).

Lemma gfree_empty T : gfree T gq_empty.
Proof. constructor. Qed.


(* GroupedQuantity::fit with any Quantity::fit that keeps the contribution of
   offset-free quantities and stays offset-free (what C09 gives, see
   Proofs/GroupFit.v): the total is kept, also when it stops half-way *)
Section FitFree.
  Variable T : table.
  Variable fitq : qty -> option qty.
  Hypothesis fit_ok : forall q q', q_free T q -> fitq q = Some q' -> contrib T q' ≡ contrib T q /\ q_free T q'.

  Lemma fit_slots_free ps : forall g,
    gfree T g -> total T (fst (fit_slots fitq g ps)) ≡ total T g /\ gfree T (fst (fit_slots fitq g ps)).
  Proof.
    induction ps as [|p r IH]; intros g Hg; cbn [fit_slots fst]; [split; [reflexivity | exact Hg]|].
    destruct (known g p) as [q|] eqn:K; [|apply IH; exact Hg].
    destruct (fitq q) as [q'|] eqn:F; [|split; [reflexivity | exact Hg]].
    assert (Hq : q_free T q).
    { unfold gfree in Hg. rewrite Forall_forall in Hg. apply Hg. apply in_iter. eauto. }
    destruct (fit_ok q q' Hq F) as [Hc Hq'].
    assert (Hg' : gfree T (set_known g p q')).
    { unfold gfree in *. apply Forall_forall. intros x Hx. rewrite Forall_forall in Hg.
      destruct (in_iter_set_known _ _ _ _ Hx) as [->|]; auto. }
    destruct (IH _ Hg') as [I1 I2]. split; [|exact I2].
    rewrite I1. apply (splus_cancel_r _ _ (copt T (known g p))).
    rewrite total_set_known, K, copt_some, Hc. reflexivity.
  Qed.

  Lemma fit_free_total g :
    gfree T g -> total T (fst (fit fitq g)) ≡ total T g /\ gfree T (fst (fit fitq g)).
  Proof. apply fit_slots_free. Qed.
End FitFree.

(* ------------------------------------------------------------------ *)
(* Part 4c: a definition and the quantities counted under it           *)

Definition nth_ing (all : list ingredient) (i : N) : option ingredient := nth_error all (N.to_nat i).
Definition indices (all : list ingredient) : list N := map N.of_nat (List.seq 0%nat (List.length all)).

(* [j] is a reference to ingredient [i] (not to a step or a section) *)
Definition refers_to (all : list ingredient) (i j : N) : bool :=
  match nth_ing all j with
  | Some y => match irel y with RRef t true => (t =? i)%N | _ => false end
  | None => false
  end.

(* the references to [i], in recipe order *)
Definition refs_to (all : list ingredient) (i : N) : list N := filter (refers_to all i) (indices all).

Definition qty_at (all : list ingredient) (j : N) : list qty :=
  match nth_ing all j with Some y => opt_list (iqty y) | None => [] end.

(* what is counted under definition [x] at index [i]: its own quantity, then
   those of the references to it, in recipe order *)
Definition owned (all : list ingredient) (i : N) (x : ingredient) : list qty :=
  opt_list (iqty x) ++ flat_map (qty_at all) (refs_to all i).

Fixpoint list_N_eqb (a b : list N) : bool :=
  match a, b with
  | [], [] => true
  | x :: a', y :: b' => (x =? y)%N && list_N_eqb a' b'
  | _, _ => false
  end.

(* referential consistency (property C06) as far as grouping reads it: a
   definition's referenced_from is exactly the references to it, in order; a
   reference to an ingredient points back to a definition *)
Definition consistent_at (all : list ingredient) (i : N) (x : ingredient) : bool :=
  match irel x with
  | RDef refs => list_N_eqb refs (refs_to all i)
  | RRef t true => (t <? i)%N && match nth_ing all t with Some y => is_definition (irel y) | None => false end
  | RRef _ false => true
  end.

Definition consistent (all : list ingredient) : bool :=
  forallb (fun j => match nth_ing all j with Some x => consistent_at all j x | None => false end) (indices all).

Lemma list_N_eqb_eq a : forall b, list_N_eqb a b = true -> a = b.
Proof.
  induction a as [|x a IH]; intros [|y b]; cbn [list_N_eqb]; intro H; try discriminate; [reflexivity|].
  apply andb_true_iff in H as [H1 H2]. apply N.eqb_eq in H1. subst y. f_equal. apply IH, H2.
Qed.

Lemma in_indices all i : In i (indices all) <-> (N.to_nat i < List.length all)%nat.
Proof.
  unfold indices. rewrite in_map_iff. split.
  - intros (k & E & Hk). apply in_seq in Hk. subst i. rewrite Nat2N.id. lia.
  - intro H. exists (N.to_nat i). split; [apply N2Nat.id|]. apply in_seq. lia.
Qed.

Lemma nth_ing_in all i x : nth_ing all i = Some x -> In i (indices all) /\ In x all.
Proof.
  unfold nth_ing. intro H. split.
  - apply in_indices. apply nth_error_Some. congruence.
  - eapply nth_error_In; eassumption.
Qed.

Lemma consistent_nth all i x : consistent all = true -> nth_ing all i = Some x -> consistent_at all i x = true.
Proof.
  unfold consistent. intros H Hx. rewrite forallb_forall in H.
  specialize (H i (proj1 (nth_ing_in _ _ _ Hx))). rewrite Hx in H. exact H.
Qed.

(* each reference is counted under exactly one definition, once *)
Lemma refs_to_spec all i j :
  In j (refs_to all i) <-> exists y, nth_ing all j = Some y /\ irel y = RRef i true.
Proof.
  unfold refs_to. rewrite filter_In. unfold refers_to. split.
  - intros [_ H]. destruct (nth_ing all j) as [y|]; [|discriminate]. exists y. split; [reflexivity|].
    destruct (irel y) as [|t [|]]; try discriminate. apply N.eqb_eq in H. subst t. reflexivity.
  - intros (y & Hy & Hr). split; [apply (nth_ing_in _ _ _ Hy)|]. rewrite Hy, Hr. apply N.eqb_refl.
Qed.

Lemma indices_nodup all : NoDup (indices all).
Proof.
  unfold indices. apply FinFun.Injective_map_NoDup; [|apply seq_NoDup].
  intros a b H. apply Nat2N.inj in H. exact H.
Qed.

Lemma refs_to_nodup all i : NoDup (refs_to all i).
Proof. unfold refs_to. apply NoDup_filter, indices_nodup. Qed.

(* under consistency a reference comes after its definition, and its target is a definition *)
Lemma refs_after all i j : consistent all = true -> In j (refs_to all i) ->
  (i < j)%N /\ exists x, nth_ing all i = Some x /\ is_definition (irel x) = true.
Proof.
  intros Hc Hj. apply refs_to_spec in Hj as (y & Hy & Hr).
  pose proof (consistent_nth _ _ _ Hc Hy) as H. unfold consistent_at in H. rewrite Hr in H.
  apply andb_true_iff in H as [H1 H2]. apply N.ltb_lt in H1. split; [exact H1|].
  destruct (nth_ing all i) as [x|]; [|discriminate]. exists x. auto.
Qed.

Lemma ref_qtys_ok all refs :
  (forall j, In j refs -> In j (indices all)) -> ref_qtys all refs = Done (flat_map (qty_at all) refs).
Proof.
  induction refs as [|j r IH]; intro H; cbn [ref_qtys flat_map]; [reflexivity|].
  assert (Hj : In j (indices all)) by (apply H; left; reflexivity).
  apply in_indices in Hj. unfold qty_at at 1, nth_ing.
  destruct (nth_error all (N.to_nat j)) as [y|] eqn:E.
  - rewrite IH by (intros; apply H; right; assumption). reflexivity.
  - apply nth_error_None in E. lia.
Qed.

(* all_quantities lists exactly the owned quantities, in recipe order; no index panic *)
Lemma all_quantities_ok all i x :
  consistent all = true -> nth_ing all i = Some x -> is_definition (irel x) = true ->
  all_quantities all x = Done (owned all i x).
Proof.
  intros Hc Hx Hd. pose proof (consistent_nth _ _ _ Hc Hx) as H. unfold consistent_at in H.
  unfold all_quantities, owned. destruct (irel x) as [refs|]; [|discriminate]. cbn [referenced_from].
  apply list_N_eqb_eq in H. subst refs.
  rewrite ref_qtys_ok; [reflexivity|]. intros j Hj. unfold refs_to in Hj. apply filter_In in Hj. tauto.
Qed.

Lemma owned_in all i x q : In x all -> In q (owned all i x) -> exists y, In y all /\ iqty y = Some q.
Proof.
  intros Hx H. unfold owned in H. apply in_app_or in H as [H|H].
  - exists x. split; [exact Hx|]. destruct (iqty x); cbn in H; [destruct H as [->|[]]; reflexivity | contradiction].
  - apply in_flat_map in H as (j & _ & H). unfold qty_at in H.
    destruct (nth_ing all j) as [y|] eqn:E; [|contradiction]. exists y. split; [apply (nth_ing_in _ _ _ E)|].
    destruct (iqty y); cbn in H; [destruct H as [->|[]]; reflexivity | contradiction].
Qed.

(* every quantity written in the recipe is offset-free *)
Definition recipe_free (T : table) (all : list ingredient) : Prop :=
  forall y q, In y all -> iqty y = Some q -> q_free T q.

Section Recipes.
  Variable T : table.
  Variable fitq : qty -> option qty.
  Hypothesis Hsane : sane T = true.
  (* C09: Quantity::fit keeps the amount of offset-free quantities and stays within offset-free units *)
  Hypothesis fit_ok : forall q q', q_free T q -> fitq q = Some q' -> contrib T q' ≡ contrib T q /\ q_free T q'.

  Lemma group_quantities_ok all i x :
    consistent all = true -> recipe_free T all -> nth_ing all i = Some x -> is_definition (irel x) = true ->
    exists g, group_quantities T fitq all x = Done g /\ total T g ≡ sum_contrib T (owned all i x) /\ gfree T g.
  Proof.
    intros Hc Hf Hx Hd. unfold group_quantities. rewrite (all_quantities_ok all i x Hc Hx Hd). cbn [obind].
    assert (Hq : Forall (q_free T) (owned all i x)).
    { apply Forall_forall. intros q Hq.
      destruct (owned_in all i x q (proj2 (nth_ing_in _ _ _ Hx)) Hq) as (y & Hy & E). eapply Hf; eassumption. }
    destruct (fold_free T (owned all i x) Hsane Hq) as (g & H1 & H2).
    rewrite H1. cbn [obind]. eexists. split; [reflexivity|].
    assert (Hg : gfree T g).
    { apply (add_all_forall (q_free T) (q_free_unit T) T (owned all i x) gq_empty g); [constructor | exact Hq | exact H1]. }
    destruct (fit_free_total T fitq fit_ok g Hg) as [F1 F2]. split; [|exact F2].
    rewrite F1. exact H2.
  Qed.

  (* the indices group_ingredients reports: the definitions, in recipe order *)
  Fixpoint def_indices (rest : list ingredient) (idx : N) : list N :=
    match rest with
    | [] => []
    | x :: r => if is_definition (irel x) then idx :: def_indices r (idx + 1) else def_indices r (idx + 1)
    end.

  Definition entry_ok (all : list ingredient) (e : N * ingredient * gq) : Prop :=
    let '(i, x, g) := e in
    nth_ing all i = Some x /\ is_definition (irel x) = true /\ total T g ≡ sum_contrib T (owned all i x).

  Lemma group_from_ok all : consistent all = true -> recipe_free T all ->
    forall rest idx, (forall k, nth_error rest k = nth_error all (N.to_nat idx + k)) ->
    exists es, group_from T fitq all rest idx = Done es /\
               map (fun e => fst (fst e)) es = def_indices rest idx /\ Forall (entry_ok all) es.
  Proof.
    intros Hc Hf. induction rest as [|x r IH]; intros idx Hn; cbn [group_from def_indices].
    - exists []. repeat split. constructor.
    - assert (Hx : nth_ing all idx = Some x).
      { unfold nth_ing. rewrite <- (Nat.add_0_r (N.to_nat idx)), <- Hn. reflexivity. }
      destruct (IH (idx + 1)%N) as (es & H1 & H2 & H3).
      { intro k. rewrite N2Nat.inj_add. change (N.to_nat 1) with 1%nat.
        replace (N.to_nat idx + 1 + k)%nat with (N.to_nat idx + S k)%nat by lia. rewrite <- Hn. reflexivity. }
      destruct (is_definition (irel x)) eqn:Hd.
      + destruct (group_quantities_ok all idx x Hc Hf Hx Hd) as (g & G1 & G2 & _).
        rewrite G1, H1. cbn [obind]. eexists. split; [reflexivity|]. split.
        * cbn [map fst]. rewrite H2. reflexivity.
        * constructor; [|exact H3]. cbn. auto.
      + rewrite H1. exists es. auto.
  Qed.

  Lemma group_ingredients_ok all : consistent all = true -> recipe_free T all ->
    exists es, group_ingredients T fitq all = Done es /\
               map (fun e => fst (fst e)) es = def_indices all 0 /\ Forall (entry_ok all) es.
  Proof. intros Hc Hf. unfold group_ingredients. apply group_from_ok; auto. Qed.
End Recipes.
(* ------------------------------------------------------------------ *)
(* Part 4e: IngredientList                                             *)

(* the total listed under one display name *)
Definition name_total (T : table) (n : str) (l : ilist) : summary :=
  ssum (map (fun e => if str_eqb (fst e) n then total T (snd e) else szero) l).

Lemma name_total_perm T n a b : Permutation a b -> name_total T n a ≡ name_total T n b.
Proof. intro H. apply ssum_perm, Permutation_map, H. Qed.

Lemma name_total_cons T n k g l :
  name_total T n ((k, g) :: l) = (if str_eqb k n then total T g else szero) ⊕ name_total T n l.
Proof. reflexivity. Qed.

Lemma add_ingredient_spec T l name g :
  sane T = true -> gfree T g ->
  exists l', add_ingredient T l name g = Done l' /\
    forall n, name_total T n l' ≡ name_total T n l ⊕ (if str_eqb name n then total T g else szero).
Proof.
  intros Hs Hg. unfold add_ingredient.
  destruct (bt_alter_total name (fun o => merge T (match o with Some e => e | None => gq_empty end) g) l) as [l' Hb].
  { intro o. destruct (merge_free T T (match o with Some e => e | None => gq_empty end) g Hs (agrees_refl T) Hg) as (v & Hv & _).
    exists v. exact Hv. }
  exists l'. split; [exact Hb|]. intro n.
  destruct (bt_alter_perm _ _ _ _ Hb) as (o & v & Hv & P).
  destruct (merge_free T T (match o with Some e => e | None => gq_empty end) g Hs (agrees_refl T) Hg) as (v' & Hv' & Ht).
  rewrite Hv in Hv'. inversion Hv'; subst v'. clear Hv'.
  destruct o as [e|].
  - destruct P as (m0 & P0 & P1).
    rewrite (name_total_perm T n _ _ P1), (name_total_perm T n _ _ P0), !name_total_cons.
    destruct (str_eqb name n).
    + rewrite Ht. generalize (total T e) (total T g) (name_total T n m0). intros A B C. smon.
    + generalize (name_total T n m0). intros C. smon.
  - rewrite (name_total_perm T n _ _ P), name_total_cons.
    destruct (str_eqb name n).
    + rewrite Ht, total_empty. generalize (total T g) (name_total T n l). intros B C. smon.
    + generalize (name_total T n l). intros C. smon.
Qed.

(* what a list of grouped definitions adds under a name: hidden and
   reference-only ones are not listed *)
Definition listed_total (T : table) (n : str) (es : list (N * ingredient * gq)) : summary :=
  ssum (map (fun e => if should_be_listed (snd (fst e)) && str_eqb (display_name (snd (fst e))) n
                      then total T (snd e) else szero) es).

Lemma listed_total_cons T n e r :
  listed_total T n (e :: r) =
  (if should_be_listed (snd (fst e)) && str_eqb (display_name (snd (fst e))) n then total T (snd e) else szero)
  ⊕ listed_total T n r.
Proof. reflexivity. Qed.

Lemma add_entries_spec T es : forall l,
  sane T = true -> Forall (fun e => gfree T (snd e)) es ->
  exists l', add_entries T l es = Done l' /\
    forall n, name_total T n l' ≡ name_total T n l ⊕ listed_total T n es.
Proof.
  induction es as [|[[i x] g] r IH]; intros l Hs Hf; cbn [add_entries].
  - exists l. split; [reflexivity|]. intro n. unfold listed_total; cbn [map ssum]. symmetry. apply splus_zero_r.
  - inversion Hf as [|? ? Hg Hr]; subst. cbn [snd] in Hg.
    destruct (should_be_listed x) eqn:Hl.
    + destruct (add_ingredient_spec T l (display_name x) g Hs Hg) as (l1 & H1 & H2). rewrite H1. cbn [obind].
      destruct (IH l1 Hs Hr) as (l2 & H3 & H4). exists l2. split; [exact H3|]. intro n.
      rewrite listed_total_cons; cbn [fst snd]. rewrite Hl, H4, H2. cbn [andb]. apply splus_assoc.
    + destruct (IH l Hs Hr) as (l2 & H3 & H4). exists l2. split; [exact H3|]. intro n.
      rewrite listed_total_cons; cbn [fst snd]. rewrite Hl, H4. cbn [andb]. rewrite splus_zero_l. reflexivity.
Qed.

Section Lists.
  Variable T : table.
  Variable fitq : qty -> option qty.
  Hypothesis Hsane : sane T = true.
  (* C09: Quantity::fit keeps the amount of offset-free quantities and stays within offset-free units *)
  Hypothesis fit_ok : forall q q', q_free T q -> fitq q = Some q' -> contrib T q' ≡ contrib T q /\ q_free T q'.

  (* what recipe [all] lists under display name [n]: for each ingredient in
     recipe order, if it is a definition that should be listed and is shown
     under [n], everything counted under it *)
  Fixpoint listed_sum (all : list ingredient) (n : str) (rest : list ingredient) (idx : N) : summary :=
    match rest with
    | [] => szero
    | x :: r =>
        (if is_definition (irel x) && should_be_listed x && str_eqb (display_name x) n
         then sum_contrib T (owned all idx x) else szero) ⊕ listed_sum all n r (idx + 1)
    end.

  Definition recipe_lists (all : list ingredient) (n : str) : summary := listed_sum all n all 0.

  Lemma group_from_listed all : consistent all = true -> recipe_free T all ->
    forall rest idx, (forall k, nth_error rest k = nth_error all (N.to_nat idx + k)) ->
    exists es, group_from T fitq all rest idx = Done es /\
               Forall (fun e => gfree T (snd e)) es /\
               forall n, listed_total T n es ≡ listed_sum all n rest idx.
  Proof.
    intros Hc Hf. induction rest as [|x r IH]; intros idx Hn; cbn [group_from listed_sum].
    - exists []. split; [reflexivity|]. split; [constructor|]. intro n. reflexivity.
    - assert (Hx : nth_ing all idx = Some x).
      { unfold nth_ing. rewrite <- (Nat.add_0_r (N.to_nat idx)), <- Hn. reflexivity. }
      destruct (IH (idx + 1)%N) as (es & H1 & H2 & H3).
      { intro k. rewrite N2Nat.inj_add. change (N.to_nat 1) with 1%nat.
        replace (N.to_nat idx + 1 + k)%nat with (N.to_nat idx + S k)%nat by lia. rewrite <- Hn. reflexivity. }
      destruct (is_definition (irel x)) eqn:Hd.
      + destruct (group_quantities_ok T fitq Hsane fit_ok all idx x Hc Hf Hx Hd) as (g & G1 & G2 & G3).
        rewrite G1, H1. cbn [obind]. eexists. split; [reflexivity|]. split.
        * constructor; [|exact H2]. cbn [snd]. exact G3.
        * intro n. rewrite listed_total_cons; cbn [fst snd andb].
          rewrite H3. destruct (should_be_listed x && str_eqb (display_name x) n); [rewrite G2|]; reflexivity.
      + rewrite H1. exists es. split; [reflexivity|]. split; [exact H2|]. intro n. cbn [andb].
        rewrite H3. symmetry. apply splus_zero_l.
  Qed.

  (* IngredientList::add_recipe *)
  Lemma add_recipe_spec l all : consistent all = true -> recipe_free T all ->
    exists l', add_recipe T fitq l all = Done l' /\
      forall n, name_total T n l' ≡ name_total T n l ⊕ recipe_lists all n.
  Proof.
    intros Hc Hf. unfold add_recipe, group_ingredients, recipe_lists.
    destruct (group_from_listed all Hc Hf all 0%N) as (es & H1 & H2 & H3); [intro k; reflexivity|].
    rewrite H1. cbn [obind]. destruct (add_entries_spec T es l Hsane H2) as (l' & H4 & H5).
    exists l'. split; [exact H4|]. intro n. rewrite H5, H3. reflexivity.
  Qed.

  Definition recipes_ok (rs : list (list ingredient)) : Prop :=
    Forall (fun all => consistent all = true /\ recipe_free T all) rs.

  Lemma add_recipes_spec rs : forall l, recipes_ok rs ->
    exists l', add_recipes T fitq l rs = Done l' /\
      forall n, name_total T n l' ≡ name_total T n l ⊕ ssum (map (fun all => recipe_lists all n) rs).
  Proof.
    induction rs as [|all r IH]; intros l Hr; cbn [add_recipes map ssum].
    - exists l. split; [reflexivity|]. intro n. symmetry. apply splus_zero_r.
    - inversion Hr as [|? ? [Hc Hf] Hr']; subst.
      destruct (add_recipe_spec l all Hc Hf) as (l1 & H1 & H2). rewrite H1. cbn [obind].
      destruct (IH l1 Hr') as (l2 & H3 & H4). exists l2. split; [exact H3|]. intro n.
      rewrite H4, H2. apply splus_assoc.
  Qed.

  Lemma add_recipes_order rs rs' : recipes_ok rs -> Permutation rs rs' ->
    exists l l', add_recipes T fitq [] rs = Done l /\ add_recipes T fitq [] rs' = Done l' /\
                 forall n, name_total T n l ≡ name_total T n l'.
  Proof.
    intros Hr Hp.
    assert (Hr' : recipes_ok rs').
    { unfold recipes_ok in *. rewrite Forall_forall in *. intros x Hx. apply Hr.
      eapply Permutation_in; [symmetry; exact Hp | exact Hx]. }
    destruct (add_recipes_spec rs [] Hr) as (l & H1 & H2). destruct (add_recipes_spec rs' [] Hr') as (l' & H3 & H4).
    exists l, l'. split; [exact H1|]. split; [exact H3|]. intro n. rewrite H2, H4.
    apply splus_proper; [reflexivity|]. apply ssum_perm, Permutation_map, Hp.
  Qed.
End Lists.

From Coq Require Import Sorting.Sorted.
(* ------------------------------------------------------------------ *)
(* Part 4f: the BTreeMap model keeps its keys strictly increasing       *)

Lemma str_ltb_irrefl a : str_ltb a a = false.
Proof.
  induction a as [|x a IH]; cbn [str_ltb]; [reflexivity|]. rewrite N.ltb_irrefl. exact IH.
Qed.

Lemma str_ltb_trans a : forall b c, str_ltb a b = true -> str_ltb b c = true -> str_ltb a c = true.
Proof.
  induction a as [|x a IH]; intros [|y b] [|z c]; cbn [str_ltb]; intros H1 H2; try discriminate; try reflexivity.
  destruct (N.ltb_spec x y), (N.ltb_spec y x), (N.ltb_spec y z), (N.ltb_spec z y), (N.ltb_spec x z), (N.ltb_spec z x);
    try discriminate; try reflexivity; try lia.
  eapply IH; eassumption.
Qed.

Lemma str_ltb_total a : forall b, str_eqb a b = false -> str_ltb a b = false -> str_ltb b a = true.
Proof.
  induction a as [|x a IH]; intros [|y b]; cbn [str_ltb str_eqb]; intros H1 H2; try discriminate; try reflexivity.
  destruct (N.ltb_spec x y), (N.ltb_spec y x); try discriminate; try reflexivity; try lia.
  assert (x = y) by lia. subst y. rewrite N.eqb_refl in H1. cbn [andb] in H1. apply IH; assumption.
Qed.

Definition lt_str (a b : str) : Prop := str_ltb a b = true.

(* strictly increasing keys *)
Definition keys_sorted {V} (m : list (str * V)) : Prop := StronglySorted lt_str (map fst m).

Lemma keys_sorted_nodup {V} (m : list (str * V)) : keys_sorted m -> NoDup (map fst m).
Proof.
  unfold keys_sorted. induction (map fst m) as [|k r IH]; intro H; [constructor|].
  inversion H as [|? ? Hs Hf]; subst. constructor; [|auto].
  intro Hin. rewrite Forall_forall in Hf. specialize (Hf _ Hin). unfold lt_str in Hf.
  rewrite str_ltb_irrefl in Hf. discriminate.
Qed.

Lemma bt_alter_keys {V} k (f : option V -> outcome V) m : forall m',
  bt_alter k f m = Done m' -> forall x, In x (map fst m') -> x = k \/ In x (map fst m).
Proof.
  induction m as [|[k' v'] r IH]; intros m'; cbn [bt_alter].
  - destruct (f None); cbn [obind]; intro H; inversion H; subst. cbn [map fst In]. intros x Hx. intuition (subst; auto).
  - destruct (str_eqb k k') eqn:E.
    + destruct (f (Some v')); cbn [obind]; intro H; inversion H; subst. cbn [map fst In]. intros x Hx. intuition (subst; auto).
    + destruct (str_ltb k k').
      * destruct (f None); cbn [obind]; intro H; inversion H; subst. cbn [map fst In]. intros x Hx. intuition (subst; auto).
      * destruct (bt_alter k f r) as [r'|] eqn:B; cbn [obind]; intro H; inversion H; subst.
        cbn [map fst In]. intros x [Hx|Hx]; [auto|]. destruct (IH r' eq_refl x Hx); auto.
Qed.

Lemma bt_alter_sorted {V} k (f : option V -> outcome V) m : forall m',
  keys_sorted m -> bt_alter k f m = Done m' -> keys_sorted m'.
Proof.
  unfold keys_sorted.
  induction m as [|[k' v'] r IH]; intros m' Hs; cbn [bt_alter].
  - destruct (f None); cbn [obind]; intro H; inversion H; subst. cbn. repeat constructor.
  - cbn [map fst] in Hs. inversion Hs as [|? ? Hs' Hf]; subst.
    destruct (str_eqb k k') eqn:E.
    + apply str_eqb_eq in E. subst k'.
      destruct (f (Some v')); cbn [obind]; intro H; inversion H; subst. cbn [map fst]. exact Hs.
    + destruct (str_ltb k k') eqn:L.
      * destruct (f None); cbn [obind]; intro H; inversion H; subst. cbn [map fst].
        constructor; [exact Hs|]. constructor; [exact L|].
        rewrite Forall_forall in *. intros x Hx. eapply str_ltb_trans; [exact L | apply Hf, Hx].
      * destruct (bt_alter k f r) as [r'|] eqn:B; cbn [obind]; intro H; inversion H; subst.
        cbn [map fst]. constructor; [apply (IH r' Hs' eq_refl)|].
        rewrite Forall_forall in *. intros x Hx.
        destruct (bt_alter_keys _ _ _ _ B x Hx) as [->|Hx']; [|apply Hf, Hx'].
        apply str_ltb_total; assumption.
Qed.

Lemma add_entries_sorted T es : forall l l',
  keys_sorted l -> add_entries T l es = Done l' -> keys_sorted l'.
Proof.
  induction es as [|[[i x] g] r IH]; intros l l' Hs; cbn [add_entries].
  - intro H; inversion H; subst; exact Hs.
  - destruct (should_be_listed x); [|apply IH; exact Hs].
    destruct (add_ingredient T l (display_name x) g) as [l1|] eqn:E; cbn [obind]; [|discriminate].
    apply IH. unfold add_ingredient in E. eapply bt_alter_sorted; eassumption.
Qed.

Lemma add_recipes_sorted T fitq rs : forall l l',
  keys_sorted l -> add_recipes T fitq l rs = Done l' -> keys_sorted l'.
Proof.
  induction rs as [|all r IH]; intros l l' Hs; cbn [add_recipes].
  - intro H; inversion H; subst; exact Hs.
  - destruct (add_recipe T fitq l all) as [l1|] eqn:E; cbn [obind]; [|discriminate].
    apply IH. unfold add_recipe in E.
    destruct (group_ingredients T fitq all) as [es|]; cbn [obind] in E; [|discriminate].
    eapply add_entries_sorted; eassumption.
Qed.

Lemma keys_sorted_nil {V} : keys_sorted (@nil (str * V)).
Proof. constructor. Qed.

(* every list built by add_recipes has distinct, strictly increasing keys *)
Lemma add_recipes_nodup T fitq rs l :
  add_recipes T fitq [] rs = Done l -> keys_sorted l /\ NoDup (map fst l).
Proof.
  intro H. assert (S : keys_sorted l) by (eapply add_recipes_sorted; [apply keys_sorted_nil | exact H]).
  split; [exact S | apply keys_sorted_nodup, S].
Qed.

(* ... so categorize needs only the absence of a collision *)
Lemma list_then_categorize T fitq rs l U inf :
  add_recipes T fitq [] rs = Done l -> synonym_collision inf l = false ->
  exists c, categorize false inf l = Done c /\ Permutation (entries c) (map (rekey inf) l)
            /\ categorize_conserves U inf l c.
Proof.
  intros H Hc. apply categorize_conserves_ok; [|exact Hc]. apply (add_recipes_nodup T fitq rs l H).
Qed.

(* ------------------------------------------------------------------ *)
(* Part 4g: cookware definitions and the amounts counted under them     *)

Definition nth_cw (all : list cookware) (i : N) : option cookware := nth_error all (N.to_nat i).
Definition cw_indices (all : list cookware) : list N := map N.of_nat (List.seq 0%nat (List.length all)).

Definition cw_refers_to (all : list cookware) (i j : N) : bool :=
  match nth_cw all j with
  | Some y => match crel y with RRef t true => (t =? i)%N | _ => false end
  | None => false
  end.

Definition cw_refs_to (all : list cookware) (i : N) : list N := filter (cw_refers_to all i) (cw_indices all).

Definition amount_at (all : list cookware) (j : N) : list value :=
  match nth_cw all j with Some y => opt_list (cqty y) | None => [] end.

(* what is counted under cookware definition [x] at index [i]: its own amount,
   then those of the references to it, in recipe order *)
Definition cw_owned (all : list cookware) (i : N) (x : cookware) : list value :=
  opt_list (cqty x) ++ flat_map (amount_at all) (cw_refs_to all i).

Definition cw_consistent_at (all : list cookware) (i : N) (x : cookware) : bool :=
  match crel x with
  | RDef refs => list_N_eqb refs (cw_refs_to all i)
  | RRef t true => (t <? i)%N && match nth_cw all t with Some y => is_definition (crel y) | None => false end
  | RRef _ false => true
  end.

Definition cw_consistent (all : list cookware) : bool :=
  forallb (fun j => match nth_cw all j with Some x => cw_consistent_at all j x | None => false end) (cw_indices all).

Lemma in_cw_indices all i : In i (cw_indices all) <-> (N.to_nat i < List.length all)%nat.
Proof.
  unfold cw_indices. rewrite in_map_iff. split.
  - intros (k & E & Hk). apply in_seq in Hk. subst i. rewrite Nat2N.id. lia.
  - intro H. exists (N.to_nat i). split; [apply N2Nat.id|]. apply in_seq. lia.
Qed.

Lemma nth_cw_in all i x : nth_cw all i = Some x -> In i (cw_indices all).
Proof. unfold nth_cw. intro H. apply in_cw_indices. apply nth_error_Some. congruence. Qed.

Lemma cw_consistent_nth all i x :
  cw_consistent all = true -> nth_cw all i = Some x -> cw_consistent_at all i x = true.
Proof.
  unfold cw_consistent. intros H Hx. rewrite forallb_forall in H.
  specialize (H i (nth_cw_in _ _ _ Hx)). rewrite Hx in H. exact H.
Qed.

Lemma cw_refs_to_spec all i j :
  In j (cw_refs_to all i) <-> exists y, nth_cw all j = Some y /\ crel y = RRef i true.
Proof.
  unfold cw_refs_to. rewrite filter_In. unfold cw_refers_to. split.
  - intros [_ H]. destruct (nth_cw all j) as [y|]; [|discriminate]. exists y. split; [reflexivity|].
    destruct (crel y) as [|t [|]]; try discriminate. apply N.eqb_eq in H. subst t. reflexivity.
  - intros (y & Hy & Hr). split; [apply (nth_cw_in _ _ _ Hy)|]. rewrite Hy, Hr. apply N.eqb_refl.
Qed.

Lemma cw_refs_to_nodup all i : NoDup (cw_refs_to all i).
Proof.
  unfold cw_refs_to, cw_indices. apply NoDup_filter. apply FinFun.Injective_map_NoDup; [|apply seq_NoDup].
  intros a b H. apply Nat2N.inj in H. exact H.
Qed.

Lemma cw_refs_after all i j : cw_consistent all = true -> In j (cw_refs_to all i) ->
  (i < j)%N /\ exists x, nth_cw all i = Some x /\ is_definition (crel x) = true.
Proof.
  intros Hc Hj. apply cw_refs_to_spec in Hj as (y & Hy & Hr).
  pose proof (cw_consistent_nth _ _ _ Hc Hy) as H. unfold cw_consistent_at in H. rewrite Hr in H.
  apply andb_true_iff in H as [H1 H2]. apply N.ltb_lt in H1. split; [exact H1|].
  destruct (nth_cw all i) as [x|]; [|discriminate]. exists x. auto.
Qed.

Lemma ref_amounts_ok all refs :
  (forall j, In j refs -> In j (cw_indices all)) -> ref_amounts all refs = Done (flat_map (amount_at all) refs).
Proof.
  induction refs as [|j r IH]; intro H; cbn [ref_amounts flat_map]; [reflexivity|].
  assert (Hj : In j (cw_indices all)) by (apply H; left; reflexivity).
  apply in_cw_indices in Hj. unfold amount_at at 1, nth_cw.
  destruct (nth_error all (N.to_nat j)) as [y|] eqn:E.
  - rewrite IH by (intros; apply H; right; assumption). reflexivity.
  - apply nth_error_None in E. lia.
Qed.

(* group_amounts never panics (no index out of range, no failed `expect`) and
   holds exactly the owned amounts *)
Lemma group_amounts_ok all i x :
  cw_consistent all = true -> nth_cw all i = Some x -> is_definition (crel x) = true ->
  exists g, group_amounts all x = Done g /\ gv_total g ≡ ssum (map vcontrib (cw_owned all i x)) /\ gv_wf g.
Proof.
  intros Hc Hx Hd. pose proof (cw_consistent_nth _ _ _ Hc Hx) as H. unfold cw_consistent_at in H.
  unfold group_amounts, cw_owned. destruct (crel x) as [refs|]; [|discriminate]. cbn [referenced_from].
  apply list_N_eqb_eq in H. subst refs.
  rewrite ref_amounts_ok by (intros j Hj; unfold cw_refs_to in Hj; apply filter_In in Hj; tauto).
  cbn [obind].
  destruct (gv_add_all_spec (opt_list (cqty x) ++ flat_map (amount_at all) (cw_refs_to all i)) []) as (g & H1 & H2 & H3).
  exists g. split; [exact H1|]. split.
  - rewrite H2. change (gv_total []) with szero. apply splus_zero_l.
  - apply H3. constructor.
Qed.

Fixpoint cw_def_indices (rest : list cookware) (idx : N) : list N :=
  match rest with
  | [] => []
  | x :: r => if is_definition (crel x) then idx :: cw_def_indices r (idx + 1) else cw_def_indices r (idx + 1)
  end.

Definition cw_entry_ok (all : list cookware) (e : N * gv) : Prop :=
  exists x, nth_cw all (fst e) = Some x /\ is_definition (crel x) = true /\
            gv_total (snd e) ≡ ssum (map vcontrib (cw_owned all (fst e) x)) /\ gv_wf (snd e).

Lemma cookware_from_ok all : cw_consistent all = true ->
  forall rest idx, (forall k, nth_error rest k = nth_error all (N.to_nat idx + k)) ->
  exists es, cookware_from all rest idx = Done es /\
             map fst es = cw_def_indices rest idx /\ Forall (cw_entry_ok all) es.
Proof.
  intros Hc. induction rest as [|x r IH]; intros idx Hn; cbn [cookware_from cw_def_indices].
  - exists []. repeat split. constructor.
  - assert (Hx : nth_cw all idx = Some x).
    { unfold nth_cw. rewrite <- (Nat.add_0_r (N.to_nat idx)), <- Hn. reflexivity. }
    destruct (IH (idx + 1)%N) as (es & H1 & H2 & H3).
    { intro k. rewrite N2Nat.inj_add. change (N.to_nat 1) with 1%nat.
      replace (N.to_nat idx + 1 + k)%nat with (N.to_nat idx + S k)%nat by lia. rewrite <- Hn. reflexivity. }
    destruct (is_definition (crel x)) eqn:Hd.
    + destruct (group_amounts_ok all idx x Hc Hx Hd) as (g & G1 & G2 & G3).
      rewrite G1, H1. cbn [obind]. eexists. split; [reflexivity|]. split.
      * cbn [map fst]. rewrite H2. reflexivity.
      * constructor; [|exact H3]. exists x. cbn [fst snd]. auto.
    + rewrite H1. exists es. auto.
Qed.

Lemma group_cookware_ok all : cw_consistent all = true ->
  exists es, group_cookware all = Done es /\
             map fst es = cw_def_indices all 0 /\ Forall (cw_entry_ok all) es.
Proof. intro Hc. unfold group_cookware. apply cookware_from_ok; auto. Qed.

From Coq Require Import String Ascii.

(* ------------------------------------------------------------------ *)
(* the recorded witness of the open finding (known_findings.json):
   tuna 100 g + chicken of the sea 200 g, aisle line tuna|chicken of the sea *)

Definition s_of (s : string) : str := map N_of_ascii (list_ascii_of_string s).

Definition w_T : table := [(s_of "g", {| uid := 0; ratio := 1; difference := 0; upq := Mass |})].
Definition w_ing (name : string) (v : Q) : ingredient :=
  {| iname := s_of name; ialias := None; istem := None;
     iqty := Some {| qval := VNum v; qunit := Some (s_of "g") |};
     ihidden := false; iref := false; irecipe := false; irel := RDef [] |}.
Definition w_recipe : list ingredient := [w_ing "tuna" 100; w_ing "chicken of the sea" 200].
Definition w_list : ilist :=
  match add_recipes w_T (fun q => Some q) [] [w_recipe] with Done l => l | Panic _ => [] end.
Definition w_inf_collide := info [{| cname := s_of "canned"; cings := [[s_of "tuna"; s_of "chicken of the sea"]] |}].
Definition w_inf_apart := info [{| cname := s_of "canned"; cings := [[s_of "tuna"]; [s_of "chicken of the sea"]] |}].

Lemma w_list_nodup : NoDup (map fst w_list).
Proof.
  vm_compute. constructor; [intros [H|[]]; discriminate H|]. constructor; [intros []|constructor].
Qed.

Lemma categorize_refuted :
  exists T inf l,
    sane T = true /\ NoDup (map fst l) /\ synonym_collision inf l = true /\
    exists c, categorize false inf l = Done c /\ ~ categorize_conserves T inf l c.
Proof.
  exists w_T, w_inf_collide, w_list.
  split; [vm_compute; reflexivity|]. split; [exact w_list_nodup|]. split; [vm_compute; reflexivity|].
  eexists. split; [vm_compute; reflexivity|].
  intro H. specialize (H (Some (s_of "canned"), s_of "tuna")). destruct H as (H & _).
  specialize (H Mass). vm_compute in H. destruct H as [H _]. discriminate H.
Qed.

(* the hypotheses of the positive theorem are satisfiable (same list, names on two lines) *)
Lemma categorize_hyps_sat :
  exists inf l, l <> [] /\ NoDup (map fst l) /\ synonym_collision inf l = false /\ cat_dests inf l <> [].
Proof.
  exists w_inf_apart, w_list. split; [vm_compute; discriminate|]. split; [exact w_list_nodup|].
  split; [vm_compute; reflexivity | vm_compute; discriminate].
Qed.

(* the hypotheses of the recipe/list theorems are satisfiable: a definition with
   a later reference, a hidden ingredient, a reference to a step *)
Definition w_item (name : string) (v : Q) (hidden : bool) (rel : Group.relation) : ingredient :=
  {| iname := s_of name; ialias := None; istem := None;
     iqty := Some {| qval := VNum v; qunit := Some (s_of "g") |};
     ihidden := hidden; iref := false; irecipe := false; irel := rel |}.
Definition w_recipe2 : list ingredient :=
  [w_item "flour" 100 false (RDef [2%N]); w_item "salt" 1 true (RDef []);
   w_item "flour" 50 false (RRef 0 true); w_item "mix" 10 false (RRef 0 false)].

Lemma w_T_free q : q_free w_T q.
Proof. intros k u _ F. apply pq_free_b_ok. destruct (upq u); vm_compute; reflexivity. Qed.

Lemma list_hyps_sat :
  exists T (fitq : qty -> option qty) all,
    sane T = true /\
    (forall q q', q_free T q -> fitq q = Some q' -> contrib T q' ≡ contrib T q /\ q_free T q') /\
    consistent all = true /\ recipe_free T all /\ refs_to all 0 = [2%N].
Proof.
  exists w_T, (fun q => Some q), w_recipe2.
  split; [vm_compute; reflexivity|].
  split; [intros q q' Hq H; inversion H; subst; split; [reflexivity | exact Hq]|].
  split; [vm_compute; reflexivity|].
  split; [intros y q _ _; apply w_T_free | vm_compute; reflexivity].
Qed.
