(* Round trips of steps, blocks and documents (C01, parts 3-5). *)
From CL Require Import Base.StrLemmas Model.Lexer Model.Parser Proofs.LexerProofs Proofs.ParserGates.
From CL Require Import Model.Printer Proofs.RoundTrip Proofs.RoundTripComp.

Lemma cur_after p : forall off al dn R ev, p <> [] ->
  current_offset_of (St al (rev (place off p) ++ dn) R ev) = off + blen (unlex p).
Proof.
  induction p as [|t p0 _] using rev_ind; intros off al dn R ev H; [contradiction|].
  rewrite place_app. cbn [place]. rewrite rev_unit. cbn [app]. unfold current_offset_of. cbn [b_done St].
  unfold tend. cbn [tstart tstr]. rewrite unlex_app, blen_app.
  change (unlex [t]) with (snd t ++ []). rewrite app_nil_r. lia.
Qed.

Lemma text_str_frags t : text_str t <> [] -> frags t <> [].
Proof. unfold text_str. destruct (frags t); [intro H; contradiction H; reflexivity|discriminate]. Qed.

Lemma print_items_cons i r : print_items (i :: r) = print_item i ++ print_items r.
Proof. reflexivity. Qed.

Section Step.
  Variable cfg : pcfg.

  Lemma comp_fn_marker c s :
    (match fst (marker_p (cs_kind c)) with
     | KAt => with_recover (ingredient_p cfg)
     | KHash => with_recover (cookware_p cfg)
     | KTilde => with_recover (timer_p cfg)
     | _ => ret None
     end) s = comp_fn cfg (cs_kind c) s.
  Proof. destruct (cs_kind c); reflexivity. Qed.

  Lemma step_loop_print : forall items fuel off al dn ev,
    items_ok cfg items = true -> p_strict_escape cfg = false ->
    (length (print_items items) < fuel)%nat ->
    current_offset_of (St al dn [] []) = off ->
    exists evs,
      step_loop cfg fuel (St al dn (place off (print_items items)) ev)
      = Done (tt, St al (rev (place off (print_items items)) ++ dn) [] (evs ++ ev)) /\
      map ev_proj (rev evs) = map denote_item items.
  Proof.
    induction items as [|i r IH]; intros fuel off al dn ev Hok Hstrict Hf Hcur.
    - destruct fuel; [cbn in Hf; lia|]. exists []. split; reflexivity.
    - destruct fuel as [|f]; [lia|]. rewrite print_items_cons in *. rewrite app_length in Hf.
      rewrite place_app. cbn [step_loop]. unfold bind at 1, rest. cbn [b_rest St].
      destruct i as [t | c]; cbn [print_item items_ok] in *.
      + (* text piece *)
        apply andb_true_iff in Hok as [Hok Hr]. apply andb_true_iff in Hok as [Ht Hnext].
        unfold text_item_ok in Ht. apply andb_true_iff in Ht as [Ht Hne]. apply andb_true_iff in Ht as [Hsh Hnm].
        destruct t as [|t0 t']; [discriminate|].
        set (o' := off + blen (unlex (t0 :: t'))).
        change (place off (t0 :: t')) with ({| kind := fst t0; tstr := snd t0; tstart := off |} :: place (off + blen (snd t0)) t').
        cbn [app]. unfold bind at 1, peek, peek_of. cbn [b_rest St kind].
        assert (Hk0 : is_marker (fst t0) = false).
        { cbn [no_kinds forallb] in Hnm. apply andb_true_iff in Hnm as [H _]. destruct (fst t0); try reflexivity; discriminate. }
        assert (Hnone : (match fst t0 with
                         | KAt => with_recover (ingredient_p cfg)
                         | KHash => with_recover (cookware_p cfg)
                         | KTilde => with_recover (timer_p cfg)
                         | _ => ret None
                         end) = ret None) by (destruct (fst t0); try reflexivity; discriminate).
        unfold bind at 1. rewrite Hnone. unfold ret at 1.
        unfold bind at 1, current_offset.
        match goal with |- context [current_offset_of ?s] => change (current_offset_of s) with (current_offset_of (St al dn [] [])) end.
        rewrite Hcur.
        unfold bind at 1, bump_any, bind at 1, next_token. cbn [b_rest b_all b_done b_evs St]. unfold ret at 1.
        set (T0 := {| kind := fst t0; tstr := snd t0; tstart := off |}).
        fold (St al (T0 :: dn) (place (off + blen (snd t0)) t' ++ place o' (print_items r)) ev).
        assert (Hmore : forallb (fun x => negb (is_marker (kind x))) (place (off + blen (snd t0)) t') = true).
        { rewrite (place_forallb (fun k => negb (is_marker k))). cbn [no_kinds forallb] in Hnm.
          apply andb_true_iff in Hnm as [_ Hnm].
          apply (no_kinds_forallb [KOpenBrace; KAt; KHash; KTilde] t' (fun k => negb (is_marker k))); [|exact Hnm].
          intros k Hk. destruct k; try reflexivity; discriminate. }
        assert (Hstop : match place o' (print_items r) with [] => True | x :: _ => negb (is_marker (kind x)) = false end).
        { destruct r as [|[t2|c2] r']; [exact I|discriminate|].
          rewrite print_items_cons. cbn [print_item print_comp app place kind fst]. destruct (cs_kind c2); reflexivity. }
        unfold bind at 1.
        rewrite (consume_while_split (fun k => negb (is_marker k)) _ _ al (T0 :: dn) ev Hmore Hstop).
        destruct (text_reads cfg Hstrict (t0 :: t') off Hsh) as (tx & Etx & _ & _).
        destruct (text_of_place cfg Hstrict (t0 :: t') off Hsh) as (tx' & Etx' & Hstr & _ & _).
        change (T0 :: place (off + blen (snd t0)) t') with (place off (t0 :: t')).
        unfold bind at 1, textM, lift. rewrite Etx'.
        assert (Hfr : frags tx' <> []).
        { apply text_str_frags. rewrite Hstr. destruct (toks_text (t0 :: t')); [discriminate|discriminate]. }
        destruct (frags tx') as [|fr frs] eqn:Efr; [contradiction|].
        unfold bind at 1, event. cbn [b_all b_done b_rest b_evs St].
        fold (St al (rev (place (off + blen (snd t0)) t') ++ T0 :: dn) (place o' (print_items r)) (EvText tx' :: ev)).
        assert (Edn : rev (place (off + blen (snd t0)) t') ++ T0 :: dn = rev (place off (t0 :: t')) ++ dn).
        { cbn [place rev]. rewrite <- app_assoc. reflexivity. }
        rewrite Edn.
        destruct (IH f o' al (rev (place off (t0 :: t')) ++ dn) (EvText tx' :: ev) Hr Hstrict) as (evs & Hloop & Hevs).
        * cbn [length] in Hf. lia.
        * apply cur_after. discriminate.
        * rewrite Hloop. exists (evs ++ [EvText tx']). split.
          -- rewrite <- app_assoc. cbn [app]. do 3 f_equal.
             change (T0 :: place (off + blen (snd t0)) t' ++ place o' (print_items r))
               with (place off (t0 :: t') ++ place o' (print_items r)).
             rewrite rev_app_distr, <- app_assoc. reflexivity.
          -- rewrite rev_app_distr. cbn [rev app map ev_proj denote_item]. rewrite Hevs, Hstr. reflexivity.
      + (* component *)
        apply andb_true_iff in Hok as [Hok Hr]. apply andb_true_iff in Hok as [Hc Hfo].
        rewrite <- place_app.
        destruct (comp_print cfg c (print_items r) off al dn ev Hc Hfo) as (pe & Hcp & Hpe).
        assert (Hhd : exists T R, place off (print_comp c ++ print_items r) = T :: R /\ kind T = fst (marker_p (cs_kind c))).
        { unfold print_comp. cbn [app place]. eexists _, _. split; reflexivity. }
        destruct Hhd as (T & R & ET & HkT). rewrite ET in *.
        unfold bind at 1, peek, peek_of. cbn [b_rest St]. rewrite HkT.
        unfold bind at 1. rewrite comp_fn_marker, Hcp.
        unfold bind at 1, event. cbn [b_all b_done b_rest b_evs St].
        set (o' := off + blen (unlex (print_comp c))).
        fold (St al (rev (place off (print_comp c)) ++ dn) (place o' (print_items r)) (pe :: ev)).
        destruct (IH f o' al (rev (place off (print_comp c)) ++ dn) (pe :: ev) Hr Hstrict) as (evs & Hloop & Hevs).
        * unfold print_comp in Hf. cbn [length] in Hf. lia.
        * apply cur_after. unfold print_comp. discriminate.
        * rewrite Hloop. exists (evs ++ [pe]). split.
          -- rewrite <- app_assoc. cbn [app]. do 3 f_equal. rewrite <- ET, place_app, rev_app_distr, <- app_assoc. reflexivity.
          -- rewrite rev_app_distr. cbn [rev app map denote_item]. rewrite Hevs, Hpe. reflexivity.
  Qed.
End Step.

(* ---------------------------------------------------------------- blocks *)
Definition init_st (blk : list tok) (evs : list pevent) : bp := St blk [] blk evs.

Lemma place_repeat_eq n : forall o, forallb (fun t => tk_eqb (kind t) KEq) (place o (repeat eq_p n)) = true.
Proof. induction n as [|n IH]; intro o; cbn [repeat place forallb kind fst eq_p tk_eqb tkind_beq andb]; auto. Qed.

Section Blocks.
  Variable cfg : pcfg.
  Hypothesis Hstrict : p_strict_escape cfg = false.

  (* a step block *)
  Lemma parse_step_print items off evs :
    items_ok cfg items = true -> items <> [] -> print_items items <> [] ->
    let blk := place off (print_items items) in
    exists evs',
      parse_step cfg (init_st blk evs) = Done (tt, St blk (rev blk) [] (EvEnd true :: evs' ++ EvStart true :: evs)) /\
      map ev_proj (rev evs') = map denote_item items.
  Proof.
    intros Hok Hne Hpne blk. unfold parse_step, init_st. unfold bind at 1, event. cbn [b_all b_done b_rest b_evs St].
    unfold bind at 1, rest. cbn [b_rest St]. fold (St blk [] blk (EvStart true :: evs)).
    destruct (step_loop_print cfg items (S (length blk)) off blk [] (EvStart true :: evs) Hok Hstrict) as (evs' & Hl & He).
    - unfold blk. rewrite place_length. lia.
    - unfold current_offset_of, base_offset. cbn [b_done b_all St]. unfold blk.
      destruct (print_items items); [contradiction|reflexivity].
    - fold blk in Hl. unfold bind at 1. rewrite Hl. unfold event. cbn [b_all b_done b_rest b_evs St].
      exists evs'. rewrite app_nil_r. split; [reflexivity|exact He].
  Qed.

  (* a metadata line *)
  Lemma metadata_entry_print k v off evs :
    forallb shape_ok k = true -> forallb shape_ok v = true -> no_kinds [KColon] k = true ->
    str_blank (toks_text k) = false -> str_blank (toks_text v) = false ->
    let blk := place off (meta_p :: k ++ colon_p :: v) in
    exists tk tv,
      metadata_entry cfg (init_st blk evs) = Done (Some (EvMetadata tk tv), St blk (rev blk) [] evs) /\
      text_trimmed tk = clean (toks_text k) /\ text_outer_trimmed tv = trim (toks_text v).
  Proof.
    intros Hk Hv Hnc Hkb Hvb blk.
    assert (Eblk : blk = {| kind := KMeta; tstr := [62; 62]; tstart := off |}
                         :: place (off + blen [62; 62]) k
                         ++ {| kind := KColon; tstr := [58]; tstart := off + blen [62; 62] + blen (unlex k) |}
                         :: place (off + blen [62; 62] + blen (unlex k) + blen [58]) v).
    { unfold blk. cbn [place fst snd meta_p]. rewrite place_app. cbn [place fst snd colon_p]. reflexivity. }
    set (MT := {| kind := KMeta; tstr := [62; 62]; tstart := off |}) in *.
    set (CL := {| kind := KColon; tstr := [58]; tstart := off + blen [62; 62] + blen (unlex k) |}) in *.
    destruct (text_reads cfg Hstrict k (off + blen [62; 62]) Hk) as (tk & Etk & Hemk & Htrk).
    destruct (text_of_place cfg Hstrict v (off + blen [62; 62] + blen (unlex k) + blen [58]) Hv) as (tv & Etv & Hstrv & Hsov & _).
    exists tk, tv. split; [|split; [exact Htrk|unfold text_outer_trimmed; rewrite Hstrv; reflexivity]].
    unfold metadata_entry, init_st, obindM, bind at 1. rewrite Eblk at 2.
    rewrite (consume_hit KMeta MT _ blk [] evs eq_refl).
    unfold bind at 1, current_offset. unfold bind at 1.
    rewrite (until_stop (fun k0 => tk_eqb k0 KColon) (place (off + blen [62; 62]) k) CL _ blk [MT] evs);
      [|apply no_kind_place; exact Hnc|reflexivity].
    unfold bind at 1, textM, lift. unfold current_offset_of at 1. cbn [b_done St].
    change (tend MT) with (off + blen [62; 62]). rewrite Etk.
    unfold bind at 1, bump, bind at 1, bump_any, bind at 1, next_token. cbn [b_rest b_all b_done b_evs St]. unfold ret at 1 2.
    cbn [kind CL tk_eqb tkind_beq]. unfold bind at 1, current_offset. unfold bind at 1, consume_rest.
    fold (St blk (CL :: rev (place (off + blen [62; 62]) k) ++ [MT]) (place (off + blen [62; 62] + blen (unlex k) + blen [58]) v) evs).
    rewrite (consume_while_all (fun _ => true) _ blk _ evs) by (apply forallb_forall; reflexivity).
    unfold bind at 1. unfold current_offset_of. cbn [b_done St].
    change (tend CL) with (off + blen [62; 62] + blen (unlex k) + blen [58]). rewrite Etv.
    rewrite Hemk, Hkb. rewrite (is_text_empty_str tv Hsov), Hstrv, Hvb. unfold bind, ret.
    do 3 f_equal. rewrite Eblk. cbn [rev]. rewrite rev_app_distr. cbn [rev]. rewrite <- !app_assoc. reflexivity.
  Qed.
End Blocks.

Lemma cur_after' p o1 al dn R ev :
  current_offset_of (St al dn [] []) = o1 ->
  current_offset_of (St al (rev (place o1 p) ++ dn) R ev) = o1 + blen (unlex p).
Proof.
  intro H. destruct p as [|t p].
  - cbn [place rev app]. unfold unlex; cbn [map concat blen]. rewrite N.add_0_r. exact H.
  - apply cur_after. discriminate.
Qed.

Section Blocks2.
  Variable cfg : pcfg.
  Hypothesis Hstrict : p_strict_escape cfg = false.

  Lemma section_print n1 name n2 trail off evs :
    forallb shape_ok name = true -> no_kinds [KEq] name = true -> str_blank (toks_text name) = false ->
    forallb blank_ok trail = true -> (n2 = O -> trail = []) ->
    let blk := place off (eq_p :: repeat eq_p n1 ++ name ++ repeat eq_p n2 ++ trail) in
    exists tn,
      section_p cfg (init_st blk evs) = Done (Some (EvSection (Some tn)), St blk (rev blk) [] evs) /\
      text_trimmed tn = clean (toks_text name).
  Proof.
    intros Hsh Hne Hnb Htr Hn2 blk.
    set (o1 := off + blen [61]). set (o2 := o1 + blen (unlex (repeat eq_p n1))).
    set (o3 := o2 + blen (unlex name)). set (o4 := o3 + blen (unlex (repeat eq_p n2))).
    set (E0 := {| kind := KEq; tstr := [61]; tstart := off |}).
    set (E1 := place o1 (repeat eq_p n1)). set (NM := place o2 name).
    set (E2 := place o3 (repeat eq_p n2)). set (TR := place o4 trail).
    assert (Eblk : blk = E0 :: E1 ++ NM ++ E2 ++ TR).
    { unfold blk. cbn [place fst snd eq_p]. rewrite !place_app. reflexivity. }
    assert (Ho2 : current_offset_of (St blk (rev E1 ++ [E0]) (NM ++ E2 ++ TR) evs) = o2).
    { apply cur_after'. reflexivity. }
    destruct (text_reads cfg Hstrict name o2 Hsh) as (tn & Etn & Hem & Htrn).
    exists tn. split; [|exact Htrn].
    destruct name as [|x nm]; [discriminate|].
    unfold section_p, init_st, obindM, bind at 1. rewrite Eblk at 2.
    rewrite (consume_hit KEq E0 _ blk [] evs eq_refl).
    unfold bind at 1.
    assert (Hnm : forallb (fun t => negb (tk_eqb (kind t) KEq)) NM = true) by (apply no_kind_place; exact Hne).
    assert (Hstop1 : match NM ++ E2 ++ TR with [] => True | t :: _ => tk_eqb (kind t) KEq = false end).
    { unfold NM. cbn [place app]. cbn [place forallb] in Hnm. apply andb_true_iff in Hnm as [H _].
      apply negb_true in H. exact H. }
    rewrite (consume_while_split (fun k => tk_eqb k KEq) E1 (NM ++ E2 ++ TR) blk [E0] evs (place_repeat_eq n1 o1) Hstop1).
    unfold bind at 1, current_offset. rewrite Ho2. unfold bind at 1.
    assert (Htrb : forallb blank_t TR = true) by (apply place_blank; exact Htr).
    assert (Hstop2 : match E2 ++ TR with [] => True | t :: _ => negb (tk_eqb (kind t) KEq) = false end).
    { unfold E2, TR. destruct n2; [rewrite (Hn2 eq_refl); exact I|reflexivity]. }
    rewrite (consume_while_split (fun k => negb (tk_eqb k KEq)) NM (E2 ++ TR) blk _ evs Hnm Hstop2).
    unfold bind at 1, textM, lift. fold NM in Etn. rewrite Etn.
    unfold bind at 1.
    assert (Hstop3 : match TR with [] => True | t :: _ => tk_eqb (kind t) KEq = false end).
    { destruct TR as [|t TR']; [exact I|]. cbn [forallb] in Htrb. apply andb_true_iff in Htrb as [H _].
      unfold blank_t in H. destruct (kind t); try discriminate; reflexivity. }
    rewrite (consume_while_split (fun k => tk_eqb k KEq) E2 TR blk _ evs (place_repeat_eq n2 o3) Hstop3).
    unfold bind at 1, ws_comments.
    rewrite (consume_while_all is_ws_comment TR blk _ evs Htrb).
    unfold bind at 1, rest. cbn [b_rest St]. rewrite Hem, Hnb. unfold ret.
    do 3 f_equal. rewrite Eblk. cbn [rev]. rewrite !rev_app_distr, <- !app_assoc. reflexivity.
  Qed.

  (* ---------------------------------------------------------------- parse_block + finish *)
  Lemma kind_in_false_forallb k0 p :
    no_kinds [k0] p = true -> forallb (notk k0) p = true.
  Proof.
    apply forallb_impl. intros x H. unfold notk. cbn [existsb] in H. rewrite orb_false_r in H. exact H.
  Qed.

  Theorem block_print b off evs :
    block_ok cfg b = true ->
    (match b with BkSection _ _ n2 trail => n2 = O -> trail = [] | _ => True end) ->
    exists evs',
      run_block (place off (print_block b)) evs (parse_block cfg true) = Done (evs' ++ evs) /\
      map ev_proj (rev evs') = denote_block b.
  Proof.
    intros W Hsec. unfold block_ok in W. apply andb_true_iff in W as [_ W].
    destruct b as [k v | n1 name n2 trail | items]; cbn [print_block denote_block].
    - apply andb_true_iff in W as [W Hvb]. apply andb_true_iff in W as [W Hkb].
      apply andb_true_iff in W as [W Hnc]. apply andb_true_iff in W as [Hk Hv]. apply negb_true in Hkb, Hvb.
      destruct (metadata_entry_print cfg Hstrict k v off evs Hk Hv Hnc Hkb Hvb) as (tk & tv & Hm & Htk & Htv).
      cbv zeta in Hm. set (blk := place off (meta_p :: k ++ colon_p :: v)) in *.
      exists [EvMetadata tk tv]. split; [|cbn [rev app map ev_proj]; rewrite Htk, Htv; reflexivity].
      unfold run_block. destruct blk as [|t0 blk'] eqn:Eb; [discriminate|]. rewrite <- Eb in *.
      fold (init_st blk evs). unfold parse_block, bind at 1, peek, peek_of, init_st. cbn [b_rest St].
      assert (Hk0 : match blk with t :: _ => kind t | [] => KEof end = KMeta) by (rewrite Eb in *; unfold blk in Eb; cbn [place] in Eb; inversion Eb; reflexivity).
      rewrite Hk0. unfold bind at 1, with_recover, obindM, bind at 1. change {| b_all := blk; b_done := []; b_rest := blk; b_evs := evs |} with (init_st blk evs). rewrite Hm.
      unfold meta_kept. rewrite orb_true_r. unfold ret, event. cbn [b_all b_done b_rest b_evs St]. reflexivity.
    - apply andb_true_iff in W as [W Htr]. apply andb_true_iff in W as [W Hnb].
      apply andb_true_iff in W as [Hsh Hne]. apply negb_true in Hnb.
      destruct (section_print n1 name n2 trail off evs Hsh Hne Hnb Htr Hsec) as (tn & Hs & Htn).
      cbv zeta in Hs. set (blk := place off (eq_p :: repeat eq_p n1 ++ name ++ repeat eq_p n2 ++ trail)) in *.
      exists [EvSection (Some tn)]. split; [|cbn [rev app map ev_proj option_map]; rewrite Htn; reflexivity].
      unfold run_block. destruct blk as [|t0 blk'] eqn:Eb; [discriminate|]. rewrite <- Eb in *.
      fold (init_st blk evs). unfold parse_block, bind at 1, peek, peek_of, init_st. cbn [b_rest St].
      assert (Hk0 : match blk with t :: _ => kind t | [] => KEof end = KEq) by (rewrite Eb in *; unfold blk in Eb; cbn [place] in Eb; inversion Eb; reflexivity).
      rewrite Hk0. unfold bind at 1, with_recover. change {| b_all := blk; b_done := []; b_rest := blk; b_evs := evs |} with (init_st blk evs). rewrite Hs.
      unfold event. cbn [b_all b_done b_rest b_evs St]. reflexivity.
    - apply andb_true_iff in W as [W Hhead]. apply andb_true_iff in W as [Hok Hnempty].
      apply negb_true in Hhead, Hnempty.
      assert (Hpne : print_items items <> []) by (intro E; rewrite E in Hnempty; discriminate).
      assert (Hine : items <> []) by (intro E; rewrite E in Hpne; apply Hpne; reflexivity).
      destruct (parse_step_print cfg Hstrict items off evs Hok Hine Hpne) as (evs' & Hp & He).
      cbv zeta in Hp. set (blk := place off (print_items items)) in *.
      exists (EvEnd true :: evs' ++ [EvStart true]). split.
      + unfold run_block. destruct blk as [|t0 blk'] eqn:Eb; [unfold blk in Eb; destruct (print_items items); [contradiction|discriminate]|].
        rewrite <- Eb in *. fold (init_st blk evs).
        unfold parse_block, bind at 1, peek, peek_of, init_st. cbn [b_rest St].
        assert (Hk0 : match blk with t :: _ => kind t | [] => KEof end = head_kind (print_items items)) by (unfold blk; apply place_head_kind).
        rewrite Hk0. cbn [existsb] in Hhead. rewrite orb_false_r in Hhead.
        apply orb_false_iff in Hhead as [Hh1 Hh2]. apply orb_false_iff in Hh2 as [Hh2 Hh3].
        assert (Hmos : (match head_kind (print_items items) with
                        | KMeta => with_recover (ev <-? metadata_entry cfg;;
                                     match ev with
                                     | EvMetadata key _ => if meta_kept cfg true key then ret (Some ev) else ret None
                                     | _ => ret (Some ev)
                                     end)
                        | KEq => with_recover (section_p cfg)
                        | _ => ret None
                        end) = ret None).
        { destruct (head_kind (print_items items)); try reflexivity; discriminate. }
        unfold bind at 1. rewrite Hmos. unfold ret at 1.
        unfold parse_multiline_block, bind at 1, all_tokens. cbn [b_all St].
        assert (Hne2 : forallb (fun t => is_empty_tok (kind t)) blk = false).
        { unfold blk. rewrite (place_forallb is_empty_tok). exact Hnempty. }
        rewrite Hne2. unfold bind at 1, peek, peek_of. cbn [b_rest St]. rewrite Hk0.
        assert (Hts : (match head_kind (print_items items) with KTextStep => parse_text_block cfg | _ => parse_step cfg end) = parse_step cfg).
        { destruct (head_kind (print_items items)); try reflexivity. discriminate. }
        rewrite Hts. change {| b_all := blk; b_done := []; b_rest := blk; b_evs := evs |} with (init_st blk evs). rewrite Hp. cbn [b_rest b_evs St].
        cbn [app]. rewrite <- app_assoc. reflexivity.
      + cbn [rev]. rewrite rev_app_distr. cbn [rev app map ev_proj]. rewrite map_app, He. reflexivity.
  Qed.
End Blocks2.

(* ---------------------------------------------------------------- documents *)
From CL Require Import Proofs.MetaIterProofs.

Section Docs.
  Variable cfg : pcfg.
  Hypothesis Hstrict : p_strict_escape cfg = false.

  Definition sec_trail_ok (b : block) : Prop :=
    match b with BkSection _ _ n2 trail => n2 = O -> trail = [] | _ => True end.

  (* the token block [blk] is the printed block [b] at some offset *)
  Definition prints (blk : list tok) (b : block) : Prop := exists off, blk = place off (print_block b).

  Lemma fold_print bl d :
    Forall2 prints bl d -> Forall (fun b => block_ok cfg b = true /\ sec_trail_ok b) d ->
    forall evs, exists evs',
      fold_blocks (full_block_step cfg true) bl evs = Done (evs' ++ evs) /\
      map ev_proj (rev evs') = concat (map denote_block d).
  Proof.
    induction 1 as [|blk b bl d [off ->] _ IH]; intros Hok evs.
    - exists []. split; reflexivity.
    - inversion Hok as [|? ? [Hb Hs] Hrest]; subst.
      destruct (block_print cfg Hstrict b off evs Hb Hs) as (e1 & H1 & P1).
      destruct (IH Hrest (e1 ++ evs)) as (e2 & H2 & P2).
      exists (e2 ++ e1). cbn [fold_blocks]. unfold full_block_step at 1. rewrite H1. cbn [obind]. rewrite H2.
      split; [rewrite app_assoc; reflexivity|].
      rewrite rev_app_distr, map_app, P1, P2. reflexivity.
  Qed.

  (* C01 at document level, given that the block splitter cuts the text at the printed blocks *)
  Theorem events_print U (text : str) (d : list block) ts :
    parse_frontmatter cfg text = None -> lex_at U text 0 = Some ts ->
    Forall2 prints (blocks ts) d -> Forall (fun b => block_ok cfg b = true /\ sec_trail_ok b) d ->
    exists evs, events U cfg text = Done evs /\ map ev_proj evs = concat (map denote_block d).
  Proof.
    intros Hfm Hlex Hsplit Hok. rewrite events_blocks, Hfm, Hlex.
    destruct (fold_print _ _ Hsplit Hok []) as (evs' & Hf & Hp). rewrite Hf. cbn [obind].
    exists (rev (evs' ++ [])). split; [reflexivity|]. rewrite app_nil_r. exact Hp.
  Qed.
End Docs.
