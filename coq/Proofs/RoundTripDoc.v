(* Round trips of steps, blocks and documents (C01, parts 3-5). *)
From CL Require Import Base.StrLemmas Model.Lexer Model.Parser Proofs.LexerProofs Proofs.ParserGates.
From CL Require Import Model.Printer Proofs.RoundTrip Proofs.RoundTripComp.

Lemma text_str_frags t : text_str t <> [] -> frags t <> [].
Proof. unfold text_str. destruct (frags t); [intro H; contradiction H; reflexivity|discriminate]. Qed.

Lemma print_items_cons i r : print_items (i :: r) = print_item i ++ print_items r.
Proof. reflexivity. Qed.

Section Step.
  Variable cfg : pcfg.

  Lemma comp_fn_marker c s :
    (match fst (marker_p (cs_kind c)) with
     | KAt => with_recover (ingredient_p cfg)
     | KHash => with_recover (cookware_p cfg)
     | KTilde => with_recover (timer_p cfg)
     | _ => ret None
     end) s = comp_fn cfg (cs_kind c) s.
  Proof. destruct (cs_kind c); reflexivity. Qed.

  Lemma step_loop_print : forall items fuel off al dn ev,
    items_ok cfg items = true -> p_strict_escape cfg = false ->
    (length (print_items items) < fuel)%nat ->
    current_offset_of (St al dn [] []) = off ->
    exists evs,
      step_loop cfg fuel (St al dn (place off (print_items items)) ev)
      = Done (tt, St al (rev (place off (print_items items)) ++ dn) [] (evs ++ ev)) /\
      map ev_proj (rev evs) = map denote_item items.
  Proof.
    induction items as [|i r IH]; intros fuel off al dn ev Hok Hstrict Hf Hcur.
    - destruct fuel; [cbn in Hf; lia|]. exists []. split; reflexivity.
    - destruct fuel as [|f]; [lia|]. rewrite print_items_cons in *. rewrite app_length in Hf.
      rewrite place_app. cbn [step_loop]. unfold bind at 1, rest. cbn [b_rest St].
      destruct i as [t | c]; cbn [print_item items_ok] in *.
      + (* text piece *)
        apply andb_true_iff in Hok as [Hok Hr]. apply andb_true_iff in Hok as [Ht Hnext].
        unfold text_item_ok in Ht. apply andb_true_iff in Ht as [Ht Hne]. apply andb_true_iff in Ht as [Hsh Hnm].
        destruct t as [|t0 t']; [discriminate|].
        set (o' := off + blen (unlex (t0 :: t'))).
        change (place off (t0 :: t')) with ({| kind := fst t0; tstr := snd t0; tstart := off |} :: place (off + blen (snd t0)) t').
        cbn [app]. unfold bind at 1, peek, peek_of. cbn [b_rest St kind].
        assert (Hk0 : is_marker (fst t0) = false).
        { cbn [no_kinds forallb] in Hnm. apply andb_true_iff in Hnm as [H _]. destruct (fst t0); try reflexivity; discriminate. }
        assert (Hnone : (match fst t0 with
                         | KAt => with_recover (ingredient_p cfg)
                         | KHash => with_recover (cookware_p cfg)
                         | KTilde => with_recover (timer_p cfg)
                         | _ => ret None
                         end) = ret None) by (destruct (fst t0); try reflexivity; discriminate).
        unfold bind at 1. rewrite Hnone. unfold ret at 1.
        unfold bind at 1, current_offset.
        match goal with |- context [current_offset_of ?s] => change (current_offset_of s) with (current_offset_of (St al dn [] [])) end.
        rewrite Hcur.
        unfold bind at 1, bump_any, bind at 1, next_token. cbn [b_rest b_all b_done b_evs St]. unfold ret at 1.
        set (T0 := {| kind := fst t0; tstr := snd t0; tstart := off |}).
        fold (St al (T0 :: dn) (place (off + blen (snd t0)) t' ++ place o' (print_items r)) ev).
        assert (Hmore : forallb (fun x => negb (is_marker (kind x))) (place (off + blen (snd t0)) t') = true).
        { rewrite (place_forallb (fun k => negb (is_marker k))). cbn [no_kinds forallb] in Hnm.
          apply andb_true_iff in Hnm as [_ Hnm].
          apply (no_kinds_forallb [KOpenBrace; KAt; KHash; KTilde] t' (fun k => negb (is_marker k))); [|exact Hnm].
          intros k Hk. destruct k; try reflexivity; discriminate. }
        assert (Hstop : match place o' (print_items r) with [] => True | x :: _ => negb (is_marker (kind x)) = false end).
        { destruct r as [|[t2|c2] r']; [exact I|discriminate|].
          rewrite print_items_cons. cbn [print_item print_comp app place kind fst]. destruct (cs_kind c2); reflexivity. }
        unfold bind at 1.
        rewrite (consume_while_split (fun k => negb (is_marker k)) _ _ al (T0 :: dn) ev Hmore Hstop).
        destruct (text_reads cfg Hstrict (t0 :: t') off Hsh) as (tx & Etx & _ & _).
        destruct (text_of_place cfg Hstrict (t0 :: t') off Hsh) as (tx' & Etx' & Hstr & _ & _).
        change (T0 :: place (off + blen (snd t0)) t') with (place off (t0 :: t')).
        unfold bind at 1, textM, lift. rewrite Etx'.
        assert (Hfr : frags tx' <> []).
        { apply text_str_frags. rewrite Hstr. destruct (toks_text (t0 :: t')); [discriminate|discriminate]. }
        destruct (frags tx') as [|fr frs] eqn:Efr; [contradiction|].
        unfold bind at 1, event. cbn [b_all b_done b_rest b_evs St].
        fold (St al (rev (place (off + blen (snd t0)) t') ++ T0 :: dn) (place o' (print_items r)) (EvText tx' :: ev)).
        assert (Edn : rev (place (off + blen (snd t0)) t') ++ T0 :: dn = rev (place off (t0 :: t')) ++ dn).
        { cbn [place rev]. rewrite <- app_assoc. reflexivity. }
        rewrite Edn.
        destruct (IH f o' al (rev (place off (t0 :: t')) ++ dn) (EvText tx' :: ev) Hr Hstrict) as (evs & Hloop & Hevs).
        * cbn [length] in Hf. lia.
        * apply cur_after. discriminate.
        * rewrite Hloop. exists (evs ++ [EvText tx']). split.
          -- rewrite <- app_assoc. cbn [app]. do 3 f_equal.
             change (T0 :: place (off + blen (snd t0)) t' ++ place o' (print_items r))
               with (place off (t0 :: t') ++ place o' (print_items r)).
             rewrite rev_app_distr, <- app_assoc. reflexivity.
          -- rewrite rev_app_distr. cbn [rev app map ev_proj denote_item]. rewrite Hevs, Hstr. reflexivity.
      + (* component *)
        apply andb_true_iff in Hok as [Hok Hr]. apply andb_true_iff in Hok as [Hc Hfo].
        rewrite <- place_app.
        destruct (comp_print cfg c (print_items r) off al dn ev Hc Hfo) as (pe & Hcp & Hpe).
        assert (Hhd : exists T R, place off (print_comp c ++ print_items r) = T :: R /\ kind T = fst (marker_p (cs_kind c))).
        { unfold print_comp. cbn [app place]. eexists _, _. split; reflexivity. }
        destruct Hhd as (T & R & ET & HkT). rewrite ET in *.
        unfold bind at 1, peek, peek_of. cbn [b_rest St]. rewrite HkT.
        unfold bind at 1. rewrite comp_fn_marker, Hcp.
        unfold bind at 1, event. cbn [b_all b_done b_rest b_evs St].
        set (o' := off + blen (unlex (print_comp c))).
        fold (St al (rev (place off (print_comp c)) ++ dn) (place o' (print_items r)) (pe :: ev)).
        destruct (IH f o' al (rev (place off (print_comp c)) ++ dn) (pe :: ev) Hr Hstrict) as (evs & Hloop & Hevs).
        * unfold print_comp in Hf. cbn [length] in Hf. lia.
        * apply cur_after. unfold print_comp. discriminate.
        * rewrite Hloop. exists (evs ++ [pe]). split.
          -- rewrite <- app_assoc. cbn [app]. do 3 f_equal. rewrite <- ET, place_app, rev_app_distr, <- app_assoc. reflexivity.
          -- rewrite rev_app_distr. cbn [rev app map denote_item]. rewrite Hevs, Hpe. reflexivity.
  Qed.
End Step.

(* ---------------------------------------------------------------- blocks *)
Definition init_st (blk : list tok) (evs : list pevent) : bp := St blk [] blk evs.

Lemma place_repeat_eq n : forall o, forallb (fun t => tk_eqb (kind t) KEq) (place o (repeat eq_p n)) = true.
Proof. induction n as [|n IH]; intro o; cbn [repeat place forallb kind fst eq_p tk_eqb tkind_beq andb]; auto. Qed.

Section Blocks.
  Variable cfg : pcfg.
  Hypothesis Hstrict : p_strict_escape cfg = false.

  (* a step block *)
  Lemma parse_step_print items off evs :
    items_ok cfg items = true -> items <> [] -> print_items items <> [] ->
    let blk := place off (print_items items) in
    exists evs',
      parse_step cfg (init_st blk evs) = Done (tt, St blk (rev blk) [] (EvEnd true :: evs' ++ EvStart true :: evs)) /\
      map ev_proj (rev evs') = map denote_item items.
  Proof.
    intros Hok Hne Hpne blk. unfold parse_step, init_st. unfold bind at 1, event. cbn [b_all b_done b_rest b_evs St].
    unfold bind at 1, rest. cbn [b_rest St]. fold (St blk [] blk (EvStart true :: evs)).
    destruct (step_loop_print cfg items (S (length blk)) off blk [] (EvStart true :: evs) Hok Hstrict) as (evs' & Hl & He).
    - unfold blk. rewrite place_length. lia.
    - unfold current_offset_of, base_offset. cbn [b_done b_all St]. unfold blk.
      destruct (print_items items); [contradiction|reflexivity].
    - fold blk in Hl. unfold bind at 1. rewrite Hl. unfold event. cbn [b_all b_done b_rest b_evs St].
      exists evs'. rewrite app_nil_r. split; [reflexivity|exact He].
  Qed.

  (* a metadata line *)
  Lemma metadata_entry_print k v off evs :
    forallb shape_ok k = true -> forallb shape_ok v = true -> no_kinds [KColon] k = true ->
    str_blank (toks_text k) = false -> str_blank (toks_text v) = false ->
    let blk := place off (meta_p :: k ++ colon_p :: v) in
    exists tk tv,
      metadata_entry cfg (init_st blk evs) = Done (Some (EvMetadata tk tv), St blk (rev blk) [] evs) /\
      text_trimmed tk = clean (toks_text k) /\ text_outer_trimmed tv = trim (toks_text v).
  Proof.
    intros Hk Hv Hnc Hkb Hvb blk.
    assert (Eblk : blk = {| kind := KMeta; tstr := [62; 62]; tstart := off |}
                         :: place (off + blen [62; 62]) k
                         ++ {| kind := KColon; tstr := [58]; tstart := off + blen [62; 62] + blen (unlex k) |}
                         :: place (off + blen [62; 62] + blen (unlex k) + blen [58]) v).
    { unfold blk. cbn [place fst snd meta_p]. rewrite place_app. cbn [place fst snd colon_p]. reflexivity. }
    set (MT := {| kind := KMeta; tstr := [62; 62]; tstart := off |}) in *.
    set (CL := {| kind := KColon; tstr := [58]; tstart := off + blen [62; 62] + blen (unlex k) |}) in *.
    destruct (text_reads cfg Hstrict k (off + blen [62; 62]) Hk) as (tk & Etk & Hemk & Htrk).
    destruct (text_of_place cfg Hstrict v (off + blen [62; 62] + blen (unlex k) + blen [58]) Hv) as (tv & Etv & Hstrv & Hsov & _).
    exists tk, tv. split; [|split; [exact Htrk|unfold text_outer_trimmed; rewrite Hstrv; reflexivity]].
    unfold metadata_entry, init_st, obindM, bind at 1. rewrite Eblk at 2.
    rewrite (consume_hit KMeta MT _ blk [] evs eq_refl).
    unfold bind at 1, current_offset. unfold bind at 1.
    rewrite (until_stop (fun k0 => tk_eqb k0 KColon) (place (off + blen [62; 62]) k) CL _ blk [MT] evs);
      [|apply no_kind_place; exact Hnc|reflexivity].
    unfold bind at 1, textM, lift. unfold current_offset_of at 1. cbn [b_done St].
    change (tend MT) with (off + blen [62; 62]). rewrite Etk.
    unfold bind at 1, bump, bind at 1, bump_any, bind at 1, next_token. cbn [b_rest b_all b_done b_evs St]. unfold ret at 1 2.
    cbn [kind CL tk_eqb tkind_beq]. unfold bind at 1, current_offset. unfold bind at 1, consume_rest.
    fold (St blk (CL :: rev (place (off + blen [62; 62]) k) ++ [MT]) (place (off + blen [62; 62] + blen (unlex k) + blen [58]) v) evs).
    rewrite (consume_while_all (fun _ => true) _ blk _ evs) by (apply forallb_forall; reflexivity).
    unfold bind at 1. unfold current_offset_of. cbn [b_done St].
    change (tend CL) with (off + blen [62; 62] + blen (unlex k) + blen [58]). rewrite Etv.
    rewrite Hemk, Hkb. rewrite (is_text_empty_str tv Hsov), Hstrv, Hvb. unfold bind, ret.
    do 3 f_equal. rewrite Eblk. cbn [rev]. rewrite rev_app_distr. cbn [rev]. rewrite <- !app_assoc. reflexivity.
  Qed.
End Blocks.

(* ---------------------------------------------------------------- `>` text blocks *)
Section TextBlock.
  Variable cfg : pcfg.
  Hypothesis Hstrict : p_strict_escape cfg = false.

  Definition tl_head (l : tline) : list ptok := (if tl_marker l then [tstep_p] else []) ++ tl_ws l.

  Lemma print_tline_split l : print_tline l = tl_head l ++ tl_toks l.
  Proof. unfold print_tline, tl_head. rewrite <- app_assoc. reflexivity. Qed.

  Lemma tline_head l o al dn ev X :
    tline_ok l = true ->
    bind (consume KTextStep) (fun g => match g with Some _ => bind (consume KWs) (fun _ => ret tt) | None => ret tt end)
         (St al dn (place o (tl_head l) ++ place (o + blen (unlex (tl_head l))) (tl_toks l) ++ X) ev)
    = Done (tt, St al (rev (place o (tl_head l)) ++ dn) (place (o + blen (unlex (tl_head l))) (tl_toks l) ++ X) ev).
  Proof.
    unfold tline_ok, tl_head. intro H. apply andb_true_iff in H as [H Hh]. apply andb_true_iff in H as [H Hnb].
    assert (Htk : tl_toks l <> []).
    { intro E. rewrite E in Hnb. discriminate. }
    destruct (tl_toks l) as [|t0 tk] eqn:Et; [contradiction|].
    destruct (tl_marker l).
    - destruct (tl_ws l) as [|w [|w2 ws]]; [| |discriminate].
      + cbn [app place fst snd tstep_p]. unfold bind at 1.
        rewrite (consume_hit KTextStep {| kind := KTextStep; tstr := [62]; tstart := o |} _ al dn ev eq_refl). unfold bind at 1.
        rewrite consume_miss; [reflexivity|]. unfold peek_of. cbn [b_rest St place app kind].
        cbn [head_kind] in Hh. apply negb_true in Hh. exact Hh.
      + apply andb_true_iff in Hh as [Hw _]. apply tk_eqb_eq in Hw.
        cbn [app place fst snd tstep_p]. unfold bind at 1.
        rewrite (consume_hit KTextStep {| kind := KTextStep; tstr := [62]; tstart := o |} _ al dn ev eq_refl). unfold bind at 1.
        rewrite (consume_hit KWs {| kind := fst w; tstr := snd w; tstart := o + blen [62] |} _ al _ ev Hw). reflexivity.
    - apply andb_true_iff in Hh as [Hw Hh]. destruct (tl_ws l); [|discriminate].
      cbn [app place rev]. unfold bind at 1. rewrite consume_miss; [reflexivity|].
      unfold peek_of. cbn [b_rest St place app kind]. cbn [head_kind] in Hh. apply negb_true in Hh. exact Hh.
  Qed.

  Lemma print_tlines_cons l l2 r : print_tlines (l :: l2 :: r) = print_tline l ++ nl_p :: print_tlines (l2 :: r).
  Proof. reflexivity. Qed.

  Lemma text_block_loop_print ls : forall fuel o al dn ev,
    forallb tline_ok ls = true -> ls <> [] ->
    (length (print_tlines ls) < fuel)%nat -> current_offset_of (St al dn [] []) = o ->
    exists evs,
      text_block_loop cfg fuel (St al dn (place o (print_tlines ls)) ev)
      = Done (tt, St al (rev (place o (print_tlines ls)) ++ dn) [] (evs ++ ev)) /\
      map ev_proj (rev evs) = denote_tlines ls.
  Proof.
    induction ls as [|l r IH]; intros fuel o al dn ev Hok Hne Hf Hcur; [contradiction|].
    destruct fuel as [|f]; [lia|].
    cbn [forallb] in Hok. apply andb_true_iff in Hok as [Hl Hr].
    pose proof Hl as Hl'. unfold tline_ok in Hl'. apply andb_true_iff in Hl' as [Hl' _].
    apply andb_true_iff in Hl' as [Hl' Hnb]. apply andb_true_iff in Hl' as [Hsh Hnn]. apply negb_true in Hnb.
    set (o1 := o + blen (unlex (tl_head l))).
    set (TK := place o1 (tl_toks l)).
    assert (Hcur1 : forall R e, current_offset_of (St al (rev (place o (tl_head l)) ++ dn) R e) = o1)
      by (intros; apply cur_after'; exact Hcur).
    assert (Hnl : forallb (fun t => negb (tk_eqb (kind t) KNewline)) TK = true) by (apply no_kind_place; exact Hnn).
    assert (HTKne : TK <> []).
    { unfold TK. destruct (tl_toks l); [discriminate|discriminate]. }
    destruct r as [|l2 r].
    - (* last line *)
      cbn [print_tlines] in *. rewrite print_tline_split, place_app. fold o1 TK.
      assert (Hlen1 : (1 <= length (tl_toks l))%nat) by (destruct (tl_toks l); [discriminate|cbn; lia]).
      rewrite print_tline_split, app_length in Hf.
      cbn [text_block_loop]. unfold bind at 1, rest. cbn [b_rest St].
      destruct (place o (tl_head l) ++ TK) as [|x0 xs] eqn:Ex; [destruct (place o (tl_head l)); [contradiction|discriminate]|].
      rewrite <- Ex.
      pose proof (tline_head l o al dn ev [] Hl) as Hh. fold o1 TK in Hh. rewrite app_nil_r in Hh.
      unfold bind at 1. unfold bind at 1 in Hh.
      destruct (consume KTextStep (St al dn (place o (tl_head l) ++ TK) ev)) as [[g sg]|] eqn:Eg; [|discriminate].
      unfold bind at 1.
      assert (Hh' : (match g with Some _ => bind (consume KWs) (fun _ => ret tt) | None => ret tt end) sg
                    = Done (tt, St al (rev (place o (tl_head l)) ++ dn) TK ev)) by exact Hh.
      rewrite Hh'. unfold bind at 1, current_offset. rewrite Hcur1. unfold bind at 1.
      rewrite (consume_while_all (fun k => negb (tk_eqb k KNewline)) TK al _ ev Hnl).
      unfold bind at 1. rewrite consume_miss by reflexivity.
      destruct (text_of_place cfg Hstrict (tl_toks l) o1 Hsh) as (tx & Etx & Hstr & Hso & _). fold TK in Etx.
      unfold bind at 1, textM, lift. rewrite Etx. rewrite (is_text_empty_str tx Hso), Hstr, Hnb.
      unfold bind at 1, event. cbn [b_all b_done b_rest b_evs St]. unfold bind at 1, rest. cbn [b_rest].
      assert (Hlt : (length (@nil tok) <? length (place o (tl_head l) ++ TK))%nat = true).
      { rewrite Ex. reflexivity. }
      rewrite Hlt. destruct f; [lia|]. cbn [text_block_loop]. unfold bind, rest, ret. cbn [b_rest].
      exists [EvText tx]. split; [|cbn [rev app map ev_proj denote_tlines]; rewrite Hstr; reflexivity].
      unfold St. do 3 f_equal. rewrite rev_app_distr. rewrite <- app_assoc. reflexivity.
    - (* a line followed by more *)
      rewrite print_tlines_cons in Hf |- *. rewrite print_tline_split in Hf |- *. rewrite <- app_assoc.
      rewrite place_app, place_app. fold o1 TK. cbn [place fst snd nl_p].
      set (o2 := o1 + blen (unlex (tl_toks l))).
      set (NL := {| kind := KNewline; tstr := [10]; tstart := o2 |}).
      set (REST := place (o2 + blen [10]) (print_tlines (l2 :: r))).
      cbn [text_block_loop]. unfold bind at 1, rest. cbn [b_rest St].
      destruct (place o (tl_head l) ++ TK ++ NL :: REST) as [|x0 xs] eqn:Ex; [destruct (place o (tl_head l)); destruct TK; discriminate|].
      rewrite <- Ex.
      pose proof (tline_head l o al dn ev (NL :: REST) Hl) as Hh. fold o1 TK in Hh.
      unfold bind at 1. unfold bind at 1 in Hh.
      destruct (consume KTextStep (St al dn (place o (tl_head l) ++ TK ++ NL :: REST) ev)) as [[g sg]|] eqn:Eg; [|discriminate].
      unfold bind at 1.
      assert (Hh' : (match g with Some _ => bind (consume KWs) (fun _ => ret tt) | None => ret tt end) sg
                    = Done (tt, St al (rev (place o (tl_head l)) ++ dn) (TK ++ NL :: REST) ev)) by exact Hh.
      rewrite Hh'. unfold bind at 1, current_offset. rewrite Hcur1. unfold bind at 1.
      rewrite (consume_while_stop (fun k => negb (tk_eqb k KNewline)) TK NL REST al _ ev Hnl eq_refl).
      unfold bind at 1. rewrite (consume_hit KNewline NL REST al _ ev eq_refl).
      assert (Hsh2 : forallb shape_ok (tl_toks l ++ [nl_p]) = true) by (rewrite forallb_app, Hsh; reflexivity).
      destruct (text_of_place cfg Hstrict (tl_toks l ++ [nl_p]) o1 Hsh2) as (tx & Etx & Hstr & Hso & _).
      rewrite place_app in Etx. cbn [place fst snd nl_p] in Etx. fold TK o2 NL in Etx.
      unfold bind at 1, textM, lift. rewrite Etx. rewrite (is_text_empty_str tx Hso), Hstr, toks_text_app, str_blank_app, Hnb.
      cbn [andb]. unfold bind at 1, event. cbn [b_all b_done b_rest b_evs St]. unfold bind at 1, rest. cbn [b_rest].
      assert (Hlt : (length REST <? length (place o (tl_head l) ++ TK ++ NL :: REST))%nat = true).
      { apply Nat.ltb_lt. rewrite !app_length. cbn [length]. lia. }
      rewrite Hlt.
      fold (St al (NL :: rev TK ++ rev (place o (tl_head l)) ++ dn) REST (EvText tx :: ev)).
      destruct (IH f (o2 + blen [10]) al (NL :: rev TK ++ rev (place o (tl_head l)) ++ dn) (EvText tx :: ev) Hr ltac:(discriminate))
        as (evs & Hloop & Hevs).
      + rewrite !app_length in Hf. cbn [length] in Hf. lia.
      + reflexivity.
      + fold REST in Hloop. rewrite Hloop. exists (evs ++ [EvText tx]). split.
        * rewrite <- app_assoc. cbn [app]. unfold St. do 3 f_equal.
          rewrite !rev_app_distr. cbn [rev]. rewrite <- !app_assoc. cbn [app]. reflexivity.
        * rewrite rev_app_distr. cbn [rev app map ev_proj]. rewrite Hevs, Hstr, toks_text_app.
          destruct (l2 :: r) eqn:E2; [discriminate|]. reflexivity.
  Qed.
End TextBlock.

Section Blocks2.
  Variable cfg : pcfg.
  Hypothesis Hstrict : p_strict_escape cfg = false.

  Lemma section_print n1 name n2 trail off evs :
    forallb shape_ok name = true -> no_kinds [KEq] name = true -> str_blank (toks_text name) = false ->
    forallb blank_ok trail = true -> (n2 = O -> trail = []) ->
    let blk := place off (eq_p :: repeat eq_p n1 ++ name ++ repeat eq_p n2 ++ trail) in
    exists tn,
      section_p cfg (init_st blk evs) = Done (Some (EvSection (Some tn)), St blk (rev blk) [] evs) /\
      text_trimmed tn = clean (toks_text name).
  Proof.
    intros Hsh Hne Hnb Htr Hn2 blk.
    set (o1 := off + blen [61]). set (o2 := o1 + blen (unlex (repeat eq_p n1))).
    set (o3 := o2 + blen (unlex name)). set (o4 := o3 + blen (unlex (repeat eq_p n2))).
    set (E0 := {| kind := KEq; tstr := [61]; tstart := off |}).
    set (E1 := place o1 (repeat eq_p n1)). set (NM := place o2 name).
    set (E2 := place o3 (repeat eq_p n2)). set (TR := place o4 trail).
    assert (Eblk : blk = E0 :: E1 ++ NM ++ E2 ++ TR).
    { unfold blk. cbn [place fst snd eq_p]. rewrite !place_app. reflexivity. }
    assert (Ho2 : current_offset_of (St blk (rev E1 ++ [E0]) (NM ++ E2 ++ TR) evs) = o2).
    { apply cur_after'. reflexivity. }
    destruct (text_reads cfg Hstrict name o2 Hsh) as (tn & Etn & Hem & Htrn).
    exists tn. split; [|exact Htrn].
    destruct name as [|x nm]; [discriminate|].
    unfold section_p, init_st, obindM, bind at 1. rewrite Eblk at 2.
    rewrite (consume_hit KEq E0 _ blk [] evs eq_refl).
    unfold bind at 1.
    assert (Hnm : forallb (fun t => negb (tk_eqb (kind t) KEq)) NM = true) by (apply no_kind_place; exact Hne).
    assert (Hstop1 : match NM ++ E2 ++ TR with [] => True | t :: _ => tk_eqb (kind t) KEq = false end).
    { unfold NM. cbn [place app]. cbn [place forallb] in Hnm. apply andb_true_iff in Hnm as [H _].
      apply negb_true in H. exact H. }
    rewrite (consume_while_split (fun k => tk_eqb k KEq) E1 (NM ++ E2 ++ TR) blk [E0] evs (place_repeat_eq n1 o1) Hstop1).
    unfold bind at 1, current_offset. rewrite Ho2. unfold bind at 1.
    assert (Htrb : forallb blank_t TR = true) by (apply place_blank; exact Htr).
    assert (Hstop2 : match E2 ++ TR with [] => True | t :: _ => negb (tk_eqb (kind t) KEq) = false end).
    { unfold E2, TR. destruct n2; [rewrite (Hn2 eq_refl); exact I|reflexivity]. }
    rewrite (consume_while_split (fun k => negb (tk_eqb k KEq)) NM (E2 ++ TR) blk _ evs Hnm Hstop2).
    unfold bind at 1, textM, lift. fold NM in Etn. rewrite Etn.
    unfold bind at 1.
    assert (Hstop3 : match TR with [] => True | t :: _ => tk_eqb (kind t) KEq = false end).
    { destruct TR as [|t TR']; [exact I|]. cbn [forallb] in Htrb. apply andb_true_iff in Htrb as [H _].
      unfold blank_t in H. destruct (kind t); try discriminate; reflexivity. }
    rewrite (consume_while_split (fun k => tk_eqb k KEq) E2 TR blk _ evs (place_repeat_eq n2 o3) Hstop3).
    unfold bind at 1, ws_comments.
    rewrite (consume_while_all is_ws_comment TR blk _ evs Htrb).
    unfold bind at 1, rest. cbn [b_rest St]. rewrite Hem, Hnb. unfold ret.
    do 3 f_equal. rewrite Eblk. cbn [rev]. rewrite !rev_app_distr, <- !app_assoc. reflexivity.
  Qed.

  (* ---------------------------------------------------------------- parse_block + finish *)
  Lemma kind_in_false_forallb k0 p :
    no_kinds [k0] p = true -> forallb (notk k0) p = true.
  Proof.
    apply forallb_impl. intros x H. unfold notk. cbn [existsb] in H. rewrite orb_false_r in H. exact H.
  Qed.

  (* [o]: old_style_metadata (no front matter); with front matter (o = false) a `>>` line is not a metadata entry *)
  Theorem block_print_gen (o : bool) b off evs :
    block_ok cfg b = true ->
    (match b with BkSection _ _ n2 trail => n2 = O -> trail = [] | _ => True end) ->
    (o = true \/ match b with BkMeta _ _ => False | _ => True end) ->
    exists evs',
      run_block (place off (print_block b)) evs (parse_block cfg o) = Done (evs' ++ evs) /\
      map ev_proj (rev evs') = denote_block b.
  Proof.
    intros W Hsec Ho. unfold block_ok in W. apply andb_true_iff in W as [_ W].
    destruct b as [k v | n1 name n2 trail | items | ls]; cbn [print_block denote_block].
    - apply andb_true_iff in W as [W Hvb]. apply andb_true_iff in W as [W Hkb].
      apply andb_true_iff in W as [W Hnc]. apply andb_true_iff in W as [Hk Hv]. apply negb_true in Hkb, Hvb.
      destruct (metadata_entry_print cfg Hstrict k v off evs Hk Hv Hnc Hkb Hvb) as (tk & tv & Hm & Htk & Htv).
      cbv zeta in Hm. set (blk := place off (meta_p :: k ++ colon_p :: v)) in *.
      exists [EvMetadata tk tv]. split; [|cbn [rev app map ev_proj]; rewrite Htk, Htv; reflexivity].
      unfold run_block. destruct blk as [|t0 blk'] eqn:Eb; [discriminate|]. rewrite <- Eb in *.
      fold (init_st blk evs). unfold parse_block, bind at 1, peek, peek_of, init_st. cbn [b_rest St].
      assert (Hk0 : match blk with t :: _ => kind t | [] => KEof end = KMeta) by (rewrite Eb in *; unfold blk in Eb; cbn [place] in Eb; inversion Eb; reflexivity).
      rewrite Hk0. unfold bind at 1, with_recover, obindM, bind at 1. change {| b_all := blk; b_done := []; b_rest := blk; b_evs := evs |} with (init_st blk evs). rewrite Hm.
      destruct Ho as [-> | []]. unfold meta_kept. rewrite orb_true_r. unfold ret, event. cbn [b_all b_done b_rest b_evs St]. reflexivity.
    - apply andb_true_iff in W as [W Htr]. apply andb_true_iff in W as [W Hnb].
      apply andb_true_iff in W as [Hsh Hne]. apply negb_true in Hnb.
      destruct (section_print n1 name n2 trail off evs Hsh Hne Hnb Htr Hsec) as (tn & Hs & Htn).
      cbv zeta in Hs. set (blk := place off (eq_p :: repeat eq_p n1 ++ name ++ repeat eq_p n2 ++ trail)) in *.
      exists [EvSection (Some tn)]. split; [|cbn [rev app map ev_proj option_map]; rewrite Htn; reflexivity].
      unfold run_block. destruct blk as [|t0 blk'] eqn:Eb; [discriminate|]. rewrite <- Eb in *.
      fold (init_st blk evs). unfold parse_block, bind at 1, peek, peek_of, init_st. cbn [b_rest St].
      assert (Hk0 : match blk with t :: _ => kind t | [] => KEof end = KEq) by (rewrite Eb in *; unfold blk in Eb; cbn [place] in Eb; inversion Eb; reflexivity).
      rewrite Hk0. unfold bind at 1, with_recover. change {| b_all := blk; b_done := []; b_rest := blk; b_evs := evs |} with (init_st blk evs). rewrite Hs.
      unfold event. cbn [b_all b_done b_rest b_evs St]. reflexivity.
    - apply andb_true_iff in W as [W Hhead]. apply andb_true_iff in W as [Hok Hnempty].
      apply negb_true in Hhead, Hnempty.
      assert (Hpne : print_items items <> []) by (intro E; rewrite E in Hnempty; discriminate).
      assert (Hine : items <> []) by (intro E; rewrite E in Hpne; apply Hpne; reflexivity).
      destruct (parse_step_print cfg Hstrict items off evs Hok Hine Hpne) as (evs' & Hp & He).
      cbv zeta in Hp. set (blk := place off (print_items items)) in *.
      exists (EvEnd true :: evs' ++ [EvStart true]). split.
      + unfold run_block. destruct blk as [|t0 blk'] eqn:Eb; [unfold blk in Eb; destruct (print_items items); [contradiction|discriminate]|].
        rewrite <- Eb in *. fold (init_st blk evs).
        unfold parse_block, bind at 1, peek, peek_of, init_st. cbn [b_rest St].
        assert (Hk0 : match blk with t :: _ => kind t | [] => KEof end = head_kind (print_items items)) by (unfold blk; apply place_head_kind).
        rewrite Hk0. cbn [existsb] in Hhead. rewrite orb_false_r in Hhead.
        apply orb_false_iff in Hhead as [Hh1 Hh2]. apply orb_false_iff in Hh2 as [Hh2 Hh3].
        assert (Hmos : (match head_kind (print_items items) with
                        | KMeta => with_recover (ev <-? metadata_entry cfg;;
                                     match ev with
                                     | EvMetadata key _ => if meta_kept cfg o key then ret (Some ev) else ret None
                                     | _ => ret (Some ev)
                                     end)
                        | KEq => with_recover (section_p cfg)
                        | _ => ret None
                        end) = ret None).
        { destruct (head_kind (print_items items)); try reflexivity; discriminate. }
        unfold bind at 1. rewrite Hmos. unfold ret at 1.
        unfold parse_multiline_block, bind at 1, all_tokens. cbn [b_all St].
        assert (Hne2 : forallb (fun t => is_empty_tok (kind t)) blk = false).
        { unfold blk. rewrite (place_forallb is_empty_tok). exact Hnempty. }
        rewrite Hne2. unfold bind at 1, peek, peek_of. cbn [b_rest St]. rewrite Hk0.
        assert (Hts : (match head_kind (print_items items) with KTextStep => parse_text_block cfg | _ => parse_step cfg end) = parse_step cfg).
        { destruct (head_kind (print_items items)); try reflexivity. discriminate. }
        rewrite Hts. change {| b_all := blk; b_done := []; b_rest := blk; b_evs := evs |} with (init_st blk evs). rewrite Hp. cbn [b_rest b_evs St].
        cbn [app]. rewrite <- app_assoc. reflexivity.
      + cbn [rev]. rewrite rev_app_distr. cbn [rev app map ev_proj]. rewrite map_app, He. reflexivity.
    - apply andb_true_iff in W as [Hok Hfirst].
      destruct ls as [|l0 lr] eqn:Els; [discriminate|]. rewrite <- Els in *.
      assert (Hlne : ls <> []) by (rewrite Els; discriminate).
      set (blk := place off (print_tlines ls)).
      assert (Hhd : exists T R, blk = T :: R /\ kind T = KTextStep).
      { unfold blk. rewrite Els. destruct lr; cbn [print_tlines]; unfold print_tline; rewrite Hfirst; cbn [app place kind fst tstep_p];
          eexists _, _; split; reflexivity. }
      destruct Hhd as (T & R & Eb & HkT).
      destruct (text_block_loop_print cfg Hstrict ls (S (length blk)) off blk [] (EvStart false :: evs) Hok Hlne) as (evs' & Hl & He).
      { unfold blk. rewrite place_length. lia. }
      { unfold current_offset_of, base_offset. cbn [b_done b_all St]. rewrite Eb. unfold blk in Eb.
        destruct (print_tlines ls); [discriminate|]. cbn [place] in Eb. inversion Eb. reflexivity. }
      fold blk in Hl.
      exists (EvEnd false :: evs' ++ [EvStart false]). split.
      + unfold run_block. destruct blk as [|t0 blk'] eqn:Eb0; [discriminate|]. rewrite <- Eb0 in *.
        assert (Hk0 : match blk with t :: _ => kind t | [] => KEof end = KTextStep) by (rewrite Eb; exact HkT).
        assert (Hne2 : forallb (fun t => is_empty_tok (kind t)) blk = false) by (rewrite Eb; cbn [forallb]; rewrite HkT; reflexivity).
        unfold parse_block, bind at 1, peek, peek_of. cbn [b_rest]. rewrite Hk0.
        unfold bind at 1, ret at 1. unfold parse_multiline_block, bind at 1, all_tokens. cbn [b_all].
        rewrite Hne2. unfold bind at 1, peek, peek_of. cbn [b_rest]. rewrite Hk0.
        unfold parse_text_block, bind at 1, event. cbn [b_all b_done b_rest b_evs].
        unfold bind at 1, rest. cbn [b_rest].
        change {| b_all := blk; b_done := []; b_rest := blk; b_evs := EvStart false :: evs |} with (St blk [] blk (EvStart false :: evs)).
        unfold bind at 1. rewrite Hl. cbn [b_all b_done b_rest b_evs St]. cbn [app]. rewrite <- app_assoc. reflexivity.
      + cbn [rev]. rewrite rev_app_distr. cbn [rev app map ev_proj]. rewrite map_app, He. reflexivity.
  Qed.

  Theorem block_print b off evs :
    block_ok cfg b = true ->
    (match b with BkSection _ _ n2 trail => n2 = O -> trail = [] | _ => True end) ->
    exists evs',
      run_block (place off (print_block b)) evs (parse_block cfg true) = Done (evs' ++ evs) /\
      map ev_proj (rev evs') = denote_block b.
  Proof. intros W Hsec. apply block_print_gen; auto. Qed.
End Blocks2.

(* ---------------------------------------------------------------- documents *)
From CL Require Import Proofs.MetaIterProofs.

Section Docs.
  Variable cfg : pcfg.
  Hypothesis Hstrict : p_strict_escape cfg = false.

  Definition sec_trail_ok (b : block) : Prop :=
    match b with BkSection _ _ n2 trail => n2 = O -> trail = [] | _ => True end.

  (* the token block [blk] is the printed block [b] at some offset *)
  Definition prints (blk : list tok) (b : block) : Prop := exists off, blk = place off (print_block b).

  Definition not_meta (b : block) : Prop := match b with BkMeta _ _ => False | _ => True end.

  Lemma fold_print_gen (o : bool) bl d :
    Forall2 prints bl d -> Forall (fun b => block_ok cfg b = true /\ sec_trail_ok b) d ->
    (o = true \/ Forall not_meta d) ->
    forall evs, exists evs',
      fold_blocks (full_block_step cfg o) bl evs = Done (evs' ++ evs) /\
      map ev_proj (rev evs') = concat (map denote_block d).
  Proof.
    induction 1 as [|blk b bl d [off ->] _ IH]; intros Hok Ho evs.
    - exists []. split; reflexivity.
    - inversion Hok as [|? ? [Hb Hs] Hrest]; subst.
      assert (Ho1 : o = true \/ not_meta b) by (destruct Ho as [->|Ho]; [left; reflexivity|right; inversion Ho; assumption]).
      assert (Ho2 : o = true \/ Forall not_meta d) by (destruct Ho as [->|Ho]; [left; reflexivity|right; inversion Ho; assumption]).
      destruct (block_print_gen cfg Hstrict o b off evs Hb Hs Ho1) as (e1 & H1 & P1).
      destruct (IH Hrest Ho2 (e1 ++ evs)) as (e2 & H2 & P2).
      exists (e2 ++ e1). cbn [fold_blocks]. unfold full_block_step at 1. rewrite H1. cbn [obind]. rewrite H2.
      split; [rewrite app_assoc; reflexivity|].
      rewrite rev_app_distr, map_app, P1, P2. reflexivity.
  Qed.

  Lemma fold_print bl d :
    Forall2 prints bl d -> Forall (fun b => block_ok cfg b = true /\ sec_trail_ok b) d ->
    forall evs, exists evs',
      fold_blocks (full_block_step cfg true) bl evs = Done (evs' ++ evs) /\
      map ev_proj (rev evs') = concat (map denote_block d).
  Proof. intros H1 H2. apply fold_print_gen; auto. Qed.

  (* C01 at document level, given that the block splitter cuts the text at the printed blocks *)
  Theorem events_print U (text : str) (d : list block) ts :
    parse_frontmatter cfg text = None -> lex_at U text 0 = Some ts ->
    Forall2 prints (blocks ts) d -> Forall (fun b => block_ok cfg b = true /\ sec_trail_ok b) d ->
    exists evs, events U cfg text = Done evs /\ map ev_proj evs = concat (map denote_block d).
  Proof.
    intros Hfm Hlex Hsplit Hok. rewrite events_blocks, Hfm, Hlex.
    destruct (fold_print _ _ Hsplit Hok []) as (evs' & Hf & Hp). rewrite Hf. cbn [obind].
    exists (rev (evs' ++ [])). split; [reflexivity|]. rewrite app_nil_r. exact Hp.
  Qed.
End Docs.

(* ---------------------------------------------------------------- the block cut *)
Definition nlk (t : tok) : bool := tk_eqb (kind t) KNewline.
Definition eline (e : list tok) : Prop := forallb (fun t => is_empty_tok (kind t) && negb (nlk t)) e = true.
Definition line (L : list tok) : Prop :=
  forallb (fun t => negb (nlk t)) L = true /\ forallb (fun t => is_empty_tok (kind t)) L = false.

Inductive elines : list tok -> Prop :=
| el_nil : elines []
| el_cons e n T : eline e -> nlk n = true -> elines T -> elines (e ++ n :: T).

(* lines of a multi-line block, each with its newline; no line starts with `>>` or `=` *)
Inductive segs : list tok -> Prop :=
| sg_nil : segs []
| sg_cons L n S : line L -> nlk n = true -> is_single_line_marker L = false -> segs S -> segs (L ++ n :: S).

Lemma pull_line_nl A n R : forallb (fun t => negb (nlk t)) A = true -> nlk n = true -> pull_line (A ++ n :: R) = (A ++ [n], R).
Proof.
  intros HA Hn. induction A as [|a A IH]; cbn [app pull_line forallb] in *.
  - unfold nlk in Hn. rewrite Hn. reflexivity.
  - apply andb_true_iff in HA as [Ha HA]. unfold nlk in Ha. apply negb_true in Ha. rewrite Ha, (IH HA). reflexivity.
Qed.

Lemma line_nonempty L : line L -> L <> [].
Proof. intros [_ H] ->. discriminate. Qed.

Lemma marker_app L X : L <> [] -> is_single_line_marker (L ++ X) = is_single_line_marker L.
Proof. destruct L; [contradiction|reflexivity]. Qed.

Lemma line_not_empty L n : line L -> line_is_empty (L ++ [n]) = false.
Proof. intros [_ H]. unfold line_is_empty. rewrite forallb_app, H. reflexivity. Qed.

Lemma eline_empty e n : eline e -> nlk n = true -> line_is_empty (e ++ [n]) = true.
Proof.
  intros He Hn. unfold line_is_empty. rewrite forallb_app. cbn [forallb]. unfold nlk in Hn. apply tk_eqb_eq in Hn. rewrite Hn.
  cbn. rewrite andb_true_r. eapply forallb_impl; [|exact He]. intros x Hx. apply andb_true_iff in Hx as [Hx _]. exact Hx.
Qed.

Lemma eline_nonl e : eline e -> forallb (fun t => negb (nlk t)) e = true.
Proof. apply forallb_impl. intros x Hx. apply andb_true_iff in Hx as [_ Hx]. exact Hx. Qed.

Lemma eline_marker e n T : eline e -> nlk n = true -> is_single_line_marker (e ++ n :: T) = false.
Proof.
  intros He Hn. destruct e as [|x e]; cbn [app is_single_line_marker].
  - unfold nlk in Hn. apply tk_eqb_eq in Hn. rewrite Hn. reflexivity.
  - cbn [eline forallb] in He. unfold eline in He. cbn [forallb] in He. apply andb_true_iff in He as [Hx _].
    apply andb_true_iff in Hx as [Hx _]. destruct (kind x); try discriminate; reflexivity.
Qed.

(* what follows a multi-line block: an empty line (it is consumed), a `>>`/`=` line, or the end *)
Inductive after_multi : list tok -> list tok -> list tok -> Prop :=
| am_empty e n SEP NEXT : eline e -> nlk n = true -> after_multi (e ++ n :: SEP) NEXT SEP
| am_marker NEXT : is_single_line_marker NEXT = true -> after_multi [] NEXT []
| am_end : after_multi [] [] [].

Lemma more_lines_segs S : segs S -> forall SEP NEXT SEP' fuel,
  after_multi SEP NEXT SEP' -> (length (S ++ SEP ++ NEXT) < fuel)%nat ->
  more_lines fuel (S ++ SEP ++ NEXT) = (S, SEP' ++ NEXT).
Proof.
  induction 1 as [|L n S HL Hn Hm HS IH]; intros SEP NEXT SEP' fuel Ha Hf.
  - cbn [app] in *. destruct fuel as [|f]; [lia|]. cbn [more_lines].
    destruct Ha as [e n SEP NEXT He Hn | NEXT Hmk | ].
    + rewrite <- app_assoc. cbn [app]. rewrite (eline_marker e n _ He Hn).
      destruct (e ++ n :: SEP ++ NEXT) eqn:E; [destruct e; discriminate|]. rewrite <- E.
      rewrite (pull_line_nl e n _ (eline_nonl e He) Hn), (eline_empty e n He Hn). reflexivity.
    + cbn [app]. rewrite Hmk. reflexivity.
    + reflexivity.
  - destruct fuel as [|f]; [lia|].
    assert (Hf' : (length (S ++ SEP ++ NEXT) < f)%nat).
    { rewrite <- app_assoc in Hf. cbn [app] in Hf. rewrite app_length in Hf. cbn [length] in Hf. lia. }
    cbn [more_lines]. rewrite <- app_assoc. cbn [app].
    rewrite (marker_app L _ (line_nonempty L HL)), Hm.
    destruct (L ++ n :: S ++ SEP ++ NEXT) eqn:E; [destruct L; discriminate|]. rewrite <- E.
    rewrite (pull_line_nl L n _ (proj1 HL) Hn), (line_not_empty L n HL).
    rewrite (IH SEP NEXT SEP' f Ha).
    + rewrite <- app_assoc. reflexivity.
    + exact Hf'.
Qed.

Lemma strip_block B n0 :
  nlk n0 = true -> match rev B with t :: _ => nlk t = false | [] => False end ->
  rev (strip_trailing_newlines (rev (B ++ [n0]))) = B.
Proof.
  intros Hn HB. rewrite rev_app_distr. cbn [rev app strip_trailing_newlines]. unfold nlk in Hn. rewrite Hn.
  destruct (rev B) as [|t r] eqn:E; [contradiction|]. cbn [strip_trailing_newlines]. unfold nlk in HB. rewrite HB.
  rewrite <- E. apply rev_involutive.
Qed.

Lemma next_block_skip EL : elines EL -> forall X fuel,
  next_block (length EL + fuel) (EL ++ X) = next_block fuel X \/ True.
Proof. intros; right; exact I. Qed.

(* the block B, multi-line form: B ++ [n0] is a run of segs *)
Lemma next_block_multi L1 n1 S B n0 SEP NEXT SEP' fuel :
  B ++ [n0] = L1 ++ n1 :: S -> line L1 -> nlk n1 = true -> is_single_line_marker L1 = false -> segs S ->
  nlk n0 = true -> match rev B with t :: _ => nlk t = false | [] => False end ->
  after_multi SEP NEXT SEP' -> (length (B ++ n0 :: SEP ++ NEXT) < fuel)%nat ->
  next_block fuel (B ++ n0 :: SEP ++ NEXT) = Some (B, SEP' ++ NEXT).
Proof.
  intros EB HL1 Hn1 Hm1 HS Hn0 HlB Ha Hf.
  assert (Ets : B ++ n0 :: SEP ++ NEXT = L1 ++ n1 :: S ++ SEP ++ NEXT).
  { change (n0 :: SEP ++ NEXT) with ([n0] ++ SEP ++ NEXT). rewrite app_assoc, EB, <- app_assoc. reflexivity. }
  rewrite Ets in *. destruct fuel as [|f]; [lia|]. cbn [next_block].
  destruct (L1 ++ n1 :: S ++ SEP ++ NEXT) eqn:E; [destruct L1; discriminate|]. rewrite <- E in *.
  rewrite (pull_line_nl L1 n1 _ (proj1 HL1) Hn1), (line_not_empty L1 n1 HL1).
  rewrite (marker_app L1 [n1] (line_nonempty L1 HL1)), Hm1.
  rewrite (more_lines_segs S HS SEP NEXT SEP' _ Ha) by lia.
  replace ((L1 ++ [n1]) ++ S) with (B ++ [n0]) by (rewrite EB, <- app_assoc; reflexivity).
  rewrite (strip_block B n0 Hn0 HlB).
  destruct B as [|b0 B']; [contradiction|]. reflexivity.
Qed.

(* single-line form: a `>>` or `=` line *)
Lemma next_block_single B n0 REST fuel :
  line B -> is_single_line_marker B = true -> nlk n0 = true ->
  (length (B ++ n0 :: REST) < fuel)%nat ->
  next_block fuel (B ++ n0 :: REST) = Some (B, REST).
Proof.
  intros HB Hm Hn0 Hf. destruct fuel as [|f]; [lia|]. cbn [next_block].
  destruct (B ++ n0 :: REST) eqn:E; [destruct B; discriminate|]. rewrite <- E.
  rewrite (pull_line_nl B n0 _ (proj1 HB) Hn0), (line_not_empty B n0 HB).
  rewrite (marker_app B [n0] (line_nonempty B HB)), Hm.
  assert (HlB : match rev B with t :: _ => nlk t = false | [] => False end).
  { destruct HB as [HB1 HB2]. destruct (rev B) as [|tl rl] eqn:Er.
    - apply (f_equal (@rev tok)) in Er. rewrite rev_involutive in Er. subst B. discriminate.
    - assert (In tl B) by (apply in_rev; rewrite Er; left; reflexivity).
      rewrite forallb_forall in HB1. apply negb_true. apply HB1. exact H. }
  rewrite app_nil_r, (strip_block B n0 Hn0 HlB). destruct B; [contradiction|reflexivity].
Qed.

Lemma next_block_elines EL : elines EL -> forall X fuel,
  (length (EL ++ X) < fuel)%nat ->
  exists fuel', (length X < fuel')%nat /\ next_block fuel (EL ++ X) = next_block fuel' X.
Proof.
  induction 1 as [|e n T He Hn HT IH]; intros X fuel Hf.
  - exists fuel. split; [exact Hf|reflexivity].
  - destruct fuel as [|f]; [lia|].
    assert (Hf' : (length (T ++ X) < f)%nat).
    { rewrite <- app_assoc in Hf. cbn [app] in Hf. rewrite app_length in Hf. cbn [length] in Hf. lia. }
    rewrite <- app_assoc. cbn [app next_block].
    destruct (e ++ n :: T ++ X) eqn:E; [destruct e; discriminate|]. rewrite <- E.
    rewrite (pull_line_nl e n _ (eline_nonl e He) Hn), (eline_empty e n He Hn).
    apply IH. exact Hf'.
Qed.

(* ---- the last block of a text that does not end with a newline *)
Lemma pull_line_nonl A : forallb (fun t => negb (nlk t)) A = true -> pull_line A = (A, []).
Proof.
  induction A as [|a A IH]; intro H; [reflexivity|]. cbn [forallb] in H. apply andb_true_iff in H as [Ha HA].
  cbn [pull_line]. unfold nlk in Ha. apply negb_true in Ha. rewrite Ha, (IH HA). reflexivity.
Qed.

Lemma line_last_not_nl L : line L -> match rev L with t :: _ => nlk t = false | [] => False end.
Proof.
  intros [H1 H2]. destruct (rev L) as [|t r] eqn:E.
  - apply (f_equal (@rev tok)) in E. rewrite rev_involutive in E. subst L. discriminate.
  - assert (In t L) by (apply in_rev; rewrite E; left; reflexivity).
    rewrite forallb_forall in H1. apply negb_true. apply H1. exact H.
Qed.

Lemma strip_noop X : match rev X with t :: _ => nlk t = false | [] => False end ->
  rev (strip_trailing_newlines (rev X)) = X.
Proof.
  intro H. destruct (rev X) as [|t r] eqn:E; [contradiction|]. cbn [strip_trailing_newlines]. unfold nlk in H. rewrite H.
  rewrite <- E. apply rev_involutive.
Qed.

Lemma rev_app_last {T} (A B : list T) : B <> [] -> match rev (A ++ B) with t :: _ => Some t | [] => None end
                                                 = match rev B with t :: _ => Some t | [] => None end.
Proof.
  intro H. rewrite rev_app_distr. destruct (rev B) eqn:E; [|reflexivity].
  apply (f_equal (@rev T)) in E. rewrite rev_involutive in E. contradiction.
Qed.

(* a block of one line, no newline after it: the end of the text *)
Lemma next_block_one_line B fuel : line B -> (length B < fuel)%nat -> next_block fuel B = Some (B, []).
Proof.
  intros HB Hf. destruct fuel as [|f]; [lia|]. cbn [next_block].
  destruct B as [|b0 B'] eqn:EB; [destruct HB as [_ H]; discriminate|]. rewrite <- EB in *.
  rewrite (pull_line_nonl B (proj1 HB)).
  assert (Hne : line_is_empty B = false) by (exact (proj2 HB)). rewrite Hne.
  pose proof (line_last_not_nl B HB) as Hl.
  destruct (is_single_line_marker B).
  - rewrite app_nil_r, (strip_noop B Hl). rewrite EB. reflexivity.
  - cbn [length more_lines is_single_line_marker]. rewrite app_nil_r, (strip_noop B Hl). rewrite EB. reflexivity.
Qed.

Lemma more_lines_last S : segs S -> forall L fuel,
  line L -> is_single_line_marker L = false -> (length (S ++ L) < fuel)%nat ->
  more_lines fuel (S ++ L) = (S ++ L, []).
Proof.
  induction 1 as [|L0 n S HL0 Hn Hm HS IH]; intros L fuel HL HmL Hf.
  - cbn [app] in *. destruct fuel as [|f]; [lia|]. cbn [more_lines]. rewrite HmL.
    destruct L as [|l0 L'] eqn:EL; [destruct HL as [_ H]; discriminate|]. rewrite <- EL in *.
    rewrite (pull_line_nonl L (proj1 HL)).
    assert (Hne : line_is_empty L = false) by (exact (proj2 HL)). rewrite Hne.
    destruct f; cbn [more_lines is_single_line_marker]; rewrite app_nil_r; reflexivity.
  - destruct fuel as [|f]; [lia|].
    assert (Hf' : (length (S ++ L) < f)%nat).
    { rewrite <- app_assoc in Hf. cbn [app] in Hf. rewrite app_length in Hf. cbn [length] in Hf. lia. }
    cbn [more_lines]. rewrite <- app_assoc. cbn [app].
    rewrite (marker_app L0 _ (line_nonempty L0 HL0)), Hm.
    destruct (L0 ++ n :: S ++ L) eqn:E; [destruct L0; discriminate|]. rewrite <- E.
    rewrite (pull_line_nl L0 n _ (proj1 HL0) Hn), (line_not_empty L0 n HL0).
    rewrite (IH L f HL HmL Hf'). rewrite <- app_assoc. reflexivity.
Qed.

(* a block of several lines, no newline after the last *)
Lemma next_block_multi_last L1 n1 S L fuel :
  line L1 -> nlk n1 = true -> is_single_line_marker L1 = false -> segs S ->
  line L -> is_single_line_marker L = false ->
  (length (L1 ++ n1 :: S ++ L) < fuel)%nat ->
  next_block fuel (L1 ++ n1 :: S ++ L) = Some (L1 ++ n1 :: S ++ L, []).
Proof.
  intros HL1 Hn1 Hm1 HS HL HmL Hf. destruct fuel as [|f]; [lia|]. cbn [next_block].
  destruct (L1 ++ n1 :: S ++ L) eqn:E; [destruct L1; discriminate|]. rewrite <- E in *.
  rewrite (pull_line_nl L1 n1 _ (proj1 HL1) Hn1), (line_not_empty L1 n1 HL1).
  rewrite (marker_app L1 [n1] (line_nonempty L1 HL1)), Hm1.
  rewrite (more_lines_last S HS L _ HL HmL) by lia.
  replace ((L1 ++ [n1]) ++ S ++ L) with (L1 ++ n1 :: S ++ L) by (rewrite <- app_assoc; reflexivity).
  assert (Hl : match rev (L1 ++ n1 :: S ++ L) with t :: _ => nlk t = false | [] => False end).
  { pose proof (line_last_not_nl L HL) as H0.
    replace (L1 ++ n1 :: S ++ L) with ((L1 ++ n1 :: S) ++ L) by (rewrite <- app_assoc; reflexivity).
    pose proof (rev_app_last (L1 ++ n1 :: S) L (line_nonempty L HL)) as H1.
    destruct (rev ((L1 ++ n1 :: S) ++ L)), (rev L); try discriminate; try contradiction. injection H1 as ->. exact H0. }
  rewrite (strip_noop _ Hl). rewrite E. reflexivity.
Qed.

(* the layout of a document, declaratively: blocks separated by empty (blank or comment-only) lines;
   `>>` and `=` lines are blocks of one line and need no empty line around them; a multi-line
   block (step, text) ends at an empty line, at a `>>`/`=` line or at the end of the text *)
Inductive doc_toks : list tok -> list (list tok) -> Prop :=
| dt_end EL : elines EL -> doc_toks EL []
| dt_single EL B n0 REST bs :
    elines EL -> line B -> is_single_line_marker B = true -> nlk n0 = true ->
    doc_toks REST bs -> doc_toks (EL ++ B ++ n0 :: REST) (B :: bs)
| dt_multi EL B n0 L1 n1 S SEP NEXT SEP' bs :
    elines EL -> B ++ [n0] = L1 ++ n1 :: S -> line L1 -> nlk n1 = true -> is_single_line_marker L1 = false ->
    segs S -> nlk n0 = true -> (match rev B with t :: _ => nlk t = false | [] => False end) ->
    after_multi SEP NEXT SEP' -> doc_toks (SEP' ++ NEXT) bs ->
    doc_toks (EL ++ B ++ n0 :: SEP ++ NEXT) (B :: bs)
(* the text ends right after the last block, without a newline *)
| dt_last_line EL B : elines EL -> line B -> doc_toks (EL ++ B) [B]
| dt_last_multi EL L1 n1 S L :
    elines EL -> line L1 -> nlk n1 = true -> is_single_line_marker L1 = false -> segs S ->
    line L -> is_single_line_marker L = false ->
    doc_toks (EL ++ L1 ++ n1 :: S ++ L) [L1 ++ n1 :: S ++ L].

Lemma after_multi_len SEP NEXT SEP' : after_multi SEP NEXT SEP' -> (length (SEP' ++ NEXT) <= length (SEP ++ NEXT))%nat.
Proof. destruct 1; rewrite ?app_length; cbn [length app]; rewrite ?app_length; cbn [length]; lia. Qed.

Theorem blocks_doc ts bs : doc_toks ts bs -> forall fuel, (length ts < fuel)%nat -> blocks_f fuel ts = bs.
Proof.
  induction 1 as [EL HEL | EL B n0 REST bs HEL HB Hm Hn0 _ IH
                  | EL B n0 L1 n1 SG SEP NEXT SEP' bs HEL EB HL1 Hn1 Hm1 HS Hn0 HlB Ha _ IH
                  | EL B HEL HB
                  | EL L1 n1 SG L HEL HL1 Hn1 Hm1 HS HL HmL]; intros fuel Hf.
  - destruct fuel as [|f]; [lia|]. cbn [blocks_f].
    destruct (next_block_elines EL HEL [] (S (length EL))) as (fuel' & _ & E); [rewrite app_nil_r; lia|].
    rewrite app_nil_r in E. rewrite E. destruct fuel'; reflexivity.
  - destruct fuel as [|f]; [lia|]. cbn [blocks_f].
    destruct (next_block_elines EL HEL (B ++ n0 :: REST) (S (length (EL ++ B ++ n0 :: REST)))) as (fuel' & Hf' & E); [lia|].
    rewrite E, (next_block_single B n0 REST fuel' HB Hm Hn0 Hf'). f_equal. apply IH.
    rewrite !app_length in Hf. cbn [length] in Hf. lia.
  - destruct fuel as [|f]; [lia|]. cbn [blocks_f].
    destruct (next_block_elines EL HEL (B ++ n0 :: SEP ++ NEXT) (S (length (EL ++ B ++ n0 :: SEP ++ NEXT)))) as (fuel' & Hf' & E); [lia|].
    rewrite E, (next_block_multi L1 n1 SG B n0 SEP NEXT SEP' fuel' EB HL1 Hn1 Hm1 HS Hn0 HlB Ha Hf'). f_equal. apply IH.
    pose proof (after_multi_len _ _ _ Ha) as Hle. rewrite !app_length in Hle. rewrite !app_length in Hf. cbn [length] in Hf.
    rewrite !app_length in Hf. rewrite app_length. lia.
  - destruct fuel as [|f]; [lia|]. cbn [blocks_f].
    destruct (next_block_elines EL HEL B (S (length (EL ++ B)))) as (fuel' & Hf' & E); [lia|].
    rewrite E, (next_block_one_line B fuel' HB Hf'). f_equal. destruct f; reflexivity.
  - destruct fuel as [|f]; [lia|]. cbn [blocks_f].
    destruct (next_block_elines EL HEL (L1 ++ n1 :: SG ++ L) (S (length (EL ++ L1 ++ n1 :: SG ++ L)))) as (fuel' & Hf' & E); [lia|].
    rewrite E, (next_block_multi_last L1 n1 SG L fuel' HL1 Hn1 Hm1 HS HL HmL Hf'). f_equal. destruct f; reflexivity.
Qed.

Section Docs2.
  Variable cfg : pcfg.
  Hypothesis Hstrict : p_strict_escape cfg = false.

  (* C01 at document level: a text without front matter fence whose tokens are laid out as the
     printed blocks of d *)
  Theorem events_layout U (text : str) (d : list block) ts bl :
    parse_frontmatter cfg text = None -> lex_at U text 0 = Some ts ->
    doc_toks ts bl -> Forall2 prints bl d -> Forall (fun b => block_ok cfg b = true /\ sec_trail_ok b) d ->
    exists evs, events U cfg text = Done evs /\ map ev_proj evs = concat (map denote_block d).
  Proof.
    intros Hfm Hlex Hlay Hpr Hok. apply (events_print cfg Hstrict U text d ts Hfm Hlex); [|exact Hok].
    unfold blocks. rewrite (blocks_doc ts bl Hlay) by lia. exact Hpr.
  Qed.
End Docs2.
