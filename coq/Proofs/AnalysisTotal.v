(* Totality of the analysis model (for C03): on a stream the parser can emit, no panic site of
   Model/Analysis.v is reached.  Each site is discharged by the stream grammar
   ([Events.shape_step]), by the invariant [Inv] of C06 (Proofs/AnalysisProofs.v), or by one of
   three stated hypotheses:
     - [iq_shrinks find_iq]: the oracle for find_inline_quantity returns a remainder shorter than
       the text it was given (the real function returns a strict suffix); this discharges the
       model-only site [site_iq_fuel];
     - [Forall (ev_span_ok input)]: the span of every component is a slice of the source text
       (proved of the parser in Proofs/ParserSpans.v; used by in_text in text mode, site 570);
     - a bound on the number of End events: the u32 step counter (site 173, debug builds) can
       only overflow after 2^32 - 2 steps of one section.
   site                         why unreachable
   165 End without Start        grammar: End only inside a block; [linked2]: inside a block the buffer is Some
   153 / 160 End kind           [linked2]: the buffer has the kind of the block (or text mode)
   186 content outside block    grammar + [linked2]
   555 component in text block  grammar: components only inside Start Step; a text buffer there means text mode
   570 slice of the input       [ev_span_ok]
   601 inter without REF, 776   grammar: [item_event_ok]
   624/911 index of definition  [same_name] returns a position of the table ([rposition_some])
   626/913 target is definition [rel_ok]: a reference carries REF, [same_name] skips REF
   633 units of referenced_from [rel_ok]: every back link is a position of the table
   1163 target not a reference  [same_name] skips REF
   173 step counter             the bound
   509 inline-quantity fuel     [iq_shrinks]
   547 / 572                    [step] only passes Text and components *)
From CL Require Import Base.StrLemmas Model.AnalysisSpec Proofs.AnalysisProofs.
From Coq Require Import Lia ZArith.
Open Scope nat_scope.

(* ------------------------------------------------------------------ byte slices *)
Lemma bdrop_app p q : bdrop (p ++ q) (blen p) = Some q.
Proof.
  induction p as [|c p IH]; cbn [app blen].
  - destruct q; reflexivity.
  - cbn [bdrop]. pose proof (utf8_len_pos c) as P.
    destruct (N.eqb_spec (utf8_len c + blen p) 0) as [E|_]; [lia|].
    destruct (N.leb_spec (utf8_len c) (utf8_len c + blen p)) as [_|L]; [|lia].
    replace (utf8_len c + blen p - utf8_len c)%N with (blen p) by lia. exact IH.
Qed.

Lemma btake_app x q : btake (x ++ q) (blen x) = Some x.
Proof.
  induction x as [|c x IH]; cbn [app blen].
  - destruct q; reflexivity.
  - cbn [btake]. pose proof (utf8_len_pos c) as P.
    destruct (N.eqb_spec (utf8_len c + blen x) 0) as [E|_]; [lia|].
    destruct (N.leb_spec (utf8_len c) (utf8_len c + blen x)) as [_|L]; [|lia].
    replace (utf8_len c + blen x - utf8_len c)%N with (blen x) by lia. now rewrite IH.
Qed.

Lemma prefix_cmp (p q p' q' : str) :
  p ++ q = p' ++ q' -> (blen p <= blen p')%N -> exists x, p' = p ++ x /\ q = x ++ q'.
Proof.
  revert p'. induction p as [|c p IH]; intros p' E L.
  - exists p'. split; [reflexivity|exact E].
  - destruct p' as [|c' p'].
    + cbn [blen] in L. pose proof (utf8_len_pos c). lia.
    + cbn [app] in E. injection E as -> E. cbn [blen] in L.
      destruct (IH p' E) as (x & -> & ->); [lia|]. exists x. split; reflexivity.
Qed.

Lemma span_ok_slice s sp : span_ok s sp -> exists sl, byte_slice s sp = Some sl.
Proof.
  destruct sp as [a b]. unfold span_ok, boundary. cbn [fst snd].
  intros (A & B & (p & q & -> & <-) & (p' & q' & E & <-)).
  destruct (prefix_cmp p q p' q' E A) as (x & -> & ->).
  unfold byte_slice. destruct (N.leb_spec (blen p) (blen (p ++ x))) as [_|L]; [|lia].
  rewrite bdrop_app. rewrite blen_app. replace (blen p + blen x - blen p)%N with (blen x) by lia.
  exists x. apply btake_app.
Qed.

(* ------------------------------------------------------------------ hypotheses on the stream *)
Definition ev_span_ok (input : str) (e : event) : Prop :=
  match e with
  | EIngredient ig => byte_slice input (pi_span ig) <> None
  | ECookware cw => byte_slice input (pc_span cw) <> None
  | ETimer t => byte_slice input (pt_span t) <> None
  | _ => True
  end.

Definition is_end (e : event) : bool := match e with EEnd _ => true | _ => false end.
Definition ends (evs : list event) : nat := length (filter is_end evs).

Lemma ends_le evs : ends evs <= length evs.
Proof.
  unfold ends. induction evs as [|e r IH]; cbn [filter length]; [lia|].
  destruct (is_end e); cbn [length]; lia.
Qed.

Definition iq_shrinks (find_iq : str -> option (str * str)) : Prop :=
  forall hay before after, find_iq hay = Some (before, after) -> length after < length hay.

(* the u32 step counter: u32::MAX *)
Definition counter_max : N := 4294967295.

(* ------------------------------------------------------------------ the block buffer follows the grammar *)
Definition linked2 (p : pstate) (s : astate) : Prop :=
  a_halted s = true \/
  match p with
  | POut => a_block s = None
  | PIn k =>
      match a_block s with
      | Some (BStep _) => k = BKStep /\ dm_eqb (a_define s) DMText = false
      | Some (BText _) => k = BKText \/ dm_eqb (a_define s) DMText = true
      | None => False
      end
  end.

Lemma linked2_linked p s : linked2 p s -> linked p s.
Proof.
  intros [H|H]; [left; exact H|right]. intros ->. exact H.
Qed.

(* what a step of the collector leaves alone *)
Record frame (s s' : astate) : Prop := {
  fr_define : a_define s' = a_define s;
  fr_counter : a_counter s' = a_counter s;
  fr_halted : a_halted s' = a_halted s }.

Lemma frame_refl s : frame s s.
Proof. constructor; reflexivity. Qed.

Section Total.
Variable ci_key : str -> str.
Variable yaml_ok : str -> bool.
Variable find_iq : str -> option (str * str).
Variable unit_class : str -> N.
Variable input : str.
Variable x : aext.
Variable cfg : acfg.
Hypothesis cfg_text : skip_empty_text cfg = true.
Hypothesis cfg_step : skip_empty_step cfg = true.
Hypothesis iq_ok : iq_shrinks find_iq.
Notation Inv := (Inv ci_key).

(* ---- reference resolution never panics on a consistent table ---- *)
Lemma resolve_reference_total s tbl inh new :
  exists r, resolve_reference ci_key s tbl inh new = Done r.
Proof.
  unfold resolve_reference.
  destruct (m_new (c_mods new) && m_ref (c_mods new)); [eauto|].
  destruct (m_new (c_mods new)); [eauto|].
  destruct (negb _); [eauto|].
  destruct (same_name ci_key tbl (c_name new)) as [j|] eqn:E; [|eauto].
  destruct (same_name_spec ci_key _ _ _ E) as (o & Ho & Mo & _). rewrite Ho, Mo. eauto.
Qed.

Lemma link_reference_total tbl new j o hn ul :
  rel_ok tbl -> nth_error tbl j = Some o -> m_ref (c_mods o) = false ->
  exists r, link_reference tbl new j hn ul = Done r.
Proof.
  intros R Ho Mo. unfold link_reference. rewrite Ho. pose proof (R j o Ho) as Hr.
  destruct (c_rel o) as [rf dis|j' tg].
  - destruct Hr as [_ Hiff].
    assert (F : forallb (fun k => k <? length tbl) rf = true).
    { apply forallb_forall. intros k Hk. apply Hiff in Hk as (c' & Hk & _).
      apply Nat.ltb_lt. eapply nth_error_lt; eauto. }
    rewrite F. cbn [negb]. rewrite andb_false_r. eauto.
  - destruct Hr as [M _]. congruence.
Qed.

Lemma resolve_intermediate_ref_total s d :
  (0 <=? ir_val d)%Z = true -> exists r, resolve_intermediate_ref s d = Done r.
Proof.
  intro H. unfold resolve_intermediate_ref.
  destruct (Z.ltb_spec (ir_val d) 0) as [L|_]; [apply Z.leb_le in H; lia|].
  destruct (Z.to_nat (ir_val d)); [eauto|].
  destruct (ir_kind d), (ir_mode d).
  - destruct (nth_error _ _); eauto.
  - destruct (nth_error _ _); eauto.
  - destruct (_ <=? _); eauto.
  - destruct (_ <? _); eauto.
Qed.

Lemma ingredient_total s ig :
  Inv s -> item_event_ok (EIngredient ig) = true ->
  exists s1 i, ingredient ci_key x s ig = Done (s1, i) /\ frame s s1.
Proof.
  intros I Ok. pose proof I as [Ho Hri Hrc Hrf Hs Hc Hn Hne Hb Ht Hv].
  unfold ingredient.
  set (new := {| c_name := _; c_alias := _; c_qty := _; c_note := _; c_rref := _; c_mods := _; c_rel := _ |}).
  cbn [item_event_ok] in Ok.
  destruct (pi_inter ig) as [d|].
  - apply andb_true_iff in Ok as [M V]. change (m_ref (c_mods new)) with (m_ref (pi_mods ig)).
    rewrite M. cbn [negb].
    destruct (resolve_intermediate_ref_total s d V) as (r & ->). cbn [obind].
    destruct r as [rel|]; eexists _, _; (split; [reflexivity|constructor; reflexivity]).
  - destruct (resolve_reference_total s (a_ingredients s) inherit_ingredient new) as (r & E).
    rewrite E. cbn [obind]. pose proof (resolve_reference_spec ci_key _ _ _ _ _ E) as Sp.
    destruct (rs_target r) as [[j imp]|].
    + destruct Sp as (o & Ho' & Mo & _).
      destruct (link_reference_total (a_ingredients s) (rs_new r) j o (is_some (pi_note ig)) (x_advanced x)
                  Hri Ho' Mo) as ([tbl' e] & ->).
      cbn [obind]. eexists _, _. split; [reflexivity|constructor; reflexivity].
    + eexists _, _. split; [reflexivity|constructor; reflexivity].
Qed.

Lemma cookware_total s cw :
  Inv s -> exists s1 i, cookware ci_key s cw = Done (s1, i) /\ frame s s1.
Proof.
  intros I. pose proof I as [Ho Hri Hrc Hrf Hs Hc Hn Hne Hb Ht Hv].
  unfold cookware.
  set (new := {| c_name := _; c_alias := _; c_qty := _; c_note := _; c_rref := _; c_mods := _; c_rel := _ |}).
  destruct (resolve_reference_total s (a_cookware s) inherit_cookware new) as (r & E).
  rewrite E. cbn [obind]. pose proof (resolve_reference_spec ci_key _ _ _ _ _ E) as Sp.
  destruct (rs_target r) as [[j imp]|].
  - destruct Sp as (o & Ho' & Mo & _).
    destruct (link_reference_total (a_cookware s) (rs_new r) j o (is_some (pc_note cw)) false
                Hrc Ho' Mo) as ([tbl' e] & ->).
    cbn [obind]. eexists _, _. split; [reflexivity|constructor; reflexivity].
  - eexists _, _. split; [reflexivity|constructor; reflexivity].
Qed.

Lemma split_iq_total : forall fuel hay items n,
  length hay < fuel -> exists r, split_iq find_iq fuel hay items n = Done r.
Proof.
  induction fuel as [|f IH]; intros hay items n L; [lia|]. cbn [split_iq].
  destruct (find_iq hay) as [[before after]|] eqn:E; [|eauto].
  apply IH. apply iq_ok in E. lia.
Qed.

(* a Text or component event inside a step block *)
Lemma in_step_total s e items :
  Inv s -> a_block s = Some (BStep items) -> item_event_ok e = true ->
  exists s', in_step ci_key find_iq unit_class x s e items = Done s' /\ frame s s' /\
             exists items', a_block s' = Some (BStep items').
Proof.
  intros I B Ok. destruct e; try discriminate; cbn [in_step].
  - destruct (dm_eqb (a_define s) DMComponents).
    + exists s. split; [reflexivity|]. split; [apply frame_refl|eauto].
    + destruct (x_inline x).
      * destruct (split_iq_total (S (length (text_str t))) (text_str t) items (a_inline s))
          as ([items' n'] & ->); [lia|].
        cbn [obind]. eexists. split; [reflexivity|]. split; [constructor; reflexivity|eexists; reflexivity].
      * eexists. split; [reflexivity|]. split; [constructor; reflexivity|eexists; reflexivity].
  - destruct (ingredient_total s i I Ok) as (s1 & k & -> & [F1 F2 F3]). cbn [obind].
    eexists. split; [reflexivity|]. split; [constructor; assumption|eexists; reflexivity].
  - destruct (cookware_total s c I) as (s1 & k & -> & [F1 F2 F3]). cbn [obind].
    eexists. split; [reflexivity|]. split; [constructor; assumption|eexists; reflexivity].
  - destruct (timer unit_class x s t) as [s1 k] eqn:E. unfold timer in E. injection E as <- <-.
    eexists. split; [reflexivity|]. split; [constructor; reflexivity|eexists; reflexivity].
Qed.

Definition is_comp (e : event) : bool :=
  match e with EIngredient _ | ECookware _ | ETimer _ => true | _ => false end.

(* a Text or component event inside a text block (or any block in text mode) *)
Lemma in_text_total s e tx :
  item_event_ok e = true -> ev_span_ok input e ->
  (is_comp e = true -> dm_eqb (a_define s) DMText = true) ->
  exists s', in_text input cfg s e tx = Done s' /\ frame s s' /\ exists t', a_block s' = Some (BText t').
Proof.
  intros Ok Sp D. unfold in_text.
  assert (C : forall sp, byte_slice input sp <> None -> dm_eqb (a_define s) DMText = true ->
    exists s',
      (if negb (dm_eqb (a_define s) DMText) then Panic site_nontext_in_text
       else match byte_slice input sp with
            | Some sl => Done (set_block s (Some (BText (tx ++ comp_src cfg sl))))
            | None => Panic site_in_text_slice
            end) = Done s' /\ frame s s' /\ exists t', a_block s' = Some (BText t')).
  { intros sp Hs Hd. rewrite Hd. cbn [negb]. destruct (byte_slice input sp) as [sl|]; [|congruence].
    eexists. split; [reflexivity|]. split; [constructor; reflexivity|eexists; reflexivity]. }
  destruct e; try discriminate.
  - eexists. split; [reflexivity|]. split; [constructor; reflexivity|eexists; reflexivity].
  - apply C; [exact Sp|exact (D eq_refl)].
  - apply C; [exact Sp|exact (D eq_refl)].
  - apply C; [exact Sp|exact (D eq_refl)].
Qed.

(* ---- the End event ---- *)
Lemma finish_block_total s c :
  (N.of_nat (a_counter s) < counter_max)%N ->
  exists s', finish_block cfg s c = Done s' /\ a_block s' = None /\ a_define s' = a_define s /\
             a_halted s' = a_halted s /\ a_counter s' <= S (a_counter s).
Proof.
  intro L. unfold finish_block, counter_max in *.
  destruct (negb (skipped cfg c) && _).
  - destruct (is_step c).
    + destruct (N.leb_spec 4294967295 (N.of_nat (a_counter s))) as [G|_]; [lia|].
      eexists. repeat split; cbn; lia.
    + eexists. repeat split; cbn; lia.
  - eexists. repeat split; cbn; lia.
Qed.

Lemma end_block_total s k :
  a_halted s = false -> linked2 (PIn k) s -> (N.of_nat (a_counter s) < counter_max)%N ->
  exists s', end_block cfg s k = Done s' /\ a_block s' = None /\ a_define s' = a_define s /\
             a_halted s' = a_halted s /\ a_counter s' <= S (a_counter s).
Proof.
  intros Hh [L|L] Lc; [congruence|]. unfold end_block.
  destruct (a_block s) as [[items|t]|]; [| |contradiction].
  - destruct L as [-> _]. cbn [block_kind_eqb]. now apply finish_block_total.
  - assert (E : block_kind_eqb k BKText || dm_eqb (a_define s) DMText = true).
    { destruct L as [ -> | -> ]; [reflexivity|apply orb_true_r]. }
    rewrite E. now apply finish_block_total.
Qed.

Lemma metadata_frame s k v :
  a_counter (metadata x s k v) = a_counter s /\ a_halted (metadata x s k v) = a_halted s.
Proof.
  unfold metadata.
  repeat match goal with |- context [if ?b then _ else _] => destruct b end; split; reflexivity.
Qed.

(* ---- one event ---- *)
Lemma step_total p s e p' :
  Inv s -> linked2 p s -> shape_step p e = Some p' -> ev_span_ok input e ->
  (N.of_nat (a_counter s) < counter_max)%N ->
  exists s', step ci_key yaml_ok find_iq unit_class input x cfg s e = Done s' /\ linked2 p' s' /\
             a_counter s' <= a_counter s + (if is_end e then 1 else 0).
Proof.
  intros I L Sh Sp Lc. unfold step. destruct (a_halted s) eqn:Hh.
  { exists s. split; [reflexivity|]. split; [left; exact Hh|lia]. }
  assert (C1 : 1 <= a_counter s) by (rewrite (inv_counter _ _ I); lia).
  destruct L as [L|L]; [congruence|].
  destruct e; cbn [shape_step] in Sh; cbn [is_end].
  - (* EYaml *) destruct p; [|discriminate]. injection Sh as <-.
    eexists. split; [reflexivity|]. split; [right; exact L|cbn; lia].
  - (* EMetadata *) destruct p; [|discriminate]. injection Sh as <-.
    eexists. split; [reflexivity|]. destruct (metadata_frame s key value) as [M1 M2].
    split; [right; cbn; rewrite metadata_block; exact L|lia].
  - (* ESection *) destruct p; [|discriminate]. injection Sh as <-.
    eexists. split; [reflexivity|]. split; [right; exact L|cbn; lia].
  - (* EStart *) destruct p; [|discriminate]. injection Sh as <-.
    eexists. split; [reflexivity|]. split; [|cbn; lia]. right. cbn.
    destruct (dm_eqb (a_define s) DMText) eqn:D; [right; reflexivity|].
    destruct k; [split; reflexivity|left; reflexivity].
  - (* EEnd *) destruct p as [|k']; [discriminate|].
    destruct k, k'; cbn [block_kind_eqb] in Sh; try discriminate; injection Sh as <-.
    + destruct (end_block_total s BKStep Hh (or_intror L) Lc) as (s' & -> & B & D & H & C).
      exists s'. split; [reflexivity|]. split; [right; exact B|lia].
    + destruct (end_block_total s BKText Hh (or_intror L) Lc) as (s' & -> & B & D & H & C).
      exists s'. split; [reflexivity|]. split; [right; exact B|lia].
  - (* EText *) destruct p as [|k']; [discriminate|].
    destruct (item_event_ok (EText t)) eqn:Ok; [|discriminate]. injection Sh as <-.
    destruct (a_block s) as [[items|tx]|] eqn:B; [| |contradiction].
    + destruct (in_step_total s (EText t) items I B Ok) as (s' & -> & [F1 F2 F3] & items' & B').
      exists s'. split; [reflexivity|]. split; [|lia]. right. rewrite B', F1. exact L.
    + destruct (in_text_total s (EText t) tx Ok Sp) as (s' & -> & [F1 F2 F3] & t' & B'); [discriminate|].
      exists s'. split; [reflexivity|]. split; [|lia]. right. rewrite B', F1. exact L.
  - (* EIngredient *) destruct p as [|[|]]; try discriminate.
    destruct (item_event_ok (EIngredient i)) eqn:Ok; [|discriminate]. injection Sh as <-.
    destruct (a_block s) as [[items|tx]|] eqn:B; [| |contradiction].
    + destruct (in_step_total s (EIngredient i) items I B Ok) as (s' & -> & [F1 F2 F3] & items' & B').
      exists s'. split; [reflexivity|]. split; [|lia]. right. rewrite B', F1. exact L.
    + destruct (in_text_total s (EIngredient i) tx Ok Sp) as (s' & -> & [F1 F2 F3] & t' & B').
      { intros _. destruct L as [L|L]; [discriminate|exact L]. }
      exists s'. split; [reflexivity|]. split; [|lia]. right. rewrite B', F1. exact L.
  - (* ECookware *) destruct p as [|[|]]; try discriminate.
    destruct (item_event_ok (ECookware c)) eqn:Ok; [|discriminate]. injection Sh as <-.
    destruct (a_block s) as [[items|tx]|] eqn:B; [| |contradiction].
    + destruct (in_step_total s (ECookware c) items I B Ok) as (s' & -> & [F1 F2 F3] & items' & B').
      exists s'. split; [reflexivity|]. split; [|lia]. right. rewrite B', F1. exact L.
    + destruct (in_text_total s (ECookware c) tx Ok Sp) as (s' & -> & [F1 F2 F3] & t' & B').
      { intros _. destruct L as [L|L]; [discriminate|exact L]. }
      exists s'. split; [reflexivity|]. split; [|lia]. right. rewrite B', F1. exact L.
  - (* ETimer *) destruct p as [|[|]]; try discriminate.
    destruct (item_event_ok (ETimer t)) eqn:Ok; [|discriminate]. injection Sh as <-.
    destruct (a_block s) as [[items|tx]|] eqn:B; [| |contradiction].
    + destruct (in_step_total s (ETimer t) items I B Ok) as (s' & -> & [F1 F2 F3] & items' & B').
      exists s'. split; [reflexivity|]. split; [|lia]. right. rewrite B', F1. exact L.
    + destruct (in_text_total s (ETimer t) tx Ok Sp) as (s' & -> & [F1 F2 F3] & t' & B').
      { intros _. destruct L as [L|L]; [discriminate|exact L]. }
      exists s'. split; [reflexivity|]. split; [|lia]. right. rewrite B', F1. exact L.
  - (* EError *) injection Sh as <-. eexists. split; [reflexivity|]. split; [left; reflexivity|cbn; lia].
  - (* EWarning *) injection Sh as <-. exists s. split; [reflexivity|]. split; [right; exact L|lia].
Qed.

Lemma ends_cons e r : ends (e :: r) = (if is_end e then 1 else 0) + ends r.
Proof. unfold ends. cbn [filter]. destruct (is_end e); reflexivity. Qed.

(* ---- a whole stream ---- *)
Lemma run_total evs : forall p s p',
  Inv s -> linked2 p s -> shape_run p evs = Some p' -> Forall (ev_span_ok input) evs ->
  (N.of_nat (a_counter s + ends evs) < counter_max)%N ->
  exists s', run ci_key yaml_ok find_iq unit_class input x cfg s evs = Done s'.
Proof.
  induction evs as [|e r IH]; intros p s p' I L Sh Sp Lc; cbn [shape_run run] in *.
  - eauto.
  - destruct (shape_step p e) as [p1|] eqn:Sh1; [|discriminate].
    inversion Sp as [|? ? Sp1 Sp2]; subst. rewrite ends_cons in Lc.
    destruct (step_total p s e p1 I L Sh1 Sp1) as (s1 & St & L1 & C1); [lia|].
    rewrite St. cbn [obind].
    destruct (step_inv ci_key find_iq unit_class input x cfg yaml_ok cfg_text cfg_step
                p s e p1 s1 I (linked2_linked _ _ L) Sh1 St) as [I1 _].
    apply (IH p1 s1 p' I1 L1 Sh Sp2). lia.
Qed.

Theorem analyse_total evs :
  parser_shaped_prefix evs -> Forall (ev_span_ok input) evs ->
  (N.of_nat (ends evs) < counter_max - 1)%N ->
  exists r, analyse ci_key yaml_ok find_iq unit_class input x cfg evs = Done r.
Proof.
  intros [p Sh] Sp Lc. unfold analyse.
  destruct (run_total evs POut init p (Inv_init ci_key) (or_intror eq_refl) Sh Sp) as (s & ->).
  - unfold counter_max in *. cbn [a_counter init]. lia.
  - cbn [obind]. eauto.
Qed.

End Total.
