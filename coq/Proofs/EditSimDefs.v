(* Property C17, event level.  A relational ("same code, related inputs") reading of the block
   parser of Model/Parser.v:

   [krel]/[ksim]  two token lists with the same kinds token by token; positions are unrelated,
                  the texts of comment and newline tokens are unrelated, every other token has
                  the same text.  (The tokens of [crlf s] and of [s]; the tokens after an
                  inserted line and the same tokens unshifted.)
   [MR R m1 m2]   started in [SR]-related parser states, when both computations finish they
                  return [R]-related values in [SR]-related states.
   observation    [proj]: an event without positions (what C17 compares).

   This file: the definitions, and the relation for every primitive of the parser monad. *)
From Coq Require Import Permutation.
From CL Require Import Base.StrLemmas Model.Lexer Model.PText Model.CommentMask Model.Parser Model.Edits
  Proofs.EditParserProofs.

(* ---------------------------------------------------------------- what is observed *)
Definition tx (t : text) : str := text_trimmed t.
Definition pqv (q : qvalue) : value * bool := (qv q, match qlock q with Some _ => true | None => false end).
Definition pq (q : quantity) : value * bool * option str := (pqv (q_val q), option_map tx (q_unit q)).

Inductive pev :=
| PYaml (s : str) | PMeta (k v : str) | PSection (n : option str) | PStart (b : bool) | PEnd (b : bool)
| PText (s : str)
| PIngr (m : N) (i : option (bool * bool * N)) (name : str) (alias : option str)
        (q : option (value * bool * option str)) (note : option str)
| PCook (m : N) (name : str) (alias : option str) (q : option (value * bool)) (note : option str)
| PTimer (name : option str) (q : option (value * bool * option str))
| PDiag (err : bool) (code : N).

Definition pinter (d : interdata) : bool * bool * N := (im_relative d, im_section d, im_val d).

Definition proj (e : pevent) : pev :=
  match e with
  | EvYaml t => PYaml (crlf (text_str t))      (* the YAML text up to its line endings *)
  | EvMetadata k v => PMeta (tx k) (text_outer_trimmed v)   (* the value as the analysis pass reads it: str::trim only *)
  | EvSection n => PSection (option_map tx n)
  | EvStart b => PStart b
  | EvEnd b => PEnd b
  | EvText t => PText (text_str t)
  | EvIngredient i =>
      PIngr (i_mods i) (option_map pinter (i_inter i))
            (tx (i_name i)) (option_map tx (i_alias i)) (option_map pq (i_qty i)) (option_map tx (i_note i))
  | EvCookware c =>
      PCook (c_mods c) (tx (c_name c)) (option_map tx (c_alias c))
            (option_map (fun q => pqv (fst q)) (c_qty c)) (option_map tx (c_note c))
  | EvTimer t => PTimer (option_map tx (t_name t)) (option_map pq (t_qty t))
  | EvDiag d => PDiag (d_err d) (d_code d)
  end.

Lemma crlf_from_idem s : forall q, crlf_from q (crlf_from q s) = crlf_from q s.
Proof.
  induction s as [|c r IH]; intro q; [reflexivity|]. cbn [crlf_from].
  destruct ((c =? 10) && negb q) eqn:T.
  - cbn [crlf_from]. change (13 =? 10) with false. change (13 =? 13) with true. change (10 =? 10) with true.
    change (10 =? 13) with false. cbn [andb negb]. rewrite IH. reflexivity.
  - cbn [crlf_from]. rewrite T, IH. reflexivity.
Qed.
Lemma crlf_idem s : crlf (crlf s) = crlf s.
Proof. apply crlf_from_idem. Qed.

(* ---------------------------------------------------------------- relations on data *)
Definition is_cn (k : tkind) : bool :=
  match k with KNewline | KLineComment | KBlockComment => true | _ => false end.

Definition krel (a b : tok) : Prop :=
  kind a = kind b /\ tstr a <> [] /\ tstr b <> [] /\ newline_ok a /\ newline_ok b
  /\ (is_cn (kind a) = false -> tstr a = tstr b).
Definition ksim : list tok -> list tok -> Prop := Forall2 krel.

Definition orel {A B} (R : A -> B -> Prop) (o1 : option A) (o2 : option B) : Prop :=
  match o1, o2 with Some a, Some b => R a b | None, None => True | _, _ => False end.
Definition prel {A B C D} (R1 : A -> B -> Prop) (R2 : C -> D -> Prop) (p1 : A * C) (p2 : B * D) : Prop :=
  R1 (fst p1) (fst p2) /\ R2 (snd p1) (snd p2).
Definition srel {A B C D} (R1 : A -> B -> Prop) (R2 : C -> D -> Prop) (p1 : A + C) (p2 : B + D) : Prop :=
  match p1, p2 with inl a, inl b => R1 a b | inr c, inr d => R2 c d | _, _ => False end.
Definition anyrel {A B} (_ : A) (_ : B) : Prop := True.

Definition trel (t1 t2 : text) : Prop :=
  text_str t1 = text_str t2 /\ is_text_empty t1 = is_text_empty t2 /\ (frags t1 = [] <-> frags t2 = []).
Definition drel (d1 d2 : diag) : Prop := d_err d1 = d_err d2 /\ d_code d1 = d_code d2.
Definition qvrel (a b : qvalue) : Prop := qv a = qv b /\ (qlock a = None <-> qlock b = None).
Definition qrel (a b : quantity) : Prop := qvrel (q_val a) (q_val b) /\ orel trel (q_unit a) (q_unit b).
Definition irel (a b : interdata) : Prop := pinter a = pinter b.
Definition erel (e1 e2 : pevent) : Prop := proj e1 = proj e2.

(* ---------------------------------------------------------------- relations on computations *)
Definition SR (s1 s2 : bp) : Prop :=
  ksim (b_all s1) (b_all s2) /\ ksim (b_done s1) (b_done s2) /\ ksim (b_rest s1) (b_rest s2)
  /\ Forall2 erel (b_evs s1) (b_evs s2).

Definition MR {A B} (R : A -> B -> Prop) (m1 : M A) (m2 : M B) : Prop :=
  forall s1 s2, SR s1 s2 ->
    match m1 s1, m2 s2 with
    | Done (a1, s1'), Done (a2, s2') => R a1 a2 /\ SR s1' s2'
    | _, _ => True
    end.

Definition OR {A B} (R : A -> B -> Prop) (o1 : outcome A) (o2 : outcome B) : Prop :=
  match o1, o2 with Done a, Done b => R a b | _, _ => True end.

(* ---------------------------------------------------------------- lists *)
Lemma Forall2_rev' {A B} (R : A -> B -> Prop) l1 l2 : Forall2 R l1 l2 -> Forall2 R (rev l1) (rev l2).
Proof.
  induction 1; cbn [rev]; [constructor|]. apply Forall2_app; [assumption|]. constructor; [assumption|constructor].
Qed.
Lemma Forall2_firstn {A B} (R : A -> B -> Prop) n : forall l1 l2, Forall2 R l1 l2 -> Forall2 R (firstn n l1) (firstn n l2).
Proof. induction n; intros l1 l2 H; [constructor|]. destruct H; cbn [firstn]; constructor; auto. Qed.
Lemma Forall2_skipn {A B} (R : A -> B -> Prop) n : forall l1 l2, Forall2 R l1 l2 -> Forall2 R (skipn n l1) (skipn n l2).
Proof. induction n; intros l1 l2 H; [exact H|]. destruct H; cbn [skipn]; [constructor|auto]. Qed.
Lemma Forall2_tl {A B} (R : A -> B -> Prop) l1 l2 : Forall2 R l1 l2 -> Forall2 R (tl l1) (tl l2).
Proof. destruct 1; [constructor | assumption]. Qed.
Lemma Forall2_filter_k (f : tok -> bool) l1 l2 :
  (forall a b, krel a b -> f a = f b) -> ksim l1 l2 -> ksim (filter f l1) (filter f l2).
Proof.
  intros Hf H. induction H as [|a b r1 r2 Hab _ IH]; [constructor|]. cbn [filter]. rewrite (Hf _ _ Hab).
  destruct (f b); [constructor; assumption | exact IH].
Qed.

Lemma krel_kind a b : krel a b -> kind a = kind b. Proof. intros [H _]. exact H. Qed.

Lemma ksim_kinds l1 l2 : ksim l1 l2 -> map kind l1 = map kind l2.
Proof. induction 1 as [|a b r1 r2 H _ IH]; [reflexivity|]. cbn [map]. rewrite (krel_kind _ _ H), IH. reflexivity. Qed.
Lemma ksim_length l1 l2 : ksim l1 l2 -> length l1 = length l2.
Proof. induction 1; cbn [length]; congruence. Qed.

Lemma ksim_position f l1 l2 : ksim l1 l2 -> position f l1 = position f l2.
Proof.
  induction 1 as [|a b r1 r2 H _ IH]; [reflexivity|]. cbn [position]. rewrite (krel_kind _ _ H), IH. reflexivity.
Qed.
Lemma ksim_existsb_kind (f : tkind -> bool) l1 l2 :
  ksim l1 l2 -> existsb (fun t => f (kind t)) l1 = existsb (fun t => f (kind t)) l2.
Proof. induction 1 as [|a b r1 r2 H _ IH]; [reflexivity|]. cbn [existsb]. rewrite (krel_kind _ _ H), IH. reflexivity. Qed.
Lemma ksim_forallb_kind (f : tkind -> bool) l1 l2 :
  ksim l1 l2 -> forallb (fun t => f (kind t)) l1 = forallb (fun t => f (kind t)) l2.
Proof. induction 1 as [|a b r1 r2 H _ IH]; [reflexivity|]. cbn [forallb]. rewrite (krel_kind _ _ H), IH. reflexivity. Qed.

Lemma ksim_tsim l1 l2 : ksim l1 l2 -> tsim l1 l2.
Proof.
  induction 1 as [|a b r1 r2 (Hk & _ & _ & _ & _ & Hs) _ IH]; [constructor|].
  destruct (is_cn (kind a)) eqn:E.
  - destruct (kind a) eqn:K; try discriminate.
    + apply tsim_newline; [exact K | congruence | exact IH].
    + apply tsim_comment_l; [rewrite K; reflexivity|]. apply tsim_comment_r; [rewrite <- Hk; reflexivity | exact IH].
    + apply tsim_comment_l; [rewrite K; reflexivity|]. apply tsim_comment_r; [rewrite <- Hk; reflexivity | exact IH].
  - apply tsim_same; [exact Hk | apply Hs; reflexivity | exact IH].
Qed.
Lemma ksim_nonempty_l l1 l2 : ksim l1 l2 -> Forall (fun t => tstr t <> []) l1.
Proof. induction 1 as [|a b r1 r2 (_ & H & _) _ IH]; constructor; assumption. Qed.
Lemma ksim_nonempty_r l1 l2 : ksim l1 l2 -> Forall (fun t => tstr t <> []) l2.
Proof. induction 1 as [|a b r1 r2 (_ & _ & H & _) _ IH]; constructor; assumption. Qed.
Lemma ksim_nlok_l l1 l2 : ksim l1 l2 -> Forall newline_ok l1.
Proof. induction 1 as [|a b r1 r2 (_ & _ & _ & H & _) _ IH]; constructor; assumption. Qed.
Lemma ksim_nlok_r l1 l2 : ksim l1 l2 -> Forall newline_ok l2.
Proof. induction 1 as [|a b r1 r2 (_ & _ & _ & _ & H & _) _ IH]; constructor; assumption. Qed.

(* ---------------------------------------------------------------- texts *)
Definition frags_full (t : text) : Prop := Forall (fun f => ftext f <> []) (frags t).

Lemma append_fragment_full t f t' : frags_full t -> append_fragment t f = Done t' -> frags_full t'.
Proof.
  unfold append_fragment, frags_full. intro H. destruct (snd (text_span t) <=? foff f); [|discriminate].
  destruct (ftext f) eqn:E; intro X; inversion X; subst; [exact H|]. cbn [frags].
  apply Forall_app. split; [exact H|]. constructor; [rewrite E; discriminate | constructor].
Qed.

Lemma text_loop_full cfg ts : forall t cs cur t', frags_full t -> text_loop cfg ts t cs cur = Done t' -> frags_full t'.
Proof.
  induction ts as [|tk r IH]; intros t cs cur t' F H; cbn [text_loop] in H.
  - eapply append_fragment_full; [exact F | exact H].
  - destruct (kind tk);
      try (eapply IH; [exact F | exact H]);
      destruct (append_str t cur cs) as [t1|] eqn:E1; cbn [obind] in H; try discriminate;
      pose proof (append_fragment_full _ _ _ F E1) as F1.
    + destruct (p_debug cfg && p_strict_escape cfg && negb (blen (tstr tk) =? 2)); [discriminate|].
      eapply IH; [exact F1 | exact H].
    + destruct (append_fragment t1 _) as [t2|] eqn:E2; cbn [obind] in H; [|discriminate].
      eapply IH; [eapply append_fragment_full; [exact F1 | exact E2] | exact H].
    + eapply IH; [exact F1 | exact H].
    + eapply IH; [exact F1 | exact H].
Qed.

Lemma text_of_full cfg o ts t : text_of cfg o ts = Done t -> frags_full t.
Proof.
  destruct ts as [|t0 r]; cbn [text_of]; intro H.
  - inversion H; subst. constructor.
  - destruct (o =? tstart t0); [|discriminate]. eapply text_loop_full; [|exact H]. constructor.
Qed.

Lemma full_str_nil t : frags_full t -> (frags t = [] <-> text_str t = []).
Proof.
  unfold frags_full, text_str. destruct (frags t) as [|f r]; [intros _; split; reflexivity|].
  intro H. inversion H; subst. split; [discriminate|]. cbn [map concat].
  destruct (fsoft f); [discriminate|]. destruct (ftext f); [congruence | discriminate].
Qed.

Lemma text_of_rel cfg o1 o2 ts1 ts2 : ksim ts1 ts2 -> OR trel (text_of cfg o1 ts1) (text_of cfg o2 ts2).
Proof.
  intro H. unfold OR. destruct (text_of cfg o1 ts1) as [t1|] eqn:E1; [|exact I].
  destruct (text_of cfg o2 ts2) as [t2|] eqn:E2; [|exact I].
  pose proof (ksim_tsim _ _ H) as Ht.
  pose proof (ksim_nonempty_l _ _ H) as N1. pose proof (ksim_nonempty_r _ _ H) as N2.
  assert (S : text_str t1 = text_str t2) by exact (text_blind cfg o1 o2 ts1 ts2 t1 t2 Ht N1 N2 E1 E2).
  split; [exact S|]. split.
  - exact (text_blind_empty cfg o1 o2 ts1 ts2 t1 t2 Ht N1 N2 (ksim_nlok_l _ _ H) (ksim_nlok_r _ _ H) E1 E2).
  - rewrite (full_str_nil _ (text_of_full _ _ _ _ E1)), (full_str_nil _ (text_of_full _ _ _ _ E2)), S. tauto.
Qed.

Lemma trel_tx t1 t2 : trel t1 t2 -> tx t1 = tx t2.
Proof. intros [H _]. unfold tx, text_trimmed, text_outer_trimmed. rewrite H. reflexivity. Qed.
Lemma trel_outer t1 t2 : trel t1 t2 -> text_outer_trimmed t1 = text_outer_trimmed t2.
Proof. intros [H _]. unfold text_outer_trimmed. rewrite H. reflexivity. Qed.
Lemma trel_trimmed t1 t2 : trel t1 t2 -> text_trimmed t1 = text_trimmed t2.
Proof. apply trel_tx. Qed.
Lemma trel_empty t1 t2 : trel t1 t2 -> is_text_empty t1 = is_text_empty t2.
Proof. intros (_ & H & _). exact H. Qed.
Lemma orel_map_tx o1 o2 : orel trel o1 o2 -> option_map tx o1 = option_map tx o2.
Proof. destruct o1, o2; cbn; try tauto. intro H. rewrite (trel_tx _ _ H). reflexivity. Qed.

(* ---------------------------------------------------------------- the monad *)
Lemma MR_ret {A B} (R : A -> B -> Prop) a b : R a b -> MR R (ret a) (ret b).
Proof. intros H s1 s2 S. cbn. split; assumption. Qed.

Lemma MR_bind {A1 A2 B1 B2} (RA : A1 -> A2 -> Prop) (RB : B1 -> B2 -> Prop) m1 m2 f1 f2 :
  MR RA m1 m2 -> (forall a1 a2, RA a1 a2 -> MR RB (f1 a1) (f2 a2)) -> MR RB (bind m1 f1) (bind m2 f2).
Proof.
  intros Hm Hf s1 s2 S. unfold bind. specialize (Hm s1 s2 S).
  destruct (m1 s1) as [[a1 s1']|]; [|exact I].
  destruct (m2 s2) as [[a2 s2']|]; [|destruct (f1 a1 s1') as [[? ?]|]; exact I].
  destruct Hm as [Ha S']. exact (Hf a1 a2 Ha s1' s2' S').
Qed.

Lemma MR_conseq {A B} (R R' : A -> B -> Prop) m1 m2 : MR R m1 m2 -> (forall a b, R a b -> R' a b) -> MR R' m1 m2.
Proof.
  intros H HI s1 s2 S. specialize (H s1 s2 S). destruct (m1 s1) as [[a1 s1']|]; [|exact I].
  destruct (m2 s2) as [[a2 s2']|]; [|exact I]. destruct H. split; auto.
Qed.

Lemma MR_panic_l {A B} (R : A -> B -> Prop) p m : MR R (panic p) m.
Proof. intros s1 s2 S. exact I. Qed.
Lemma MR_panic_r {A B} (R : A -> B -> Prop) p (m : M A) : MR R m (@panic B p).
Proof. intros s1 s2 S. unfold panic. destruct (m s1) as [[? ?]|]; exact I. Qed.

Lemma MR_lift {A B} (R : A -> B -> Prop) o1 o2 : OR R o1 o2 -> MR R (lift o1) (lift o2).
Proof.
  intros H s1 s2 S. unfold lift, OR in *. destruct o1; [|exact I]. destruct o2; [|exact I]. split; assumption.
Qed.

Lemma MR_obindM {A1 A2 B1 B2} (RA : A1 -> A2 -> Prop) (RB : B1 -> B2 -> Prop) m1 m2 f1 f2 :
  MR (orel RA) m1 m2 -> (forall a1 a2, RA a1 a2 -> MR (orel RB) (f1 a1) (f2 a2)) ->
  MR (orel RB) (obindM m1 f1) (obindM m2 f2).
Proof.
  intros Hm Hf. unfold obindM. eapply MR_bind; [exact Hm|].
  intros [a1|] [a2|] H; cbn in H; try contradiction; [apply Hf; exact H | apply MR_ret; exact I].
Qed.

Lemma MR_with_recover {A B} (R : A -> B -> Prop) m1 m2 :
  MR (orel R) m1 m2 -> MR (orel R) (with_recover m1) (with_recover m2).
Proof.
  intros H s1 s2 S. unfold with_recover. specialize (H s1 s2 S).
  destruct (m1 s1) as [[o1 s1']|]; [|exact I]. destruct (m2 s2) as [[o2 s2']|]; [|destruct o1; exact I].
  destruct H as [Ho S']. destruct o1, o2; cbn in Ho; try contradiction.
  - split; assumption.
  - split; [exact I|]. destruct S as (Sa & Sd & Sr & _). destruct S' as (_ & _ & _ & Se).
    repeat split; assumption.
Qed.

Lemma SR_evs s1 s2 e1 e2 : SR s1 s2 -> erel e1 e2 ->
  SR {| b_all := b_all s1; b_done := b_done s1; b_rest := b_rest s1; b_evs := e1 :: b_evs s1 |}
     {| b_all := b_all s2; b_done := b_done s2; b_rest := b_rest s2; b_evs := e2 :: b_evs s2 |}.
Proof. intros (Sa & Sd & Sr & Se) H. repeat split; try assumption. constructor; assumption. Qed.

Lemma MR_event e1 e2 : erel e1 e2 -> MR anyrel (event e1) (event e2).
Proof. intros H s1 s2 S. cbn. split; [exact I | apply SR_evs; assumption]. Qed.
Lemma MR_error c l1 l2 : MR anyrel (error c l1) (error c l2).
Proof. apply MR_event. reflexivity. Qed.
Lemma MR_warn c l1 l2 : MR anyrel (warn c l1) (warn c l2).
Proof. apply MR_event. reflexivity. Qed.
Lemma MR_diag d1 d2 : drel d1 d2 -> MR anyrel (event (EvDiag d1)) (event (EvDiag d2)).
Proof. intros [H1 H2]. apply MR_event. unfold erel. cbn. rewrite H1, H2. reflexivity. Qed.

Lemma MR_current_offset : MR anyrel current_offset current_offset.
Proof. intros s1 s2 S. cbn. split; [exact I | exact S]. Qed.
Lemma MR_get : MR SR get get.
Proof. intros s1 s2 S. cbn. split; exact S. Qed.
Lemma MR_peek : MR eq peek peek.
Proof.
  intros [x1 d1 r1 e1] [x2 d2 r2 e2] S. cbn. split; [|exact S]. destruct S as (_ & _ & Sr & _). unfold peek_of.
  cbn in *. destruct Sr as [|a b r1 r2 H _]; [reflexivity | apply krel_kind; exact H].
Qed.
Lemma MR_at_kind k : MR eq (at_kind k) (at_kind k).
Proof.
  intros [x1 d1 r1 e1] [x2 d2 r2 e2] S. cbn. split; [|exact S]. destruct S as (_ & _ & Sr & _). unfold peek_of.
  cbn in *. destruct Sr as [|a b r1 r2 H _]; [reflexivity | rewrite (krel_kind _ _ H); reflexivity].
Qed.
Lemma MR_rest : MR ksim rest rest.
Proof. intros s1 s2 S. cbn. split; [apply S | exact S]. Qed.
Lemma MR_all_tokens : MR ksim all_tokens all_tokens.
Proof. intros s1 s2 S. cbn. split; [apply S | exact S]. Qed.
Lemma MR_parsed : MR ksim parsed parsed.
Proof. intros s1 s2 S. cbn. split; [apply Forall2_rev'; apply S | exact S]. Qed.

Lemma MR_next_token : MR (orel krel) next_token next_token.
Proof.
  intros [x1 d1 r1 e1] [x2 d2 r2 e2] S. unfold next_token. destruct S as (Sa & Sd & Sr & Se). cbn in *.
  destruct Sr as [|a b r1 r2 H Hr]; cbn.
  - split; [exact I|]. repeat split; try assumption. constructor.
  - split; [exact H|]. repeat split; try assumption. constructor; assumption.
Qed.
Lemma MR_bump_any : MR krel bump_any bump_any.
Proof.
  unfold bump_any. eapply MR_bind; [apply MR_next_token|].
  intros [a|] [b|] H; cbn in H; try contradiction; [apply MR_ret; exact H | apply MR_panic_l].
Qed.
Lemma MR_bump k : MR krel (bump k) (bump k).
Proof.
  unfold bump. eapply MR_bind; [apply MR_bump_any|]. intros a b H. rewrite (krel_kind _ _ H).
  destruct (tk_eqb (kind b) k); [apply MR_ret; exact H | apply MR_panic_l].
Qed.
Lemma MR_consume k : MR (orel krel) (consume k) (consume k).
Proof.
  unfold consume. eapply MR_bind; [apply MR_at_kind|]. intros a1 a2 ->. destruct a2.
  - eapply MR_bind; [apply MR_bump_any|]. intros a b H. apply MR_ret. exact H.
  - apply MR_ret. exact I.
Qed.

Lemma SR_advance n : forall s1 s2, SR s1 s2 -> SR (advance n s1) (advance n s2).
Proof.
  induction n as [|n IH]; intros [x1 d1 r1 e1] [x2 d2 r2 e2] S; [exact S|]. cbn [advance b_rest b_all b_done b_evs].
  destruct S as (Sa & Sd & Sr & Se). cbn in Sa, Sd, Sr, Se. destruct Sr as [|a b r1 r2 H Hr].
  - repeat split; try assumption. constructor.
  - apply IH. repeat split; cbn; try assumption. constructor; assumption.
Qed.

Lemma MR_until f : MR (orel ksim) (until f) (until f).
Proof.
  intros s1 s2 S. unfold until. pose proof S as (_ & _ & Sr & _).
  rewrite (ksim_position f _ _ Sr). destruct (position f (b_rest s2)) as [n|].
  - split; [apply Forall2_firstn; exact Sr | apply SR_advance; exact S].
  - split; [exact I | exact S].
Qed.
Lemma MR_consume_while f : MR ksim (consume_while f) (consume_while f).
Proof.
  intros s1 s2 S. unfold consume_while. pose proof S as (_ & _ & Sr & _).
  rewrite (ksim_position _ _ _ Sr), (ksim_length _ _ Sr).
  split; [apply Forall2_firstn; exact Sr | apply SR_advance; exact S].
Qed.
Lemma MR_ws_comments : MR ksim ws_comments ws_comments.
Proof. apply MR_consume_while. Qed.
Lemma MR_consume_rest : MR ksim consume_rest consume_rest.
Proof. apply MR_consume_while. Qed.

Lemma MR_textM cfg o1 o2 ts1 ts2 : ksim ts1 ts2 -> MR trel (textM cfg o1 ts1) (textM cfg o2 ts2).
Proof. intro H. apply MR_lift. apply text_of_rel. exact H. Qed.

Lemma MR_sub_block {A B} (R : A -> B -> Prop) ts1 ts2 m1 m2 :
  ksim ts1 ts2 -> MR R m1 m2 -> MR R (sub_block ts1 m1) (sub_block ts2 m2).
Proof.
  intros Ht Hm s1 s2 S. unfold sub_block. destruct Ht as [|a b r1 r2 Hab Hr]; [exact I|].
  destruct S as (Sa & Sd & Sr & Se).
  assert (S0 : SR {| b_all := a :: r1; b_done := []; b_rest := a :: r1; b_evs := b_evs s1 |}
                  {| b_all := b :: r2; b_done := []; b_rest := b :: r2; b_evs := b_evs s2 |}).
  { repeat split; cbn; try assumption; constructor; assumption. }
  specialize (Hm _ _ S0).
  destruct (m1 _) as [[x1 s1']|]; [|exact I]. destruct (m2 _) as [[x2 s2']|]; [|exact I].
  destruct Hm as [Hx (_ & _ & _ & Se')]. split; [exact Hx|]. repeat split; assumption.
Qed.
