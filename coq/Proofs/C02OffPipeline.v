(* C02, converse half end to end: the parser theorem for COMPONENT_MODIFIERS off (Proofs/C02Off.v)
   bridged (Model/EventBridge.v) to the analysis theorem (Proofs/C02OffAnalysis.v).  For ANY
   source, under an extension word without COMPONENT_MODIFIERS and without MODES, no reference
   relation arises: every ingredient and cookware item of the recipe is a definition nothing
   refers to; `&name` is an item named "&name". *)
From CL Require Import Base.StrLemmas Model.Parser Model.EventBridge Proofs.C02Invariance Proofs.C02Pipeline Proofs.C02Off.
From CL Require Model.Analysis Proofs.C02OffAnalysis.

Lemma mods_bridge evs :
  Forall Pmods evs -> forallb CL.Proofs.C02OffAnalysis.plain_comp_event (abstract_events evs) = true.
Proof.
  induction 1 as [|ev r Hev _ IH]; [reflexivity|].
  unfold abstract_events in *. cbn [map forallb]. rewrite IH, andb_true_r.
  destruct ev; cbn [abstract_event]; try reflexivity.
  - cbn [Pmods] in Hev. destruct Hev as [H1 H2].
    cbn [CL.Proofs.C02OffAnalysis.plain_comp_event CL.Model.Events.pi_mods CL.Model.Events.pi_inter].
    rewrite H1, H2. reflexivity.
  - cbn [Pmods] in Hev.
    cbn [CL.Proofs.C02OffAnalysis.plain_comp_event CL.Model.Events.pc_mods]. rewrite Hev. reflexivity.
  - destruct (d_err d); reflexivity.
Qed.

Theorem no_references_pipeline
    (U : N -> ucls) (c : pcfg) (s : str) (evs : list pevent)
    (ci_key : str -> str) (yaml_ok : str -> bool) (find_iq : str -> option (str * str))
    (unit_class : str -> N) (input : str) (acfg : CL.Model.Analysis.acfg) r valid :
  has c X_COMPONENT_MODIFIERS = false -> has c X_MODES = false ->
  events U c s = Done evs ->
  CL.Model.Analysis.analyse ci_key yaml_ok find_iq unit_class input (aext_of (p_ext c)) acfg (abstract_events evs)
    = Done (Some r, valid) ->
  forallb CL.Proofs.C02OffAnalysis.unref (CL.Model.Analysis.r_ingredients r) = true
  /\ forallb CL.Proofs.C02OffAnalysis.unref (CL.Model.Analysis.r_cookware r) = true.
Proof.
  intros Hm Hmodes He Ha.
  refine (CL.Proofs.C02OffAnalysis.analyse_no_references ci_key yaml_ok input acfg find_iq unit_class _ _ r valid _ _ Ha).
  - exact Hmodes.
  - apply mods_bridge. exact (modifiers_off_document U c s evs Hm He).
Qed.
