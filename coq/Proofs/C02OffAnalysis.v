(* C02, converse half for the three flags the analysis pass consults (Model/Analysis.v), for ANY
   event stream (hence any source) and any start state:
     INLINE_QUANTITIES off  - the inline-quantity finder (oracle find_iq) is never consulted; the
                              recipe has no inline quantity and no step holds an Inline item;
     ADVANCED_UNITS off     - the converter's unit classification (oracle unit_class) is never
                              consulted: no unit check can fire;
     MODES off              - metadata events are no-ops for the recipe structure (the stream with
                              them removed gives the same state) and the define / duplicate modes
                              never change. *)
From CL Require Import Model.Analysis Proofs.C02AnalysisGates.

Section OffAnalysis.
  Variable ci_key : str -> str.
  Variable yaml_ok : str -> bool.
  Variable input : str.
  Variable cfg : acfg.

  (* ---------------------------------------------------------------- INLINE_QUANTITIES off *)
  Lemma step_inline_oracle fq fq' unit_class x s e :
    x_inline x = false ->
    step ci_key yaml_ok fq unit_class input x cfg s e = step ci_key yaml_ok fq' unit_class input x cfg s e.
  Proof.
    intro H. unfold step. destruct (a_halted s); [reflexivity|].
    destruct e; try reflexivity; destruct (a_block s) as [[items|tx]|]; try reflexivity.
    unfold in_step. rewrite H. reflexivity.
  Qed.

  Lemma run_inline_oracle fq fq' unit_class x evs : x_inline x = false -> forall s,
    run ci_key yaml_ok fq unit_class input x cfg s evs = run ci_key yaml_ok fq' unit_class input x cfg s evs.
  Proof.
    intro H. induction evs as [|e r IH]; intro s; cbn [run]; [reflexivity|].
    rewrite (step_inline_oracle fq fq' unit_class x s e H).
    destruct (step ci_key yaml_ok fq' unit_class input x cfg s e); cbn [obind]; [apply IH | reflexivity].
  Qed.

  Theorem analyse_inline_off fq fq' unit_class x evs :
    x_inline x = false ->
    analyse ci_key yaml_ok fq unit_class input x cfg evs = analyse ci_key yaml_ok fq' unit_class input x cfg evs.
  Proof. intro H. unfold analyse. rewrite (run_inline_oracle fq fq' unit_class x evs H init). reflexivity. Qed.

  (* ---------------------------------------------------------------- ADVANCED_UNITS off *)
  Lemma timer_unit_oracle uc uc' x s t : x_advanced x = false -> timer uc x s t = timer uc' x s t.
  Proof.
    intro H. unfold timer. rewrite H. destruct (option_map (quantity_info false) (pt_quantity t)); reflexivity.
  Qed.

  Lemma step_unit_oracle fq uc uc' x s e :
    x_advanced x = false ->
    step ci_key yaml_ok fq uc input x cfg s e = step ci_key yaml_ok fq uc' input x cfg s e.
  Proof.
    intro H. unfold step. destruct (a_halted s); [reflexivity|].
    destruct e; try reflexivity; destruct (a_block s) as [[items|tx]|]; try reflexivity.
    unfold in_step. rewrite (timer_unit_oracle uc uc' x s t H). reflexivity.
  Qed.

  Lemma run_unit_oracle fq uc uc' x evs : x_advanced x = false -> forall s,
    run ci_key yaml_ok fq uc input x cfg s evs = run ci_key yaml_ok fq uc' input x cfg s evs.
  Proof.
    intro H. induction evs as [|e r IH]; intro s; cbn [run]; [reflexivity|].
    rewrite (step_unit_oracle fq uc uc' x s e H).
    destruct (step ci_key yaml_ok fq uc' input x cfg s e); cbn [obind]; [apply IH | reflexivity].
  Qed.

  Theorem analyse_advanced_off fq uc uc' x evs :
    x_advanced x = false ->
    analyse ci_key yaml_ok fq uc input x cfg evs = analyse ci_key yaml_ok fq uc' input x cfg evs.
  Proof. intro H. unfold analyse. rewrite (run_unit_oracle fq uc uc' x evs H init). reflexivity. Qed.

  (* ---------------------------------------------------------------- MODES off *)
  Definition not_metadata (e : event) : bool := match e with EMetadata _ _ => false | _ => true end.

  Lemma run_modes_off fq uc x evs : x_modes x = false -> forall s,
    run ci_key yaml_ok fq uc input x cfg s evs = run ci_key yaml_ok fq uc input x cfg s (filter not_metadata evs).
  Proof.
    intro H. induction evs as [|e r IH]; intro s; cbn [run filter]; [reflexivity|].
    destruct e; cbn [not_metadata run];
      try (destruct (step ci_key yaml_ok fq uc input x cfg s _); cbn [obind]; [apply IH | reflexivity]).
    unfold step. rewrite (modes_analysis_off x s key value H).
    destruct (a_halted s); cbn [obind]; apply IH.
  Qed.

  Theorem analyse_modes_off fq uc x evs :
    x_modes x = false ->
    analyse ci_key yaml_ok fq uc input x cfg evs = analyse ci_key yaml_ok fq uc input x cfg (filter not_metadata evs).
  Proof. intro H. unfold analyse. rewrite (run_modes_off fq uc x evs H init). reflexivity. Qed.

  Ltac crunch E :=
    repeat (cbv beta iota zeta in E;
            match type of E with
            | context [match ?x with _ => _ end] => destruct x eqn:?; try discriminate E
            end).

  Ltac finm E :=
    inversion E; subst; split;
    cbn [a_define a_duplicate set_block set_sections set_inline add_error set_ingredients set_cookware
         set_timers set_halted fst snd]; congruence.

  Lemma ingredient_modes2 x s ig s1 i :
    ingredient ci_key x s ig = Done (s1, i) -> a_define s1 = a_define s /\ a_duplicate s1 = a_duplicate s.
  Proof. intro E. unfold ingredient, obind in E. crunch E; inversion E; subst; split; reflexivity. Qed.
  Lemma cookware_modes2 s cw s1 i :
    cookware ci_key s cw = Done (s1, i) -> a_define s1 = a_define s /\ a_duplicate s1 = a_duplicate s.
  Proof. intro E. unfold cookware, obind in E. crunch E; inversion E; subst; split; reflexivity. Qed.

  Lemma step_modes_off fq uc x s e s' :
    x_modes x = false -> step ci_key yaml_ok fq uc input x cfg s e = Done s' ->
    a_define s' = a_define s /\ a_duplicate s' = a_duplicate s.
  Proof.
    intros H E. unfold step in E. destruct (a_halted s); [finm E|].
    destruct e.
    - finm E.
    - rewrite (modes_analysis_off x s key value H) in E. finm E.
    - finm E.
    - finm E.
    - unfold end_block, finish_block in E. crunch E; finm E.
    - unfold in_step, in_text, obind in E. crunch E; finm E.
    - unfold in_step, in_text, obind in E. crunch E;
        try match goal with H : ingredient _ _ _ _ = Done (_, _) |- _ => apply ingredient_modes2 in H; destruct H end;
        finm E.
    - unfold in_step, in_text, obind in E. crunch E;
        try match goal with H : cookware _ _ _ = Done (_, _) |- _ => apply cookware_modes2 in H; destruct H end;
        finm E.
    - unfold in_step, in_text, timer, obind in E. crunch E; finm E.
    - finm E.
    - finm E.
  Qed.

  Theorem run_modes_constant fq uc x evs : x_modes x = false -> forall s s',
    run ci_key yaml_ok fq uc input x cfg s evs = Done s' ->
    a_define s' = a_define s /\ a_duplicate s' = a_duplicate s.
  Proof.
    intro H. induction evs as [|e r IH]; intros s s' E; cbn [run] in E.
    - inversion E. split; reflexivity.
    - destruct (step ci_key yaml_ok fq uc input x cfg s e) as [s1|] eqn:Es; cbn [obind] in E; [|discriminate].
      destruct (step_modes_off _ _ _ _ _ _ H Es) as [A B]. destruct (IH _ _ E) as [A2 B2]. split; congruence.
  Qed.

  (* ---------------------------------------------------------------- INLINE off: nothing inline in the recipe *)
  Definition item_plain (it : item) : bool := match it with IInline _ => false | _ => true end.
  Definition content_plain (c : content) : bool :=
    match c with CStep st => forallb item_plain (st_items st) | CText _ => true end.
  Definition section_plain (sec : section) : bool := forallb content_plain (sec_content sec).
  Definition block_plain (b : option blockbuf) : bool :=
    match b with Some (BStep items) => forallb item_plain items | _ => true end.
  Definition plain (s : astate) : Prop :=
    forallb section_plain (a_sections s) = true /\ section_plain (a_cur s) = true /\ block_plain (a_block s) = true.

  Lemma ingredient_frame x s ig s1 i :
    ingredient ci_key x s ig = Done (s1, i) ->
    a_sections s1 = a_sections s /\ a_cur s1 = a_cur s /\ a_inline s1 = a_inline s.
  Proof. intro E. unfold ingredient, obind in E. crunch E; inversion E; subst; repeat split; reflexivity. Qed.
  Lemma cookware_frame s cw s1 i :
    cookware ci_key s cw = Done (s1, i) ->
    a_sections s1 = a_sections s /\ a_cur s1 = a_cur s /\ a_inline s1 = a_inline s.
  Proof. intro E. unfold cookware, obind in E. crunch E; inversion E; subst; repeat split; reflexivity. Qed.

  Lemma metadata_frame x s k v :
    a_sections (metadata x s k v) = a_sections s /\ a_cur (metadata x s k v) = a_cur s
    /\ a_block (metadata x s k v) = a_block s /\ a_inline (metadata x s k v) = a_inline s.
  Proof.
    unfold metadata.
    repeat match goal with |- context [if ?b then _ else _] => destruct b end; repeat split; reflexivity.
  Qed.

  Ltac finp E Hp :=
    inversion E; subst; clear E; destruct Hp as (P1 & P2 & P3);
    unfold plain; repeat match goal with H : a_block _ = _ |- _ => try rewrite H in P3; try rewrite H; clear H end;
    unfold section_plain, block_plain, content_plain in *;
    cbn [a_sections a_cur a_block a_inline set_block set_sections set_inline add_error set_ingredients set_cookware
         set_timers set_halted set_modes sec_content st_items fst snd] in *;
    rewrite ?forallb_app; cbn [forallb item_plain st_items andb];
    repeat match goal with H : _ = true |- _ => rewrite H end; cbn [andb];
    repeat split; try reflexivity.

  Lemma step_plain fq uc x s e s' :
    x_inline x = false -> step ci_key yaml_ok fq uc input x cfg s e = Done s' ->
    plain s -> plain s' /\ a_inline s' = a_inline s.
  Proof.
    intros H E Hp. unfold step in E. destruct (a_halted s); [finp E Hp|].
    destruct e.
    - finp E Hp.
    - inversion E; subst. destruct (metadata_frame x s key value) as (A & B & C & D0).
      destruct Hp as (P1 & P2 & P3). unfold plain. rewrite A, B, C. repeat split; assumption.
    - unfold pushed_sections in E. crunch E; finp E Hp.
    - crunch E; finp E Hp.
    - unfold end_block, finish_block in E. crunch E; finp E Hp.
    - unfold in_step, in_text, obind in E. rewrite H in E. crunch E; finp E Hp.
    - unfold in_step, in_text, obind in E. crunch E;
        try match goal with H : ingredient _ _ _ _ = Done (_, _) |- _ =>
              apply ingredient_frame in H; destruct H as (F1 & F2 & F3) end;
        inversion E; subst; clear E; destruct Hp as (P1 & P2 & P3);
        repeat match goal with H : a_block _ = _ |- _ => rewrite H in P3 end;
        unfold plain, block_plain in *; cbn [a_sections a_cur a_block a_inline set_block] in *;
        rewrite ?F1, ?F2, ?F3, ?forallb_app; cbn [forallb item_plain]; rewrite ?P3; repeat split; auto.
    - unfold in_step, in_text, obind in E. crunch E;
        try match goal with H : cookware _ _ _ = Done (_, _) |- _ =>
              apply cookware_frame in H; destruct H as (F1 & F2 & F3) end;
        inversion E; subst; clear E; destruct Hp as (P1 & P2 & P3);
        repeat match goal with H : a_block _ = _ |- _ => rewrite H in P3 end;
        unfold plain, block_plain in *; cbn [a_sections a_cur a_block a_inline set_block] in *;
        rewrite ?F1, ?F2, ?F3, ?forallb_app; cbn [forallb item_plain]; rewrite ?P3; repeat split; auto.
    - unfold in_step, in_text, timer, obind in E. crunch E; finp E Hp.
    - finp E Hp.
    - finp E Hp.
  Qed.

  Lemma run_plain fq uc x evs : x_inline x = false -> forall s s',
    run ci_key yaml_ok fq uc input x cfg s evs = Done s' -> plain s -> plain s' /\ a_inline s' = a_inline s.
  Proof.
    intro H. induction evs as [|e r IH]; intros s s' E Hp; cbn [run] in E.
    - inversion E; subst. split; [exact Hp | reflexivity].
    - destruct (step ci_key yaml_ok fq uc input x cfg s e) as [s1|] eqn:Es; cbn [obind] in E; [|discriminate].
      destruct (step_plain _ _ _ _ _ _ H Es Hp) as [Hp1 I1]. destruct (IH _ _ E Hp1) as [Hp2 I2].
      split; [exact Hp2 | congruence].
  Qed.

  (* the recipe of any stream: no inline quantity is recorded and no step holds an Inline item *)
  Theorem analyse_no_inline fq uc x evs r valid :
    x_inline x = false ->
    analyse ci_key yaml_ok fq uc input x cfg evs = Done (Some r, valid) ->
    r_inline r = O /\ forallb section_plain (r_sections r) = true.
  Proof.
    intros H E. unfold analyse in E.
    destruct (run ci_key yaml_ok fq uc input x cfg init evs) as [s|] eqn:Er; cbn [obind] in E; [|discriminate].
    assert (Hi : plain init) by (repeat split; reflexivity).
    destruct (run_plain _ _ _ _ H _ _ Er Hi) as [(P1 & P2 & _) I1].
    unfold output in E. destruct (a_halted s); [discriminate|]. inversion E; subst. cbn [r_inline r_sections].
    split; [exact I1|]. unfold pushed_sections. destruct (section_is_empty (a_cur s)); [exact P1|].
    rewrite forallb_app, P1. cbn [forallb]. rewrite P2. reflexivity.
  Qed.
  (* ---------------------------------------------------------------- no `&`, no mode switch: no reference *)
  (* what the parser guarantees with COMPONENT_MODIFIERS off (C02Off.Pmods, bridged) *)
  Definition plain_comp_event (e : event) : bool :=
    match e with
    | EIngredient ig => negb (m_ref (pi_mods ig)) && match pi_inter ig with None => true | Some _ => false end
    | ECookware cw => negb (m_ref (pc_mods cw))
    | _ => true
    end.
  (* a definition nothing refers to *)
  Definition unref (c : component) : bool := match c_rel c with RDef [] _ => true | _ => false end.
  Definition norefs (s : astate) : Prop :=
    forallb unref (a_ingredients s) = true /\ forallb unref (a_cookware s) = true.
  Definition modes_dflt (s : astate) : Prop := a_define s = DMAll /\ a_duplicate s = DupNew.

  Lemma resolve_plain2 s tbl inh new r :
    modes_dflt s -> m_ref (c_mods new) = false ->
    resolve_reference ci_key s tbl inh new = Done r -> rs_target r = None /\ rs_new r = new.
  Proof.
    intros [Hd Hu] Hr. unfold resolve_reference. rewrite Hr, Hd, Hu. rewrite andb_false_r.
    cbn [orb dm_eqb dup_is_ref andb negb].
    destruct (m_new (c_mods new)); intro H; inversion H; split; reflexivity.
  Qed.

  Lemma ingredient_norefs x s ig s1 i :
    modes_dflt s -> m_ref (pi_mods ig) = false -> pi_inter ig = None ->
    ingredient ci_key x s ig = Done (s1, i) -> norefs s -> norefs s1.
  Proof.
    intros Hm Hr Hi E [N1 N2]. unfold ingredient in E. rewrite Hi in E.
    match type of E with obind ?R _ = _ => destruct R as [r|p] eqn:Er end; cbn [obind] in E; [|discriminate].
    pose proof (fun H => resolve_plain2 _ _ _ _ _ Hm H Er) as T. cbn [c_mods] in T. destruct (T Hr) as [Ht Hn]. clear T.
    rewrite Ht, Hn in E. inversion E; subst. clear E.
    split; cbn [a_ingredients a_cookware add_error set_ingredients]; [|exact N2].
    rewrite forallb_app, N1. reflexivity.
  Qed.

  Lemma cookware_norefs s cw s1 i :
    modes_dflt s -> m_ref (pc_mods cw) = false ->
    cookware ci_key s cw = Done (s1, i) -> norefs s -> norefs s1.
  Proof.
    intros Hm Hr E [N1 N2]. unfold cookware in E.
    match type of E with obind ?R _ = _ => destruct R as [r|p] eqn:Er end; cbn [obind] in E; [|discriminate].
    pose proof (fun H => resolve_plain2 _ _ _ _ _ Hm H Er) as T. cbn [c_mods] in T. destruct (T Hr) as [Ht Hn]. clear T.
    rewrite Ht, Hn in E. inversion E; subst. clear E.
    split; cbn [a_ingredients a_cookware add_error set_cookware]; [exact N1|].
    rewrite forallb_app, N2. reflexivity.
  Qed.

  Lemma metadata_tables x s k v :
    a_ingredients (metadata x s k v) = a_ingredients s /\ a_cookware (metadata x s k v) = a_cookware s.
  Proof.
    unfold metadata.
    repeat match goal with |- context [if ?b then _ else _] => destruct b end; split; reflexivity.
  Qed.

  Ltac fint E Hn :=
    inversion E; subst; clear E; destruct Hn as (N1 & N2); unfold norefs;
    cbn [a_ingredients a_cookware set_block set_sections set_inline add_error set_timers set_halted set_modes fst snd];
    split; assumption.

  Lemma step_norefs fq uc x s e s' :
    step ci_key yaml_ok fq uc input x cfg s e = Done s' ->
    plain_comp_event e = true -> modes_dflt s -> norefs s -> norefs s'.
  Proof.
    intros E Hq Hm Hn. unfold step in E. destruct (a_halted s); [fint E Hn|].
    destruct e; cbn [plain_comp_event] in Hq.
    - fint E Hn.
    - inversion E; subst. destruct (metadata_tables x s key value) as [A B]. destruct Hn as [N1 N2].
      unfold norefs. rewrite A, B. split; assumption.
    - fint E Hn.
    - fint E Hn.
    - unfold end_block, finish_block in E. crunch E; fint E Hn.
    - unfold in_step, in_text, obind in E. crunch E; fint E Hn.
    - apply andb_prop in Hq. destruct Hq as [Hr Hi]. apply negb_true_iff in Hr.
      destruct (pi_inter i) eqn:Ei; [discriminate|].
      unfold in_step, in_text, obind in E. crunch E;
        try match goal with H : ingredient _ _ _ _ = Done (_, _) |- _ =>
              pose proof (ingredient_norefs _ _ _ _ _ Hm Hr Ei H Hn) as Hn1 end;
        try (inversion E; subst; clear E; destruct Hn1 as (N1 & N2); unfold norefs; cbn [a_ingredients a_cookware set_block];
             split; assumption);
        fint E Hn.
    - apply negb_true_iff in Hq.
      unfold in_step, in_text, obind in E. crunch E;
        try match goal with H : cookware _ _ _ = Done (_, _) |- _ =>
              pose proof (cookware_norefs _ _ _ _ Hm Hq H Hn) as Hn1 end;
        try (inversion E; subst; clear E; destruct Hn1 as (N1 & N2); unfold norefs; cbn [a_ingredients a_cookware set_block];
             split; assumption);
        fint E Hn.
    - unfold in_step, in_text, timer, obind in E. crunch E; fint E Hn.
    - fint E Hn.
    - fint E Hn.
  Qed.

  Lemma run_norefs fq uc x evs : x_modes x = false -> forall s s',
    run ci_key yaml_ok fq uc input x cfg s evs = Done s' ->
    forallb plain_comp_event evs = true -> modes_dflt s -> norefs s -> norefs s'.
  Proof.
    intro H. induction evs as [|e r IH]; intros s s' E Hq Hm Hn; cbn [run] in E.
    - inversion E; subst. exact Hn.
    - cbn [forallb] in Hq. apply andb_prop in Hq. destruct Hq as [He Hr].
      destruct (step ci_key yaml_ok fq uc input x cfg s e) as [s1|] eqn:Es; cbn [obind] in E; [|discriminate].
      destruct (step_modes_off _ _ _ _ _ _ H Es) as [A B]. destruct Hm as [Hd Hu].
      apply (IH _ _ E Hr); [split; congruence|].
      exact (step_norefs _ _ _ _ _ _ Es He (conj Hd Hu) Hn).
  Qed.

  (* MODES off and no `&` modifier in the stream: every ingredient and cookware item of the recipe
     is a definition that nothing refers to - no reference relation arises *)
  Theorem analyse_no_references fq uc x evs r valid :
    x_modes x = false -> forallb plain_comp_event evs = true ->
    analyse ci_key yaml_ok fq uc input x cfg evs = Done (Some r, valid) ->
    forallb unref (r_ingredients r) = true /\ forallb unref (r_cookware r) = true.
  Proof.
    intros H Hq E. unfold analyse in E.
    destruct (run ci_key yaml_ok fq uc input x cfg init evs) as [s|] eqn:Er; cbn [obind] in E; [|discriminate].
    assert (Hn : norefs s).
    { apply (run_norefs _ _ _ _ H _ _ Er Hq); split; reflexivity. }
    unfold output in E. destruct (a_halted s); [discriminate|]. inversion E; subst. exact Hn.
  Qed.
End OffAnalysis.
