(* The labels of Model/AnalysisDiag.v are those of the enumeration of Model/AnalysisLabels.v:
   every label (line, span) of every diagnostic the decorated collector pushes is produced, on the
   events seen so far, by a site of [label_sites] with that source line ([dstep_labels_from_sites],
   [drun_labels_from_sites]).  With C04_analysis_labels_ok this places every label of every
   analysis diagnostic of the model in bounds and on character boundaries. *)
From Coq Require Import ZArith Lia Bool.
From CL Require Import Base.StrLemmas Model.Parser Model.Diag Model.EventBridge Model.AnalysisLabels
  Model.AnalysisDiag Proofs.DiagPlaced.
From CL Require Model.Analysis.
Open Scope N_scope.

(* what the collector remembers for its labels comes from events it has seen *)
Definition locs_in (st : dstate) (seen : list pevent) : Prop :=
  (forall i, In i (ds_iloc st) -> In (EvIngredient i) seen) /\
  (forall c, In c (ds_cloc st) -> In (EvCookware c) seen) /\
  (forall sp, In sp (ds_used st) -> exists k v, In (EvMetadata k v) seen /\ sp = join_kv (k, v)) /\
  (forall kv, ds_time st = Some kv \/ ds_prep st = Some kv \/ ds_cook st = Some kv ->
              In (EvMetadata (fst kv) (snd kv)) seen).

Lemma locs_in_init : locs_in dinit [].
Proof.
  repeat split; cbn; try contradiction. intros kv [H|[H|H]]; discriminate.
Qed.

Lemma locs_in_mono st seen ev : locs_in st seen -> locs_in st (seen ++ [ev]).
Proof.
  intros (A & B & C & D). repeat split.
  - intros i Hi. apply in_or_app. left. auto.
  - intros c Hc. apply in_or_app. left. auto.
  - intros sp Hs. destruct (C sp Hs) as (k & v & Hin & ->). exists k, v. split; [apply in_or_app; left; exact Hin|reflexivity].
  - intros kv Hk. apply in_or_app. left. auto.
Qed.

Ltac in_sites := unfold label_sites; repeat (first [left; reflexivity | right]).

Section LS.
Variable ci_key : str -> str.
Variable yaml_ok : str -> bool.
Variable find_iq : str -> option (str * str).
Variable unit_class : str -> N.
Variable input : str.
Variable x : Analysis.aext.
Variable cfg : Analysis.acfg.
Variable dc : dcfg.
Variable yaml_err_index : str -> option N.
Variable yaml_std_bad : str -> list str.
Variable yaml_has_key : str -> str -> bool.
Variable std_check : str -> str -> bool.
Variable is_alnum : N -> bool.
Variable unit_pq : str -> option N.

Notation dstep := (dstep ci_key yaml_ok find_iq unit_class input x cfg dc yaml_err_index yaml_std_bad yaml_has_key std_check is_alnum unit_pq).
Notation drun := (drun ci_key yaml_ok find_iq unit_class input x cfg dc yaml_err_index yaml_std_bad yaml_has_key std_check is_alnum unit_pq).
Notation ediags := (ediags ci_key yaml_ok unit_class x dc yaml_err_index yaml_std_bad yaml_has_key std_check is_alnum unit_pq).
Notation produces := (produces yaml_err_index).

(* the label (line, sp) comes from a site of the enumeration, on the events [evs]; or it is the
   whole front matter text, the label 45a4888 gave the front matter error that serde_yaml does not
   locate (event_consumer.rs:245-248 `.unwrap_or_else(|| yaml_text.span())`: the span of a parser
   event, covered by C04_event_spans_ok; not yet a site of the enumeration of 17e6a01) *)
Definition from_site (evs : list pevent) (l : N * span) : Prop :=
  (exists f, In (fst l, f) label_sites /\ produces evs f (snd l)) \/
  (exists t, In (EvYaml t) evs /\ l = (248, text_span t)).

Definition all_from_sites (evs : list pevent) (ds : list adiag) : Prop :=
  forall d l, In d ds -> In l (ad_labels d) -> from_site evs l.

Lemma afs_nil evs : all_from_sites evs []. Proof. intros d l []. Qed.
Lemma afs_app evs a b : all_from_sites evs a -> all_from_sites evs b -> all_from_sites evs (a ++ b).
Proof. intros A B d l Hd Hl. apply in_app_or in Hd. destruct Hd; eauto. Qed.
Lemma afs_one evs k ls : (forall l, In l ls -> from_site evs l) -> all_from_sites evs [mk k ls].
Proof. intros H d l [<-|[]] Hl. apply H. exact Hl. Qed.
Lemma afs_if evs (b : bool) a : all_from_sites evs a -> all_from_sites evs (if b then a else []).
Proof. destruct b; [auto|intros; apply afs_nil]. Qed.

(* a part of an event of the stream *)
Lemma part_site evs line p ev sp :
  In (line, FPart p) label_sites -> In ev evs -> In sp (part_spans p ev) -> from_site evs (line, sp).
Proof. intros Hs He Hp. left. exists (FPart p). split; [exact Hs|]. cbn. eauto. Qed.

Lemma posend_site evs line p ev sp :
  In (line, FPosEnd p) label_sites -> In ev evs -> In sp (part_spans p ev) -> from_site evs (line, pos (snd sp)).
Proof. intros Hs He Hp. left. exists (FPosEnd p). split; [exact Hs|]. cbn. eauto. Qed.

Lemma join_site evs line k v :
  In (line, FJoinKV) label_sites -> In (EvMetadata k v) evs -> from_site evs (line, join_kv (k, v)).
Proof. intros Hs He. left. exists FJoinKV. split; [exact Hs|]. cbn. eauto. Qed.

(* ---- front matter ---- *)
Lemma key_label_site evs line t key ls :
  In (line, FYamlKey) label_sites -> In (EvYaml t) evs ->
  key_label line t key = Done ls -> forall l, In l ls -> from_site evs l.
Proof.
  intros Hs He H l Hl. unfold key_label in H.
  destruct (yaml_find_key_position (text_str t) key) as [[p|]|] eqn:E; cbn in H; try discriminate; injection H as <-.
  - destruct Hl as [<-|[]]. left. exists FYamlKey. split; [exact Hs|]. cbn. exists t, key, p. auto.
  - destruct Hl.
Qed.

Lemma std_bad_sites evs t keys ds :
  In (EvYaml t) evs -> std_bad_diags t keys = Done ds -> all_from_sites evs ds.
Proof.
  intro He. revert ds. induction keys as [|k r IH]; intros ds H; cbn in H.
  - injection H as <-. apply afs_nil.
  - destruct (key_label 290 t k) as [l|] eqn:E1; [|discriminate]. cbn [obind] in H.
    destruct (std_bad_diags t r) as [dr|]; [|discriminate]. cbn [obind] in H. injection H as <-.
    apply (afs_app evs [_] dr); [|apply IH; reflexivity].
    apply afs_one. eapply key_label_site; [|exact He|exact E1]. in_sites.
Qed.

Lemma frontmatter_sites evs t ds :
  In (EvYaml t) evs -> frontmatter_diags yaml_ok dc yaml_err_index yaml_std_bad yaml_has_key t = Done ds ->
  all_from_sites evs ds.
Proof.
  intros He H. unfold frontmatter_diags in H. destruct (negb (yaml_ok (text_str t))).
  - injection H as <-. apply afs_one. intros l Hl.
    destruct (yaml_err_index (text_str t)) as [i|] eqn:Ei.
    + destruct Hl as [<-|[]]. left. exists FYamlErr. split; [in_sites|]. cbn.
      (* [produces _ _ FYamlErr] now covers both cases of the oracle (Model/AnalysisLabels.v, 45a4888) *)
      first [exists t, i; solve [auto] | exists t; rewrite Ei; auto].
    + destruct (fm_fallback dc); [|destruct Hl]. destruct Hl as [<-|[]]. right. exists t. auto.
  - destruct (std_bad_diags t _) as [d1|] eqn:E1; [|discriminate]. cbn [obind] in H.
    pose proof (std_bad_sites evs _ _ _ He E1) as S1.
    destruct (yaml_has_key _ s_time); [|injection H as <-; exact S1].
    match type of H with obind ?o _ = _ => destruct o as [prep|] eqn:Ep; [|discriminate] end. cbn [obind] in H.
    match type of H with obind ?o _ = _ => destruct o as [cook|] eqn:Ec; [|discriminate] end. cbn [obind] in H.
    assert (Sp : forall l, In l prep -> from_site evs l).
    { destruct (yaml_has_key _ s_prep_time); [|injection Ep as <-; intros l []].
      eapply key_label_site; [|exact He|exact Ep]. in_sites. }
    assert (Sc : forall l, In l cook -> from_site evs l).
    { destruct (yaml_has_key _ s_cook_time); [|injection Ec as <-; intros l []].
      eapply key_label_site; [|exact He|exact Ec]. in_sites. }
    destruct (prep ++ cook) as [|a pc] eqn:Epc; [injection H as <-; exact S1|].
    destruct (key_label 328 t s_time) as [tm|] eqn:Et; [|discriminate]. cbn [obind] in H. injection H as <-.
    apply afs_app; [exact S1|]. apply afs_one. intros l Hl. change (a :: pc ++ tm) with ((a :: pc) ++ tm) in Hl.
    apply in_app_or in Hl. destruct Hl as [Hl|Hl].
    + rewrite <- Epc in Hl. apply in_app_or in Hl. destruct Hl; auto.
    + eapply key_label_site; [|exact He|exact Et|exact Hl]. in_sites.
Qed.

(* ---- `>>` entries ---- *)
Lemma sort2_in l sp : In sp (sort2 l) -> In sp l.
Proof.
  destruct l as [|a [|b [|c r]]]; cbn; auto. destruct (span_leb a b); cbn; tauto.
Qed.

Lemma override_sites evs ov k v :
  (forall kv, In kv ov -> In (EvMetadata (fst kv) (snd kv)) evs) -> In (EvMetadata k v) evs ->
  all_from_sites evs (override_diags ov (k, v)).
Proof.
  intros Hov He. unfold override_diags. destruct (sort2 (map join_kv ov)) as [|o rest] eqn:Es; [apply afs_nil|].
  assert (Hj : forall sp, In sp (o :: rest) -> exists kv, In kv ov /\ sp = join_kv kv).
  { intros sp Hsp. rewrite <- Es in Hsp. apply sort2_in in Hsp. apply in_map_iff in Hsp.
    destruct Hsp as (kv & <- & Hin). eauto. }
  apply afs_one. intros l Hl. destruct Hl as [<-|Hl].
  - destruct (Hj o (or_introl eq_refl)) as ([k0 v0] & Hin & ->). apply join_site; [in_sites|]. exact (Hov _ Hin).
  - apply in_app_or in Hl. destruct Hl as [Hl|[<-|[]]].
    + apply in_map_iff in Hl. destruct Hl as (e & <- & Hin).
      destruct (Hj e (or_intror Hin)) as ([k0 v0] & Hin' & ->). apply join_site; [in_sites|]. exact (Hov _ Hin').
    + apply join_site; [in_sites|exact He].
Qed.

Lemma metadata_sites st seen k v :
  locs_in st seen ->
  all_from_sites (seen ++ [EvMetadata k v]) (snd (metadata_diags x std_check st k v)) /\
  forall s', locs_in (dupd x std_check st (EvMetadata k v) s') (seen ++ [EvMetadata k v]).
Proof.
  intro L. pose proof (locs_in_mono _ _ (EvMetadata k v) L) as (A & B & C & D).
  set (evs := seen ++ [EvMetadata k v]) in *.
  assert (He : In (EvMetadata k v) evs) by (apply in_or_app; right; left; reflexivity).
  assert (Sk : forall line, In (line, FPart PMetaKey) label_sites -> from_site evs (line, text_span k)).
  { intros line Hs. eapply part_site; [exact Hs|exact He|left; reflexivity]. }
  assert (Sv : forall line, In (line, FPart PMetaValue) label_sites -> from_site evs (line, text_span v)).
  { intros line Hs. eapply part_site; [exact Hs|exact He|left; reflexivity]. }
  assert (Sinv : all_from_sites evs [invalid_value k v]).
  { apply afs_one. intros l [<-|[<-|[]]]; [apply Sv|apply Sk]; in_sites. }
  assert (Lsame : forall s', locs_in {| ds_a := s'; ds_iloc := ds_iloc st; ds_cloc := ds_cloc st; ds_used := ds_used st;
                                        ds_time := ds_time st; ds_prep := ds_prep st; ds_cook := ds_cook st |} evs).
  { intro s'. repeat split; cbn; auto. }
  assert (Cu : forall sp, In sp (ds_used st ++ [join_kv (k, v)]) -> exists k0 v0, In (EvMetadata k0 v0) evs /\ sp = join_kv (k0, v0)).
  { intros sp Hsp. apply in_app_or in Hsp. destruct Hsp as [Hsp|[<-|[]]]; [auto|eauto]. }
  unfold dupd, metadata_diags. cbv zeta.
  destruct (Analysis.x_modes x && _ && _).
  - destruct (str_eqb _ Analysis.s_define || str_eqb _ Analysis.s_mode).
    + destruct (_ || _ || _ || _ || _ || _); cbn [fst snd]; (split; [|exact Lsame]); [apply afs_nil|exact Sinv].
    + destruct (str_eqb _ Analysis.s_duplicate).
      * destruct (_ || _ || _ || _); cbn [fst snd]; (split; [|exact Lsame]); [apply afs_nil|exact Sinv].
      * cbn [fst snd]. split; [|exact Lsame]. apply afs_one. intros l [<-|[]]. apply Sk. in_sites.
  - destruct (std_key _) as [sk|]; cbn [fst snd].
    2:{ split; [apply afs_nil|]. intro s'. repeat split; cbn; auto. }
    destruct (negb (std_check _ _)); cbn [fst snd].
    { split; [|intro s'; repeat split; cbn; auto].
      apply afs_one. intros l [<-|[<-|[]]]; [apply Sv|apply Sk]; in_sites. }
    destruct sk; cbn [fst snd ds_a ds_iloc ds_cloc ds_used ds_time ds_prep ds_cook].
    + split.
      * apply override_sites; [|exact He]. intros kv Hin. apply in_app_or in Hin.
        destruct Hin as [Hin|Hin]; (destruct (ds_prep st) as [p|] eqn:Ep, (ds_cook st) as [c|] eqn:Ec; cbn in Hin;
          try contradiction; destruct Hin as [<-|[]]; apply D; rewrite ?Ep, ?Ec; auto).
      * intro s'. repeat split; cbn; auto. intros kv [H|[H|H]]; try discriminate. injection H as <-. exact He.
    + split.
      * apply override_sites; [|exact He]. intros kv Hin. destruct (ds_time st) as [p|] eqn:Ep; cbn in Hin; [|contradiction].
        destruct Hin as [<-|[]]. apply D. rewrite ?Ep. auto.
      * intro s'. repeat split; cbn; auto. intros kv [H|[H|H]]; try discriminate.
        -- injection H as <-. exact He.
        -- apply D. auto.
    + split.
      * apply override_sites; [|exact He]. intros kv Hin. destruct (ds_time st) as [p|] eqn:Ep; cbn in Hin; [|contradiction].
        destruct Hin as [<-|[]]. apply D. rewrite ?Ep. auto.
      * intro s'. repeat split; cbn; auto. intros kv [H|[H|H]]; try discriminate.
        -- apply D. auto.
        -- injection H as <-. exact He.
    + split; [apply afs_nil|]. intro s'. repeat split; cbn; auto.
Qed.

(* ---- components ---- *)
Lemma rr_sites evs ev s tbl inherit new loc mloc :
  In ev evs -> In loc (part_spans PComp ev) -> In mloc (part_spans PMods ev) ->
  all_from_sites evs (rr_diags ci_key s tbl inherit new loc mloc).
Proof.
  intros He Hl Hm. unfold rr_diags. cbv zeta.
  assert (R : all_from_sites evs [redundant mloc]).
  { apply afs_one. intros l [<-|[]]. eapply part_site; [|exact He|exact Hm]. in_sites. }
  assert (Cm : all_from_sites evs [mk KConflictModifiers [(1095, mloc)]]).
  { apply afs_one. intros l [<-|[]]. eapply part_site; [|exact He|exact Hm]. in_sites. }
  assert (N : all_from_sites evs [mk KRefNotFound [(1215, loc)]]).
  { apply afs_one. intros l [<-|[]]. eapply part_site; [|exact He|exact Hl]. in_sites. }
  destruct (_ && _); [exact Cm|]. destruct (Events.m_new _).
  - destruct (negb _); [|apply afs_nil]. destruct (_ && _); [exact R|]. destruct (negb _); [exact R|apply afs_nil].
  - destruct (negb _); [apply afs_if; exact R|].
    destruct (Analysis.same_name _ _ _) as [j|].
    + destruct (nth_error tbl j); [|apply afs_if; exact R]. apply afs_app; apply afs_if; assumption.
    + apply afs_app; [apply afs_if; exact R|exact N].
Qed.

Lemma value_sites evs ev b v :
  In ev evs -> In (qv_span v) (part_spans PValue ev) -> all_from_sites evs (value_diags b v).
Proof.
  intros He Hp. unfold value_diags. apply afs_if. apply afs_one. intros l [<-|[]].
  eapply part_site; [|exact He|exact Hp]. in_sites.
Qed.

Lemma uq_part ev q : In (uq_span q) (part_spans PUnit ev) \/ In (uq_span q) (part_spans PQuantity ev) ->
  forall evs line, In ev evs -> In (line, FPart PUnit) label_sites -> In (line, FPart PQuantity) label_sites ->
  from_site evs (line, uq_span q).
Proof.
  intros [H|H] evs line He S1 S2.
  - exact (part_site evs line PUnit ev _ S1 He H).
  - exact (part_site evs line PQuantity ev _ S2 He H).
Qed.

Lemma uq_ing i q : i_qty i = Some q ->
  In (uq_span q) (part_spans PUnit (EvIngredient i)) \/ In (uq_span q) (part_spans PQuantity (EvIngredient i)).
Proof. intro H. cbn. rewrite H. unfold uq_span. destruct (q_unit q); [left|right]; left; reflexivity. Qed.

Lemma incompat_line_sites c : In (incompat_line c, FPart PUnit) label_sites /\ In (incompat_line c, FPart PQuantity) label_sites.
Proof. destruct c; split; in_sites. Qed.

Lemma units_sites evs i q tbl il u idxs ud :
  In (EvIngredient i) evs -> i_qty i = Some q -> (forall i0, In i0 il -> In (EvIngredient i0) evs) ->
  units_diags unit_pq tbl il q u idxs = Done ud -> all_from_sites evs ud.
Proof.
  intros He Hq Hil. revert ud. induction idxs as [|k r IH]; intros ud H; cbn [units_diags] in H.
  - injection H as <-. apply afs_nil.
  - destruct (nth_error tbl k) as [c|]; [|discriminate].
    match type of H with obind ?o _ = _ => destruct o as [d|] eqn:Ed; [|discriminate] end. cbn [obind] in H.
    destruct (units_diags unit_pq tbl il q u r) as [dr|]; [|discriminate]. cbn [obind] in H. injection H as <-.
    apply afs_app; [|apply IH; reflexivity].
    destruct (Analysis.c_qty c) as [qi|]; [|injection Ed as <-; apply afs_nil].
    destruct (compatible_unit unit_pq (Analysis.qi_unit qi) u) eqn:Ec; try (injection Ed as <-; apply afs_nil);
      (destruct (nth_error il k) as [ilk|] eqn:En; [|discriminate]; destruct (i_qty ilk) as [oq|] eqn:Eo; [|discriminate];
       injection Ed as <-; apply afs_one; intros l [<-|[<-|[]]];
       [apply (uq_part _ _ (uq_ing i q Hq)); [exact He|in_sites|in_sites]
       |apply (uq_part _ _ (uq_ing ilk oq Eo)); [apply Hil; eapply nth_error_In; exact En|in_sites|in_sites]]).
Qed.

Lemma ingredient_sites st seen i ds :
  locs_in st seen -> ingredient_diags ci_key x unit_pq st i = Done ds ->
  all_from_sites (seen ++ [EvIngredient i]) ds.
Proof.
  intros L H. pose proof (locs_in_mono _ _ (EvIngredient i) L) as (A & _ & _ & _).
  set (evs := seen ++ [EvIngredient i]) in *.
  assert (He : In (EvIngredient i) evs) by (apply in_or_app; right; left; reflexivity).
  unfold ingredient_diags in H. cbv zeta in H.
  assert (Sl : all_from_sites evs (match i_qty i with Some q => value_diags true (q_val q) | None => [] end)).
  { destruct (i_qty i) as [q|] eqn:Eq; [|apply afs_nil]. eapply value_sites; [exact He|]. cbn. rewrite Eq. left. reflexivity. }
  destruct (i_inter i) as [d|] eqn:Ei.
  - destruct (Analysis.resolve_intermediate_ref _ _) as [r|]; [|discriminate]. cbn [obind] in H. injection H as <-.
    apply afs_app; [exact Sl|]. apply afs_app.
    + apply afs_if. apply afs_one. intros l [<-|[]]. eapply (part_site _ _ PMods); [in_sites|exact He|left; reflexivity].
    + destruct r; [apply afs_nil|]. unfold inter_diag.
      assert (P : In (im_span d) (part_spans PInter (EvIngredient i))) by (cbn; rewrite Ei; left; reflexivity).
      destruct (im_val d =? 0); apply afs_one; intros l [<-|[]].
      * destruct (im_relative d); (eapply part_site; [|exact He|exact P]); in_sites.
      * eapply part_site; [|exact He|exact P]. in_sites.
  - destruct (Analysis.resolve_reference _ _ _ _ _) as [r|]; [|discriminate]. cbn [obind] in H.
    assert (Sr : all_from_sites evs (rr_diags ci_key (ds_a st) (Analysis.a_ingredients (ds_a st)) Analysis.inherit_ingredient
                                       (ing_new (ds_a st) (abs_ing i)) (i_span i) (i_mods_span i))).
    { eapply rr_sites; [exact He| |]; left; reflexivity. }
    destruct (Analysis.rs_target r) as [[j imp]|]; [|injection H as <-; apply afs_app; assumption].
    destruct (nth_error (Analysis.a_ingredients (ds_a st)) j) as [def|]; [|discriminate].
    destruct (nth_error (ds_iloc st) j) as [dloc|] eqn:En; [|discriminate].
    assert (Hd : In (EvIngredient dloc) evs) by (apply A; eapply nth_error_In; exact En).
    match type of H with obind ?o _ = _ => destruct o as [ud|] eqn:Eu; [|discriminate] end. cbn [obind] in H.
    match type of H with obind ?o _ = _ => destruct o as [td|] eqn:Et; [|discriminate] end. cbn [obind] in H.
    injection H as <-.
    apply afs_app; [exact Sl|]. apply afs_app; [exact Sr|]. apply afs_app; [|apply afs_app; [|apply afs_app]].
    + destruct (i_qty i) as [q|] eqn:Eq; [|injection Eu as <-; apply afs_nil].
      destruct (Analysis.x_advanced x); [|injection Eu as <-; apply afs_nil].
      destruct (Analysis.c_rel def); [|discriminate]. eapply units_sites; [exact He|exact Eq|exact A|exact Eu].
    + destruct (i_note i) as [n|] eqn:Enote; [|apply afs_nil]. unfold note_diag. apply afs_one. intros l [<-|Hl].
      * eapply (part_site _ _ PNote); [in_sites|exact He|cbn; rewrite Enote; left; reflexivity].
      * destruct (i_note dloc) as [dn|] eqn:Edn; destruct Hl as [<-|[]].
        -- eapply (part_site _ _ PNote); [in_sites|exact Hd|cbn; rewrite Edn; left; reflexivity].
        -- apply (posend_site evs 705 PComp (EvIngredient dloc) (i_span dloc)); [in_sites|exact Hd|left; reflexivity].
    + destruct (i_qty i) as [q|] eqn:Eq; [|apply afs_nil]. apply afs_if. apply afs_one. intros l [<-|[<-|[]]].
      * eapply (part_site _ _ PQuantity); [in_sites|exact He|cbn; rewrite Eq; left; reflexivity].
      * eapply (part_site _ _ PComp); [in_sites|exact Hd|left; reflexivity].
    + destruct (i_qty i) as [q|] eqn:Eq; [|injection Et as <-; apply afs_nil].
      destruct (Analysis.c_qty def); [|injection Et as <-; apply afs_nil].
      destruct (Bool.eqb _ _); [injection Et as <-; apply afs_nil|].
      destruct (i_qty dloc) as [dlq|] eqn:Edq; [|discriminate]. injection Et as <-.
      assert (P1 : from_site evs (742, q_span q)).
      { eapply (part_site _ _ PQuantity); [in_sites|exact He|cbn; rewrite Eq; left; reflexivity]. }
      assert (P2 : from_site evs (743, q_span dlq)).
      { eapply (part_site _ _ PQuantity); [in_sites|exact Hd|cbn; rewrite Edq; left; reflexivity]. }
      unfold text_val_diag. destruct (Events.pvalue_is_text _); apply afs_one; intros l [<-|[<-|[]]]; assumption.
Qed.

Lemma cookware_sites st seen c ds :
  locs_in st seen -> cookware_diags ci_key st c = Done ds ->
  all_from_sites (seen ++ [EvCookware c]) ds.
Proof.
  intros L H. pose proof (locs_in_mono _ _ (EvCookware c) L) as (_ & B & _ & _).
  set (evs := seen ++ [EvCookware c]) in *.
  assert (He : In (EvCookware c) evs) by (apply in_or_app; right; left; reflexivity).
  unfold cookware_diags in H. cbv zeta in H.
  assert (Sl : all_from_sites evs (match c_qty c with Some (v, _) => value_diags false v | None => [] end)).
  { destruct (c_qty c) as [[v sp]|] eqn:Eq; [|apply afs_nil]. eapply value_sites; [exact He|]. cbn. rewrite Eq. left. reflexivity. }
  destruct (Analysis.resolve_reference _ _ _ _ _) as [r|]; [|discriminate]. cbn [obind] in H.
  assert (Sr : all_from_sites evs (rr_diags ci_key (ds_a st) (Analysis.a_cookware (ds_a st)) Analysis.inherit_cookware
                                     (cw_new (ds_a st) (abs_cw c)) (c_span c) (c_mods_span c))).
  { eapply rr_sites; [exact He| |]; left; reflexivity. }
  destruct (Analysis.rs_target r) as [[j imp]|]; [|injection H as <-; apply afs_app; assumption].
  destruct (nth_error (Analysis.a_cookware (ds_a st)) j) as [def|]; [|discriminate].
  destruct (nth_error (ds_cloc st) j) as [dloc|] eqn:En; [|discriminate].
  assert (Hd : In (EvCookware dloc) evs) by (apply B; eapply nth_error_In; exact En).
  match type of H with obind ?o _ = _ => destruct o as [td|] eqn:Et; [|discriminate] end. cbn [obind] in H.
  injection H as <-.
  apply afs_app; [exact Sl|]. apply afs_app; [exact Sr|]. apply afs_app; [|apply afs_app].
  - destruct (c_note c) as [n|] eqn:Enote; [|apply afs_nil]. unfold note_diag. apply afs_one. intros l [<-|Hl].
    + eapply (part_site _ _ PNote); [in_sites|exact He|cbn; rewrite Enote; left; reflexivity].
    + destruct (c_note dloc) as [dn|] eqn:Edn; destruct Hl as [<-|[]].
      * eapply (part_site _ _ PNote); [in_sites|exact Hd|cbn; rewrite Edn; left; reflexivity].
      * apply (posend_site evs 930 PComp (EvCookware dloc) (c_span dloc)); [in_sites|exact Hd|left; reflexivity].
  - destruct (c_qty c) as [[v qsp]|] eqn:Eq; [|apply afs_nil]. apply afs_if. apply afs_one. intros l [<-|[<-|[]]].
    + eapply (part_site _ _ PQuantity); [in_sites|exact He|cbn; rewrite Eq; left; reflexivity].
    + eapply (part_site _ _ PComp); [in_sites|exact Hd|left; reflexivity].
  - destruct (c_qty c) as [[v qsp]|] eqn:Eq; [|injection Et as <-; apply afs_nil].
    destruct (Analysis.c_qty def); [|injection Et as <-; apply afs_nil].
    destruct (Bool.eqb _ _); [injection Et as <-; apply afs_nil|].
    destruct (c_qty dloc) as [[dv dsp]|] eqn:Edq; [|discriminate]. injection Et as <-.
    assert (P1 : from_site evs (958, qsp)).
    { eapply (part_site _ _ PQuantity); [in_sites|exact He|cbn; rewrite Eq; left; reflexivity]. }
    assert (P2 : from_site evs (959, dsp)).
    { eapply (part_site _ _ PQuantity); [in_sites|exact Hd|cbn; rewrite Edq; left; reflexivity]. }
    unfold text_val_diag. destruct (Events.pvalue_is_text _); apply afs_one; intros l [<-|[<-|[]]]; assumption.
Qed.

Lemma timer_sites evs t :
  In (EvTimer t) evs -> all_from_sites evs (timer_diags unit_class x t).
Proof.
  intro He. unfold timer_diags. destruct (t_qty t) as [q|] eqn:Eq; [|apply afs_nil].
  assert (Pv : In (qv_span (q_val q)) (part_spans PValue (EvTimer t))) by (cbn; rewrite Eq; left; reflexivity).
  apply afs_app; [eapply value_sites; [exact He|exact Pv]|].
  destruct (Analysis.x_advanced x); [|apply afs_nil]. apply afs_app.
  - apply afs_if. apply afs_one. intros l [<-|[]]. eapply part_site; [|exact He|exact Pv]. in_sites.
  - destruct (q_unit q) as [u|] eqn:Eu; [|apply afs_nil].
    assert (Pu : In (text_span u) (part_spans PUnit (EvTimer t))) by (cbn; rewrite Eq; cbn; rewrite Eu; left; reflexivity).
    destruct (_ =? 1); [apply afs_nil|]. destruct (_ =? 0); apply afs_one; intros l [<-|[]];
      (eapply part_site; [|exact He|exact Pu]); in_sites.
Qed.

Lemma locs_in_same st seen ev s' :
  locs_in st seen ->
  locs_in {| ds_a := s'; ds_iloc := ds_iloc st; ds_cloc := ds_cloc st; ds_used := ds_used st;
             ds_time := ds_time st; ds_prep := ds_prep st; ds_cook := ds_cook st |} (seen ++ [ev]).
Proof. intro L. pose proof (locs_in_mono _ _ ev L) as (A & B & C & D). repeat split; cbn; auto. Qed.

(* one event: the labels pushed come from sites of the enumeration, and the invariant is kept *)
Theorem dstep_labels_from_sites st seen ev st' ds :
  locs_in st seen -> dstep st ev = Done (st', ds) ->
  all_from_sites (seen ++ [ev]) ds /\ locs_in st' (seen ++ [ev]).
Proof.
  intros L H. destruct (Analysis.a_halted (ds_a st)) eqn:Hh.
  { rewrite (dstep_halted_id _ _ _ _ _ _ _ _ _ _ _ _ _ _ _ _ Hh) in H. injection H as <- <-.
    split; [apply afs_nil|apply locs_in_mono; exact L]. }
  destruct (dstep_inv _ _ _ _ _ _ _ _ _ _ _ _ _ _ _ _ _ _ Hh H) as (s' & _ & Hd & ->).
  assert (He : In ev (seen ++ [ev])) by (apply in_or_app; right; left; reflexivity).
  destruct ev; cbn [ediags] in Hd.
  - split; [eapply frontmatter_sites; [exact He|exact Hd]|apply locs_in_same; exact L].
  - injection Hd as <-. destruct (metadata_sites st seen key value L) as [S1 S2]. split; [exact S1|apply S2].
  - injection Hd as <-. split; [apply afs_nil|apply locs_in_same; exact L].
  - injection Hd as <-. split; [apply afs_nil|apply locs_in_same; exact L].
  - injection Hd as <-. split; [apply afs_nil|apply locs_in_same; exact L].
  - split; [|apply locs_in_same; exact L].
    destruct (Analysis.a_block (ds_a st)) as [[items|tx]|]; try (injection Hd as <-; apply afs_nil).
    destruct (_ && _); injection Hd as <-; [|apply afs_nil].
    apply afs_one. intros l [<-|[]]. eapply (part_site _ _ PText); [in_sites|exact He|left; reflexivity].
  - split.
    + destruct (Analysis.a_block (ds_a st)) as [[items|tx]|].
      * eapply ingredient_sites; eassumption.
      * injection Hd as <-. apply afs_one. intros l [<-|[]]. eapply (part_site _ _ PComp); [in_sites|exact He|left; reflexivity].
      * injection Hd as <-. apply afs_nil.
    + pose proof (locs_in_mono _ _ (EvIngredient i) L) as (A & B & C & D). unfold dupd. repeat split; cbn; auto.
      intros i0 Hi0. destruct (Analysis.a_block (ds_a st)) as [[items|tx]|]; auto.
      apply in_app_or in Hi0. destruct Hi0 as [Hi0|[<-|[]]]; [auto|exact He].
  - split.
    + destruct (Analysis.a_block (ds_a st)) as [[items|tx]|].
      * eapply cookware_sites; eassumption.
      * injection Hd as <-. apply afs_one. intros l [<-|[]]. eapply (part_site _ _ PComp); [in_sites|exact He|left; reflexivity].
      * injection Hd as <-. apply afs_nil.
    + pose proof (locs_in_mono _ _ (EvCookware c) L) as (A & B & C & D). unfold dupd. repeat split; cbn; auto.
      intros c0 Hc0. destruct (Analysis.a_block (ds_a st)) as [[items|tx]|]; auto.
      apply in_app_or in Hc0. destruct Hc0 as [Hc0|[<-|[]]]; [auto|exact He].
  - split; [|apply locs_in_same; exact L].
    destruct (Analysis.a_block (ds_a st)) as [[items|tx]|]; injection Hd as <-.
    + apply timer_sites. exact He.
    + apply afs_one. intros l [<-|[]]. eapply (part_site _ _ PComp); [in_sites|exact He|left; reflexivity].
    + apply afs_nil.
  - injection Hd as <-. split; [apply afs_nil|apply locs_in_same; exact L].
Qed.

Lemma from_site_mono evs more l : from_site evs l -> from_site (evs ++ more) l.
Proof.
  assert (I : forall e, In e evs -> In e (evs ++ more)) by (intros; apply in_or_app; left; assumption).
  intros [(f & Hs & Hp)|(t & Ht & ->)]; [|right; exists t; auto]. left. exists f. split; [exact Hs|].
  destruct f; cbn in *.
  - destruct Hp as (ev & H1 & H2). eauto.
  - destruct Hp as (ev & sp0 & H1 & H2 & H3). eauto 6.
  - destruct Hp as (k & v & H1 & H2). eauto.
  - destruct Hp as (t & key & p & H1 & H2 & H3). eauto 7.
  - first [destruct Hp as (t & i & H1 & H2 & H3); solve [eauto 6] | destruct Hp as (t & H1 & H2); eauto].
  - destruct Hp as (ev & sp0 & H1 & H2 & H3). eauto 6.
Qed.

(* a whole stream, and the deprecation notice at its end *)
Theorem drun_labels_from_sites evs : forall st seen st' ds,
  locs_in st seen -> drun st evs = Done (st', ds) ->
  all_from_sites (seen ++ evs) (ds ++ dfinish st') /\ locs_in st' (seen ++ evs).
Proof.
  induction evs as [|e r IH]; intros st seen st' ds L H.
  - cbn in H. injection H as <- <-. rewrite app_nil_r. split; [|exact L]. cbn [app].
    unfold dfinish. destruct (ds_used st) as [|u0 ur] eqn:Eu; [apply afs_nil|]. apply afs_one.
    intros l Hl. apply in_map_iff in Hl. destruct Hl as (sp & <- & Hsp).
    destruct L as (_ & _ & C & _). rewrite <- Eu in Hsp. destruct (C sp Hsp) as (k & v & Hin & ->).
    apply join_site; [in_sites|exact Hin].
  - cbn in H. destruct (dstep st e) as [[st1 d1]|] eqn:E1; [|discriminate]. cbn [obind fst snd] in H.
    destruct (drun st1 r) as [[st2 d2]|] eqn:E2; [|discriminate]. cbn in H. injection H as <- <-.
    destruct (dstep_labels_from_sites _ _ _ _ _ L E1) as [S1 L1].
    destruct (IH _ _ _ _ L1 E2) as [S2 L2].
    replace (seen ++ e :: r) with ((seen ++ [e]) ++ r) by (rewrite <- app_assoc; reflexivity).
    split; [|exact L2]. rewrite <- (app_assoc d1 d2). apply afs_app; [|exact S2].
    intros d l Hd Hl. apply from_site_mono. eapply S1; eassumption.
Qed.

End LS.
