(* C07: the finite obligations about the regenerated inventory Gen/DiagSites.v and Model/DiagMap.v.
   Everything here is a computation over the sites of the inventory (vm_compute), turned into quantified
   statements by forallb_forall / existsb_exists. *)
From Coq Require Import List String NArith Bool.
From CL Require Import Model.Parser Model.AnalysisDiag Gen.DiagSites Model.DiagMap Proofs.DiagPlaced.
Import ListNotations.

(* every site is given a constructor of the models and agrees with it *)
Lemma sites_ok : forall s, In s DiagSites.sites -> site_ok s = true.
Proof. apply forallb_forall. vm_compute. reflexivity. Qed.

(* the pinned rows are those of the sites *)
Lemma summary_is_ok : summary_ok DiagSites.sites DiagSites.summary = true.
Proof. vm_compute. reflexivity. Qed.

(* the dictionary of Model/DiagMap.v is itself consistent: every row agrees with its constructor *)
Lemma table_entries_ok : forall e, In e table -> entry_ok e = true.
Proof. apply forallb_forall. vm_compute. reflexivity. Qed.

Lemma sev_eqb_eq a b : sev_eqb a b = true -> a = b.
Proof. destruct a, b; simpl; intro H; try reflexivity; discriminate. Qed.
Lemma stage_eqb_eq a b : stage_eqb a b = true -> a = b.
Proof. destruct a, b; simpl; intro H; try reflexivity; discriminate. Qed.
Lemma akind_eqb_eq a b : akind_eqb a b = true -> a = b.
Proof. destruct a, b; simpl; intro H; try reflexivity; discriminate. Qed.

(* a site that stands for a kind of Model/AnalysisDiag.v is of the Analysis stage and has the severity
   [kind_is_error] gives the kind; no push method contradicts it *)
Lemma site_kind_severity s k :
  In s DiagSites.sites -> site_target s = Some (AKind k) ->
  site_stage s = AtAnalysis /\ site_sev s = sev_of_bool (kind_is_error k) /\
  forallb (push_ok (site_sev s)) (site_pushes s) = true.
Proof.
  intros Hin Ht. apply sites_ok in Hin. unfold site_ok in Hin. rewrite Ht in Hin.
  unfold entry_ok in Hin. cbn [fst snd site_key key_sev key_pushes key_stage] in Hin.
  apply andb_prop in Hin. destruct Hin as [Hp H]. apply andb_prop in H. destruct H as [H1 H2].
  split; [apply stage_eqb_eq, H1|]. split; [apply sev_eqb_eq, H2 | exact Hp].
Qed.

(* a site that stands for a parse-stage code is of the Parse stage, the code is one of [all_pcodes], and the site
   has the severity the parser model builds that code with *)
Lemma site_pcode_severity s c :
  In s DiagSites.sites -> site_target s = Some (PCode c) ->
  site_stage s = AtParse /\ pcode_sev c = Some (pcode_is_error c) /\ site_sev s = sev_of_bool (pcode_is_error c) /\
  forallb (push_ok (site_sev s)) (site_pushes s) = true.
Proof.
  intros Hin Ht. apply sites_ok in Hin. unfold site_ok in Hin. rewrite Ht in Hin.
  unfold entry_ok in Hin. cbn [fst snd site_key key_sev key_pushes key_stage] in Hin.
  apply andb_prop in Hin. destruct Hin as [Hp H]. apply andb_prop in H. destruct H as [H1 H2].
  split; [apply stage_eqb_eq, H1|]. unfold pcode_is_error. destruct (pcode_sev c) as [b|]; [|discriminate].
  split; [reflexivity|]. split; [apply sev_eqb_eq, H2 | exact Hp].
Qed.

(* constructors and macro bodies give the severity their name says *)
Lemma site_ctor_ok s : In s DiagSites.sites -> site_target s = Some Ctor -> ctor_ok (site_key s) = true.
Proof.
  intros Hin Ht. apply sites_ok in Hin. unfold site_ok in Hin. rewrite Ht in Hin.
  unfold entry_ok in Hin. cbn [fst snd] in Hin. apply andb_prop in Hin. exact (proj2 Hin).
Qed.

(* every kind of the analysis model is the constructor of a site ... *)
Lemma kinds_covered : forall k : akind, exists s, In s DiagSites.sites /\ site_target s = Some (AKind k).
Proof.
  assert (H : forallb (fun k => existsb (site_is_kind k) DiagSites.sites) all_kinds = true) by (vm_compute; reflexivity).
  intro k. pose proof (proj1 (forallb_forall _ _) H k (all_kinds_complete k)) as E.
  apply existsb_exists in E. destruct E as [s [Hin Hk]]. unfold site_is_kind in Hk.
  destruct (site_target s) as [[c|k'|  |  |w]|] eqn:Et; try discriminate.
  apply akind_eqb_eq in Hk. subst. exists s. split; [exact Hin | exact Et].
Qed.

(* ... and so is every code of the parser model *)
Lemma pcodes_covered : forall c : N, In c all_pcodes -> exists s, In s DiagSites.sites /\ site_target s = Some (PCode c).
Proof.
  assert (H : forallb (fun c => existsb (site_is_pcode c) DiagSites.sites) all_pcodes = true) by (vm_compute; reflexivity).
  intros c Hc. pose proof (proj1 (forallb_forall _ _) H c Hc) as E.
  apply existsb_exists in E. destruct E as [s [Hin Hk]]. unfold site_is_pcode in Hk.
  destruct (site_target s) as [[c'|k'|  |  |w]|] eqn:Et; try discriminate.
  apply N.eqb_eq in Hk. subst. exists s. split; [exact Hin | exact Et].
Qed.

(* ---- from a diagnostic of the models back to the place of the code that makes it ---- *)
From CL Require Import Model.Diag.
From CL Require Proofs.DiagSeverity.

Lemma pcode_sev_known c b : pcode_sev c = Some b -> In c all_pcodes.
Proof.
  unfold pcode_sev, all_pcodes. generalize pcode_table. intro l.
  induction l as [|[k b0] r IH]; cbn [pcode_lookup map fst].
  - discriminate.
  - destruct (N.eqb k c) eqn:Ek; [intros _; left; apply N.eqb_eq, Ek | intro E; right; apply IH, E].
Qed.

(* every diagnostic the parser model emits, on any source under any extension set, is made at a place of
   src/parser that the inventory lists with the Parse stage and with the severity of that diagnostic *)
Lemma parse_diag_has_site U c s evs d :
  events U c s = Done evs -> In (EvDiag d) evs ->
  exists st, In st DiagSites.sites /\ site_target st = Some (PCode (d_code d)) /\
             site_stage st = AtParse /\ site_sev st = sev_of_bool (d_err d).
Proof.
  intros E Hin. pose proof (DiagSeverity.events_code_severity U c s evs d E Hin) as Hs.
  destruct (pcodes_covered _ (pcode_sev_known _ _ Hs)) as [st [Hst Ht]].
  destruct (site_pcode_severity _ _ Hst Ht) as [H1 [H2 [H3 _]]].
  exists st. split; [exact Hst|]. split; [exact Ht|]. split; [exact H1|].
  rewrite H3. rewrite Hs in H2. injection H2 as <-. reflexivity.
Qed.

(* every diagnostic of the analysis model is made at a place of src/analysis that the inventory lists with the
   Analysis stage and with the severity of the SourceDiag the model reports for it *)
Lemma analysis_diag_has_site (d : adiag) :
  exists st, In st DiagSites.sites /\ site_target st = Some (AKind (ad_kind d)) /\
             site_stage st = AtAnalysis /\ site_sev st = sev_of_bool (sd_is_error (to_sdiag d)).
Proof.
  destruct (kinds_covered (ad_kind d)) as [st [Hst Ht]].
  destruct (site_kind_severity _ _ Hst Ht) as [H1 [H2 _]].
  exists st. split; [exact Hst|]. split; [exact Ht|]. split; [exact H1|].
  rewrite H2. rewrite (proj1 (to_sdiag_severity d)). reflexivity.
Qed.
