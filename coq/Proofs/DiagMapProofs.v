(* C07: the finite obligations about Model/DiagMap.v - the table of inventory entry -> model constructor.
   Everything here is a computation over the 72 keys of the regenerated inventory (vm_compute), turned into
   quantified statements by forallb_forall / existsb_exists. *)
From Coq Require Import List String NArith Bool.
From CL Require Import Model.Parser Model.AnalysisDiag Gen.DiagSites Model.DiagMap Proofs.DiagPlaced.
Import ListNotations.

(* the keys of the table are the keys of the inventory (the entries without their message), one by one, in order *)
Lemma table_keys : map fst table = map site_key DiagSites.sites.
Proof. vm_compute. reflexivity. Qed.

Lemma table_entries_ok : forall e, In e table -> entry_ok e = true.
Proof. apply forallb_forall. vm_compute. reflexivity. Qed.

Lemma sev_eqb_eq a b : sev_eqb a b = true -> a = b.
Proof. destruct a, b; simpl; intro H; try reflexivity; discriminate. Qed.
Lemma stage_eqb_eq a b : stage_eqb a b = true -> a = b.
Proof. destruct a, b; simpl; intro H; try reflexivity; discriminate. Qed.
Lemma akind_eqb_eq a b : akind_eqb a b = true -> a = b.
Proof. destruct a, b; simpl; intro H; try reflexivity; discriminate. Qed.

(* every entry that stands for a kind of Model/AnalysisDiag.v is of the Analysis stage and has the severity
   [kind_is_error] gives the kind; no push method contradicts it *)
Lemma table_kind_severity s k :
  In (s, AKind k) table ->
  key_stage s = AtAnalysis /\ key_sev s = sev_of_bool (kind_is_error k) /\
  forallb (push_ok (key_sev s)) (key_pushes s) = true.
Proof.
  intro H. apply table_entries_ok in H. unfold entry_ok in H. cbn [fst snd] in H.
  apply andb_prop in H. destruct H as [Hp H]. apply andb_prop in H. destruct H as [H1 H2].
  split; [apply stage_eqb_eq, H1|]. split; [apply sev_eqb_eq, H2 | exact Hp].
Qed.

(* every entry that stands for a parse-stage code is of the Parse stage, the code is one of [all_pcodes], and
   the entry has the severity the parser model builds that code with *)
Lemma table_pcode_severity s c :
  In (s, PCode c) table ->
  key_stage s = AtParse /\ pcode_sev c = Some (pcode_is_error c) /\ key_sev s = sev_of_bool (pcode_is_error c) /\
  forallb (push_ok (key_sev s)) (key_pushes s) = true.
Proof.
  intro H. apply table_entries_ok in H. unfold entry_ok in H. cbn [fst snd] in H.
  apply andb_prop in H. destruct H as [Hp H]. apply andb_prop in H. destruct H as [H1 H2].
  split; [apply stage_eqb_eq, H1|]. unfold pcode_is_error. destruct (pcode_sev c) as [b|]; [|discriminate].
  split; [reflexivity|]. split; [apply sev_eqb_eq, H2 | exact Hp].
Qed.

(* constructors and macro bodies give the severity their name says *)
Lemma table_ctor_ok s : In (s, Ctor) table -> ctor_ok s = true.
Proof.
  intro H. apply table_entries_ok in H. unfold entry_ok in H. cbn [fst snd] in H.
  apply andb_prop in H. exact (proj2 H).
Qed.

(* every kind of the analysis model is the image of an entry ... *)
Lemma kinds_covered : forall k : akind, exists s, In (s, AKind k) table.
Proof.
  assert (H : forallb (fun k => existsb (is_kind k) table) all_kinds = true) by (vm_compute; reflexivity).
  intro k. pose proof (proj1 (forallb_forall _ _) H k (all_kinds_complete k)) as E.
  apply existsb_exists in E. destruct E as [[s t] [Hin Hk]]. unfold is_kind in Hk. cbn [snd] in Hk.
  destruct t; try discriminate. apply akind_eqb_eq in Hk. subst. exists s. exact Hin.
Qed.

(* ... and so is every code of the parser model *)
Lemma pcodes_covered : forall c : N, In c all_pcodes -> exists s, In (s, PCode c) table.
Proof.
  assert (H : forallb (fun c => existsb (is_pcode c) table) all_pcodes = true) by (vm_compute; reflexivity).
  intros c Hc. pose proof (proj1 (forallb_forall _ _) H c Hc) as E.
  apply existsb_exists in E. destruct E as [[s t] [Hin Hk]]. unfold is_pcode in Hk. cbn [snd] in Hk.
  destruct t; try discriminate. apply N.eqb_eq in Hk. subst. exists s. exact Hin.
Qed.

(* conversely the table names no constructor the models lack: a PCode is a code of [all_pcodes] *)
Lemma table_pcodes_known s c : In (s, PCode c) table -> In c all_pcodes.
Proof.
  intro H. destruct (table_pcode_severity s c H) as [_ [E _]]. unfold pcode_sev in E.
  unfold all_pcodes. revert E. generalize pcode_table. intro l. induction l as [|[k b] r IH]; cbn [pcode_lookup map fst].
  - discriminate.
  - destruct (N.eqb k c) eqn:Ek; [intros _; left; apply N.eqb_eq, Ek | intro E; right; apply IH, E].
Qed.

(* ---- from a diagnostic of the models back to the place of the code that makes it ---- *)
From CL Require Import Model.Diag.
From CL Require Proofs.DiagSeverity.

Lemma pcode_sev_known c b : pcode_sev c = Some b -> In c all_pcodes.
Proof.
  unfold pcode_sev, all_pcodes. generalize pcode_table. intro l.
  induction l as [|[k b0] r IH]; cbn [pcode_lookup map fst].
  - discriminate.
  - destruct (N.eqb k c) eqn:Ek; [intros _; left; apply N.eqb_eq, Ek | intro E; right; apply IH, E].
Qed.

Lemma in_table_site k t : In (k, t) table -> exists st, In st DiagSites.sites /\ site_key st = k.
Proof.
  intro H. pose proof (in_map fst _ _ H) as K. rewrite table_keys in K. cbn [fst] in K.
  apply in_map_iff in K. destruct K as [st [E Hin]]. exists st. split; [exact Hin | exact E].
Qed.

(* every diagnostic the parser model emits, on any source under any extension set, is made at a place of
   src/parser that the inventory lists with the Parse stage and with the severity of that diagnostic *)
Lemma parse_diag_has_site U c s evs d :
  events U c s = Done evs -> In (EvDiag d) evs ->
  exists st, In st DiagSites.sites /\ In (site_key st, PCode (d_code d)) table /\
             site_stage st = AtParse /\ site_sev st = sev_of_bool (d_err d).
Proof.
  intros E Hin. pose proof (DiagSeverity.events_code_severity U c s evs d E Hin) as Hs.
  destruct (pcodes_covered _ (pcode_sev_known _ _ Hs)) as [k Ht].
  destruct (table_pcode_severity _ _ Ht) as [H1 [H2 [H3 _]]].
  destruct (in_table_site _ _ Ht) as [st [Hst Ek]]. subst k.
  exists st. split; [exact Hst|]. split; [exact Ht|]. split; [exact H1|].
  change (site_sev st) with (key_sev (site_key st)).
  rewrite H3. rewrite Hs in H2. injection H2 as <-. reflexivity.
Qed.

(* every diagnostic of the analysis model is made at a place of src/analysis that the inventory lists with the
   Analysis stage and with the severity of the SourceDiag the model reports for it *)
Lemma analysis_diag_has_site (d : adiag) :
  exists st, In st DiagSites.sites /\ In (site_key st, AKind (ad_kind d)) table /\
             site_stage st = AtAnalysis /\ site_sev st = sev_of_bool (sd_is_error (to_sdiag d)).
Proof.
  destruct (kinds_covered (ad_kind d)) as [k Ht].
  destruct (table_kind_severity _ _ Ht) as [H1 [H2 _]].
  destruct (in_table_site _ _ Ht) as [st [Hst Ek]]. subst k.
  exists st. split; [exact Hst|]. split; [exact Ht|]. split; [exact H1|].
  change (site_sev st) with (key_sev (site_key st)).
  rewrite H2. rewrite (proj1 (to_sdiag_severity d)). reflexivity.
Qed.

(* the diagnostics of the code that no constructor of the models stands for *)
Definition unmodelled_sites : list key := map fst (filter is_unmodelled table).
