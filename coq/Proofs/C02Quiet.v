(* C02: core_doc alone makes the event stream quiet for the collector.
   1. the parser's test for a bracketed metadata key (outer-trimmed key) and the collector's
      (text_trimmed key) agree;
   2. a predicate on the event queue ([Pev]: ingredient events without modifier bits and
      intermediate data, metadata keys that are no config keys) kept by every parser ([evk]),
      with what the component parsers return ([retk], C02Wide.ingredient_plain);
   3. lifted through step_loop, parse_step, parse_multiline_block, parse_block, run_block,
      blocks_loop to [events]. *)
From CL Require Import Base.StrLemmas Model.Parser Proofs.ParserGates Proofs.C02Invariance Proofs.C02Wide.

(* ---------------------------------------------------------------- the two tests for a bracketed key agree *)
(* the parser (mod.rs 361-371) looks at the outer-trimmed key, the collector
   (event_consumer.rs 352-354) at text_trimmed = the outer-trimmed key with runs of blanks
   collapsed; first and last character are the same *)
Lemma ws_not_32 c : uni_ws c = false -> (c =? 32) = false.
Proof.
  intro H. destruct (c =? 32) eqn:E; [|reflexivity]. apply N.eqb_eq in E. subst c. vm_compute in H. discriminate.
Qed.

Lemma trim_end_head c r : forall s, trim_end_ws s = c :: r -> exists r0, s = c :: r0.
Proof.
  intros s H. destruct s as [|x s0]; [discriminate|]. cbn [trim_end_ws] in H.
  destruct (trim_end_ws s0); [destruct (uni_ws x); inversion H|inversion H]; eexists; reflexivity.
Qed.

Lemma drop_while_head p c r : forall s, drop_while p s = c :: r -> p c = false.
Proof.
  induction s as [|x s IH]; intro H; [discriminate|]. cbn [drop_while] in H.
  destruct (p x) eqn:E; [exact (IH H)|]. inversion H; subst. exact E.
Qed.

Lemma trim_head s c r : trim s = c :: r -> uni_ws c = false.
Proof.
  unfold trim. intro H. destruct (trim_end_head _ _ _ H) as [r0 H0]. exact (drop_while_head _ _ _ _ H0).
Qed.

Lemma trim_end_last : forall s d, trim_end_ws s <> [] -> uni_ws (last (trim_end_ws s) d) = false.
Proof.
  induction s as [|x s IH]; intros d H; [contradiction|]. cbn [trim_end_ws] in *.
  destruct (trim_end_ws s) as [|y r] eqn:E.
  - destruct (uni_ws x) eqn:Ex; [contradiction|]. exact Ex.
  - change (last (x :: y :: r) d) with (last (y :: r) d). apply IH. discriminate.
Qed.

Lemma collapse_last : forall r q d, r <> [] -> (last r d =? 32) = false ->
  collapse_spaces q r <> [] /\ last (collapse_spaces q r) d = last r d.
Proof.
  induction r as [|x r IH]; intros q d Hne Hl; [contradiction|]. cbn [collapse_spaces].
  destruct r as [|y r'].
  - cbn [last] in Hl. rewrite Hl. cbn [negb orb collapse_spaces]. split; [discriminate | reflexivity].
  - change (last (x :: y :: r') d) with (last (y :: r') d) in *.
    destruct (IH x d ltac:(discriminate) Hl) as [N1 L1].
    destruct (negb (x =? 32) || negb (q =? 32)).
    + split; [discriminate|]. destruct (collapse_spaces x (y :: r')) eqn:E; [contradiction|]. exact L1.
    + split; assumption.
Qed.

Lemma rev_head_last {A} (l : list A) x r d : rev l = x :: r -> last l d = x.
Proof.
  intro H. apply (f_equal (@rev A)) in H. rewrite rev_involutive in H. subst l. cbn [rev]. apply last_last.
Qed.

Definition key_bracketed_str (k : str) : bool :=
  (match k with c :: _ => c =? 91 | [] => false end) && (match rev k with c :: _ => c =? 93 | [] => false end).

Lemma bracket_tests_agree (t : text) :
  is_config_key t = false -> key_bracketed_str (text_trimmed t) = false.
Proof.
  unfold is_config_key, key_bracketed_str, text_trimmed, text_outer_trimmed.
  set (k := trim (text_str t)). intro H.
  destruct k as [|c0 r] eqn:Ek; [reflexivity|].
  pose proof (trim_head _ _ _ Ek) as Hc0. pose proof (ws_not_32 _ Hc0) as H32.
  cbn [collapse_spaces]. rewrite H32. cbn [negb orb].
  destruct (c0 =? 91) eqn:E91; [|reflexivity]. cbn [andb] in *.
  (* the last character *)
  assert (Hl : uni_ws (last (c0 :: r) 0) = false).
  { rewrite <- Ek. unfold k, trim. apply trim_end_last. fold (trim (text_str t)). fold k. rewrite Ek. discriminate. }
  destruct (collapse_last (c0 :: r) 32 0 ltac:(discriminate) (ws_not_32 _ Hl)) as [_ L].
  cbn [collapse_spaces] in L. rewrite H32 in L. cbn [negb orb] in L.
  destruct (rev (c0 :: collapse_spaces c0 r)) as [|x rr] eqn:Er; [reflexivity|].
  rewrite <- (rev_head_last _ _ _ 0 Er), L. exact H.
Qed.

(* ---------------------------------------------------------------- a predicate on the event queue *)
(* what the collector's gates look at, on the parser's events: an ingredient without modifier
   bits and intermediate data, a metadata entry whose key is no config key *)
Definition Pev (ev : pevent) : Prop :=
  match ev with
  | EvIngredient i => i_mods i = 0 /\ i_inter i = None
  | EvMetadata key _ => is_config_key key = false
  | _ => True
  end.
Definition oPev (o : option pevent) : Prop := match o with Some ev => Pev ev | None => True end.

(* m keeps the queue within Pev *)
Definition evk {A} (m : M A) : Prop :=
  forall s a s', m s = Done (a, s') -> Forall Pev (b_evs s) -> Forall Pev (b_evs s').

Lemma evk_bind {A B} (m : M A) (f : A -> M B) : evk m -> (forall a, evk (f a)) -> evk (bind m f).
Proof.
  intros Hm Hf s b s2 H G. apply bind_inv in H. destruct H as [a [s1 [E1 E2]]].
  exact (Hf a _ _ _ E2 (Hm _ _ _ E1 G)).
Qed.

Lemma evk_same {A} (m : M A) : (forall s a s', m s = Done (a, s') -> b_evs s' = b_evs s) -> evk m.
Proof. intros H s a s' E G. rewrite (H _ _ _ E). exact G. Qed.

Ltac same := apply evk_same; intros s r0 s' H;
  cbv beta delta [ret get peek at_kind rest all_tokens parsed current_offset panic] in H; inversion H; reflexivity.

Lemma evk_ret {A} (a : A) : evk (ret a). Proof. same. Qed.
Lemma evk_peek : evk peek. Proof. same. Qed.
Lemma evk_at_kind k : evk (at_kind k). Proof. same. Qed.
Lemma evk_rest : evk rest. Proof. same. Qed.
Lemma evk_all_tokens : evk all_tokens. Proof. same. Qed.
Lemma evk_current_offset : evk current_offset. Proof. same. Qed.
Lemma evk_panic {A} p : evk (@panic A p). Proof. intros s a s' H. discriminate. Qed.
Lemma evk_lift {A} (o : outcome A) : evk (lift o).
Proof. apply evk_same. intros s a s' H. unfold lift in H. destruct o; inversion H. reflexivity. Qed.
Lemma evk_textM cfg off ts : evk (textM cfg off ts). Proof. apply evk_lift. Qed.

Lemma evk_event ev : Pev ev -> evk (event ev).
Proof. intros P s a s' H G. unfold event in H. inversion H; subst. cbn [b_evs]. constructor; assumption. Qed.
Lemma evk_error c l : evk (error c l). Proof. apply evk_event. exact I. Qed.
Lemma evk_warn c l : evk (warn c l). Proof. apply evk_event. exact I. Qed.

Lemma evk_next_token : evk next_token.
Proof. apply evk_same. intros s a s' H. unfold next_token in H. destruct (b_rest s); inversion H; reflexivity. Qed.
Lemma evk_bump_any : evk bump_any.
Proof. unfold bump_any. apply evk_bind; [apply evk_next_token|]. intros [t|]; [apply evk_ret | apply evk_panic]. Qed.
Lemma evk_bump k : evk (bump k).
Proof. unfold bump. apply evk_bind; [apply evk_bump_any|]. intros t. destruct (tk_eqb _ _); [apply evk_ret | apply evk_panic]. Qed.
Lemma evk_consume k : evk (consume k).
Proof.
  unfold consume. apply evk_bind; [apply evk_at_kind|]. intros [|]; [|apply evk_ret].
  apply evk_bind; [apply evk_bump_any | intros; apply evk_ret].
Qed.
Lemma evk_until f : evk (until f).
Proof.
  apply evk_same. intros s a s' H. unfold until in H. destruct (position f (b_rest s)); inversion H; subst;
    [apply advance_evs | reflexivity].
Qed.
Lemma evk_consume_while f : evk (consume_while f).
Proof. apply evk_same. intros s a s' H. rewrite consume_while_exact in H. inversion H; subst. apply advance_evs. Qed.

Lemma evk_with_recover {A} (m : M (option A)) : evk m -> evk (with_recover m).
Proof.
  intros Hm s a s' H G. unfold with_recover in H.
  destruct (m s) as [[[x|] s1]|] eqn:E; inversion H; subst; [|cbn [b_evs]]; exact (Hm _ _ _ E G).
Qed.
Lemma evk_obindM {A B} (m : M (option A)) (f : A -> M (option B)) :
  evk m -> (forall a, evk (f a)) -> evk (obindM m f).
Proof. intros Hm Hf. unfold obindM. apply evk_bind; [exact Hm|]. intros [a|]; [apply Hf | apply evk_ret]. Qed.
Lemma evk_sub_block {A} ts (m : M A) : evk m -> evk (sub_block ts m).
Proof.
  intros Hm s a s' H G. unfold sub_block in H. destruct ts; [discriminate|].
  match type of H with match m ?st with _ => _ end = _ => destruct (m st) as [[x s2]|] eqn:E end; inversion H; subst.
  cbn [b_evs]. exact (Hm _ _ _ E G).
Qed.

Ltac evk_auto :=
  repeat first
    [ apply evk_ret | apply evk_error | apply evk_warn | apply evk_peek | apply evk_at_kind
    | apply evk_rest | apply evk_all_tokens | apply evk_current_offset | apply evk_panic | apply evk_textM
    | apply evk_lift | apply evk_bump_any | apply evk_bump | apply evk_consume | apply evk_until
    | apply evk_consume_while
    | match goal with
      | |- evk (event (EvDiag _)) => apply evk_event; exact I
      | |- evk (event (EvStart _)) => apply evk_event; exact I
      | |- evk (event (EvEnd _)) => apply evk_event; exact I
      | |- evk (event (EvText _)) => apply evk_event; exact I
      | |- evk (sub_block _ _) => apply evk_sub_block
      | |- evk (with_recover _) => apply evk_with_recover
      | |- evk (obindM _ _) => apply evk_obindM; [|intros]
      | |- evk (bind _ _) => apply evk_bind; [|intros]
      | |- evk (match ?x with _ => _ end) => destruct x
      | |- evk (if ?x then _ else _) => destruct x
      | |- evk (let '(_, _) := ?x in _) => destruct x
      end ].

Lemma evk_comp_body : evk comp_body. Proof. unfold comp_body. evk_auto. Qed.
Lemma evk_note cfg : evk (note cfg). Proof. unfold note. evk_auto. Qed.
Lemma evk_check_note cfg : evk (check_note cfg). Proof. unfold check_note. evk_auto. Qed.
Lemma evk_parse_alias cfg ts off : evk (parse_alias cfg ts off). Proof. unfold parse_alias. evk_auto. Qed.
Lemma evk_check_empty_name t : evk (check_empty_name t). Proof. unfold check_empty_name. evk_auto. Qed.
Lemma evk_parse_inter ts : evk (parse_inter ts). Proof. unfold parse_inter. cbv zeta. evk_auto. Qed.
Lemma evk_modifiers_loop cfg fuel : forall acc, evk (modifiers_loop cfg fuel acc).
Proof. induction fuel as [|f IH]; intros acc; cbn [modifiers_loop]; evk_auto; try apply IH. Qed.
Lemma evk_modifiers cfg : evk (modifiers cfg).
Proof. unfold modifiers. evk_auto; try apply evk_modifiers_loop. Qed.
Lemma evk_parse_mods_loop cfg fuel : forall ts msp mods inter, evk (parse_mods_loop cfg fuel ts msp mods inter).
Proof. induction fuel as [|f IH]; intros; cbn [parse_mods_loop]; evk_auto; try apply IH; try apply evk_parse_inter. Qed.
Lemma evk_parse_modifiers cfg mts mpos : evk (parse_modifiers cfg mts mpos).
Proof. unfold parse_modifiers. evk_auto. apply evk_parse_mods_loop. Qed.
Lemma evk_scaling_lock : evk scaling_lock. Proof. unfold scaling_lock, ws_comments. evk_auto. Qed.
Lemma evk_parse_regular_quantity cfg : evk (parse_regular_quantity cfg).
Proof.
  unfold parse_regular_quantity, value_p, parse_value, text_value, consume_rest.
  repeat first [apply evk_scaling_lock | progress evk_auto].
Qed.
Lemma evk_parse_advanced_quantity cfg : evk (parse_advanced_quantity cfg).
Proof.
  unfold parse_advanced_quantity, ws_comments, consume_rest.
  repeat first [apply evk_scaling_lock | progress evk_auto].
Qed.
Lemma evk_parse_quantity cfg ts : evk (parse_quantity cfg ts).
Proof.
  unfold parse_quantity.
  repeat first [apply evk_parse_regular_quantity | apply evk_parse_advanced_quantity | progress evk_auto].
Qed.

Ltac evk_comp :=
  repeat first [ apply evk_modifiers | apply evk_comp_body | apply evk_note | apply evk_check_note | apply evk_parse_alias
               | apply evk_check_empty_name | apply evk_parse_modifiers | apply evk_parse_quantity
               | progress evk_auto ].
Lemma evk_ingredient_p cfg : evk (ingredient_p cfg). Proof. unfold ingredient_p. evk_comp. Qed.
Lemma evk_cookware_p cfg : evk (cookware_p cfg). Proof. unfold cookware_p. evk_comp. Qed.
Lemma evk_timer_p cfg : evk (timer_p cfg). Proof. unfold timer_p. evk_comp. Qed.

(* ---------------------------------------------------------------- what a parser returns *)
Definition retk {A} (P : A -> Prop) (m : M A) : Prop := forall s a s', m s = Done (a, s') -> P a.

Lemma retk_ret {A} (P : A -> Prop) a : P a -> retk P (ret a).
Proof. intros H s x s' E. unfold ret in E. inversion E; subst. exact H. Qed.
Lemma retk_panic {A} (P : A -> Prop) p : retk P (panic p).
Proof. intros s a s' E. discriminate. Qed.
Lemma retk_bind_skip {A B} (P : B -> Prop) (m : M A) (f : A -> M B) : (forall a, retk P (f a)) -> retk P (bind m f).
Proof. intros H s b s' E. apply bind_inv in E. destruct E as [a [s1 [_ E]]]. exact (H a _ _ _ E). Qed.
Lemma retk_obindM_skip {A B} (P : option B -> Prop) (m : M (option A)) (f : A -> M (option B)) :
  P None -> (forall a, retk P (f a)) -> retk P (obindM m f).
Proof.
  intros HN H. unfold obindM. apply retk_bind_skip. intros [a|]; [apply H | apply retk_ret, HN].
Qed.
Lemma retk_with_recover {A} (P : option A -> Prop) (m : M (option A)) : P None -> retk P m -> retk P (with_recover m).
Proof.
  intros HN H s a s' E. unfold with_recover in E. destruct (m s) as [[[x|] s1]|] eqn:Em; inversion E; subst;
    [exact (H _ _ _ Em) | exact HN].
Qed.

Ltac retk_auto :=
  repeat first
    [ apply retk_panic | (apply retk_ret; exact I)
    | match goal with
      | |- retk _ (obindM _ _) => apply retk_obindM_skip; [exact I | intros]
      | |- retk _ (bind _ _) => apply retk_bind_skip; intros
      | |- retk _ (match ?x with _ => _ end) => destruct x
      | |- retk _ (if ?x then _ else _) => destruct x
      | |- retk _ (let '(_, _) := ?x in _) => destruct x
      end ].

Lemma retk_cookware_p cfg : retk oPev (cookware_p cfg). Proof. unfold cookware_p. retk_auto. Qed.
Lemma retk_timer_p cfg : retk oPev (timer_p cfg). Proof. unfold timer_p. retk_auto. Qed.
Lemma retk_section_p cfg : retk oPev (section_p cfg). Proof. unfold section_p. retk_auto. Qed.

Definition is_meta_or_none (o : option pevent) : Prop :=
  match o with Some (EvMetadata _ _) => True | Some _ => False | None => True end.
Lemma retk_metadata_entry cfg : retk is_meta_or_none (metadata_entry cfg).
Proof. unfold metadata_entry. retk_auto. Qed.

Lemma evk_metadata_entry cfg : evk (metadata_entry cfg).
Proof. unfold metadata_entry, consume_rest. evk_auto. Qed.
Lemma evk_section_p cfg : evk (section_p cfg).
Proof. unfold section_p, ws_comments. evk_auto. Qed.
Lemma evk_text_block_loop cfg fuel : evk (text_block_loop cfg fuel).
Proof. induction fuel as [|f IH]; cbn [text_block_loop]; evk_auto; try apply IH. Qed.
Lemma evk_parse_text_block cfg : evk (parse_text_block cfg).
Proof. unfold parse_text_block. evk_auto. apply evk_text_block_loop. Qed.

(* ---------------------------------------------------------------- the step loop keeps the queue within Pev *)
Lemma step_loop_evs cfg fuel : forall s u s',
  core2 (b_rest s) = true -> step_loop cfg fuel s = Done (u, s') ->
  Forall Pev (b_evs s) -> Forall Pev (b_evs s').
Proof.
  induction fuel as [|f IH]; intros s u s' Hc E G; cbn [step_loop] in E; [discriminate|].
  apply bind_inv in E. destruct E as [r [s0 [E0 E]]]. apply keep_rest in E0. destruct E0 as [-> ->].
  destruct (b_rest s) as [|t0 r0] eqn:Er; [unfold ret in E; inversion E; subst; exact G|]. rewrite <- Er in Hc.
  apply bind_inv in E. destruct E as [k [s1 [E1 E]]]. apply keep_peek in E1. destruct E1 as [-> ->].
  apply bind_inv in E. destruct E as [comp [s2 [E2 E]]].
  assert (H2 : Forall Pev (b_evs s2) /\ core2 (b_rest s2) = true /\ oPev comp).
  { destruct (peek_of s) eqn:Ek;
      try (unfold ret in E2; inversion E2; subst; repeat split; [exact G | exact Hc]).
    - repeat split.
      + exact (evk_with_recover _ (evk_ingredient_p cfg) _ _ _ E2 G).
      + exact (core2_step _ _ _ _ (sfx_with_recover _ (sfx_ingredient_p cfg)) E2 Hc).
      + unfold with_recover in E2. destruct (ingredient_p cfg s) as [[[x|] sx]|] eqn:Ei; inversion E2; subst; [|exact I].
        destruct (ingredient_plain _ _ _ _ Hc Ei) as [i [-> [H1 H2]]]. split; assumption.
    - repeat split.
      + exact (evk_with_recover _ (evk_cookware_p cfg) _ _ _ E2 G).
      + exact (core2_step _ _ _ _ (sfx_with_recover _ (sfx_cookware_p cfg)) E2 Hc).
      + exact (retk_with_recover oPev _ I (retk_cookware_p cfg) _ _ _ E2).
    - repeat split.
      + exact (evk_with_recover _ (evk_timer_p cfg) _ _ _ E2 G).
      + exact (core2_step _ _ _ _ (sfx_with_recover _ (sfx_timer_p cfg)) E2 Hc).
      + exact (retk_with_recover oPev _ I (retk_timer_p cfg) _ _ _ E2). }
  destruct H2 as [G2 [Hc2 Pc]].
  destruct comp as [ev|].
  - apply bind_inv in E. destruct E as [u0 [s3 [E3 E]]].
    apply (IH _ _ _ (core2_step _ _ _ _ (sfx_event ev) E3 Hc2) E). exact (evk_event ev Pc _ _ _ E3 G2).
  - apply bind_inv in E. destruct E as [st [s3 [E3 E]]]. apply keep_current_offset in E3. subst s3.
    apply bind_inv in E. destruct E as [tk [s4 [E4 E]]].
    pose proof (core2_step _ _ _ _ sfx_bump_any E4 Hc2) as Hc4. pose proof (evk_bump_any _ _ _ E4 G2) as G4.
    apply bind_inv in E. destruct E as [more [s5 [E5 E]]].
    pose proof (core2_step _ _ _ _ (sfx_consume_while _) E5 Hc4) as Hc5. pose proof (evk_consume_while _ _ _ _ E5 G4) as G5.
    apply bind_inv in E. destruct E as [tx [s6 [E6 E]]].
    pose proof (core2_step _ _ _ _ (sfx_textM _ _ _) E6 Hc5) as Hc6. pose proof (evk_textM _ _ _ _ _ _ E6 G5) as G6.
    apply bind_inv in E. destruct E as [u0 [s7 [E7 E]]].
    assert (H7 : core2 (b_rest s7) = true /\ Forall Pev (b_evs s7)).
    { destruct (frags tx).
      - unfold ret in E7. inversion E7; subst. split; assumption.
      - split; [exact (core2_step _ _ _ _ (sfx_event _) E7 Hc6) | exact (evk_event (EvText tx) I _ _ _ E7 G6)]. }
    destruct H7 as [Hc7 G7]. exact (IH _ _ _ Hc7 E G7).
Qed.

Lemma parse_step_evs cfg s u s' :
  core2 (b_rest s) = true -> parse_step cfg s = Done (u, s') -> Forall Pev (b_evs s) -> Forall Pev (b_evs s').
Proof.
  intros Hc E G. unfold parse_step in E.
  apply bind_inv in E. destruct E as [u0 [s1 [E1 E]]].
  pose proof (core2_step _ _ _ _ (sfx_event _) E1 Hc) as Hc1. pose proof (evk_event (EvStart true) I _ _ _ E1 G) as G1.
  apply bind_inv in E. destruct E as [r [s2 [E2 E]]]. apply keep_rest in E2. destruct E2 as [-> ->].
  apply bind_inv in E. destruct E as [u1 [s3 [E3 E]]].
  pose proof (step_loop_evs _ _ _ _ _ Hc1 E3 G1) as G3.
  exact (evk_event (EvEnd true) I _ _ _ E G3).
Qed.

Lemma pmb_evs cfg s u s' :
  peek_of s = KTextStep \/ core2 (b_rest s) = true ->
  parse_multiline_block cfg s = Done (u, s') -> Forall Pev (b_evs s) -> Forall Pev (b_evs s').
Proof.
  intros H E G. unfold parse_multiline_block in E.
  apply bind_inv in E. destruct E as [al [s1 [E1 E]]]. unfold all_tokens in E1. inversion E1; subst al s1.
  destruct (forallb _ (b_all s)).
  - apply bind_inv in E. destruct E as [x [s2 [E2 E]]]. unfold ret in E. inversion E; subst.
    exact (evk_consume_while _ _ _ _ E2 G).
  - apply bind_inv in E. destruct E as [k [s2 [E2 E]]]. apply keep_peek in E2. destruct E2 as [-> ->].
    destruct H as [H|H].
    + rewrite H in E. exact (evk_parse_text_block cfg _ _ _ E G).
    + destruct (peek_of s); try exact (parse_step_evs _ _ _ _ H E G). exact (evk_parse_text_block cfg _ _ _ E G).
Qed.

(* ---------------------------------------------------------------- one block, all blocks, the document *)
Lemma parse_block_evs cfg e old t r evs u s' :
  block_ok cfg (t :: r) = true ->
  parse_block (with_ext cfg e) old {| b_all := t :: r; b_done := []; b_rest := t :: r; b_evs := evs |} = Done (u, s') ->
  Forall Pev evs -> Forall Pev (b_evs s').
Proof.
  intros Hb E G. set (c := with_ext cfg e) in *.
  set (s0 := {| b_all := t :: r; b_done := []; b_rest := t :: r; b_evs := evs |}) in *.
  unfold parse_block in E.
  apply bind_inv in E. destruct E as [k [s1 [E1 E]]]. apply keep_peek in E1. destruct E1 as [-> ->].
  assert (Hpk : peek_of s0 = kind t) by reflexivity. rewrite Hpk in E.
  unfold block_ok in Hb.
  apply bind_inv in E. destruct E as [mos [s2 [E2 E]]].
  assert (Fall : b_rest s2 = b_rest s0 -> Forall Pev (b_evs s2) ->
                 (kind t = KTextStep \/ core2 (t :: r) = true) ->
                 parse_multiline_block c s2 = Done (u, s') -> Forall Pev (b_evs s')).
  { intros R2 G2 H Em. refine (pmb_evs c s2 u s' _ Em G2). unfold peek_of. rewrite R2. cbn [b_rest s0]. exact H. }
  destruct (kind t) eqn:K;
    try solve [unfold ret in E2; inversion E2; subst mos s2;
               apply Fall; [reflexivity | exact G | first [left; reflexivity | right; exact Hb] | exact E]].
  - (* >> *)
    apply andb_prop in Hb. destruct Hb as [Hm Hc].
    assert (G2 : Forall Pev (b_evs s2)).
    { refine (evk_with_recover _ _ _ _ _ E2 G). apply evk_obindM; [apply evk_metadata_entry|].
      intros ev. destruct ev; try apply evk_ret. destruct (meta_kept c old key); apply evk_ret. }
    destruct mos as [ev|].
    + refine (evk_event ev _ _ _ _ E G2).
      unfold with_recover in E2.
      match type of E2 with match ?m s0 with _ => _ end = _ => destruct (m s0) as [[[x|] sx]|] eqn:Ei end;
        inversion E2; subst x sx. clear E2.
      apply obindM_inv in Ei. destruct Ei as [ev0 [s3 [Em Ef]]].
      pose proof (retk_metadata_entry c _ _ _ Em) as Hk. cbn [is_meta_or_none] in Hk.
      destruct ev0; try contradiction.
      assert (ev = EvMetadata key value).
      { destruct (meta_kept c old key); unfold ret in Ef; inversion Ef; reflexivity. }
      subst ev. cbn [Pev].
      assert (Kt : tk_eqb (kind t) KMeta = true) by (rewrite K; reflexivity).
      destruct (metadata_entry_key cfg e _ _ _ _ _ _ Kt Em) as [n [P Et]].
      unfold meta_plain in Hm. rewrite P, Et in Hm. apply negb_true_iff in Hm. exact Hm.
    + destruct (with_recover_none _ _ _ E2) as [R2 _]. apply Fall; [exact R2 | exact G2 | right; exact Hc | exact E].
  - (* = *)
    pose proof (evk_with_recover _ (evk_section_p c) _ _ _ E2 G) as G2.
    destruct mos as [ev|].
    + refine (evk_event ev _ _ _ _ E G2). exact (retk_with_recover oPev _ I (retk_section_p c) _ _ _ E2).
    + destruct (with_recover_none _ _ _ E2) as [R2 _]. apply Fall; [exact R2 | exact G2 | right; exact Hb | exact E].
Qed.

Lemma run_block_evs cfg e old ts evs evs' :
  block_ok cfg ts = true -> run_block ts evs (parse_block (with_ext cfg e) old) = Done evs' ->
  Forall Pev evs -> Forall Pev evs'.
Proof.
  intros Hb E G. unfold run_block in E. destruct ts as [|t r]; [discriminate|].
  match type of E with match ?m with _ => _ end = _ => destruct m as [[u s']|] eqn:Em end; [|discriminate].
  destruct (b_rest s'); inversion E; subst. exact (parse_block_evs cfg e old t r evs u s' Hb Em G).
Qed.

Lemma blocks_loop_evs cfg e old fuel : forall ts evs evs',
  blocks_ok cfg fuel ts = true -> blocks_loop (with_ext cfg e) fuel ts old evs = Done evs' ->
  Forall Pev evs -> Forall Pev evs'.
Proof.
  induction fuel as [|f IH]; intros ts evs evs' H E G; cbn [blocks_loop] in E; [discriminate|].
  cbn [blocks_ok] in H. destruct (next_block (S (length ts)) ts) as [[blk r]|]; [|inversion E; subst; exact G].
  apply andb_prop in H. destruct H as [Hb Hr].
  destruct (run_block blk evs (parse_block (with_ext cfg e) old)) as [evs1|] eqn:Er; cbn [obind] in E; [|discriminate].
  exact (IH _ _ _ Hr E (run_block_evs cfg e old blk evs evs1 Hb Er G)).
Qed.

Theorem events_evs U cfg e s evs :
  core_doc U cfg s = true -> events U (with_ext cfg e) s = Done evs -> Forall Pev evs.
Proof.
  intros H E. unfold events, core_doc in *.
  assert (F : parse_frontmatter (with_ext cfg e) s = parse_frontmatter cfg s) by reflexivity.
  rewrite F in E. destruct (parse_frontmatter cfg s) as [fm|].
  - destruct (lex_at U (cook_text fm) (cook_off fm)) as [ts|]; [|discriminate].
    match type of E with obind ?b _ = _ => destruct b as [revs|] eqn:Eb end; cbn [obind] in E; inversion E; subst.
    apply Forall_rev. refine (blocks_loop_evs cfg e false _ ts _ revs H Eb _). repeat constructor.
  - destruct (lex_at U s 0) as [ts|]; [|discriminate].
    match type of E with obind ?b _ = _ => destruct b as [revs|] eqn:Eb end; cbn [obind] in E; inversion E; subst.
    apply Forall_rev. exact (blocks_loop_evs cfg e true _ ts _ revs H Eb (Forall_nil _)).
Qed.
