(* Property C17, event level, whole documents: from [ksim]-related token streams to
   [proj]-equal event streams; the CRLF edit and the extra-line edit at document level.
   The three component parsers enter as section hypotheses (proved in Proofs/EditSimComp.v and
   Proofs/EditSimQty.v; Properties/C17.v instantiates them). *)
From CL Require Import Base.StrLemmas Model.Lexer Model.PText Model.CommentMask Model.Parser Model.Edits
  Proofs.LexerProofs Proofs.MaskProofs Proofs.EditProofs Proofs.EditParserProofs Proofs.EditLink
  Proofs.EditSimDefs Proofs.EditSimBlock.

Lemma Forall2_erel_proj e1 e2 : Forall2 erel e1 e2 -> map proj e1 = map proj e2.
Proof. induction 1 as [|a b r1 r2 H _ IH]; [reflexivity|]. cbn [map]. rewrite H, IH. reflexivity. Qed.

Lemma blocks_loop_fuel cfg f : forall f' ts old evs r,
  blocks_loop cfg f ts old evs = Done r -> (f <= f')%nat -> blocks_loop cfg f' ts old evs = Done r.
Proof.
  induction f as [|f IH]; intros f' ts old evs r H Hl; [discriminate|].
  destruct f' as [|f']; [lia|]. cbn [blocks_loop] in *.
  destruct (next_block (S (length ts)) ts) as [[blk q]|]; [|exact H].
  destruct (run_block blk evs (parse_block cfg old)) as [e|]; cbn [obind] in *; [|discriminate].
  apply IH; [exact H | lia].
Qed.

Lemma krel_refl t : tstr t <> [] -> newline_ok t -> krel t t.
Proof. intros H1 H2. repeat split; auto. Qed.
Lemma krel_shift_l n t : tstr t <> [] -> newline_ok t -> krel (shift_tok n t) t.
Proof. intros H1 H2. repeat split; auto. Qed.
Lemma ksim_refl ts : Forall (fun t => tstr t <> []) ts -> Forall newline_ok ts -> ksim ts ts.
Proof.
  induction ts as [|t r IH]; intros H1 H2; [constructor|]. inversion H1; inversion H2; subst.
  constructor; [apply krel_refl; assumption | apply IH; assumption].
Qed.
Lemma ksim_shift_l n ts : Forall (fun t => tstr t <> []) ts -> Forall newline_ok ts -> ksim (shift n ts) ts.
Proof.
  induction ts as [|t r IH]; intros H1 H2; [constructor|]. inversion H1; inversion H2; subst.
  constructor; [apply krel_shift_l; assumption | apply IH; assumption].
Qed.

Section Doc.
  Variable U : N -> ucls.
  Variable cfg : pcfg.
  Hypothesis ingredient_rel : MR (orel erel) (ingredient_p cfg) (ingredient_p cfg).
  Hypothesis cookware_rel : MR (orel erel) (cookware_p cfg) (cookware_p cfg).
  Hypothesis timer_rel : MR (orel erel) (timer_p cfg) (timer_p cfg).

  Definition same_events (e1 e2 : list pevent) : Prop := map proj e1 = map proj e2.

  Lemma blocks_same fuel ts1 ts2 old evs :
    ksim ts1 ts2 ->
    OR same_events (obind (blocks_loop cfg fuel ts1 old evs) (fun e => Done (rev e)))
                   (obind (blocks_loop cfg fuel ts2 old evs) (fun e => Done (rev e))).
  Proof.
    intro H.
    assert (He : Forall2 erel evs evs) by (clear; induction evs; constructor; [reflexivity | assumption]).
    pose proof (blocks_loop_rel cfg ingredient_rel cookware_rel timer_rel fuel ts1 ts2 old evs evs H He) as R.
    unfold OR in *. destruct (blocks_loop cfg fuel ts1 old evs) as [e1|]; cbn [obind]; [|exact I].
    destruct (blocks_loop cfg fuel ts2 old evs) as [e2|]; cbn [obind]; [|exact I].
    unfold same_events. rewrite !map_rev. f_equal. apply Forall2_erel_proj. exact R.
  Qed.

  (* two sources without front matter whose token streams are [ksim] have the same events *)
  Theorem events_ksim s1 s2 ts1 ts2 :
    parse_frontmatter cfg s1 = None -> parse_frontmatter cfg s2 = None ->
    lex_at U s1 0 = Some ts1 -> lex_at U s2 0 = Some ts2 -> ksim ts1 ts2 ->
    OR same_events (events U cfg s1) (events U cfg s2).
  Proof.
    intros F1 F2 L1 L2 H. unfold events. rewrite F1, F2, L1, L2, (ksim_length _ _ H).
    apply blocks_same. exact H.
  Qed.

  Lemma blocks_same2 fuel ts1 ts2 old evs1 evs2 :
    ksim ts1 ts2 -> Forall2 erel evs1 evs2 ->
    OR same_events (obind (blocks_loop cfg fuel ts1 old evs1) (fun e => Done (rev e)))
                   (obind (blocks_loop cfg fuel ts2 old evs2) (fun e => Done (rev e))).
  Proof.
    intros H He.
    pose proof (blocks_loop_rel cfg ingredient_rel cookware_rel timer_rel fuel ts1 ts2 old evs1 evs2 H He) as R.
    unfold OR in *. destruct (blocks_loop cfg fuel ts1 old evs1) as [e1|]; cbn [obind]; [|exact I].
    destruct (blocks_loop cfg fuel ts2 old evs2) as [e2|]; cbn [obind]; [|exact I].
    unfold same_events. rewrite !map_rev. f_equal. apply Forall2_erel_proj. exact R.
  Qed.

  (* the same with a front matter on both sides: YAML texts equal up to line endings *)
  Theorem events_ksim_fm s1 s2 fm1 fm2 ts1 ts2 :
    parse_frontmatter cfg s1 = Some fm1 -> parse_frontmatter cfg s2 = Some fm2 ->
    crlf (yaml_text fm1) = crlf (yaml_text fm2) ->
    lex_at U (cook_text fm1) (cook_off fm1) = Some ts1 -> lex_at U (cook_text fm2) (cook_off fm2) = Some ts2 ->
    ksim ts1 ts2 ->
    OR same_events (events U cfg s1) (events U cfg s2).
  Proof.
    intros F1 F2 Hy L1 L2 H. unfold events. rewrite F1, F2, L1, L2, (ksim_length _ _ H).
    apply blocks_same2; [exact H|]. constructor; [|constructor]. unfold erel. cbn [proj]. f_equal.
    assert (T : forall y o, text_str (text_from_str y o) = y).
    { intros y o. destruct y; [reflexivity|]. unfold text_from_str, text_str. cbn [frags map fsoft ftext concat]. apply app_nil_r. }
    rewrite !T. exact Hy.
  Qed.

  (* ---------------------------------------------------------------- CRLF *)
  Hypothesis special_breaks : forall c, special c = true -> is_word_char U c = false /\ is_lex_ws U c = false.
  Hypothesis eol_breaks : forall c, (c =? 10) || (c =? 13) = true -> is_word_char U c = false /\ is_lex_ws U c = false.

  Lemma crlf_rel_ksim ts ts' :
    Forall2 crlf_tok_rel ts ts' ->
    Forall (fun t => tstr t <> []) ts -> Forall (fun t => tstr t <> []) ts' ->
    Forall newline_ok ts -> Forall newline_ok ts' -> ksim ts ts'.
  Proof.
    induction 1 as [|t t' r r' [Hk Hs] _ IH]; intros N1 N2 O1 O2; [constructor|].
    inversion N1; inversion N2; inversion O1; inversion O2; subst.
    constructor; [|apply IH; assumption].
    repeat split; try assumption; [symmetry; exact Hk|].
    intro C. destruct (kind t); try discriminate; symmetry; exact Hs.
  Qed.

  Theorem crlf_ksim_at s off off' ts ts' :
    no_backslash s = true -> no_lone_cr s = true ->
    lex_at U s off = Some ts -> lex_at U (crlf s) off' = Some ts' -> ksim ts ts'.
  Proof.
    intros Hb Hc L L'. destruct (crlf_lex U eol_breaks s off off' ts Hb Hc L) as [ts2 [L2 R]].
    assert (ts2 = ts') by congruence. subst ts2.
    apply crlf_rel_ksim; [exact R | | | |].
    - exact (lex_nonempty U _ _ _ L).
    - exact (lex_nonempty U _ _ _ L').
    - exact (lex_newline_ok U _ _ _ L).
    - exact (crlf_rel_newline_ok _ _ R).
  Qed.
  Definition crlf_ksim s := crlf_ksim_at s 0 0.

  Theorem crlf_events s :
    no_backslash s = true -> no_lone_cr s = true ->
    parse_frontmatter cfg s = None -> parse_frontmatter cfg (crlf s) = None ->
    OR same_events (events U cfg s) (events U cfg (crlf s)).
  Proof.
    intros Hb Hc F1 F2.
    destruct (lex_total U s 0) as [ts L]. destruct (lex_total U (crlf s) 0) as [ts' L'].
    apply (events_ksim s (crlf s) ts ts' F1 F2 L L'). apply (crlf_ksim s); assumption.
  Qed.

  (* ---------------------------------------------------------------- a line between blocks *)
  Lemma safe_end_newline ts d :
    (ts = [] \/ exists p nl, ts = p ++ [nl] /\ kind nl = KNewline) -> safe_end U ts d = true.
  Proof.
    intros [-> | (p & nl & -> & K)]; [reflexivity|]. rewrite safe_end_last, rev_app_distr. cbn [rev app].
    unfold last_tok_safe. rewrite K. reflexivity.
  Qed.

  Lemma blank_line_ends tl : blank_line tl -> exists p nl, tl = p ++ [nl] /\ kind nl = KNewline.
  Proof. intros (w & nl & -> & K & _). exists w, nl. split; [reflexivity | exact K]. Qed.

  (* the core: the block loop on the tokens of [a ++ b] and of [a ++ l ++ b], lexed at any offset *)
  Lemma extra_line_blocks a l b off ta tl tb old evs :
    lex_at U a off = Some ta -> lex_at U l 0 = Some tl -> lex_at U b (off + blen a) = Some tb ->
    (ta = [] \/ exists p nl, ta = p ++ [nl] /\ kind nl = KNewline) -> blank_line tl ->
    reach (ta ++ tb) tb ->
    exists t1 t2,
      lex_at U (a ++ b) off = Some t1 /\ lex_at U (a ++ l ++ b) off = Some t2
      /\ OR same_events (obind (blocks_loop cfg (S (length t1)) t1 old evs) (fun e => Done (rev e)))
                        (obind (blocks_loop cfg (S (length t2)) t2 old evs) (fun e => Done (rev e))).
  Proof.
    intros La Ll Lb Hta Hl Hreach.
    pose proof (lex_nonempty U _ _ _ La) as Na. pose proof (lex_nonempty U _ _ _ Ll) as Nl.
    pose proof (lex_nonempty U _ _ _ Lb) as Nb.
    pose proof (lex_newline_ok U _ _ _ La) as Oa. pose proof (lex_newline_ok U _ _ _ Ll) as Ol.
    pose proof (lex_newline_ok U _ _ _ Lb) as Ob.
    assert (Hlne : l <> []).
    { intro E. subst l. cbn in Ll. inversion Ll; subst tl. destruct Hl as (w & nl & E & _). destruct w; discriminate. }
    assert (L1 : lex_at U (a ++ b) off = Some (ta ++ tb)).
    { destruct b as [|d y].
      - cbn in Lb. inversion Lb; subst. rewrite !app_nil_r. exact La.
      - apply (lex_app U special_breaks eol_breaks a off ta d y tb La); [apply safe_end_newline; exact Hta | exact Lb]. }
    assert (L2 : lex_at U (a ++ l ++ b) off = Some (ta ++ shift (off + blen a) tl ++ shift (blen l) tb)).
    { destruct b as [|d y].
      - cbn in Lb. inversion Lb; subst. rewrite app_nil_r. cbn [shift map]. rewrite app_nil_r.
        apply (lex_append U special_breaks eol_breaks a l off ta tl La Ll). apply safe_end_newline. exact Hta.
      - apply (lex_insert U special_breaks eol_breaks a l (d :: y) off ta tl tb d y eq_refl La Ll Hlne Lb).
        + apply safe_end_newline. exact Hta.
        + apply safe_end_newline. right. apply blank_line_ends. exact Hl. }
    eexists. eexists. split; [exact L1|]. split; [exact L2|].
    set (e := ta ++ shift (off + blen a) tl ++ shift (blen l) tb).
    assert (K : ksim e (ta ++ tl ++ tb)).
    { unfold e. apply Forall2_app; [apply ksim_refl; assumption|].
      apply Forall2_app; apply ksim_shift_l; assumption. }
    pose proof (blocks_same (S (length e)) e (ta ++ tl ++ tb) old evs K) as R.
    unfold OR in *.
    destruct (blocks_loop cfg (S (length (ta ++ tb))) (ta ++ tb) old evs) as [r1|] eqn:E1; cbn [obind]; [|exact I].
    assert (Hlen : (S (length (ta ++ tb)) <= S (length e))%nat).
    { unfold e, shift. rewrite !app_length, !map_length. lia. }
    pose proof (blocks_loop_fuel cfg _ _ _ _ _ _ E1 Hlen) as E2.
    rewrite <- (blocks_blind_between cfg tl (ta ++ tb) tb Hreach ta (S (length e)) old evs eq_refl Hta Hl) in E2.
    rewrite E2 in R. cbn [obind] in R.
    destruct (obind (blocks_loop cfg (S (length e)) e old evs) (fun e0 => Done (rev e0))) as [r2|]; [|exact I].
    unfold same_events in *. symmetry. exact R.
  Qed.

  Theorem extra_line_events a l b ta tl tb :
    parse_frontmatter cfg (a ++ b) = None -> parse_frontmatter cfg (a ++ l ++ b) = None ->
    lex_at U a 0 = Some ta -> lex_at U l 0 = Some tl -> lex_at U b (blen a) = Some tb ->
    (ta = [] \/ exists p nl, ta = p ++ [nl] /\ kind nl = KNewline) -> blank_line tl ->
    reach (ta ++ tb) tb ->
    OR same_events (events U cfg (a ++ b)) (events U cfg (a ++ l ++ b)).
  Proof.
    intros F1 F2 La Ll Lb Hta Hl Hreach.
    destruct (extra_line_blocks a l b 0 ta tl tb true [] La Ll Lb Hta Hl Hreach) as (t1 & t2 & L1 & L2 & R).
    unfold events. rewrite F1, F2, L1, L2. exact R.
  Qed.

  (* the same below a front matter: [s1], [s2] have front matters with the same YAML text and the
     Cooklang parts [a ++ b], [a ++ l ++ b] at the same offset *)
  Theorem extra_line_events_fm s1 s2 fm1 fm2 a l b ta tl tb :
    parse_frontmatter cfg s1 = Some fm1 -> parse_frontmatter cfg s2 = Some fm2 ->
    yaml_text fm1 = yaml_text fm2 -> yaml_off fm1 = yaml_off fm2 -> cook_off fm1 = cook_off fm2 ->
    cook_text fm1 = a ++ b -> cook_text fm2 = a ++ l ++ b ->
    lex_at U a (cook_off fm1) = Some ta -> lex_at U l 0 = Some tl -> lex_at U b (cook_off fm1 + blen a) = Some tb ->
    (ta = [] \/ exists p nl, ta = p ++ [nl] /\ kind nl = KNewline) -> blank_line tl ->
    reach (ta ++ tb) tb ->
    OR same_events (events U cfg s1) (events U cfg s2).
  Proof.
    intros F1 F2 Hy Hyo Hco C1 C2 La Ll Lb Hta Hl Hreach.
    destruct (extra_line_blocks a l b (cook_off fm1) ta tl tb false
                [EvYaml (text_from_str (yaml_text fm1) (yaml_off fm1))] La Ll Lb Hta Hl Hreach)
      as (t1 & t2 & L1 & L2 & R).
    unfold events. rewrite F1, F2, C1, C2, <- Hco, <- Hy, <- Hyo, L1, L2. exact R.
  Qed.
End Doc.
