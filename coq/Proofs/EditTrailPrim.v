(* Property C17, the trailing edit: the list lemmas of [wsimb] and the relational Hoare rules for
   every primitive of the parser monad of Model/Parser.v (state relation [Sw], judgements [WL] / [WN]
   of EditTrailDefs.v).  Mirrors Proofs/EditInsPrim.v (the relation [jsim]). *)
From Coq Require Import List Lia.
From CL Require Import Base.StrLemmas Model.Lexer Model.PText Model.CommentMask Model.Parser Model.Edits
  Proofs.EditParserProofs Proofs.EditSimDefs Proofs.EditInsDefs Proofs.EditInsPrim.
From CL Require Import Proofs.EditTrailDefs Proofs.EditTrailStr.
Import ListNotations.

Notation TR := (list tok -> list tok -> Prop).

(* ================================================================ PART 1: lists *)
Lemma gtok_kind g : gtok g -> kind g = KWs \/ kind g = KLineComment.
Proof. intros [(K & _) | (K & _)]; [left | right]; exact K. Qed.

Lemma gtok_f (f : tkind -> bool) g v : f KWs = v -> f KLineComment = v -> gtok g -> f (kind g) = v.
Proof. intros F1 F2 H. destruct (gtok_kind _ H) as [-> | ->]; assumption. Qed.

Lemma wsimb_weaken e l1 l2 : wsimb false l1 l2 -> wsimb e l1 l2.
Proof.
  induction 1 as [|a b r1 r2 Hab Ho H IH|a b r1 r2 Hab Ha H IH|g r1 r2 Hg Ha H IH].
  - constructor.
  - apply w_cons; assumption.
  - apply w_wsx; try assumption. destruct r1; [discriminate Ha | exact Ha].
  - apply w_ins; try assumption. destruct r1; [discriminate Ha | exact Ha].
Qed.

Lemma wsimb_hd e l1 l2 : wsimb e l1 l2 -> kcl (hdk l1) = kcl (hdk l2).
Proof.
  destruct 1 as [|a b r1 r2 Hab _ _|a b r1 r2 (Ka & Kb & _) _ _|g r1 r2 Hg Ha _]; cbn [hdk].
  - reflexivity.
  - rewrite (krel_kind _ _ Hab). reflexivity.
  - rewrite Ka, Kb. reflexivity.
  - assert (E : kcl (hdk r1) = None) by (destruct r1 as [|t q]; cbn [atnl hdk] in *; [reflexivity | rewrite Ha; reflexivity]).
    rewrite E. destruct (gtok_kind _ Hg) as [-> | ->]; reflexivity.
Qed.

Lemma kcl_some k t : kcl k = Some t -> k = t.
Proof. destruct k; cbn; intro H; try discriminate; inversion H; reflexivity. Qed.

Lemma kcl_cases k1 k2 : kcl k1 = kcl k2 -> (k1 = k2 /\ kcl k1 <> None) \/ (kcl k1 = None /\ kcl k2 = None).
Proof.
  intro H. destruct (kcl k1) as [t|] eqn:E1.
  - left. split; [|discriminate]. symmetry in H. apply kcl_some in E1. apply kcl_some in H. congruence.
  - right. split; [reflexivity | symmetry; exact H].
Qed.

Lemma wsimb_head_inv e a r1 l2 :
  wsimb e (a :: r1) l2 -> kcl (kind a) <> None ->
  exists b r2, l2 = b :: r2 /\ krel a b /\ okc a r1 r2 /\ wsimb e r1 r2.
Proof.
  intros H K. remember (a :: r1) as l1 eqn:E. revert a r1 E K.
  induction H as [|a0 b r1' r2 Hab Ho H _|a0 b r1' r2 (Ka & _) _ _ _|g r1' r2 Hg Ha H _]; intros a r1 E K; try discriminate.
  - inversion E; subst. exists b, r2. split; [reflexivity|]. split; [assumption|]. split; assumption.
  - inversion E; subst. rewrite Ka in K. contradiction K; reflexivity.
  - subst r1'. cbn [atnl] in Ha. rewrite Ha in K. contradiction K; reflexivity.
Qed.

Lemma wsimb_nil_r e l1 : wsimb e l1 [] -> l1 = [].
Proof. intro H. inversion H; reflexivity. Qed.

Lemma wsimb_ne e l1 l2 : wsimb e l1 l2 -> l1 <> [] -> l2 <> [].
Proof. intros H N E. subst l2. apply N. exact (wsimb_nil_r _ _ H). Qed.

(* kind tests that cannot see the inserted tokens *)
Lemma wsimb_existsb (f : tkind -> bool) e l1 l2 :
  f KWs = false -> f KLineComment = false -> wsimb e l1 l2 ->
  existsb (fun t => f (kind t)) l1 = existsb (fun t => f (kind t)) l2.
Proof.
  intros F1 F2. induction 1 as [|a b r1 r2 Hab _ _ IH|a b r1 r2 (Ka & Kb & _) _ _ IH|g r1 r2 Hg _ _ IH].
  - reflexivity.
  - cbn [existsb]. rewrite (krel_kind _ _ Hab), IH. reflexivity.
  - cbn [existsb]. rewrite Ka, Kb, IH. reflexivity.
  - cbn [existsb]. rewrite (gtok_f f g false F1 F2 Hg). exact IH.
Qed.

Lemma wsimb_forallb (f : tkind -> bool) e l1 l2 :
  f KWs = true -> f KLineComment = true -> wsimb e l1 l2 ->
  forallb (fun t => f (kind t)) l1 = forallb (fun t => f (kind t)) l2.
Proof.
  intros F1 F2. induction 1 as [|a b r1 r2 Hab _ _ IH|a b r1 r2 (Ka & Kb & _) _ _ IH|g r1 r2 Hg _ _ IH].
  - reflexivity.
  - cbn [forallb]. rewrite (krel_kind _ _ Hab), IH. reflexivity.
  - cbn [forallb]. rewrite Ka, Kb, IH. reflexivity.
  - cbn [forallb]. rewrite (gtok_f f g true F1 F2 Hg). exact IH.
Qed.

Lemma wsimb_ballr e l1 l2 : wsimb e l1 l2 -> ballr l1 l2.
Proof.
  intro H. unfold ballr, ball_test. f_equal.
  - apply (wsimb_existsb (fun k => tk_eqb k KPercent) e); [reflexivity | reflexivity | exact H].
  - apply (wsimb_forallb is_empty_tok e); [reflexivity | reflexivity | exact H].
Qed.

Lemma ksim_ballr l1 l2 : ksim l1 l2 -> ballr l1 l2.
Proof.
  intro H. unfold ballr, ball_test. f_equal;
    [apply (ksim_existsb_kind (fun k => tk_eqb k KPercent)) | apply (ksim_forallb_kind is_empty_tok)]; exact H.
Qed.

Lemma ballr_percent l1 l2 : ballr l1 l2 ->
  existsb (fun t => tk_eqb (kind t) KPercent) l1 = existsb (fun t => tk_eqb (kind t) KPercent) l2.
Proof. unfold ballr, ball_test. intro H. inversion H. reflexivity. Qed.
Lemma ballr_empty l1 l2 : ballr l1 l2 ->
  forallb (fun t => is_empty_tok (kind t)) l1 = forallb (fun t => is_empty_tok (kind t)) l2.
Proof. unfold ballr, ball_test. intro H. inversion H. reflexivity. Qed.

(* ---------------------------------------------------------------- the split at a kind test *)
Definition synced (f : tkind -> bool) (e : bool) (l1 l2 : list tok) : Prop :=
  exists a b r1 r2, l1 = a :: r1 /\ l2 = b :: r2 /\ krel a b /\ f (kind a) = true /\ okc a r1 r2 /\ wsimb e r1 r2.

Lemma synced_W f e l1 l2 : synced f e l1 l2 -> wsimb e l1 l2.
Proof. intros (a & b & r1 & r2 & -> & -> & H & _ & Ho & Hr). apply w_cons; assumption. Qed.

Lemma atnl_firstn (f : tkind -> bool) e r n : atnl e r -> position f r = Some n -> atnl (f KNewline) (firstn n r).
Proof.
  destruct r as [|t q]; cbn [atnl position]; intros Ha Hp; [discriminate|]. rewrite Ha in Hp.
  destruct (f KNewline) eqn:F.
  - inversion Hp; subst. reflexivity.
  - destruct (position f q); cbn [option_map] in Hp; [|discriminate]. inversion Hp; subst. cbn [firstn atnl]. exact Ha.
Qed.

Theorem wsimb_split (f : tkind -> bool) e l1 l2 :
  f KWs = false -> f KLineComment = false -> wsimb e l1 l2 ->
  match position f l1, position f l2 with
  | None, None => True
  | Some n1, Some n2 => wsimb (f KNewline) (firstn n1 l1) (firstn n2 l2) /\ synced f e (skipn n1 l1) (skipn n2 l2)
  | _, _ => False
  end.
Proof.
  intros F1 F2. induction 1 as [|a b r1 r2 Hab Ho H IH|a b r1 r2 Hab Ha H IH|g r1 r2 Hg Ha H IH].
  - exact I.
  - cbn [position]. rewrite <- (krel_kind _ _ Hab). destruct (f (kind a)) eqn:Fa.
    + cbn [firstn skipn]. split; [constructor|]. exists a, b, r1, r2. split; [reflexivity|]. split; [reflexivity|]. split; [assumption|]. split; [assumption|]. split; assumption.
    + destruct (position f r1) as [n1|] eqn:P1, (position f r2) as [n2|]; cbn [option_map]; try exact IH.
      destruct IH as [IH1 IH2]. cbn [firstn skipn]. split; [|exact IH2]. apply w_cons; [exact Hab | | exact IH1].
      destruct Ho as [Ho | [-> _]]; [left; exact Ho | discriminate P1].
  - pose proof Hab as (Ka & Kb & _). cbn [position]. rewrite Ka, Kb, F1.
    destruct (position f r1) as [n1|] eqn:P1, (position f r2) as [n2|]; cbn [option_map]; try exact IH.
    destruct IH as [IH1 IH2]. cbn [firstn skipn]. split; [|exact IH2].
    apply w_wsx; [exact Hab | exact (atnl_firstn f e r1 n1 Ha P1) | exact IH1].
  - cbn [position]. rewrite (gtok_f f g false F1 F2 Hg).
    destruct (position f r1) as [n1|] eqn:P1, (position f r2) as [n2|]; cbn [option_map]; try exact IH.
    destruct IH as [IH1 IH2]. cbn [firstn skipn]. split; [|exact IH2].
    apply w_ins; [exact Hg | exact (atnl_firstn f e r1 n1 Ha P1) | exact IH1].
Qed.

(* ---------------------------------------------------------------- the run of tokens satisfying a test *)
Definition cwc (g : tkind -> bool) (l : list tok) : nat :=
  match position (fun k => negb (g k)) l with Some n => n | None => length l end.

Lemma cwc_cons g t r : cwc g (t :: r) = if g (kind t) then S (cwc g r) else O.
Proof.
  unfold cwc. cbn [position]. destruct (g (kind t)); cbn [negb]; [|reflexivity].
  destruct (position _ r); reflexivity.
Qed.

Lemma consume_while_cwc g s :
  consume_while g s = Done (firstn (cwc g (b_rest s)) (b_rest s), advance (cwc g (b_rest s)) s).
Proof. reflexivity. Qed.

(* a test that stops at inserted tokens and at newlines: the runs are in lock step *)
Theorem wsimb_prefix (g : tkind -> bool) e l1 l2 :
  g KWs = false -> g KLineComment = false -> g KNewline = false -> wsimb e l1 l2 ->
  cwc g l1 = cwc g l2 /\ ksim (firstn (cwc g l1) l1) (firstn (cwc g l2) l2)
  /\ wsimb e (skipn (cwc g l1) l1) (skipn (cwc g l2) l2).
Proof.
  intros G1 G2 G3. induction 1 as [|a b r1 r2 Hab Ho H IH|a b r1 r2 Hab Ha H IH|g0 r1 r2 Hg Ha H IH].
  - split; [reflexivity|]. split; constructor.
  - rewrite !cwc_cons, <- (krel_kind _ _ Hab). destruct (g (kind a)).
    + destruct IH as (E & K & R). rewrite E. cbn [firstn skipn]. split; [reflexivity|]. split; [constructor; [exact Hab | rewrite E in K; exact K]|].
      rewrite E in R. exact R.
    + cbn [firstn skipn]. split; [reflexivity|]. split; [constructor | apply w_cons; assumption].
  - pose proof Hab as (Ka & Kb & _). rewrite !cwc_cons, Ka, Kb, G1. cbn [firstn skipn].
    split; [reflexivity|]. split; [constructor | apply w_wsx; assumption].
  - assert (E1 : cwc g r1 = O).
    { destruct r1 as [|t q]; [reflexivity|]. cbn [atnl] in Ha. rewrite cwc_cons, Ha, G3. reflexivity. }
    rewrite cwc_cons, (gtok_f g g0 false G1 G2 Hg), E1. cbn [firstn skipn].
    split; [reflexivity|]. split; [constructor | apply w_ins; assumption].
Qed.

(* a test that passes inserted tokens *)
Theorem wsimb_run (g : tkind -> bool) e l1 l2 :
  g KWs = true -> g KLineComment = true -> wsimb e l1 l2 ->
  (wsimb (negb (g KNewline)) (firstn (cwc g l1) l1) (firstn (cwc g l2) l2)
   /\ synced (fun k => negb (g k)) e (skipn (cwc g l1) l1) (skipn (cwc g l2) l2))
  \/ (wsimb e (firstn (cwc g l1) l1) (firstn (cwc g l2) l2) /\ skipn (cwc g l1) l1 = [] /\ skipn (cwc g l2) l2 = []).
Proof.
  intros G1 G2 H. pose proof (wsimb_split (fun k => negb (g k)) e l1 l2) as X. cbv beta in X.
  rewrite G1, G2 in X. specialize (X eq_refl eq_refl H). unfold cwc.
  destruct (position _ l1) as [n1|], (position _ l2) as [n2|]; try contradiction.
  - left. exact X.
  - right. rewrite !firstn_all, !skipn_all. split; [exact H | split; reflexivity].
Qed.

(* ================================================================ PART 2: the logic *)
Lemma Sw_mono (T T' : TR) s1 s2 : (forall l1 l2, T l1 l2 -> T' l1 l2) -> Sw T s1 s2 -> Sw T' s1 s2.
Proof. intros H (Hr & Ha & He). split; [apply H; exact Hr | split; assumption]. Qed.

Lemma WL_bind {A1 A2 B1 B2} (T T1 T2 : TR) (RA : A1 -> A2 -> Prop) (RB : B1 -> B2 -> Prop) m1 m2 f1 f2 :
  WL T RA m1 m2 T1 -> (forall a1 a2, RA a1 a2 -> WL T1 RB (f1 a1) (f2 a2) T2) ->
  WL T RB (bind m1 f1) (bind m2 f2) T2.
Proof.
  intros Hm Hf. unfold WL. eapply HJ_bind; [exact Hm|]. intros a1 a2 s1 s2 [Ha S]. exact (Hf a1 a2 Ha s1 s2 S).
Qed.

Lemma WL_ret {A B} (T : TR) (R : A -> B -> Prop) a b : R a b -> WL T R (ret a) (ret b) T.
Proof. intros H s1 s2 S. cbn. split; assumption. Qed.

Lemma WL_conseq {A B} (T0 T T' T1 : TR) (R R' : A -> B -> Prop) (m1 : M A) (m2 : M B) :
  (forall l1 l2, T0 l1 l2 -> T l1 l2) -> WL T R m1 m2 T' ->
  (forall a b, R a b -> R' a b) -> (forall l1 l2, T' l1 l2 -> T1 l1 l2) -> WL T0 R' m1 m2 T1.
Proof.
  intros H0 H HR H1. unfold WL. eapply HJ_conseq; [|exact H|].
  - intros s1 s2. apply Sw_mono. exact H0.
  - intros a s1 b s2 [Ha S]. split; [apply HR; exact Ha | exact (Sw_mono _ _ _ _ H1 S)].
Qed.
Lemma WL_conseq_R {A B} (T T' : TR) (R R' : A -> B -> Prop) (m1 : M A) (m2 : M B) :
  WL T R m1 m2 T' -> (forall a b, R a b -> R' a b) -> WL T R' m1 m2 T'.
Proof. intros H HR. eapply WL_conseq; [|exact H|exact HR|]; auto. Qed.
Lemma WL_pre {A B} (T0 T T' : TR) (R : A -> B -> Prop) (m1 : M A) (m2 : M B) :
  (forall l1 l2, T0 l1 l2 -> T l1 l2) -> WL T R m1 m2 T' -> WL T0 R m1 m2 T'.
Proof. intros H0 H. eapply WL_conseq; [exact H0|exact H| |]; auto. Qed.
Lemma WL_post {A B} (T T' T1 : TR) (R : A -> B -> Prop) (m1 : M A) (m2 : M B) :
  WL T R m1 m2 T' -> (forall l1 l2, T' l1 l2 -> T1 l1 l2) -> WL T R m1 m2 T1.
Proof. intros H H1. eapply WL_conseq; [|exact H| |exact H1]; auto. Qed.

Lemma WL_panic_l {A B} (T T' : TR) (R : A -> B -> Prop) p (m : M B) : WL T R (panic p) m T'.
Proof. apply HJ_panic_l. Qed.
Lemma WL_panic_r {A B} (T T' : TR) (R : A -> B -> Prop) p (m : M A) : WL T R m (panic p) T'.
Proof. apply HJ_panic_r. Qed.

Lemma WL_obindM {A1 A2 B1 B2} (T T1 T2 : TR) (RA : A1 -> A2 -> Prop) (RB : B1 -> B2 -> Prop) m1 m2 f1 f2 :
  WL T (orel RA) m1 m2 T1 -> (forall a1 a2, RA a1 a2 -> WL T1 (orel RB) (f1 a1) (f2 a2) T2) ->
  (forall l1 l2, T1 l1 l2 -> T2 l1 l2) ->
  WL T (orel RB) (obindM m1 f1) (obindM m2 f2) T2.
Proof.
  intros Hm Hf HT. unfold obindM. eapply WL_bind; [exact Hm|].
  intros [a1|] [a2|] H; cbn in H; try contradiction; [apply Hf; exact H|].
  eapply WL_post; [apply WL_ret; exact I | exact HT].
Qed.

Lemma WN_of {A B} (T : TR) (R : A -> B -> Prop) (m1 : M A) (m2 : M B) : WN R m1 m2 -> WL T R m1 m2 T.
Proof. intro H. apply H. Qed.
Lemma WN_bind {A1 A2 B1 B2} (RA : A1 -> A2 -> Prop) (RB : B1 -> B2 -> Prop) m1 m2 f1 f2 :
  WN RA m1 m2 -> (forall a1 a2, RA a1 a2 -> WN RB (f1 a1) (f2 a2)) -> WN RB (bind m1 f1) (bind m2 f2).
Proof. intros Hm Hf T. eapply WL_bind; [apply Hm|]. intros a1 a2 Ha. apply Hf. exact Ha. Qed.
Lemma WN_ret {A B} (R : A -> B -> Prop) a b : R a b -> WN R (ret a) (ret b).
Proof. intros H T. apply WL_ret. exact H. Qed.
Lemma WN_conseq {A B} (R R' : A -> B -> Prop) (m1 : M A) (m2 : M B) :
  WN R m1 m2 -> (forall a b, R a b -> R' a b) -> WN R' m1 m2.
Proof. intros H HR T. eapply WL_conseq_R; [apply H | exact HR]. Qed.
Lemma WN_panic_l {A B} (R : A -> B -> Prop) p (m : M B) : WN R (panic p) m.
Proof. intro T. apply WL_panic_l. Qed.
Lemma WN_panic_r {A B} (R : A -> B -> Prop) p (m : M A) : WN R m (panic p).
Proof. intro T. apply WL_panic_r. Qed.
Lemma WN_lift {A B} (R : A -> B -> Prop) o1 o2 : OR R o1 o2 -> WN R (lift o1) (lift o2).
Proof.
  intros H T s1 s2 S. unfold lift, OR in *. destruct o1; [|exact I]. destruct o2; [|exact I]. split; assumption.
Qed.
Lemma WN_obindM {A1 A2 B1 B2} (RA : A1 -> A2 -> Prop) (RB : B1 -> B2 -> Prop) m1 m2 f1 f2 :
  WN (orel RA) m1 m2 -> (forall a1 a2, RA a1 a2 -> WN (orel RB) (f1 a1) (f2 a2)) ->
  WN (orel RB) (obindM m1 f1) (obindM m2 f2).
Proof. intros Hm Hf T. eapply WL_obindM; [apply Hm | intros a1 a2 Ha; apply Hf; exact Ha | auto]. Qed.

(* a bind whose first computation also yields a pure relation on its results *)
Lemma HJ_bind_r {A1 A2 B1 B2} (P : bp -> bp -> Prop) (R : A1 -> A2 -> Prop) (P' : bp -> bp -> Prop)
      (Q' : B1 -> bp -> B2 -> bp -> Prop) (m1 : M A1) (m2 : M A2) (f1 : A1 -> M B1) (f2 : A2 -> M B2) :
  HJ P m1 m2 (fun a s1 b s2 => R a b /\ P' s1 s2) ->
  (forall a1 a2, R a1 a2 -> HJ P' (f1 a1) (f2 a2) Q') -> HJ P (bind m1 f1) (bind m2 f2) Q'.
Proof. intros Hm Hf. eapply HJ_bind; [exact Hm|]. intros a1 a2 s1 s2 [Ha S]. exact (Hf a1 a2 Ha s1 s2 S). Qed.

Lemma HJ_bind_d {A1 A2 B1 B2} (P : bp -> bp -> Prop) (R : A1 -> A2 -> Prop) (P' : A1 -> bp -> bp -> Prop)
      (Q' : B1 -> bp -> B2 -> bp -> Prop) (m1 : M A1) (m2 : M A2) (f1 : A1 -> M B1) (f2 : A2 -> M B2) :
  HJ P m1 m2 (fun a s1 b s2 => R a b /\ P' a s1 s2) ->
  (forall a1 a2, R a1 a2 -> HJ (P' a1) (f1 a1) (f2 a2) Q') -> HJ P (bind m1 f1) (bind m2 f2) Q'.
Proof. intros Hm Hf. eapply HJ_bind; [exact Hm|]. intros a1 a2 s1 s2 [Ha S]. exact (Hf a1 a2 Ha s1 s2 S). Qed.

(* ---------------------------------------------------------------- events *)
Lemma WN_event e1 e2 : erel e1 e2 -> WN anyrel (event e1) (event e2).
Proof.
  intros H T s1 s2 (Hr & Ha & He). cbn. split; [exact I|]. repeat split; cbn; try assumption. apply evw_cons; assumption.
Qed.
Lemma WN_error c l1 l2 : WN anyrel (error c l1) (error c l2).
Proof. apply WN_event. reflexivity. Qed.
Lemma WN_warn c l1 l2 : WN anyrel (warn c l1) (warn c l2).
Proof. apply WN_event. reflexivity. Qed.
Lemma WN_diag d1 d2 : drel d1 d2 -> WN anyrel (event (EvDiag d1)) (event (EvDiag d2)).
Proof. intros [H1 H2]. apply WN_event. unfold erel. cbn. rewrite H1, H2. reflexivity. Qed.

(* errors correspond whatever their code *)
Lemma WN_error_any c1 c2 l1 l2 : WN anyrel (error c1 l1) (error c2 l2).
Proof.
  intros T s1 s2 (Hr & Ha & He). cbn. split; [exact I|]. split; [exact Hr|]. split; [exact Ha|]. cbn.
  apply evw_err; [reflexivity | reflexivity | exact He].
Qed.

(* a warning on one side only *)
Lemma WN_warn_l {B} c l (b : B) : WN anyrel (warn c l) (ret b).
Proof.
  intros T s1 s2 (Hr & Ha & He). cbn. split; [exact I|]. repeat split; cbn; try assumption. apply evw_wl; [reflexivity | exact He].
Qed.
Lemma WN_warn_r {A} c l (a : A) : WN anyrel (ret a) (warn c l).
Proof.
  intros T s1 s2 (Hr & Ha & He). cbn. split; [exact I|]. repeat split; cbn; try assumption. apply evw_wr; [reflexivity | exact He].
Qed.

Lemma WN_current_offset : WN anyrel current_offset current_offset.
Proof. intros T s1 s2 S. cbn. split; [exact I | exact S]. Qed.
Lemma WN_all_tokens : WN ballr all_tokens all_tokens.
Proof. intros T s1 s2 S. cbn. split; [apply S | exact S]. Qed.

Lemma trel_trw t1 t2 : trel t1 t2 -> trw false t1 t2.
Proof. intros (H1 & H2 & H3). split; [rewrite H1; apply spins_refl|]. split; [exact H2 | intros _; exact H3]. Qed.

Lemma WN_textM cfg e o1 o2 ts1 ts2 : wsimb e ts1 ts2 -> WN (trw e) (textM cfg o1 ts1) (textM cfg o2 ts2).
Proof. intro H. apply WN_lift. apply wsimb_text. exact H. Qed.
Lemma WN_textM_k cfg o1 o2 ts1 ts2 : ksim ts1 ts2 -> WN (trw false) (textM cfg o1 ts1) (textM cfg o2 ts2).
Proof.
  intro H. apply WN_lift. pose proof (text_of_rel cfg o1 o2 _ _ H) as X. unfold OR in *.
  destruct (text_of cfg o1 ts1); [|exact I]. destruct (text_of cfg o2 ts2); [|exact I]. apply trel_trw. exact X.
Qed.
Lemma WN_textM_tail cfg e o1 o2 ts1 ts2 : wsimb e ts1 ts2 -> no_nl ts1 -> WN trT (textM cfg o1 ts1) (textM cfg o2 ts2).
Proof. intros H N. apply WN_lift. apply (wsimb_text_tail cfg e); assumption. Qed.

(* ---------------------------------------------------------------- with_recover *)
Lemma WL_with_recover {A B} (T : TR) (R : A -> B -> Prop) (m1 : M (option A)) (m2 : M (option B)) :
  WL T (orel R) m1 m2 T -> WL T (orel R) (with_recover m1) (with_recover m2) T.
Proof.
  intros H s1 s2 S. unfold with_recover. specialize (H s1 s2 S).
  destruct (m1 s1) as [[o1 s1']|]; [|exact I]. destruct (m2 s2) as [[o2 s2']|]; [|destruct o1; exact I].
  destruct H as (Ho & S'). destruct o1 as [a|], o2 as [b|]; cbn in Ho; try contradiction.
  - split; [exact Ho | exact S'].
  - split; [exact I|]. destruct S as (Sr & Sa & _). destruct S' as (_ & _ & Se). repeat split; cbn; assumption.
Qed.

(* ---------------------------------------------------------------- sub_block *)
Lemma WN_sub_block {A B} (T' : TR) (R : A -> B -> Prop) ts1 ts2 (m1 : M A) (m2 : M B) :
  W ts1 ts2 -> WL W R m1 m2 T' -> WN R (sub_block ts1 m1) (sub_block ts2 m2).
Proof.
  intros Ht Hm T s1 s2 S. unfold sub_block. destruct ts1 as [|a r1]; [exact I|].
  pose proof (wsimb_ne _ _ _ Ht ltac:(discriminate)) as N2. destruct ts2 as [|b r2]; [contradiction N2; reflexivity|].
  destruct S as (Sr & Sa & Se).
  assert (S0 : Sw W {| b_all := a :: r1; b_done := []; b_rest := a :: r1; b_evs := b_evs s1 |}
                     {| b_all := b :: r2; b_done := []; b_rest := b :: r2; b_evs := b_evs s2 |}).
  { repeat split; cbn; try assumption; apply (wsimb_ballr _ _ _ Ht). }
  specialize (Hm _ _ S0).
  destruct (m1 _) as [[x1 s1']|]; [|exact I]. destruct (m2 _) as [[x2 s2']|]; [|exact I].
  destruct Hm as [Hx (_ & _ & Se')]. split; [exact Hx|]. repeat split; assumption.
Qed.

(* ---------------------------------------------------------------- states *)
Lemma Sw_step1 (T T' : TR) s1 s2 a b r1 r2 : Sw T s1 s2 -> T' r1 r2 -> Sw T' (step1 s1 a r1) (step1 s2 b r2).
Proof. intros (_ & Ha & He) H. split; [exact H | split; assumption]. Qed.
Lemma Sw_rest (T T' : TR) s1 s2 : Sw T s1 s2 -> T' (b_rest s1) (b_rest s2) -> Sw T' s1 s2.
Proof. intros (_ & Ha & He) H. split; [exact H | split; assumption]. Qed.
Lemma Sw_advance (T T' : TR) n1 n2 s1 s2 :
  Sw T s1 s2 -> T' (skipn n1 (b_rest s1)) (skipn n2 (b_rest s2)) -> Sw T' (advance n1 s1) (advance n2 s2).
Proof.
  intros (_ & Ha & He) H. unfold Sw. rewrite !advance_rest, !advance_all, !advance_evs. split; [exact H | split; assumption].
Qed.

(* the head of the left remaining tokens is known *)
Definition Wk (k : tkind) (r1 r2 : list tok) : Prop := W r1 r2 /\ hdk r1 = k.
Lemma Wk_W k s1 s2 : Sw (Wk k) s1 s2 -> Sw W s1 s2.
Proof. apply Sw_mono. intros l1 l2 [H _]. exact H. Qed.

(* ---------------------------------------------------------------- rest, peek, at_kind *)
Lemma WL_rest (T : TR) : WL T T rest rest T.
Proof. intros s1 s2 S. cbn. split; [apply S | exact S]. Qed.

Lemma WJ_peek :
  HJ (Sw W) peek peek (fun k1 s1 k2 s2 => kcl k1 = kcl k2 /\ Sw (Wk k1) s1 s2).
Proof.
  intros s1 s2 S. cbn. rewrite !peek_of_hdk. pose proof S as (Hr & _). split; [exact (wsimb_hd _ _ _ Hr)|].
  apply (Sw_rest _ _ _ _ S). split; [exact Hr | reflexivity].
Qed.

Lemma WL_at_kind k : kcl k <> None -> WL W eq (at_kind k) (at_kind k) W.
Proof.
  intros K s1 s2 S. cbn. rewrite !peek_of_hdk. split; [|exact S]. pose proof S as (Hr & _).
  destruct (kcl_cases _ _ (wsimb_hd _ _ _ Hr)) as [[E _] | [E1 E2]]; [rewrite E; reflexivity|].
  assert (X : forall h, kcl h = None -> tk_eqb h k = false).
  { intros h Eh. apply tkb_neq. intro Y. subst h. contradiction. }
  rewrite (X _ E1), (X _ E2). reflexivity.
Qed.

(* ---------------------------------------------------------------- consume, bump *)
Lemma WL_consume k : kcl k <> None -> WL W (orel krel) (consume k) (consume k) W.
Proof.
  intros K s1 s2 S. rewrite !consume_step. pose proof S as (Hr & _).
  assert (Ek : tk_eqb KEof k = false) by (apply tkb_neq; intro Y; subst k; contradiction K; reflexivity).
  destruct (b_rest s1) as [|a r1] eqn:E1.
  - rewrite Ek. destruct (b_rest s2) as [|b r2] eqn:E2; [split; [exact I | exact S]|].
    pose proof (wsimb_hd _ _ _ Hr) as Hh. cbn [hdk] in Hh.
    assert (X : tk_eqb (kind b) k = false).
    { apply tkb_neq. intro Y. rewrite Y in Hh. cbn in Hh. destruct (kcl k); [discriminate | contradiction K; reflexivity]. }
    rewrite X. split; [exact I | exact S].
  - destruct (tk_eqb (kind a) k) eqn:Ea.
    + apply tkb_true in Ea. assert (Ka : kcl (kind a) <> None) by (rewrite Ea; exact K).
      destruct (wsimb_head_inv _ _ _ _ Hr Ka) as (b & r2 & -> & Hab & _ & H).
      rewrite <- (krel_kind _ _ Hab), Ea, tkb_refl. split; [exact Hab|]. apply (Sw_step1 _ _ _ _ _ _ _ _ S). exact H.
    + pose proof (wsimb_hd _ _ _ Hr) as Hh. cbn [hdk] in Hh.
      assert (X : tk_eqb (hdk (b_rest s2)) k = false).
      { destruct (kcl_cases _ _ Hh) as [[E _] | [_ E]].
        - rewrite <- E. exact Ea.
        - apply tkb_neq. intro Y. rewrite Y in E. contradiction. }
      destruct (b_rest s2) as [|b r2] eqn:E2.
      * rewrite ?Ek. split; [exact I|]. apply (Sw_rest _ _ _ _ S). rewrite E1, E2. exact Hr.
      * cbn [hdk] in X. rewrite X. split; [exact I|]. apply (Sw_rest _ _ _ _ S). rewrite E1, E2. exact Hr.
Qed.

Lemma WL_bump k : kcl k <> None -> WL W krel (bump k) (bump k) W.
Proof.
  intros K s1 s2 S. rewrite !bump_step. pose proof S as (Hr & _).
  destruct (b_rest s1) as [|a r1] eqn:E1; [exact I|].
  destruct (tk_eqb (kind a) k) eqn:Ea; [|exact I].
  apply tkb_true in Ea. assert (Ka : kcl (kind a) <> None) by (rewrite Ea; exact K).
  destruct (wsimb_head_inv _ _ _ _ Hr Ka) as (b & r2 & -> & Hab & _ & H).
  rewrite <- (krel_kind _ _ Hab), Ea, tkb_refl. split; [exact Hab|]. apply (Sw_step1 _ _ _ _ _ _ _ _ S). exact H.
Qed.

Definition krelk (k : tkind) (a b : tok) : Prop := krel a b /\ kind a = k.

Lemma WL_consume_k k : kcl k <> None -> WL W (orel (krelk k)) (consume k) (consume k) W.
Proof.
  intros K s1 s2 S. pose proof (WL_consume k K s1 s2 S) as X. rewrite !consume_step in *.
  destruct (b_rest s1) as [|a r1] eqn:E1.
  - destruct (tk_eqb KEof k); [exact I|]. destruct (b_rest s2) as [|b r2]; [destruct (tk_eqb KEof k); exact X|].
    destruct (tk_eqb (kind b) k); [destruct X as [X _]; contradiction | exact X].
  - destruct (tk_eqb (kind a) k) eqn:Ea.
    + apply tkb_true in Ea. destruct (b_rest s2) as [|b r2]; [destruct (tk_eqb KEof k); [exact I | destruct X as [X _]; contradiction]|].
      destruct (tk_eqb (kind b) k); [|destruct X as [X _]; contradiction]. destruct X as [X S']. split; [split; assumption | exact S'].
    + destruct (b_rest s2) as [|b r2]; [destruct (tk_eqb KEof k); exact X|].
      destruct (tk_eqb (kind b) k); [destruct X as [X _]; contradiction | exact X].
Qed.

Lemma WL_bump_k k : kcl k <> None -> WL W (krelk k) (bump k) (bump k) W.
Proof.
  intros K s1 s2 S. pose proof (WL_bump k K s1 s2 S) as X. rewrite !bump_step in *.
  destruct (b_rest s1) as [|a r1]; [exact I|]. destruct (tk_eqb (kind a) k) eqn:Ea; [|exact I]. apply tkb_true in Ea.
  destruct (b_rest s2) as [|b r2]; [exact I|]. destruct (tk_eqb (kind b) k); [|exact I].
  destruct X as [X S']. split; [split; assumption | exact S'].
Qed.

Lemma WL_bump_any_k k : kcl k <> None -> WL (Wk k) (krelk k) bump_any bump_any W.
Proof.
  intros K s1 s2 S. rewrite !bump_any_step. pose proof S as ((Hr & Hk) & _).
  destruct (b_rest s1) as [|a r1] eqn:E1; [exact I|]. cbn [hdk] in Hk.
  assert (Ka : kcl (kind a) <> None) by (rewrite Hk; exact K).
  destruct (wsimb_head_inv _ _ _ _ Hr Ka) as (b & r2 & -> & Hab & _ & H).
  split; [split; assumption|]. apply (Sw_step1 _ _ _ _ _ _ _ _ S). exact H.
Qed.

(* ---------------------------------------------------------------- until, consume_while *)
Lemma WL_until f : f KWs = false -> f KLineComment = false ->
  WL W (orel (wsimb (f KNewline))) (until f) (until f) W.
Proof.
  intros F1 F2 s1 s2 S. unfold until. pose proof S as (Hr & _).
  pose proof (wsimb_split f true _ _ F1 F2 Hr) as X.
  destruct (position f (b_rest s1)) as [n1|], (position f (b_rest s2)) as [n2|]; try contradiction.
  - destruct X as [X1 X2]. split; [exact X1 | exact (Sw_advance _ _ _ _ _ _ S (synced_W _ _ _ _ X2))].
  - split; [exact I | exact S].
Qed.

(* a test that passes inserted tokens and newlines: what is consumed is followed by a token of the block *)
Lemma WL_consume_while_pass g : g KWs = true -> g KLineComment = true -> g KNewline = true ->
  WL W W (consume_while g) (consume_while g) W.
Proof.
  intros G1 G2 G3 s1 s2 S. rewrite !consume_while_cwc. pose proof S as (Hr & _).
  destruct (wsimb_run g true _ _ G1 G2 Hr) as [[X1 X2] | (X1 & X2 & X3)].
  - rewrite G3 in X1. split; [exact (wsimb_weaken _ _ _ X1) | exact (Sw_advance _ _ _ _ _ _ S (synced_W _ _ _ _ X2))].
  - split; [exact X1|]. apply (Sw_advance _ _ _ _ _ _ S). rewrite X2, X3. constructor.
Qed.

(* with the result in the precise relation: strict when a token of the block follows *)
Lemma WJ_consume_while_pass g : g KWs = true -> g KLineComment = true -> g KNewline = true ->
  HJ (Sw W) (consume_while g) (consume_while g)
     (fun l1 s1 l2 s2 => Sw W s1 s2 /\ ((Wi l1 l2 /\ b_rest s1 <> []) \/ (W l1 l2 /\ b_rest s1 = [] /\ b_rest s2 = []))).
Proof.
  intros G1 G2 G3 s1 s2 S. rewrite !consume_while_cwc. pose proof S as (Hr & _).
  destruct (wsimb_run g true _ _ G1 G2 Hr) as [[X1 X2] | (X1 & X2 & X3)].
  - rewrite G3 in X1. split; [exact (Sw_advance _ _ _ _ _ _ S (synced_W _ _ _ _ X2))|]. left. split; [exact X1|].
    rewrite advance_rest. destruct X2 as (a & b & r1 & r2 & -> & _). discriminate.
  - split; [apply (Sw_advance _ _ _ _ _ _ S); rewrite X2, X3; constructor|]. right. rewrite !advance_rest. repeat split; assumption.
Qed.

(* a test that stops at inserted tokens and at newlines *)
Lemma WL_consume_while_stop g : g KWs = false -> g KLineComment = false -> g KNewline = false ->
  WL W ksim (consume_while g) (consume_while g) W.
Proof.
  intros G1 G2 G3 s1 s2 S. rewrite !consume_while_cwc. pose proof S as (Hr & _).
  destruct (wsimb_prefix g true _ _ G1 G2 G3 Hr) as (_ & X1 & X2).
  split; [exact X1 | exact (Sw_advance _ _ _ _ _ _ S X2)].
Qed.

(* blanks and comments: everything inserted before the next newline is consumed too *)
Lemma WL_ws_comments : WL W anyrel ws_comments ws_comments W.
Proof.
  intros s1 s2 S. unfold ws_comments. rewrite !consume_while_cwc. pose proof S as (Hr & _).
  destruct (wsimb_run is_ws_comment true _ _ eq_refl eq_refl Hr) as [[X1 X2] | (X1 & X2 & X3)].
  - split; [exact I | exact (Sw_advance _ _ _ _ _ _ S (synced_W _ _ _ _ X2))].
  - split; [exact I|]. apply (Sw_advance _ _ _ _ _ _ S). rewrite X2, X3. constructor.
Qed.

Lemma WJ_consume_rest :
  HJ (Sw W) consume_rest consume_rest (fun l1 s1 l2 s2 => W l1 l2 /\ Sw W s1 s2 /\ b_rest s1 = [] /\ b_rest s2 = []).
Proof.
  intros s1 s2 S. unfold consume_rest, consume_while. pose proof S as (Hr & _).
  assert (P : forall l, position (fun _ : tkind => negb true) l = None).
  { induction l as [|t r IH]; [reflexivity|]. cbn [position]. rewrite IH. reflexivity. }
  rewrite !P, !firstn_all. split; [exact Hr|]. rewrite !advance_rest, !skipn_all.
  split; [|split; reflexivity]. apply (Sw_advance _ _ _ _ _ _ S). rewrite !skipn_all. constructor.
Qed.
Lemma WL_consume_rest : WL W W consume_rest consume_rest W.
Proof.
  unfold WL. eapply HJ_conseq; [intros s1 s2 X; exact X | apply WJ_consume_rest |].
  intros l1 s1 l2 s2 (H & S & _). split; assumption.
Qed.
