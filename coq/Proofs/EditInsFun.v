(* Property C17, event level, comment insertion: the functions of Model/Parser.v below the
   components (quantity, alias, intermediate references, modifiers) and the single-line and text
   blocks, under the one-sided relation [jsim] of Proofs/EditInsDefs.v, with the logic of
   Proofs/EditInsPrim.v.  Token-neutral functions are [HN] judgements, the others lock-step
   [HL jany _ _ _ jany] judgements.  The loops run with different fuels on the two sides (the token
   lists have different lengths). *)
From Coq Require Import List Lia.
From CL Require Import Base.StrLemmas Model.Lexer Model.PText Model.CommentMask Model.Parser Model.Edits
  Proofs.EditParserProofs Proofs.EditSimDefs Proofs.EditSimQty Proofs.EditSimComp Proofs.EditSimBlock
  Proofs.EditInsDefs Proofs.EditInsPrim Proofs.EditInsSplit.
Import ListNotations.

(* ================================================================ lists *)
Lemma jsim_cons_inv m a b r1 r2 :
  jsim m (a :: r1) (b :: r2) -> swt (kind a) = false -> krel a b /\ jsim (next_mode m (kind a)) r1 r2.
Proof. intros H K. inversion H; subst; [split; assumption | congruence]. Qed.

Lemma jany_cons_inv a b r1 r2 : jany (a :: r1) (b :: r2) -> swt (kind a) = false -> jany r1 r2.
Proof. intros [m H] K. destruct (jsim_cons_inv _ _ _ _ _ H K) as [_ X]. eexists; exact X. Qed.

Lemma jsim_app_ksim m a1 a2 b1 b2 : jsim m a1 a2 -> ksim b1 b2 -> jsim m (a1 ++ b1) (a2 ++ b2).
Proof. intros Ha Hb. apply js_app; [exact Ha | apply ksim_jsim; exact Hb]. Qed.

Lemma jany_app_ksim a1 a2 b1 b2 : jany a1 a2 -> ksim b1 b2 -> jany (a1 ++ b1) (a2 ++ b2).
Proof. intros [m Ha] Hb. exists m. apply jsim_app_ksim; assumption. Qed.

Lemma jany_snoc a1 a2 t1 t2 : jany a1 a2 -> krel t1 t2 -> jany (a1 ++ [t1]) (a2 ++ [t2]).
Proof. intros Ha Ht. apply jany_app_ksim; [exact Ha | constructor; [exact Ht | constructor]]. Qed.

Lemma jany_nil_iff l1 l2 : jany l1 l2 -> (l1 = [] <-> l2 = []).
Proof. intros [m H]. exact (jsim_nil_iff _ _ _ H). Qed.

Lemma position_skipn (f : tkind -> bool) l : forall n, position f l = Some n ->
  exists t r, skipn n l = t :: r /\ f (kind t) = true.
Proof.
  induction l as [|t r IH]; intros n H; cbn [position] in H; [discriminate|].
  destruct (f (kind t)) eqn:Ft.
  - inversion H; subst. exists t, r. split; [reflexivity | exact Ft].
  - destruct (position f r) as [k|]; cbn [option_map] in H; [|discriminate]. inversion H; subst.
    cbn [skipn]. apply IH. reflexivity.
Qed.

Lemma jsim_filter_nwb m l1 l2 : jsim m l1 l2 ->
  ksim (filter (fun t => negb (is_ws_block (kind t))) l1) (filter (fun t => negb (is_ws_block (kind t))) l2).
Proof.
  induction 1 as [m | m a b r1 r2 Hab _ IH | a b cm w r1 r2 Hab Ka Hc Hn Kw _ IH].
  - constructor.
  - cbn [filter]. rewrite <- (krel_kind _ _ Hab). destruct (negb (is_ws_block (kind a))); [constructor; assumption | exact IH].
  - cbn [filter] in *. rewrite <- (krel_kind _ _ Hab), (swt_not_wsb _ Ka), Hc. cbn [is_ws_block negb]. constructor; [exact Hab | exact IH].
Qed.

(* ================================================================ tactics *)
Ltac hn_prim :=
  first [ apply HN_current_offset | apply HN_all_tokens | apply HN_error | apply HN_warn
        | (apply HN_textM_j; assumption) | (apply HN_textM_k; assumption) ].
Ltac hl_prim :=
  first [ apply HL_rest | apply HL_peek | apply HL_at_kind | apply HL_consume_rest | apply HL_ws_comments
        | (apply HL_consume; reflexivity) | (apply HL_bump; reflexivity)
        | (apply HL_until; reflexivity) | (apply HL_consume_while; reflexivity)
        | (apply HL_consume_while_noword; let k := fresh "k" in let H := fresh "H" in intros k H; destruct k; try discriminate H; reflexivity)
        | (apply HN_of; hn_prim) ].
Ltac hl_bind := eapply HL_bind; [hl_prim|].
Ltac hn_err_ret := eapply HN_bind; [first [apply HN_error | apply HN_warn]|]; intros _ _ _; apply HN_ret.

Section Fun.
  Variable cfg : pcfg.

  (* ================================================================ A. token-neutral functions *)
  Lemma parse_quantity_j ts1 ts2 :
    ksim ts1 ts2 -> HN (prel qrel anyrel) (parse_quantity cfg ts1) (parse_quantity cfg ts2).
  Proof.
    intro H. unfold parse_quantity. destruct H as [|a b r1 r2 Hab Hr]; [apply HN_panic_l|].
    apply HN_sub_block; [constructor; assumption|].
    destruct (has cfg X_ADVANCED_UNITS); [|apply parse_regular_quantity_rel].
    eapply MR_bind; [apply MR_with_recover; apply parse_advanced_quantity_rel|].
    intros [q1|] [q2|] Ho; cbn [orel] in Ho; try contradiction;
      [apply MR_ret; exact Ho | apply parse_regular_quantity_rel].
  Qed.

  Lemma check_empty_name_j n1 n2 : trel n1 n2 -> HN anyrel (check_empty_name n1) (check_empty_name n2).
  Proof.
    intro H. unfold check_empty_name. rewrite (trel_empty _ _ H).
    destruct (is_text_empty n2); [apply HN_error | apply HN_ret; exact I].
  Qed.

  Lemma parse_alias_j ts1 ts2 o1 o2 : jany ts1 ts2 ->
    HN (prel trel (orel trel)) (parse_alias cfg ts1 o1) (parse_alias cfg ts2 o2).
  Proof.
    intros [m H]. unfold parse_alias.
    assert (Hplain : HN (prel trel (orel trel)) (nt <- textM cfg o1 ts1 ;; ret (nt, @None text))
                                                (nt <- textM cfg o2 ts2 ;; ret (nt, @None text))).
    { eapply HN_bind; [apply HN_textM_j; eexists; exact H|]. intros t1 t2 Ht. apply HN_ret. split; [exact Ht | exact I]. }
    destruct (has cfg X_COMPONENT_ALIAS); [|exact Hplain].
    pose proof (jsim_split (fun k => tk_eqb k KOr) m ts1 ts2 eq_refl eq_refl eq_refl H) as X.
    destruct (position (fun k => tk_eqb k KOr) ts1) as [n1|] eqn:P1,
             (position (fun k => tk_eqb k KOr) ts2) as [n2|] eqn:P2; try contradiction; [|exact Hplain].
    destruct X as [Xn Xs].
    destruct (position_skipn _ _ _ P1) as (sep1 & a1 & E1 & K1).
    destruct (position_skipn _ _ _ P2) as (sep2 & a2 & E2 & K2).
    rewrite E1, E2 in *. apply tkb_true in K1.
    assert (Kw : swt (kind sep1) = false) by (rewrite K1; reflexivity).
    destruct (jsim_cons_inv _ _ _ _ _ Xs Kw) as [Hsep Ha].
    eapply HN_bind; [apply HN_textM_j; eexists; exact Ha|]. intros at1 at2 Hat.
    eapply HN_bind with (RA := orel trel).
    - rewrite (jsim_existsb (fun k => tk_eqb k KOr) _ _ _ eq_refl eq_refl Ha).
      destruct (existsb _ a2); [hn_err_ret; exact I|].
      rewrite (trel_empty _ _ Hat). destruct (is_text_empty at2); [hn_err_ret; exact I|].
      apply HN_ret. exact Hat.
    - intros al1 al2 Hal. eapply HN_bind; [apply HN_textM_j; eexists; exact Xn|].
      intros t1 t2 Ht. apply HN_ret. split; [exact Ht | exact Hal].
  Qed.

  (* ================================================================ B. single-line blocks *)
  Lemma metadata_entry_j : HL jany (orel mdrel) (metadata_entry cfg) (metadata_entry cfg) jany.
  Proof.
    unfold metadata_entry. eapply HL_obindM; [apply HL_consume; reflexivity | | auto]. intros m1 m2 _.
    hl_bind. intros kp1 kp2 _. hl_bind. intros [k1|] [k2|] Hk; cbn in Hk; try contradiction.
    - hl_bind. intros key1 key2 Hkey.
      hl_bind. intros c1 c2 _. hl_bind. intros vp1 vp2 _. hl_bind. intros v1 v2 Hv.
      hl_bind. intros val1 val2 Hval.
      eapply HL_bind with (RA := anyrel).
      + apply HN_of. rewrite (trel_empty _ _ Hkey), (trel_empty _ _ Hval).
        destruct (is_text_empty key2); [apply HN_error|]. destruct (is_text_empty val2); [apply HN_warn|].
        apply HN_ret. exact I.
      + intros _ _ _. apply HL_ret. cbn. split; assumption.
    - hl_bind. intros a1 a2 _. eapply HL_bind; [apply HN_of; apply HN_warn|]. intros _ _ _. apply HL_ret. exact I.
  Qed.

  Lemma section_j : HL jany (orel erel) (section_p cfg) (section_p cfg) jany.
  Proof.
    unfold section_p. eapply HL_obindM; [apply HL_consume; reflexivity | | auto]. intros e1 e2 _.
    hl_bind. intros x1 x2 _. hl_bind. intros np1 np2 _. hl_bind. intros n1 n2 Hn.
    hl_bind. intros name1 name2 Hname.
    hl_bind. intros y1 y2 _. hl_bind. intros w1 w2 _. hl_bind. intros r1 r2 Hr.
    pose proof (jany_nil_iff _ _ Hr) as Hnil.
    destruct r1 as [|a r1], r2 as [|b r2]; try (exfalso; destruct Hnil as [A B]; first [discriminate (A eq_refl) | discriminate (B eq_refl)]).
    - apply HL_ret. cbn. unfold erel. cbn. rewrite (trel_empty _ _ Hname).
      destruct (is_text_empty name2); [reflexivity|]. cbn. rewrite (trel_tx _ _ Hname). reflexivity.
    - eapply HL_bind; [apply HN_of; apply HN_warn|]. intros _ _ _. apply HL_ret. exact I.
  Qed.
  (* ================================================================ B. the text block *)
  Lemma text_block_loop_j : forall f1 f2, HL jany anyrel (text_block_loop cfg f1) (text_block_loop cfg f2) jany.
  Proof.
    induction f1 as [|f1 IH]; intro f2; [apply HL_panic_l|]. destruct f2 as [|f2]; [apply HL_panic_r|].
    cbn [text_block_loop].
    hl_bind. intros r1 r2 Hr. pose proof (jany_nil_iff _ _ Hr) as Hnil.
    destruct r1 as [|a r1], r2 as [|b r2]; try (exfalso; destruct Hnil as [A B]; first [discriminate (A eq_refl) | discriminate (B eq_refl)]).
    { apply HL_ret. exact I. }
    hl_bind. intros g1 g2 Hg.
    eapply HL_bind with (RA := anyrel).
    { destruct g1, g2; cbn in Hg; try contradiction.
      - hl_bind. intros _ _ _. apply HL_ret. exact I.
      - apply HL_ret. exact I. }
    intros _ _ _. hl_bind. intros st1 st2 _. hl_bind. intros l1 l2 Hline. hl_bind. intros n1 n2 Hn.
    eapply HL_bind with (RA := trel).
    { apply HN_of. apply HN_textM_j. destruct n1, n2; cbn in Hn; try contradiction; [|exact Hline].
      apply jany_snoc; assumption. }
    intros t1 t2 Ht.
    eapply HL_bind with (RA := anyrel).
    { apply HN_of. rewrite (trel_empty _ _ Ht). destruct (is_text_empty t2); [apply HN_ret; exact I|].
      apply HN_event. unfold erel. cbn. destruct Ht as [Hs _]. rewrite Hs. reflexivity. }
    intros _ _ _. hl_bind. intros q1 q2 Hq.
    destruct (length q1 <? length (a :: r1))%nat; [|apply HL_panic_l].
    destruct (length q2 <? length (b :: r2))%nat; [|apply HL_panic_r].
    apply IH.
  Qed.

  Lemma parse_text_block_j : HL jany anyrel (parse_text_block cfg) (parse_text_block cfg) jany.
  Proof.
    unfold parse_text_block. eapply HL_bind; [apply HN_of; apply HN_event; reflexivity|]. intros _ _ _.
    hl_bind. intros r1 r2 Hr.
    eapply HL_bind; [apply text_block_loop_j|]. intros _ _ _. apply HN_of. apply HN_event. reflexivity.
  Qed.
  (* ================================================================ B. modifiers *)
  (* The modifier loop appends what it consumes to [acc]: a parenthesised group after `&` is
     only [jsim]-related and [jsim] lists with unrelated brace modes cannot be appended.  Hence
     the loop invariant couples [acc] and the remaining tokens: [jsim m acc1 acc2] and the rest
     related in the mode after [acc1]. *)
  Lemma HJ_bind_d {A1 A2 B1 B2} (P : bp -> bp -> Prop) (R : A1 -> A2 -> Prop) (P' : A1 -> bp -> bp -> Prop)
        (Q' : B1 -> bp -> B2 -> bp -> Prop) (m1 : M A1) (m2 : M A2) (f1 : A1 -> M B1) (f2 : A2 -> M B2) :
    HJ P m1 m2 (fun a s1 b s2 => R a b /\ P' a s1 s2) ->
    (forall a1 a2, R a1 a2 -> HJ (P' a1) (f1 a1) (f2 a2) Q') -> HJ P (bind m1 f1) (bind m2 f2) Q'.
  Proof. intros Hm Hf. eapply HJ_bind; [exact Hm|]. intros a1 a2 s1 s2 [Ha S]. exact (Hf a1 a2 Ha s1 s2 S). Qed.

  Lemma HJ_peek_m m :
    HJ (St (jsim m)) peek peek (fun k1 s1 k2 s2 => k1 = k2 /\ St (fun r1 r2 => jsim m r1 r2 /\ hdk r1 = k1) s1 s2).
  Proof.
    intros s1 s2 S. cbn. rewrite !peek_of_hdk. pose proof S as (Hr & _). split; [exact (jsim_hdk _ _ _ Hr)|].
    apply (St_rest _ _ _ _ S). split; [exact Hr | reflexivity].
  Qed.

  Lemma HJ_bump_any_m m k : swt k = false ->
    HJ (St (fun r1 r2 => jsim m r1 r2 /\ hdk r1 = k)) bump_any bump_any
       (fun a s1 b s2 => (krel a b /\ kind a = k) /\ St (jsim (next_mode m k)) s1 s2).
  Proof.
    intros Kk s1 s2 S. rewrite !bump_any_step. pose proof S as ((Hr & Hk) & _).
    destruct Hr as [m | m a b r1 r2 Hab Hr | a b cm w r1 r2 Hab Ka Hc Hn Kw Hr]; cbn [hdk] in Hk.
    - exact I.
    - split; [split; [exact Hab | exact Hk]|]. apply (St_step1 _ _ _ _ _ _ _ _ S). rewrite <- Hk. exact Hr.
    - congruence.
  Qed.

  Lemma HJ_consume_mk k m : swt k = false ->
    HJ (St (jsim m)) (consume k) (consume k)
       (fun o1 s1 o2 s2 => orel (fun a b => krel a b /\ kind a = k) o1 o2 /\ St (jsim (match o1 with Some _ => next_mode m k | None => m end)) s1 s2).
  Proof.
    intros Kk s1 s2 S. rewrite !consume_step. pose proof S as (Hr & _).
    destruct Hr as [m | m a b r1 r2 Hab Hr | a b cm w r1 r2 Hab Ka Hc Hn Kw Hr].
    - destruct (tk_eqb KEof k); [exact I|]. split; [exact I | exact S].
    - rewrite <- (krel_kind _ _ Hab). destruct (tk_eqb (kind a) k) eqn:E.
      + apply tkb_true in E. split; [split; [exact Hab | exact E]|]. apply (St_step1 _ _ _ _ _ _ _ _ S). rewrite <- E. exact Hr.
      + split; [exact I | exact S].
    - rewrite <- (krel_kind _ _ Hab), (swt_neq _ _ Ka Kk). split; [exact I | exact S].
  Qed.

  Lemma HJ_bump_m k m : swt k = false ->
    HJ (St (jsim m)) (bump k) (bump k)
       (fun a s1 b s2 => (krel a b /\ kind a = k) /\ St (jsim (next_mode m k)) s1 s2).
  Proof.
    intros Kk s1 s2 S. rewrite !bump_step. pose proof S as (Hr & _).
    destruct Hr as [m | m a b r1 r2 Hab Hr | a b cm w r1 r2 Hab Ka Hc Hn Kw Hr].
    - exact I.
    - rewrite <- (krel_kind _ _ Hab). destruct (tk_eqb (kind a) k) eqn:E; [|exact I]. apply tkb_true in E.
      split; [split; [exact Hab | exact E]|]. apply (St_step1 _ _ _ _ _ _ _ _ S). rewrite <- E. exact Hr.
    - rewrite <- (krel_kind _ _ Hab), (swt_neq _ _ Ka Kk). exact I.
  Qed.

  Lemma HJ_until_m f m : f KLineComment = false -> f KBlockComment = false -> f KWs = false ->
    HJ (St (jsim m)) (until f) (until f)
       (fun o1 s1 o2 s2 => orel (jsim m) o1 o2 /\ St (jsim (match o1 with Some l => mode_after m l | None => m end)) s1 s2).
  Proof.
    intros F1 F2 F3 s1 s2 S. unfold until. pose proof S as (Hr & _).
    pose proof (jsim_split f m _ _ F1 F2 F3 Hr) as X.
    destruct (position f (b_rest s1)) as [n1|], (position f (b_rest s2)) as [n2|]; try contradiction.
    - destruct X as [X1 X2]. split; [exact X1 | exact (St_advance _ _ _ _ _ _ S X2)].
    - split; [exact I | exact S].
  Qed.

  Lemma HJ_with_recover_m {A B} (R : A -> B -> Prop) (m : mode) (mm : A -> mode)
        (m1 : M (option A)) (m2 : M (option B)) :
    HJ (St (jsim m)) m1 m2
       (fun o1 s1 o2 s2 => orel R o1 o2 /\ St (jsim (match o1 with Some a => mm a | None => m end)) s1 s2) ->
    HJ (St (jsim m)) (with_recover m1) (with_recover m2)
       (fun o1 s1 o2 s2 => orel R o1 o2 /\ St (jsim (match o1 with Some a => mm a | None => m end)) s1 s2).
  Proof.
    intros H s1 s2 S. unfold with_recover. specialize (H s1 s2 S).
    destruct (m1 s1) as [[o1 s1']|]; [|exact I]. destruct (m2 s2) as [[o2 s2']|]; [|destruct o1; exact I].
    destruct H as (Ho & H1). destruct o1 as [a|], o2 as [b|]; cbn in Ho; try contradiction.
    - split; [exact Ho | exact H1].
    - split; [exact I|]. destruct S as (Sr & Sa & _). destruct H1 as (_ & _ & Se). repeat split; cbn; assumption.
  Qed.

  Definition paren_group : M (option (list tok)) :=
    with_recover (
      op <-? consume KOpenParen ;;
      inner <-? until (fun k => tk_eqb k KCloseParen) ;;
      cp <- bump KCloseParen ;;
      ret (Some (op :: inner ++ [cp]))).

  Lemma paren_group_m m :
    HJ (St (jsim m)) paren_group paren_group
       (fun o1 s1 o2 s2 => orel (jsim m) o1 o2 /\ St (jsim (match o1 with Some l => mode_after m l | None => m end)) s1 s2).
  Proof.
    unfold paren_group. apply (HJ_with_recover_m (jsim m) m (fun l => mode_after m l)).
    unfold obindM. eapply HJ_bind_d; [apply (HJ_consume_mk KOpenParen m); reflexivity|].
    intros [op1|] [op2|] Hop; cbn [orel] in Hop; try contradiction; cbv beta iota;
      [|apply HJ_ret; intros s1 s2 S; split; [exact I | exact S]].
    destruct Hop as [Hop Kop]. cbn [next_mode].
    eapply HJ_bind_d; [apply (HJ_until_m (fun k => tk_eqb k KCloseParen) m); reflexivity|].
    intros [in1|] [in2|] Hin; cbn [orel] in Hin; try contradiction; cbv beta iota;
      [|apply HJ_ret; intros s1 s2 S; split; [exact I | exact S]].
    eapply HJ_bind_d; [apply (HJ_bump_m KCloseParen (mode_after m in1)); reflexivity|].
    intros cp1 cp2 [Hcp Kcp]. cbv beta. apply HJ_ret. intros s1 s2 S. cbn [next_mode] in S. split.
    - cbn [orel]. apply j_cons; [exact Hop|]. rewrite Kop. cbn [next_mode].
      apply jsim_app_ksim; [exact Hin | constructor; [exact Hcp | constructor]].
    - cbn [mode_after]. rewrite Kop. cbn [next_mode]. rewrite js_mode_after_app. cbn [mode_after].
      rewrite Kcp. cbn [next_mode]. exact S.
  Qed.

  Lemma acc_snoc m acc1 acc2 t1 t2 k : jsim m acc1 acc2 -> krel t1 t2 -> kind t1 = k ->
    jsim m (acc1 ++ [t1]) (acc2 ++ [t2]) /\ next_mode (mode_after m acc1) k = mode_after m (acc1 ++ [t1]).
  Proof.
    intros Ha Ht Kt. split; [apply jsim_app_ksim; [exact Ha | constructor; [exact Ht | constructor]]|].
    rewrite js_mode_after_app. cbn [mode_after]. rewrite Kt. reflexivity.
  Qed.

  Lemma modifiers_loop_m : forall f1 f2 m acc1 acc2, jsim m acc1 acc2 ->
    HJ (St (jsim (mode_after m acc1))) (modifiers_loop cfg f1 acc1) (modifiers_loop cfg f2 acc2)
       (fun a s1 b s2 => jany a b /\ St jany s1 s2).
  Proof.
    induction f1 as [|f1 IH]; intros f2 m acc1 acc2 Hacc; [apply HJ_panic_l|].
    destruct f2 as [|f2]; [apply HJ_panic_r|]. cbn [modifiers_loop].
    assert (Hstep : forall k t1 t2, krel t1 t2 /\ kind t1 = k ->
              HJ (St (jsim (next_mode (mode_after m acc1) k)))
                 (modifiers_loop cfg f1 (acc1 ++ [t1])) (modifiers_loop cfg f2 (acc2 ++ [t2]))
                 (fun a s1 b s2 => jany a b /\ St jany s1 s2)).
    { intros k t1 t2 [Ht Kt]. destruct (acc_snoc m acc1 acc2 t1 t2 k Hacc Ht Kt) as [Hacc' Em].
      rewrite Em. apply IH. exact Hacc'. }
    eapply HJ_bind_d; [apply HJ_peek_m|]. intros k1 k2 <-. cbv beta.
    destruct k1;
      try (apply HJ_ret; intros s1 s2 S; split; [eexists; exact Hacc|];
           apply (St_mono _ _ _ _ (fun l1 l2 (X : jsim _ l1 l2 /\ _) => jsim_jany _ _ _ (proj1 X)) S));
      try (eapply HJ_bind_d; [apply HJ_bump_any_m; reflexivity|]; intros t1 t2 Ht; cbv beta; apply Hstep; exact Ht).
    eapply HJ_bind_d; [apply HJ_bump_any_m; reflexivity|]. intros t1 t2 Ht. cbv beta.
    destruct (has cfg X_INTERMEDIATE_PREPARATIONS); [|apply Hstep; exact Ht].
    destruct Ht as [Ht Kt]. destruct (acc_snoc m acc1 acc2 t1 t2 KAnd Hacc Ht Kt) as [Hacc' Em]. rewrite Em.
    eapply HJ_bind_d; [apply (paren_group_m (mode_after m (acc1 ++ [t1])))|].
    intros [ts1|] [ts2|] Hts; cbn [orel] in Hts; try contradiction; cbv beta iota.
    - replace (acc1 ++ t1 :: ts1) with ((acc1 ++ [t1]) ++ ts1) by (rewrite <- app_assoc; reflexivity).
      replace (acc2 ++ t2 :: ts2) with ((acc2 ++ [t2]) ++ ts2) by (rewrite <- app_assoc; reflexivity).
      rewrite <- js_mode_after_app. apply IH. apply js_app; assumption.
    - apply IH. exact Hacc'.
  Qed.

  (* In the shape [HL jany jany _ _ jany].  With the hypothesis [jany acc1 acc2] alone the judgement is
     false: acc1 = acc2 = [`{`] and the remaining tokens `&(a b)` / `&(a/*c*/ b)` give two results that are not
     [jany] (the inserted comment would lie inside the brace opened in [acc]).  It holds when [acc] is
     lock-step and free of braces, in particular for the initial [acc = []]. *)
  Definition no_brace (t : tok) : bool := negb (tk_eqb (kind t) KOpenBrace || tk_eqb (kind t) KCloseBrace).

  Lemma mode_after_no_brace l : forall m, forallb no_brace l = true -> mode_after m l = m.
  Proof.
    induction l as [|t r IH]; intros m H; [reflexivity|]. cbn [forallb mode_after] in *.
    apply andb_prop in H as [Ht Hr]. rewrite IH by exact Hr. unfold no_brace in Ht.
    destruct (kind t); try reflexivity; discriminate.
  Qed.

  Lemma modifiers_loop_j : forall f1 f2 acc1 acc2, ksim acc1 acc2 -> forallb no_brace acc1 = true ->
    HL jany jany (modifiers_loop cfg f1 acc1) (modifiers_loop cfg f2 acc2) jany.
  Proof.
    intros f1 f2 acc1 acc2 Hacc Hnb s1 s2 S. pose proof S as ([m Hr] & _).
    apply (modifiers_loop_m f1 f2 m acc1 acc2 (ksim_jsim m _ _ Hacc) s1 s2).
    rewrite (mode_after_no_brace _ m Hnb). exact (St_rest _ _ _ _ S Hr).
  Qed.

  Lemma modifiers_j : HL jany jany (modifiers cfg) (modifiers cfg) jany.
  Proof.
    unfold modifiers. destruct (negb (has cfg X_COMPONENT_MODIFIERS)); [apply HL_ret; exact jany_nil|].
    hl_bind. intros r1 r2 _. apply modifiers_loop_j; [constructor | reflexivity].
  Qed.
  (* ================================================================ A. intermediate references, modifiers *)
  Lemma position_cons_false (f : tkind -> bool) t r n :
    f (kind t) = false -> position f (t :: r) = Some n -> exists e, n = S e /\ position f r = Some e.
  Proof.
    intros Ft H. cbn [position] in H. rewrite Ft in H. destruct (position f r) as [e|]; cbn [option_map] in H; [|discriminate].
    inversion H; subst. exists e. split; reflexivity.
  Qed.

  Lemma tl_skipn (n : nat) : forall l : list tok, tl (skipn n l) = skipn (S n) l.
  Proof. induction n as [|n IH]; intros [|t r]; try reflexivity. cbn [skipn] in *. apply IH. Qed.

  Lemma inter_inner e (t : tok) (r : list tok) : firstn (S e - 1) (tl (firstn (S (S e)) (t :: r))) = firstn e r.
  Proof.
    replace (S e - 1)%nat with e by lia. change (firstn (S (S e)) (t :: r)) with (t :: firstn (S e) r).
    cbn [tl]. rewrite firstn_firstn. f_equal. lia.
  Qed.

  Lemma parse_inter_j ts1 ts2 : jany ts1 ts2 -> HN (prel (orel irel) jany) (parse_inter ts1) (parse_inter ts2).
  Proof.
    intros [m H]. unfold parse_inter. pose proof (jsim_nil_iff _ _ _ H) as Hnil.
    destruct ts1 as [|t01 r1], ts2 as [|t02 r2];
      try (exfalso; destruct Hnil as [A B]; first [discriminate (A eq_refl) | discriminate (B eq_refl)]).
    { apply HN_ret. split; [exact I | exact jany_nil]. }
    pose proof (jsim_kinds_head _ _ _ _ _ H) as H0. rewrite <- (krel_kind _ _ H0).
    destruct (tk_eqb (kind t01) KOpenParen) eqn:K0; cbn [negb];
      [|apply HN_ret; split; [exact I | eexists; exact H]].
    apply tkb_true in K0.
    pose proof (jsim_split (fun k => tk_eqb k KCloseParen) m _ _ eq_refl eq_refl eq_refl H) as X.
    destruct (position (fun k => tk_eqb k KCloseParen) (t01 :: r1)) as [n1|] eqn:P1,
             (position (fun k => tk_eqb k KCloseParen) (t02 :: r2)) as [n2|] eqn:P2; try contradiction;
      [|apply HN_panic_l].
    destruct X as [Xn Xs]. cbv zeta.
    (* the tokens after `)` *)
    assert (Haf : jany (skipn (S n1) (t01 :: r1)) (skipn (S n2) (t02 :: r2))).
    { destruct (position_skipn _ _ _ P1) as (cp1 & a1 & E1 & C1). destruct (position_skipn _ _ _ P2) as (cp2 & a2 & E2 & C2).
      rewrite <- (tl_skipn n1), <- (tl_skipn n2).
      rewrite E1, E2 in *. cbn [tl]. apply tkb_true in C1.
      assert (Kw : swt (kind cp1) = false) by (rewrite C1; reflexivity).
      destruct (jsim_cons_inv _ _ _ _ _ Xs Kw) as [_ Y]. eexists; exact Y. }
    remember (skipn (S n1) (t01 :: r1)) as af1 eqn:Ea1. remember (skipn (S n2) (t02 :: r2)) as af2 eqn:Ea2.
    clear Ea1 Ea2.
    (* the tokens between the parentheses *)
    assert (F01 : tk_eqb (kind t01) KCloseParen = false) by (rewrite K0; reflexivity).
    assert (F02 : tk_eqb (kind t02) KCloseParen = false) by (rewrite <- (krel_kind _ _ H0), K0; reflexivity).
    destruct (position_cons_false _ _ _ _ F01 P1) as (e1 & -> & Q1).
    destruct (position_cons_false _ _ _ _ F02 P2) as (e2 & -> & Q2).
    rewrite !inter_inner. cbn [firstn] in Xn.
    assert (Kw0 : swt (kind t01) = false) by (rewrite K0; reflexivity).
    destruct (jsim_cons_inv _ _ _ _ _ Xn Kw0) as [_ Hin].
    pose proof (jsim_filter_nwb _ _ _ Hin) as Hf. pose proof (Forall2_rev' _ _ _ Hf) as Hrv.
    remember (firstn (S (S e1)) (t01 :: r1)) as sl1 eqn:Es1. remember (firstn (S (S e2)) (t02 :: r2)) as sl2 eqn:Es2.
    remember (firstn e1 r1) as in1 eqn:Ei1. remember (firstn e2 r2) as in2 eqn:Ei2.
    clear Es1 Es2 Ei1 Ei2 Hin Xn Xs Q1 Q2 P1 P2.
    remember (filter (fun t => negb (is_ws_block (kind t))) in1) as f1 eqn:Ef1.
    remember (filter (fun t => negb (is_ws_block (kind t))) in2) as f2 eqn:Ef2. clear Ef1 Ef2.
    assert (Herr : forall c l1 l2, HN (prel (orel irel) jany) (error c l1 ;;; ret (@None interdata, af1))
                                      (error c l2 ;;; ret (@None interdata, af2))).
    { intros c l1 l2. hn_err_ret. split; [exact I | exact Haf]. }
    assert (Hgood : forall i1 i2 c rl sc, krel i1 i2 -> c && tk_eqb (kind i2) KInt = true ->
      HN (prel (orel irel) jany)
         (if digits_val (tstr i1) <=? i16_max
          then ret (Some {| im_relative := rl; im_section := sc; im_val := digits_val (tstr i1); im_span := tokens_span sl1 |}, af1)
          else error D_INTER_INT [tok_span i1] ;;; ret (None, af1))
         (if digits_val (tstr i2) <=? i16_max
          then ret (Some {| im_relative := rl; im_section := sc; im_val := digits_val (tstr i2); im_span := tokens_span sl2 |}, af2)
          else error D_INTER_INT [tok_span i2] ;;; ret (None, af2))).
    { intros i1 i2 c rl sc Hi E. rewrite (krel_int_tstr _ _ _ Hi E).
      destruct (digits_val (tstr i2) <=? i16_max); [|apply Herr]. apply HN_ret. split; [reflexivity | exact Haf]. }
    destruct Hf as [|a1 a2 g1 g2 Ha Hg]; [apply Herr|].
    destruct Hg as [|b1 b2 g1 g2 Hb Hg].
    { cbv iota. rewrite (krel_kind _ _ Ha). destruct (tk_eqb (kind a2) KInt) eqn:E; [|apply Herr].
      apply (Hgood a1 a2 true); [exact Ha | exact E]. }
    destruct Hg as [|c1 c2 g1 g2 Hc Hg].
    { cbv iota. rewrite (krel_kind _ _ Ha), (krel_kind _ _ Hb).
      destruct (tk_eqb (kind a2) KTilde && tk_eqb (kind b2) KInt) eqn:E1; [apply (Hgood b1 b2 _ _ _ Hb E1)|].
      destruct (tk_eqb (kind a2) KEq && tk_eqb (kind b2) KInt) eqn:E2; [apply (Hgood b1 b2 _ _ _ Hb E2)|].
      destruct ((tk_eqb (kind a2) KMinus || tk_eqb (kind a2) KPlus) && tk_eqb (kind b2) KInt); apply Herr. }
    destruct Hg as [|d1 d2 g1 g2 Hd Hg].
    { cbv iota. rewrite (krel_kind _ _ Ha), (krel_kind _ _ Hb), (krel_kind _ _ Hc).
      destruct (tk_eqb (kind a2) KEq && tk_eqb (kind b2) KTilde && tk_eqb (kind c2) KInt) eqn:E1;
        [apply (Hgood c1 c2 _ _ _ Hc E1)|].
      destruct (tk_eqb (kind a2) KTilde && tk_eqb (kind b2) KEq && tk_eqb (kind c2) KInt); [apply Herr|].
      destruct ((tk_eqb (kind b2) KMinus || tk_eqb (kind b2) KPlus) && tk_eqb (kind c2) KInt); apply Herr. }
    cbv iota zeta.
    remember (rev (a1 :: b1 :: c1 :: d1 :: g1)) as rv1 eqn:Er1. remember (rev (a2 :: b2 :: c2 :: d2 :: g2)) as rv2 eqn:Er2.
    clear Er1 Er2. destruct Hrv as [|i1 i2 w1 w2 Hi Hw]; [apply Herr|].
    destruct Hw as [|s1 s2 w1 w2 Hs Hw]; [apply Herr|].
    rewrite (krel_kind _ _ Hi), (krel_kind _ _ Hs).
    destruct ((tk_eqb (kind s2) KMinus || tk_eqb (kind s2) KPlus) && tk_eqb (kind i2) KInt); apply Herr.
  Qed.
  Lemma parse_mods_loop_j : forall f1 f2 ts1 ts2 ms1 ms2 mods i1 i2, jany ts1 ts2 -> orel irel i1 i2 ->
    HN (prel eq (orel irel)) (parse_mods_loop cfg f1 ts1 ms1 mods i1) (parse_mods_loop cfg f2 ts2 ms2 mods i2).
  Proof.
    induction f1 as [|f1 IH]; intros f2 ts1 ts2 ms1 ms2 mods i1 i2 Hts Hi; [apply HN_panic_l|].
    destruct f2 as [|f2]; [apply HN_panic_r|]. cbn [parse_mods_loop].
    pose proof (jany_nil_iff _ _ Hts) as Hnil.
    destruct ts1 as [|t1 r1], ts2 as [|t2 r2];
      try (exfalso; destruct Hnil as [A B]; first [discriminate (A eq_refl) | discriminate (B eq_refl)]).
    { apply HN_ret. split; [reflexivity | exact Hi]. }
    assert (Ht : krel t1 t2) by (destruct Hts as [m H]; exact (jsim_kinds_head _ _ _ _ _ H)).
    rewrite <- (krel_kind _ _ Ht). destruct (mod_bit (kind t1)) as [bit|] eqn:Eb; [|apply HN_panic_l].
    assert (Kw : swt (kind t1) = false) by (destruct (kind t1); try discriminate Eb; reflexivity).
    pose proof (jany_cons_inv _ _ _ _ Hts Kw) as Hr.
    eapply HN_bind with (RA := prel (orel irel) jany).
    - destruct (tk_eqb (kind t1) KAnd && has cfg X_INTERMEDIATE_PREPARATIONS);
        [apply parse_inter_j; exact Hr | apply HN_ret; split; assumption].
    - intros [j1 q1] [j2 q2] [Hj Hq]. cbn [fst snd] in Hj, Hq.
      destruct (N.land mods bit =? bit); [|apply IH; assumption].
      eapply HN_bind; [apply HN_error|]. intros _ _ _. apply IH; assumption.
  Qed.

  Lemma parse_modifiers_j mts1 mts2 p1 p2 : jany mts1 mts2 ->
    HN mrel (parse_modifiers cfg mts1 p1) (parse_modifiers cfg mts2 p2).
  Proof.
    intro H. unfold parse_modifiers. pose proof (jany_nil_iff _ _ H) as Hnil.
    destruct mts1 as [|a r1], mts2 as [|b r2];
      try (exfalso; destruct Hnil as [A B]; first [discriminate (A eq_refl) | discriminate (B eq_refl)]).
    { apply HN_ret. split; [reflexivity | exact I]. }
    eapply HN_bind.
    - apply parse_mods_loop_j with (i1 := None) (i2 := None); [exact H | exact I].
    - intros [m1 j1] [m2 j2] [Hm Hj]. apply HN_ret. split; assumption.
  Qed.
End Fun.
