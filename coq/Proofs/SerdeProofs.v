(* Proofs about Model/Serde.v: YAML-as-JSON round trip, flag strings, totality of [ser] on typed
   values with the announced object keys (part D), and the generic round trip (part E):
     wf_desc d = true -> typed d v -> ser d v = Some j -> de d j = Some (norm d v) /\ ser d (norm d v) = Some j
   by induction over [desc] (nested induction principle [desc_ind2]).  Nothing here mentions cooklang. *)
From Coq Require Import Arith PeanoNat.
From CL Require Import Base.Chars Base.StrLemmas Model.Serde.

(* ------------------------------------------------------------------ generic list lemmas *)

Lemma mem_In k l : mem k l = true <-> In k l.
Proof.
  induction l as [|x r IH]; cbn.
  - split; [discriminate | tauto].
  - rewrite orb_true_iff, IH, str_eqb_eq. tauto.
Qed.

Lemma mem_false k l : mem k l = false <-> ~ In k l.
Proof. rewrite <- mem_In. destruct (mem k l); intuition congruence. Qed.

Lemma nodupb_NoDup l : nodupb l = true <-> NoDup l.
Proof.
  induction l as [|x r IH]; cbn.
  - split; [constructor | reflexivity].
  - rewrite andb_true_iff, negb_true_iff, mem_false, IH. split.
    + intros [A B]. constructor; assumption.
    + intro H. inversion H; subst. tauto.
Qed.

Lemma lookup_notin {A} k (m : list (str * A)) : ~ In k (map fst m) -> lookup k m = None.
Proof.
  induction m as [|[k' a] r IH]; cbn; intro H; [reflexivity|].
  destruct (str_eqb k' k) eqn:E.
  - apply str_eqb_eq in E. subst. tauto.
  - apply IH. tauto.
Qed.

Lemma lookup_app {A} k (m1 m2 : list (str * A)) :
  lookup k (m1 ++ m2) = match lookup k m1 with Some a => Some a | None => lookup k m2 end.
Proof.
  induction m1 as [|[k' a] r IH]; cbn; [reflexivity|].
  destruct (str_eqb k' k); [reflexivity | apply IH].
Qed.

Lemma lookup_head {A} k (a : A) m : lookup k ((k, a) :: m) = Some a.
Proof. cbn. rewrite str_eqb_refl. reflexivity. Qed.

Lemma sequence_Forall2 {A B} (f : A -> option B) l r :
  Forall2 (fun x y => f x = Some y) l r -> sequence (map f l) = Some r.
Proof.
  induction 1 as [|x y l r H _ IH]; cbn; [reflexivity|].
  rewrite H, IH. reflexivity.
Qed.

Lemma sequence_inv {A B} (f : A -> option B) l r :
  sequence (map f l) = Some r -> Forall2 (fun x y => f x = Some y) l r.
Proof.
  revert r. induction l as [|x l IH]; cbn; intros r H.
  - injection H as <-. constructor.
  - destruct (f x) eqn:E; [|discriminate].
    destruct (sequence (map f l)) eqn:E2; [|discriminate].
    injection H as <-. constructor; [assumption | apply IH; reflexivity].
Qed.

Lemma Forall_exists_Forall2 {A B} (R : A -> B -> Prop) l :
  Forall (fun x => exists y, R x y) l -> exists r, Forall2 R l r.
Proof.
  induction 1 as [|x l [y Hy] _ [r Hr]].
  - exists []. constructor.
  - exists (y :: r). constructor; assumption.
Qed.

Lemma F2_impl {A B} (P Q : A -> B -> Prop) l r :
  (forall a b, P a b -> Q a b) -> Forall2 P l r -> Forall2 Q l r.
Proof. intros H F. induction F; constructor; auto. Qed.

Lemma F2_flip {A B} (P : A -> B -> Prop) l r : Forall2 P l r -> Forall2 (fun b a => P a b) r l.
Proof. induction 1; constructor; auto. Qed.

Lemma find_var_nth {A} (cvs : list (str * A)) :
  NoDup (map fst cvs) ->
  forall i n a k, nth_error cvs i = Some (n, a) -> find_var n cvs k = Some ((k + i)%nat, a).
Proof.
  induction cvs as [|[m b] r IH]; intros ND i n a k H.
  - destruct i; discriminate.
  - cbn in ND. inversion ND as [|? ? Hnin ND']; subst.
    destruct i as [|i]; cbn in H |- *.
    + injection H as -> ->. rewrite str_eqb_refl. replace (k + 0)%nat with k by lia. reflexivity.
    + destruct (str_eqb m n) eqn:E.
      * apply str_eqb_eq in E. subst. exfalso. apply Hnin.
        apply nth_error_In in H. apply (in_map fst) in H. exact H.
      * rewrite (IH ND' i n a (S k) H). f_equal. f_equal. lia.
Qed.

(* ------------------------------------------------------------------ induction principles *)

Section yaml_ind2.
  Variable P : yaml -> Prop.
  Hypotheses (HNull : P YNull) (HBool : forall b, P (YBool b)) (HNum : forall a, P (YNum a))
             (HStr : forall s, P (YStr s))
             (HSeq : forall l, Forall P l -> P (YSeq l))
             (HMap : forall m, Forall (fun kv => P (fst kv) /\ P (snd kv)) m -> P (YMap m))
             (HTag : forall t y, P y -> P (YTag t y)).
  Fixpoint yaml_ind2 (y : yaml) : P y :=
    match y with
    | YNull => HNull | YBool b => HBool b | YNum a => HNum a | YStr s => HStr s
    | YSeq l => HSeq l ((fix go (l : list yaml) : Forall P l :=
                           match l with [] => Forall_nil _ | x :: r => Forall_cons x (yaml_ind2 x) (go r) end) l)
    | YMap m => HMap m ((fix go (m : list (yaml * yaml)) : Forall (fun kv => P (fst kv) /\ P (snd kv)) m :=
                           match m with
                           | [] => Forall_nil _
                           | kv :: r => Forall_cons kv
                                          (match kv as kv0 return P (fst kv0) /\ P (snd kv0) with
                                           | (k, v) => conj (yaml_ind2 k) (yaml_ind2 v) end) (go r)
                           end) m)
    | YTag t y' => HTag t y' (yaml_ind2 y')
    end.
End yaml_ind2.

Section desc_ind2.
  Variable P : desc -> Prop.
  Hypotheses (HUnit : P DUnit) (HSkip : forall s, P (DSkip s)) (HBool : P DBool)
             (HNum : forall k, P (DNum k)) (HStr : P DStr)
             (HOpt : forall d, P d -> P (DOpt d)) (HSeq : forall d, P d -> P (DSeq d))
             (HNew : forall d, P d -> P (DNew d))
             (HStruct : forall fs, Forall (fun f => P (snd f)) fs -> P (DStruct fs))
             (HEnum : forall r vs, Forall (fun x => P (snd x)) vs -> P (DEnum r vs))
             (HFlags : forall fl, P (DFlags fl)) (HYaml : forall tm, P (DYaml tm)).
  Fixpoint desc_ind2 (d : desc) : P d :=
    match d with
    | DUnit => HUnit | DSkip s => HSkip s | DBool => HBool | DNum k => HNum k | DStr => HStr
    | DOpt d' => HOpt d' (desc_ind2 d') | DSeq d' => HSeq d' (desc_ind2 d') | DNew d' => HNew d' (desc_ind2 d')
    | DStruct fs =>
        HStruct fs ((fix go (l : list (str * str * fkind * desc)) : Forall (fun f => P (snd f)) l :=
                       match l with
                       | [] => Forall_nil _
                       | f :: r => Forall_cons f (match f as f0 return P (snd f0) with (_, d') => desc_ind2 d' end) (go r)
                       end) fs)
    | DEnum r vs =>
        HEnum r vs ((fix go (l : list (str * str * desc)) : Forall (fun x => P (snd x)) l :=
                       match l with
                       | [] => Forall_nil _
                       | x :: r => Forall_cons x (match x as x0 return P (snd x0) with (_, d') => desc_ind2 d' end) (go r)
                       end) vs)
    | DFlags fl => HFlags fl | DYaml tm => HYaml tm
    end.
End desc_ind2.

(* ------------------------------------------------------------------ YAML as JSON *)

Lemma yaml_roundtrip : forall y, json_safe y = true -> exists j, yser y = Some j /\ yde j = Some y.
Proof.
  induction y using yaml_ind2; intro S; cbn in S.
  - exists JNull. split; reflexivity.
  - exists (JBool b). split; reflexivity.
  - exists (JNum a). split; reflexivity.
  - exists (JStr s). split; reflexivity.
  - (* sequence *)
    assert (E : exists js, Forall2 (fun y j => yser y = Some j /\ yde j = Some y) l js).
    { apply Forall_exists_Forall2. rewrite forallb_forall in S. rewrite Forall_forall in *.
      intros y Hy. apply H; [assumption | apply S; assumption]. }
    destruct E as [js F]. exists (JArr js). cbn. split.
    + rewrite (sequence_Forall2 yser l js); [reflexivity|].
      eapply F2_impl; [|exact F]. cbn. tauto.
    + rewrite (sequence_Forall2 yde js l); [reflexivity|].
      apply F2_flip. eapply F2_impl; [|exact F]. cbn. tauto.
  - (* mapping *)
    apply andb_true_iff in S. destruct S as [S1 S2].
    destruct (sequence (map (fun kv => ystr_key (fst kv)) m)) as [ks|] eqn:EK; [|discriminate].
    apply sequence_inv in EK.
    assert (E : exists js, Forall2 (fun kv kj => (exists k, fst kv = YStr k /\ fst kj = k) /\
                                              yser (snd kv) = Some (snd kj) /\ yde (snd kj) = Some (snd kv)) m js).
    { apply Forall_exists_Forall2. rewrite forallb_forall in S1. rewrite Forall_forall in *.
      intros [k v] Hkv. specialize (S1 _ Hkv). specialize (H _ Hkv). cbn in *.
      destruct k; cbn in S1; try discriminate.
      destruct H as [_ Hv]. destruct (Hv S1) as (j & A & B).
      exists (s, j). cbn. split; [exists s; split; reflexivity | split; assumption]. }
    destruct E as [js F]. exists (JObj js). cbn.
    assert (Hks : map fst js = ks).
    { clear - EK F. revert ks EK. induction F as [|[k v] [k' j] m js Hx _ IH]; intros ks EK; inversion EK; subst.
      - reflexivity.
      - cbn. f_equal; [|apply IH; assumption].
        destruct Hx as [[k0 [A B]] _]. cbn in *. subst. cbn in *. congruence. }
    split.
    + rewrite (sequence_Forall2 _ m js); [reflexivity|].
      eapply F2_impl; [|exact F]. intros [k v] [k' j] [[k0 [A B]] [C _]]. cbn in *. subst. cbn.
      rewrite C. reflexivity.
    + rewrite Hks, S2.
      rewrite (sequence_Forall2 _ js m); [reflexivity|].
      apply F2_flip. eapply F2_impl; [|exact F].
      intros [k v] [k' j] [[k0 [A B]] [_ C]]. cbn in *. subst. rewrite C. reflexivity.
  - discriminate.
Qed.

Lemma yser_map_obj m j : yser (YMap m) = Some j -> exists o, j = JObj o.
Proof. cbn. destruct (sequence _); cbn; intro H; [injection H as <-; eauto | discriminate]. Qed.

(* ------------------------------------------------------------------ bitflags strings *)

Definition nows (a : str) : Prop := forallb (fun c => negb (uni_ws c) && negb (c =? 124)) a = true.

Lemma nows_app a b : nows (a ++ b) <-> nows a /\ nows b.
Proof. unfold nows. rewrite forallb_app, andb_true_iff. tauto. Qed.

Lemma nows_rev a : nows a -> nows (rev a).
Proof.
  induction a as [|c r IH]; cbn; intro H; [exact H|].
  apply nows_app. unfold nows in *. cbn in *. apply andb_true_iff in H. destruct H as [A B].
  split; [apply IH; exact B | rewrite A; reflexivity].
Qed.

Lemma drop_ws_nows a : nows a -> drop_ws a = a.
Proof.
  destruct a as [|c r]; cbn; intro H; [reflexivity|].
  unfold nows in H. cbn in H. apply andb_true_iff in H. destruct H as [A _].
  apply andb_true_iff in A. destruct A as [A _]. apply negb_true_iff in A. rewrite A. reflexivity.
Qed.

Lemma trim_nows a : nows a -> trim a = a.
Proof.
  intro H. unfold trim. rewrite (drop_ws_nows a H), (drop_ws_nows (rev a) (nows_rev a H)).
  apply rev_involutive.
Qed.

Lemma trim_nows_sp a : nows a -> a <> [] -> trim (a ++ [32]) = a.
Proof.
  intros H Hne. unfold trim.
  assert (E : drop_ws (a ++ [32]) = a ++ [32]).
  { destruct a as [|c r]; [congruence|]. cbn.
    unfold nows in H. cbn in H. apply andb_true_iff in H. destruct H as [A _].
    apply andb_true_iff in A. destruct A as [A _]. apply negb_true_iff in A. rewrite A. reflexivity. }
  rewrite E, rev_app_distr. cbn [rev app]. cbn [drop_ws].
  replace (uni_ws 32) with true by reflexivity.
  rewrite (drop_ws_nows (rev a) (nows_rev a H)). apply rev_involutive.
Qed.

Lemma trim_sp h : trim (32 :: h) = trim h.
Proof. unfold trim. cbn [drop_ws]. replace (uni_ws 32) with true by reflexivity. reflexivity. Qed.

Lemma split_bar_nonnil s : split_bar s <> [].
Proof. destruct s as [|c r]; cbn; [discriminate|]. destruct (c =? 124); [discriminate|]. destruct (split_bar r); discriminate. Qed.

Definition nobar (a : str) : Prop := forallb (fun c => negb (c =? 124)) a = true.

Lemma nows_nobar a : nows a -> nobar a.
Proof.
  unfold nows, nobar. induction a as [|c r IH]; cbn; [tauto|]. intro H.
  apply andb_true_iff in H. destruct H as [A B]. apply andb_true_iff in A. destruct A as [_ A].
  rewrite A. exact (IH B).
Qed.

Lemma nobar_app a b : nobar a -> nobar b -> nobar (a ++ b).
Proof. unfold nobar. rewrite forallb_app. intros -> ->. reflexivity. Qed.

Lemma split_bar_nobar a : nobar a -> split_bar a = [a].
Proof.
  induction a as [|c r IH]; cbn; intro H; [reflexivity|].
  unfold nobar in H. cbn in H. apply andb_true_iff in H. destruct H as [A B].
  apply negb_true_iff in A. rewrite A.
  rewrite (IH B). reflexivity.
Qed.

Lemma split_bar_app a rest : nobar a -> split_bar (a ++ 124 :: rest) = a :: split_bar rest.
Proof.
  induction a as [|c r IH]; cbn; intro H; [reflexivity|].
  unfold nobar in H. cbn in H. apply andb_true_iff in H. destruct H as [A B].
  apply negb_true_iff in A. rewrite A.
  rewrite (IH B). reflexivity.
Qed.

Lemma split_bar_sp x : split_bar (32 :: x) = match split_bar x with h :: t => (32 :: h) :: t | [] => [[32]] end.
Proof. reflexivity. Qed.

Definition cleanP (n : str) : Prop := nows n /\ n <> [].

Lemma clean_name_P n : clean_name n = true -> cleanP n /\ starts_0x n = false.
Proof.
  unfold clean_name. destruct n as [|c r]; [discriminate|]. intro H.
  apply andb_true_iff in H. destruct H as [A B]. apply negb_true_iff in B.
  split; [split; [exact A | discriminate] | exact B].
Qed.

Lemma split_join sel : Forall cleanP sel -> sel <> [] -> map trim (split_bar (join_bar sel)) = sel.
Proof.
  induction sel as [|a r IH]; intros F Hne; [congruence|].
  inversion F as [|? ? [Ha Hane] Fr]; subst.
  destruct r as [|b r'].
  - cbn [join_bar]. rewrite (split_bar_nobar a (nows_nobar a Ha)). cbn. rewrite (trim_nows a Ha). reflexivity.
  - change (join_bar (a :: b :: r')) with (a ++ sep_bar ++ join_bar (b :: r')).
    unfold sep_bar.
    replace (a ++ [32; 124; 32] ++ join_bar (b :: r')) with ((a ++ [32]) ++ 124 :: (32 :: join_bar (b :: r')))
      by (rewrite <- app_assoc; reflexivity).
    rewrite split_bar_app.
    2:{ apply nobar_app; [exact (nows_nobar a Ha) | reflexivity]. }
    rewrite split_bar_sp.
    specialize (IH Fr ltac:(discriminate)).
    destruct (split_bar (join_bar (b :: r'))) as [|h t] eqn:E; [exfalso; exact (split_bar_nonnil _ E)|].
    cbn [map] in IH |- *. rewrite (trim_nows_sp a Ha Hane), trim_sp. rewrite IH. reflexivity.
Qed.

Lemma drop_ws_snoc x c : uni_ws c = false -> drop_ws (x ++ [c]) <> [].
Proof.
  intro H. induction x as [|d r IH]; cbn.
  - rewrite H. discriminate.
  - destruct (uni_ws d); [exact IH | discriminate].
Qed.

Lemma trim_nonempty c s : uni_ws c = false -> trim (c :: s) <> [].
Proof.
  intro H. unfold trim. cbn [drop_ws]. rewrite H. cbn [rev].
  intro E. apply (f_equal (@rev N)) in E. rewrite rev_involutive in E. cbn in E.
  exact (drop_ws_snoc (rev s) c H E).
Qed.

Lemma select_incl {A} (l : list A) bs : incl (select l bs) l.
Proof.
  revert bs. induction l as [|a l IH]; intros [|b bs]; cbn; try (intros x []).
  destruct b; intros x Hx.
  - destruct Hx as [->|Hx]; [left; reflexivity | right; exact (IH bs x Hx)].
  - right. exact (IH bs x Hx).
Qed.

Lemma select_nil {A} (l : list A) bs :
  length bs = length l -> select l bs = [] -> bs = map (fun _ => false) l.
Proof.
  revert bs. induction l as [|a l IH]; intros [|b bs]; cbn; intros L E; try discriminate; [reflexivity|].
  destruct b; [discriminate|]. f_equal. apply IH; [lia | exact E].
Qed.

Lemma mem_select names bs :
  NoDup names -> length bs = length names -> map (fun n => mem n (select names bs)) names = bs.
Proof.
  revert bs. induction names as [|n ns IH]; intros [|b bs] ND L; cbn in L; try discriminate; [reflexivity|].
  inversion ND as [|? ? Hnin ND']; subst. cbn [select map].
  assert (Htail : forall sel', map (fun n0 => mem n0 (n :: sel')) ns = map (fun n0 => mem n0 sel') ns).
  { intro sel'. apply map_ext_in. intros n0 Hn0. cbn.
    destruct (str_eqb n n0) eqn:E; [|reflexivity].
    apply str_eqb_eq in E. subst. tauto. }
  destruct b.
  - f_equal; [cbn [mem]; rewrite str_eqb_refl; reflexivity|]. rewrite Htail. apply IH; [exact ND' | lia].
  - f_equal.
    + apply mem_false. intro H. apply Hnin. exact (select_incl ns bs n H).
    + apply IH; [exact ND' | lia].
Qed.

Lemma flags_roundtrip fl bs :
  wf_flags fl = true -> length bs = length fl ->
  de_flags fl (join_bar (select (map fst fl) bs)) = Some bs.
Proof.
  intros W L. unfold wf_flags in W.
  apply andb_true_iff in W. destruct W as [W _]. apply andb_true_iff in W. destruct W as [W1 W2].
  apply nodupb_NoDup in W2.
  assert (Hclean : Forall (fun n => cleanP n /\ starts_0x n = false) (map fst fl)).
  { rewrite forallb_forall in W1. apply Forall_forall. intros n Hn.
    apply in_map_iff in Hn. destruct Hn as [f [<- Hf]]. specialize (W1 f Hf).
    apply andb_true_iff in W1. destruct W1 as [W1 _]. exact (clean_name_P _ W1). }
  set (names := map fst fl) in *.
  assert (Ln : length bs = length names) by (unfold names; rewrite map_length; exact L).
  destruct (select names bs) as [|a r] eqn:Esel.
  - unfold de_flags. cbn. f_equal. symmetry. rewrite (select_nil names bs Ln Esel).
    unfold names. rewrite map_map. reflexivity.
  - assert (Hsel : Forall (fun n => cleanP n /\ starts_0x n = false) (a :: r)).
    { rewrite <- Esel. apply Forall_forall. intros n Hn. rewrite Forall_forall in Hclean.
      apply Hclean. exact (select_incl names bs n Hn). }
    assert (Hsel1 : Forall cleanP (a :: r)) by (eapply Forall_impl; [|exact Hsel]; cbn; tauto).
    unfold de_flags.
    assert (Hne : trim (join_bar (a :: r)) <> []).
    { inversion Hsel1 as [|? ? [Ha Hane] _]; subst. destruct a as [|c a']; [congruence|].
      assert (Hc : uni_ws c = false).
      { unfold nows in Ha. cbn in Ha. apply andb_true_iff in Ha. destruct Ha as [A _].
        apply andb_true_iff in A. destruct A as [A _]. apply negb_true_iff in A. exact A. }
      cbn [join_bar]. destruct r; [exact (trim_nonempty c a' Hc)|].
      cbn [app]. exact (trim_nonempty c _ Hc). }
    destruct (trim (join_bar (a :: r))) as [|t0 t1] eqn:Et; [congruence|].
    rewrite (split_join (a :: r) Hsel1 ltac:(discriminate)).
    assert (Hall : forallb (fun t => mem t (map fst fl) && negb (starts_0x t)) (a :: r) = true).
    { apply forallb_forall. intros t Ht. rewrite Forall_forall in Hsel. destruct (Hsel t Ht) as [_ Hx].
      rewrite Hx. rewrite andb_true_r. apply mem_In. fold names. rewrite <- Esel in Ht.
      exact (select_incl names bs t Ht). }
    rewrite Hall. f_equal. rewrite <- Esel.
    transitivity (map (fun n => mem n (select names bs)) names); [unfold names; rewrite map_map; reflexivity | exact (mem_select names bs W2 Ln)].
Qed.

(* the compiled field / variant lists that appear in the bodies of ser, de, norm, obj_keys *)
Definition cf (f : str * str * fkind * desc) := match f with (_, n, k, d') => (n, k, ser d') end.
Definition cdf (f : str * str * fkind * desc) := match f with (_, n, k, d') => (n, k, is_opt d', de d') end.
Definition nf (f : str * str * fkind * desc) := match f with (_, _, _, d') => norm d' end.
Definition fk (f : str * str * fkind * desc) :=
  match f with (_, n, k, d') => match k with FNormal => Some [n] | FFlatten => obj_keys d' | FSkip => Some [] end end.
Definition wff (f : str * str * fkind * desc) := match f with (_, _, _, d') => wf_desc d' end.

Definition cv (x : str * str * desc) := match x with (_, n, pd) => (n, is_unitlike pd, ser pd) end.
Definition cdv (x : str * str * desc) := match x with (_, n, pd) => (n, (unit_payload pd, de pd)) end.
Definition nv (x : str * str * desc) := match x with (_, _, pd) => norm pd end.
Definition vk (x : str * str * desc) := match x with (_, _, pd) => if is_unitlike pd then Some [] else obj_keys pd end.
Definition wfv (x : str * str * desc) :=
  match x with (_, _, pd) => match pd with DSkip s => negb s | _ => wf_desc pd end end.
Definition vname (x : str * str * desc) := match x with (_, n, _) => n end.

Lemma concat_opt_cons a l ks :
  concat_opt (a :: l) = Some ks -> exists k1 k2, a = Some k1 /\ concat_opt l = Some k2 /\ ks = k1 ++ k2.
Proof.
  cbn. destruct a as [k1|]; [|discriminate]. destruct (concat_opt l) as [k2|]; [|discriminate].
  intro H. injection H as <-. eauto.
Qed.

Lemma concat_opt_incl l ks a : concat_opt l = Some ks -> In (Some a) l -> incl a ks.
Proof.
  revert ks. induction l as [|x l IH]; intros ks H Hin; [destruct Hin|].
  apply concat_opt_cons in H. destruct H as (k1 & k2 & -> & H2 & ->).
  destruct Hin as [E|Hin].
  - injection E as ->. apply incl_appl, incl_refl.
  - apply incl_appr. exact (IH k2 H2 Hin).
Qed.

Lemma remove_key_notin {A} t (m : list (str * A)) : ~ In t (map fst m) -> remove_key t m = m.
Proof.
  unfold remove_key. induction m as [|[k a] r IH]; cbn; intro H; [reflexivity|].
  destruct (str_eqb k t) eqn:E.
  - apply str_eqb_eq in E. subst. tauto.
  - cbn. f_equal. apply IH. tauto.
Qed.

(* inversion of [typed] with stable names *)
Lemma typed_unit_inv v : typed DUnit v -> v = VUnit.
Proof. inversion 1; reflexivity. Qed.
Lemma typed_skip_inv s v : typed (DSkip s) v -> exists n, v = VOpaque n.
Proof. inversion 1; eauto. Qed.
Lemma typed_bool_inv v : typed DBool v -> exists b, v = VBool b.
Proof. inversion 1; eauto. Qed.
Lemma typed_num_inv k v : typed (DNum k) v -> exists a, v = VNum a /\ num_ok k a = true.
Proof. inversion 1; eauto. Qed.
Lemma typed_str_inv v : typed DStr v -> exists s, v = VStr s.
Proof. inversion 1; eauto. Qed.
Lemma typed_opt_inv d v : typed (DOpt d) v -> v = VNone \/ exists v', v = VSome v' /\ typed d v'.
Proof. inversion 1; subst; eauto. Qed.
Lemma typed_seq_inv d v : typed (DSeq d) v -> exists l, v = VSeq l /\ Forall (typed d) l.
Proof. inversion 1; subst; eauto. Qed.
Lemma typed_new_inv d v : typed (DNew d) v -> typed d v.
Proof. inversion 1; subst; assumption. Qed.
Lemma typed_struct_inv fs v :
  typed (DStruct fs) v -> exists vs, v = VRec vs /\ Forall2 (fun f v => typed (snd f) v) fs vs.
Proof. inversion 1; subst; eauto. Qed.
Lemma typed_enum_inv r vs v :
  typed (DEnum r vs) v -> exists i x p, v = VVar i p /\ nth_error vs i = Some x /\ typed (snd x) p.
Proof. inversion 1; subst; eauto 7. Qed.
Lemma typed_flags_inv fl v : typed (DFlags fl) v -> exists bs, v = VFlags bs /\ length bs = length fl.
Proof. inversion 1; subst; eauto. Qed.
Lemma typed_yaml_inv tm v :
  typed (DYaml tm) v -> exists y, v = VYaml y /\ json_safe y = true /\ (tm = true -> is_ymap y = true).
Proof. inversion 1; subst; eauto. Qed.

(* ------------------------------------------------------------------ part D: ser is total on typed
   values, gives objects with the announced keys, and null only where announced *)

Definition Dprop (d : desc) : Prop :=
  wf_desc d = true -> forall v, typed d v ->
  exists j, ser d v = Some j
            /\ (forall ks, obj_keys d = Some ks -> exists m, j = JObj m /\ incl (map fst m) ks)
            /\ (nullable d = false -> j <> JNull).

Lemma D_fields fs :
  Forall (fun f => Dprop (snd f)) fs -> forallb wff fs = true -> no_skip_field fs = true ->
  forall vs, Forall2 (fun f v => typed (snd f) v) fs vs ->
  forall ks, concat_opt (map fk fs) = Some ks ->
  exists m, ser_fields (map cf fs) vs = Some m /\ incl (map fst m) ks.
Proof.
  intros HD Hwf Hns vs F. induction F as [|f v fs vs Hty _ IH]; intros ks Hks.
  - cbn in Hks. injection Hks as <-. exists []. split; [reflexivity | apply incl_refl].
  - inversion HD as [|? ? HDf HDr]; subst.
    cbn [forallb] in Hwf. apply andb_true_iff in Hwf. destruct Hwf as [Hwf1 Hwf2].
    unfold no_skip_field in Hns. cbn [forallb] in Hns. apply andb_true_iff in Hns. destruct Hns as [Hns1 Hns2].
    cbn [map] in Hks. apply concat_opt_cons in Hks. destruct Hks as (k1 & k2 & Hk1 & Hk2 & ->).
    destruct (IH HDr Hwf2 Hns2 k2 Hk2) as (m' & Hm' & Hincl').
    destruct f as [[[raw n] k] d']. cbn in HDf, Hwf1, Hty, Hk1, Hns1.
    destruct (HDf Hwf1 v Hty) as (j & Hj & Hobj & _).
    cbn [map cf ser_fields]. destruct k; [| |discriminate].
    + injection Hk1 as <-. rewrite Hj, Hm'. exists ((n, j) :: m'). split; [reflexivity|].
      cbn. intros x [<-|Hx]; [left; reflexivity | right; exact (Hincl' x Hx)].
    + destruct (Hobj k1 Hk1) as (m1 & -> & Hincl1). rewrite Hj, Hm'.
      exists (m1 ++ m'). split; [reflexivity|]. rewrite map_app.
      apply incl_app; [apply incl_appl | apply incl_appr]; assumption.
Qed.

Lemma D_all : forall d, Dprop d.
Proof.
  induction d using desc_ind2; unfold Dprop; intros W v T.
  - apply typed_unit_inv in T. subst. exists JNull. cbn. repeat split; try discriminate.
  - discriminate.
  - apply typed_bool_inv in T. destruct T as [b ->]. eexists. cbn. repeat split; discriminate.
  - apply typed_num_inv in T. destruct T as (a & -> & _). eexists. cbn. repeat split; discriminate.
  - apply typed_str_inv in T. destruct T as [s ->]. eexists. cbn. repeat split; discriminate.
  - (* DOpt *)
    cbn in W. apply andb_true_iff in W. destruct W as [Wn W]. apply negb_true_iff in Wn.
    apply typed_opt_inv in T. destruct T as [->|(v' & -> & T)].
    + exists JNull. cbn. repeat split; discriminate.
    + destruct (IHd W v' T) as (j & Hj & _ & _). exists j. cbn. repeat split; [exact Hj | discriminate | discriminate].
  - (* DSeq *)
    cbn in W. apply typed_seq_inv in T. destruct T as (l & -> & T).
    assert (E : exists js, Forall2 (fun x y => ser d x = Some y) l js).
    { apply Forall_exists_Forall2. eapply Forall_impl; [|exact T]. intros x Hx.
      destruct (IHd W x Hx) as (j & Hj & _). eauto. }
    destruct E as [js F]. exists (JArr js). cbn. rewrite (sequence_Forall2 _ _ _ F).
    repeat split; discriminate.
  - (* DNew *)
    cbn in W. apply typed_new_inv in T. exact (IHd W v T).
  - (* DStruct *)
    cbn [wf_desc] in W.
    apply andb_true_iff in W. destruct W as [W Wk]. apply andb_true_iff in W. destruct W as [W Wc].
    apply andb_true_iff in W. destruct W as [Ww Ws].
    apply typed_struct_inv in T. destruct T as (vs & -> & T).
    destruct (obj_keys (DStruct fs)) as [ks|] eqn:Ek; [|discriminate].
    destruct (D_fields fs H Ww Ws vs T ks Ek) as (m & Hm & Hincl).
    exists (JObj m). split; [|split].
    + cbn [ser]. change (map _ fs) with (map cf fs). rewrite Hm. reflexivity.
    + intros ks' Hks'. injection Hks' as <-. eauto.
    + discriminate.
  - (* DEnum *)
    cbn [wf_desc] in W.
    apply andb_true_iff in W. destruct W as [W Wr]. apply andb_true_iff in W. destruct W as [Ww Wn].
    apply typed_enum_inv in T. destruct T as (i & x & p & -> & Hnth & Hp).
    assert (Hin : In x vs) by (eapply nth_error_In; exact Hnth).
    change (forallb _ vs) with (forallb wfv vs) in Ww.
    pose proof (proj1 (forallb_forall _ _) Ww x Hin) as Wx.
    pose proof (proj1 (Forall_forall _ _) H x Hin) as Dx.
    cbn [ser]. change (map _ vs) with (map cv vs). rewrite (map_nth_error cv _ _ Hnth).
    destruct x as [[raw n] pd]. cbn [cv]. cbn in Hp, Wx, Dx.
    destruct (is_unitlike pd) eqn:Eu.
    + (* unit-like payload *)
      destruct r; cbn [ser_variant].
      * eexists. split; [reflexivity|]. split; [discriminate | discriminate].
      * eexists. split; [reflexivity|]. split; [|discriminate].
        intros ks Hks. cbn [obj_keys] in Hks. destruct (concat_opt _); [|discriminate]. injection Hks as <-.
        eexists. split; [reflexivity|]. cbn. intros y [<-|[]]. left. reflexivity.
      * eexists. split; [reflexivity|]. split; [|discriminate].
        intros ks Hks. cbn in Hks. injection Hks as <-.
        eexists. split; [reflexivity|]. cbn. intros y [<-|[]]. left. reflexivity.
      * discriminate.
    + (* payload *)
      assert (Wpd : wf_desc pd = true) by (destruct pd; try exact Wx; discriminate).
      destruct (Dx Wpd p Hp) as (jp & Hjp & Hobj & _). rewrite Hjp.
      destruct r; cbn [ser_variant].
      * eexists. split; [reflexivity|]. split; discriminate.
      * cbn [wf_repr] in Wr.
        pose proof (proj1 (forallb_forall _ _) Wr _ Hin) as Wt. cbn in Wt. rewrite Eu in Wt. cbn in Wt.
        destruct (obj_keys pd) as [kp|] eqn:Ekp; [|discriminate].
        destruct (Hobj kp eq_refl) as (m & -> & Hincl).
        eexists. split; [reflexivity|]. split; [|discriminate].
        intros ks Hks. cbn [obj_keys] in Hks. change (map _ vs) with (map vk vs) in Hks.
        destruct (concat_opt (map vk vs)) as [k0|] eqn:Ek0; [|discriminate]. injection Hks as <-.
        eexists. split; [reflexivity|]. cbn [map fst].
        intros y [<-|Hy]; [left; reflexivity|]. right.
        refine (concat_opt_incl _ _ kp Ek0 _ y (Hincl y Hy)).
        apply in_map_iff. exists (raw, n, pd). split; [|exact Hin]. cbn. rewrite Eu. exact Ekp.
      * eexists. split; [reflexivity|]. split; [|discriminate].
        intros ks Hks. cbn in Hks. injection Hks as <-.
        eexists. split; [reflexivity|]. cbn. intros y [<-|[<-|[]]]; [left | right; left]; reflexivity.
      * discriminate.
  - (* DFlags *)
    apply typed_flags_inv in T. destruct T as (bs & -> & L).
    cbn. unfold ser_flags. rewrite L, Nat.eqb_refl. eexists. repeat split; discriminate.
  - (* DYaml *)
    apply typed_yaml_inv in T. destruct T as (y & -> & S & M).
    destruct (yaml_roundtrip y S) as (j & Hj & _).
    exists j. cbn [ser]. split; [|split].
    + destruct tm; cbn; [rewrite (M eq_refl); cbn|]; exact Hj.
    + discriminate.
    + cbn. intro Htm. apply negb_false_iff in Htm. subst. specialize (M eq_refl).
      destruct y; try discriminate. destruct (yser_map_obj _ _ Hj) as [o ->]. discriminate.
Qed.

(* ------------------------------------------------------------------ part E: the round trip *)

Definition Eprop (d : desc) : Prop :=
  wf_desc d = true -> forall v j, typed d v -> ser d v = Some j ->
  de d j = Some (norm d v) /\ ser d (norm d v) = Some j.

Fixpoint flat_json (fs : list (str * str * fkind * desc)) (vs : list val) : list (str * json) :=
  match fs, vs with
  | (_, _, k, d') :: fs', v :: vs' =>
      match k with
      | FFlatten => match ser d' v with Some (JObj c) => c | _ => [] end
      | _ => flat_json fs' vs'
      end
  | _, _ => []
  end.

Definition flat_keys (fs : list (str * str * fkind * desc)) : list str :=
  concat (map (fun f => match f with (_, _, k, d') =>
                          match k with FFlatten => match obj_keys d' with Some ks => ks | None => [] end | _ => [] end end) fs).

Lemma count_flatten_cons (f : str * str * fkind * desc) (fs : list (str * str * fkind * desc)) :
  count_flatten (f :: fs) = ((match f with (_, _, FFlatten, _) => 1 | _ => 0 end) + count_flatten fs)%nat.
Proof. unfold count_flatten. destruct f as [[[raw n] k] d']. cbn. destruct k; reflexivity. Qed.

Lemma E_fields fs :
  Forall (fun f => Eprop (snd f)) fs -> forallb wff fs = true -> no_skip_field fs = true ->
  forall vs, Forall2 (fun f v => typed (snd f) v) fs vs ->
  forall ks, concat_opt (map fk fs) = Some ks -> NoDup ks ->
  forall msuf, ser_fields (map cf fs) vs = Some msuf ->
  forall rest, (count_flatten fs <= 1)%nat -> (count_flatten fs = 1%nat -> rest = flat_json fs vs) ->
  forall mpre, (forall k, In k ks -> ~ In k (map fst mpre)) ->
  de_fields (map cdf fs) (mpre ++ msuf) rest = Some (zipapp (map nf fs) vs)
  /\ ser_fields (map cf fs) (zipapp (map nf fs) vs) = Some msuf.
Proof.
  intros HE Hwf Hns vs F. induction F as [|f v fs vs Hty _ IH]; intros ks Hks ND msuf Hser rest Hc Hrest mpre Hpre.
  - cbn in Hser. injection Hser as <-. cbn. split; reflexivity.
  - inversion HE as [|? ? HEf HEr]; subst.
    cbn [forallb] in Hwf. apply andb_true_iff in Hwf. destruct Hwf as [Hwf1 Hwf2].
    unfold no_skip_field in Hns. cbn [forallb] in Hns. apply andb_true_iff in Hns. destruct Hns as [Hns1 Hns2].
    cbn [map] in Hks. apply concat_opt_cons in Hks. destruct Hks as (k1 & k2 & Hk1 & Hk2 & ->).
    rewrite count_flatten_cons in Hc, Hrest.
    destruct f as [[[raw n] k] d']. cbn in HEf, Hwf1, Hty, Hk1, Hns1.
    cbn [map cf ser_fields] in Hser.
    destruct k; [| |discriminate].
    + (* normal field *)
      injection Hk1 as <-.
      destruct (ser d' v) as [j|] eqn:Hj; [|discriminate].
      destruct (ser_fields (map cf fs) vs) as [m'|] eqn:Hm'; [|discriminate]. injection Hser as <-.
      destruct (HEf Hwf1 v j Hty Hj) as [Hde Hser2].
      cbn in ND. inversion ND as [|? ? Hnin ND2]; subst.
      assert (Hpre' : forall k, In k k2 -> ~ In k (map fst (mpre ++ [(n, j)]))).
      { intros k Hk. rewrite map_app, in_app_iff. cbn. intros [A|[A|[]]].
        - exact (Hpre k (or_intror Hk) A).
        - subst. exact (Hnin Hk). }
      destruct (IH HEr Hwf2 Hns2 k2 Hk2 ND2 m' eq_refl rest Hc Hrest (mpre ++ [(n, j)]) Hpre') as [IH1 IH2].
      rewrite <- app_assoc in IH1. cbn [app] in IH1.
      cbn [map cdf nf zipapp de_fields cf ser_fields].
      rewrite lookup_app, (lookup_notin n mpre (Hpre n (or_introl eq_refl))), lookup_head, Hde, IH1.
      rewrite Hser2, IH2. split; reflexivity.
    + (* flattened field *)
      destruct (ser d' v) as [j|] eqn:Hj; [|discriminate].
      destruct j as [| | | | |m1]; try discriminate.
      destruct (ser_fields (map cf fs) vs) as [m'|] eqn:Hm'; [|discriminate]. injection Hser as <-.
      destruct (HEf Hwf1 v (JObj m1) Hty Hj) as [Hde Hser2].
      assert (Hc0 : count_flatten fs = 0%nat) by lia.
      assert (Er : rest = m1).
      { rewrite Hrest by lia. cbn [flat_json]. rewrite Hj. reflexivity. }
      destruct (D_all d' Hwf1 v Hty) as (j0 & Hj0 & Hobj & _). rewrite Hj in Hj0. injection Hj0 as <-.
      destruct (Hobj k1 Hk1) as (m1' & Em & Hincl). injection Em as <-.
      assert (Hpre' : forall k, In k k2 -> ~ In k (map fst (mpre ++ m1))).
      { intros k Hk. rewrite map_app, in_app_iff. intros [A|A].
        - exact (Hpre k (in_or_app _ _ _ (or_intror Hk)) A).
        - apply Hincl in A. revert A Hk. clear - ND. revert k.
          induction k1 as [|a k1 IHk]; cbn; intros k A Hk; [destruct A|].
          cbn in ND. inversion ND as [|? ? Hnin ND2]; subst.
          destruct A as [<-|A]; [apply Hnin, in_or_app; right; exact Hk | exact (IHk ND2 k A Hk)]. }
      assert (ND2 : NoDup k2) by (clear - ND; induction k1; [exact ND | inversion ND; auto]).
      destruct (IH HEr Hwf2 Hns2 k2 Hk2 ND2 m' eq_refl rest ltac:(lia) ltac:(lia) (mpre ++ m1) Hpre') as [IH1 IH2].
      rewrite <- app_assoc in IH1.
      cbn [map cdf nf zipapp de_fields cf ser_fields].
      rewrite Er. rewrite Er in IH1. rewrite Hde, IH1, Hser2, IH2. split; reflexivity.
Qed.

Lemma keys_split fs :
  no_skip_field fs = true -> forall ks, concat_opt (map fk fs) = Some ks ->
  (forall k, In k (normal_names fs) -> In k ks) /\ (forall k, In k (flat_keys fs) -> In k ks).
Proof.
  induction fs as [|f fs IH]; intros Hns ks Hks.
  - split; intros k [].
  - unfold no_skip_field in Hns. cbn [forallb] in Hns. apply andb_true_iff in Hns. destruct Hns as [Hns1 Hns2].
    cbn [map] in Hks. apply concat_opt_cons in Hks. destruct Hks as (k1 & k2 & Hk1 & Hk2 & ->).
    destruct (IH Hns2 k2 Hk2) as [A B].
    destruct f as [[[raw n] k] d']. unfold normal_names, flat_keys. cbn [map concat]. cbn in Hk1.
    destruct k; [| |discriminate].
    + injection Hk1 as <-. split; intros k Hk; rewrite in_app_iff in *.
      * destruct Hk as [Hk|Hk]; [left; exact Hk | right; exact (A k Hk)].
      * destruct Hk as [[]|Hk]. right. exact (B k Hk).
    + rewrite Hk1. split; intros k Hk; rewrite in_app_iff in *.
      * destruct Hk as [[]|Hk]. right. exact (A k Hk).
      * destruct Hk as [Hk|Hk]; [left; exact Hk | right; exact (B k Hk)].
Qed.

Lemma keys_disjoint fs :
  no_skip_field fs = true -> forall ks, concat_opt (map fk fs) = Some ks -> NoDup ks ->
  forall k, In k (flat_keys fs) -> ~ In k (normal_names fs).
Proof.
  induction fs as [|f fs IH]; intros Hns ks Hks ND k Hf Hn; [destruct Hf|].
  pose proof Hns as Hns0.
  unfold no_skip_field in Hns. cbn [forallb] in Hns. apply andb_true_iff in Hns. destruct Hns as [Hns1 Hns2].
  cbn [map] in Hks. apply concat_opt_cons in Hks. destruct Hks as (k1 & k2 & Hk1 & Hk2 & ->).
  destruct (keys_split fs Hns2 k2 Hk2) as [A B].
  assert (ND2 : NoDup k2) by (clear - ND; induction k1; [exact ND | inversion ND; auto]).
  assert (Hdis : forall x, In x k1 -> In x k2 -> False).
  { clear - ND. induction k1 as [|a k1 IHk]; cbn; intros x H1 H2; [destruct H1|].
    cbn in ND. inversion ND as [|? ? Hnin ND2]; subst.
    destruct H1 as [<-|H1]; [apply Hnin, in_or_app; right; exact H2 | exact (IHk ND2 x H1 H2)]. }
  destruct f as [[[raw n] kd] d']. unfold normal_names, flat_keys in Hf, Hn. cbn [map concat] in Hf, Hn. cbn in Hk1.
  destruct kd; [| |discriminate].
  - injection Hk1 as <-. cbn in Hf, Hn. destruct Hn as [<-|Hn].
    + exact (Hdis n (or_introl eq_refl) (B n Hf)).
    + exact (IH Hns2 k2 Hk2 ND2 k Hf Hn).
  - rewrite Hk1 in Hf. cbn in Hn. rewrite in_app_iff in Hf. destruct Hf as [Hf|Hf].
    + exact (Hdis k Hf (A k Hn)).
    + exact (IH Hns2 k2 Hk2 ND2 k Hf Hn).
Qed.

Lemma filter_flat fs :
  forallb wff fs = true -> no_skip_field fs = true ->
  forall vs, Forall2 (fun f v => typed (snd f) v) fs vs ->
  forall ks, concat_opt (map fk fs) = Some ks ->
  forall m, ser_fields (map cf fs) vs = Some m -> (count_flatten fs <= 1)%nat ->
  forall own, incl (normal_names fs) own -> (forall k, In k (flat_keys fs) -> ~ In k own) ->
  filter (fun kv => negb (mem (fst kv) own)) m = if Nat.eqb (count_flatten fs) 0 then [] else flat_json fs vs.
Proof.
  intros Hwf Hns vs F. induction F as [|f v fs vs Hty _ IH]; intros ks Hks m Hser Hc own Hown Hflat.
  - cbn in Hser. injection Hser as <-. reflexivity.
  - cbn [forallb] in Hwf. apply andb_true_iff in Hwf. destruct Hwf as [Hwf1 Hwf2].
    unfold no_skip_field in Hns. cbn [forallb] in Hns. apply andb_true_iff in Hns. destruct Hns as [Hns1 Hns2].
    cbn [map] in Hks. apply concat_opt_cons in Hks. destruct Hks as (k1 & k2 & Hk1 & Hk2 & ->).
    rewrite count_flatten_cons in *.
    destruct f as [[[raw n] k] d']. cbn in Hwf1, Hty, Hns1, Hk1.
    unfold normal_names in Hown. unfold flat_keys in Hflat. cbn [map concat] in Hown, Hflat.
    cbn [map cf ser_fields] in Hser.
    destruct k; [| |discriminate].
    + destruct (ser d' v) as [j|] eqn:Hj; [|discriminate].
      destruct (ser_fields (map cf fs) vs) as [m'|] eqn:Hm'; [|discriminate]. injection Hser as <-.
      cbn [filter fst]. assert (Hn : mem n own = true) by (apply mem_In, Hown; left; reflexivity).
      rewrite Hn. cbn [negb flat_json Nat.add].
      apply (IH Hwf2 Hns2 k2 Hk2 m' eq_refl Hc own).
      * intros x Hx. apply Hown. right. exact Hx.
      * intros x Hx. apply Hflat. exact Hx.
    + destruct (ser d' v) as [j|] eqn:Hj; [|discriminate].
      destruct j as [| | | | |m1]; try discriminate.
      destruct (ser_fields (map cf fs) vs) as [m'|] eqn:Hm'; [|discriminate]. injection Hser as <-.
      assert (Hc0 : count_flatten fs = 0%nat) by lia.
      rewrite filter_app.
      rewrite (IH Hwf2 Hns2 k2 Hk2 m' eq_refl ltac:(lia) own).
      * rewrite Hc0. cbn [Nat.add Nat.eqb flat_json]. rewrite Hj, app_nil_r.
        destruct (D_all d' Hwf1 v Hty) as (j0 & Hj0 & Hobj & _). rewrite Hj in Hj0. injection Hj0 as <-.
        rewrite Hk1 in Hflat.
        destruct (Hobj k1 Hk1) as (m1' & Em & Hincl). injection Em as <-.
        clear - Hincl Hflat. induction m1 as [|[a b] r IHr]; [reflexivity|].
        cbn [filter fst]. assert (Ha : mem a own = false).
        { apply mem_false. apply Hflat. apply in_or_app. left. apply Hincl. left. reflexivity. }
        rewrite Ha. cbn. f_equal. apply IHr. intros x Hx. apply Hincl. right. exact Hx.
      * intros x Hx. apply Hown. exact Hx.
      * intros x Hx. apply Hflat. apply in_or_app. right. exact Hx.
Qed.

Lemma F2_map_r {A B C} (R : A -> C -> Prop) (g : B -> C) l r :
  Forall2 (fun a b => R a (g b)) l r -> Forall2 R l (map g r).
Proof. induction 1; cbn; constructor; auto. Qed.

Lemma F2_map_l {A B C} (R : C -> B -> Prop) (g : A -> C) l r :
  Forall2 (fun a b => R (g a) b) l r -> Forall2 R (map g l) r.
Proof. induction 1; cbn; constructor; auto. Qed.

Lemma E_all : forall d, Eprop d.
Proof.
  induction d using desc_ind2; unfold Eprop; intros W v j T S.
  - apply typed_unit_inv in T. subst. cbn in S. injection S as <-. cbn. split; reflexivity.
  - discriminate.
  - apply typed_bool_inv in T. destruct T as [b ->]. cbn in S. injection S as <-. cbn. split; reflexivity.
  - apply typed_num_inv in T. destruct T as (a & -> & Hok). cbn in S. injection S as <-. cbn. rewrite Hok. split; reflexivity.
  - apply typed_str_inv in T. destruct T as [s ->]. cbn in S. injection S as <-. cbn. split; reflexivity.
  - (* DOpt *)
    cbn in W. apply andb_true_iff in W. destruct W as [Wn W]. apply negb_true_iff in Wn.
    apply typed_opt_inv in T. destruct T as [->|(v' & -> & T)].
    + cbn in S. injection S as <-. cbn. split; reflexivity.
    + cbn [ser] in S. destruct (IHd W v' j T S) as [A B].
      destruct (D_all d W v' T) as (j0 & Hj0 & _ & Hnn). rewrite S in Hj0. injection Hj0 as <-. specialize (Hnn Wn).
      cbn [de norm ser]. split; [|exact B]. destruct j; try congruence; rewrite A; reflexivity.
  - (* DSeq *)
    cbn in W. apply typed_seq_inv in T. destruct T as (l & -> & T).
    cbn [ser] in S. destruct (sequence (map (ser d) l)) as [js|] eqn:E; [|discriminate].
    cbn in S. injection S as <-. apply sequence_inv in E.
    assert (F : Forall2 (fun x y => de d y = Some (norm d x) /\ ser d (norm d x) = Some y) l js).
    { clear - E T IHd W. induction E as [|x y l js Hxy _ IH]; [constructor|].
      inversion T; subst. constructor; [apply IHd; assumption | apply IH; assumption]. }
    cbn [de norm ser].
    rewrite (sequence_Forall2 (de d) js (map (norm d) l)).
    2:{ apply F2_map_r. apply F2_flip. eapply F2_impl; [|exact F]. cbn. tauto. }
    rewrite (sequence_Forall2 (ser d) (map (norm d) l) js).
    2:{ apply F2_map_l. eapply F2_impl; [|exact F]. cbn. tauto. }
    split; reflexivity.
  - (* DNew *)
    cbn in W. apply typed_new_inv in T. exact (IHd W v j T S).
  - (* DStruct *)
    cbn [wf_desc] in W.
    apply andb_true_iff in W. destruct W as [W Wk]. apply andb_true_iff in W. destruct W as [W Wc].
    apply andb_true_iff in W. destruct W as [Ww Ws]. apply Nat.leb_le in Wc.
    apply typed_struct_inv in T. destruct T as (vs & -> & T).
    destruct (obj_keys (DStruct fs)) as [ks|] eqn:Ek; [|discriminate].
    apply nodupb_NoDup in Wk. cbn [obj_keys] in Ek. change (map _ fs) with (map fk fs) in Ek.
    change (forallb _ fs) with (forallb wff fs) in Ww.
    cbn [ser] in S. change (map _ fs) with (map cf fs) in S.
    destruct (ser_fields (map cf fs) vs) as [m|] eqn:Em; [|discriminate]. cbn in S. injection S as <-.
    pose proof (filter_flat fs Ww Ws vs T ks Ek m Em Wc (normal_names fs) (incl_refl _)
                  (fun k Hk => keys_disjoint fs Ws ks Ek Wk k Hk)) as Hrest.
    destruct (E_fields fs H Ww Ws vs T ks Ek Wk m Em
                (filter (fun kv => negb (mem (fst kv) (normal_names fs))) m) Wc
                ltac:(intro Hc1; rewrite Hrest, Hc1; reflexivity) [] ltac:(intros k _ []))
      as [A B].
    cbn [app] in A. cbn [de norm ser].
    change (map (fun f => match f with (_, n, k, d') => (n, k, is_opt d', de d') end) fs) with (map cdf fs).
    change (map (fun f => match f with (_, _, _, d') => norm d' end) fs) with (map nf fs).
    change (map (fun f => match f with (_, n, k, d') => (n, k, ser d') end) fs) with (map cf fs).
    rewrite A, B. split; reflexivity.
  - (* DEnum *)
    cbn [wf_desc] in W.
    apply andb_true_iff in W. destruct W as [W Wr]. apply andb_true_iff in W. destruct W as [Ww Wn].
    apply typed_enum_inv in T. destruct T as (i & x & p & -> & Hnth & Hp).
    assert (Hin : In x vs) by (eapply nth_error_In; exact Hnth).
    change (forallb _ vs) with (forallb wfv vs) in Ww.
    pose proof (proj1 (forallb_forall _ _) Ww x Hin) as Wx.
    pose proof (proj1 (Forall_forall _ _) H x Hin) as Ex.
    cbn [ser] in S. change (map _ vs) with (map cv vs) in S. rewrite (map_nth_error cv _ _ Hnth) in S.
    assert (ND : NoDup (map fst (map cdv vs))).
    { rewrite map_map. apply nodupb_NoDup. erewrite map_ext; [exact Wn|]. intros [[? ?] ?]; reflexivity. }
    pose proof (find_var_nth _ ND i (fst (cdv x)) (snd (cdv x)) 0%nat) as Hfind.
    rewrite (map_nth_error cdv _ _ Hnth) in Hfind. specialize (Hfind ltac:(destruct (cdv x); reflexivity)).
    cbn [de norm ser].
    change (map (fun x => match x with (_, n, pd) => (n, (unit_payload pd, de pd)) end) vs) with (map cdv vs).
    change (map (fun x => match x with (_, _, pd) => norm pd end) vs) with (map nv vs).
    change (map (fun x => match x with (_, n, pd) => (n, is_unitlike pd, ser pd) end) vs) with (map cv vs).
    rewrite (map_nth_error nv _ _ Hnth), (map_nth_error cv _ _ Hnth).
    destruct x as [[raw n] pd]. cbn [cv cdv nv fst snd] in *.
    destruct (is_unitlike pd) eqn:Eu.
    + assert (Hu : exists u, unit_payload pd = Some u /\ norm pd p = u).
      { destruct pd; try discriminate; cbn.
        - apply typed_unit_inv in Hp. subst. eauto.
        - eauto. }
      destruct Hu as (u & Hu1 & Hu2). rewrite Hu2, Hu1 in *.
      destruct r; cbn [ser_variant] in S |- *; try discriminate; injection S as <-;
        (split; [|reflexivity]); cbn [de_enum].
      * rewrite Hfind. reflexivity.
      * rewrite lookup_head, Hfind. reflexivity.
      * rewrite lookup_head, Hfind. reflexivity.
    + assert (Wpd : wf_desc pd = true) by (destruct pd; try exact Wx; discriminate).
      assert (Hnone : unit_payload pd = None) by (destruct pd; try discriminate; reflexivity).
      rewrite Hnone in Hfind.
      destruct (ser pd p) as [jp|] eqn:Ejp.
      2:{ destruct r; cbn in S; discriminate. }
      destruct (Ex Wpd p jp Hp Ejp) as [A B]. rewrite B.
      destruct r; cbn [ser_variant] in S |- *.
      * cbn in S. injection S as <-. split; [|reflexivity]. cbn [de_enum]. rewrite Hfind, A. reflexivity.
      * destruct jp as [| | | | |m]; try discriminate. injection S as <-. split; [|reflexivity].
        cbn [de_enum]. rewrite lookup_head, Hfind. cbn [de_found].
        assert (Hrm : remove_key tag ((tag, JStr n) :: m) = m).
        { unfold remove_key. cbn [filter fst]. rewrite str_eqb_refl. cbn [negb].
          apply remove_key_notin.
          cbn [wf_repr] in Wr. pose proof (proj1 (forallb_forall _ _) Wr _ Hin) as Wt. cbn in Wt.
          rewrite Eu in Wt. cbn in Wt.
          destruct (obj_keys pd) as [kp|] eqn:Ekp; [|discriminate].
          destruct (D_all pd Wpd p Hp) as (j0 & Hj0 & Hobj & _). rewrite Ejp in Hj0. injection Hj0 as <-.
          destruct (Hobj kp Ekp) as (m' & Em' & Hincl). injection Em' as <-.
          apply negb_true_iff, mem_false in Wt. intro Hc. exact (Wt (Hincl _ Hc)). }
        rewrite Hrm, A. reflexivity.
      * cbn in S. injection S as <-. split; [|reflexivity].
        cbn [de_enum]. rewrite lookup_head, Hfind. cbn [de_found lookup].
        cbn [wf_repr] in Wr. apply negb_true_iff in Wr. rewrite Wr, str_eqb_refl, A. reflexivity.
      * discriminate.
  - (* DFlags *)
    cbn [wf_desc] in W. apply typed_flags_inv in T. destruct T as (bs & -> & L).
    cbn [ser] in S. unfold ser_flags in S. rewrite L, Nat.eqb_refl in S. injection S as <-.
    cbn [de norm ser]. rewrite (flags_roundtrip fl bs W L). cbn. split; [reflexivity|].
    unfold ser_flags. rewrite L, Nat.eqb_refl. reflexivity.
  - (* DYaml *)
    apply typed_yaml_inv in T. destruct T as (y & -> & S0 & M).
    cbn [ser] in S.
    assert (Hy : yser y = Some j).
    { destruct tm; cbn in S; [rewrite (M eq_refl) in S; cbn in S|]; exact S. }
    destruct (yaml_roundtrip y S0) as (j0 & A & B). rewrite Hy in A. injection A as <-.
    cbn [norm]. split; [|cbn [ser]; exact S]. cbn [de]. destruct tm.
    + specialize (M eq_refl). destruct y; try discriminate.
      destruct (yser_map_obj _ _ Hy) as [o ->]. rewrite B. reflexivity.
    + destruct j; rewrite B; reflexivity.
Qed.

Theorem generic_roundtrip d v j :
  wf_desc d = true -> typed d v -> ser d v = Some j ->
  exists v', de d j = Some v' /\ v' = norm d v /\ ser d v' = Some j.
Proof. intros W T S. destruct (E_all d W v j T S) as [A B]. eauto. Qed.

Theorem ser_total d v : wf_desc d = true -> typed d v -> exists j, ser d v = Some j.
Proof. intros W T. destruct (D_all d W v T) as (j & Hj & _). eauto. Qed.

(* ------------------------------------------------------------------ typedb decides typed (one direction) *)

Lemma nth_map_inv {A B} (f : A -> B) l i y :
  nth_error (map f l) i = Some y -> exists x, nth_error l i = Some x /\ y = f x.
Proof.
  revert i. induction l as [|a l IH]; intros [|i] H; cbn in H; try discriminate.
  - injection H as <-. exists a. split; reflexivity.
  - exact (IH i H).
Qed.

Lemma typedb_typed : forall d v, typedb d v = true -> typed d v.
Proof.
  induction d using desc_ind2; intros v Hb; cbn [typedb] in Hb.
  - destruct v; try discriminate. constructor.
  - destruct v; try discriminate. constructor.
  - destruct v; try discriminate. constructor.
  - destruct v; try discriminate. constructor. exact Hb.
  - destruct v; try discriminate. constructor.
  - destruct v; try discriminate; constructor. apply IHd; exact Hb.
  - destruct v; try discriminate. constructor. rewrite forallb_forall in Hb. apply Forall_forall.
    intros x Hx. apply IHd, Hb, Hx.
  - constructor. apply IHd, Hb.
  - destruct v; try discriminate. constructor. revert l Hb.
    induction H as [|f fs Hf _ IH]; intros [|v vs] Hb; cbn in Hb; try discriminate; constructor.
    + destruct f as [[[a b] c] d']. cbn in *. apply andb_true_iff in Hb. apply Hf, Hb.
    + apply IH. destruct f as [[[a b] c] d']. cbn in Hb. apply andb_true_iff in Hb. apply Hb.
  - destruct v; try discriminate.
    destruct (nth_error _ i) as [f|] eqn:E; [|discriminate].
    apply nth_map_inv in E. destruct E as (x & Hx & ->).
    econstructor; [exact Hx|]. pose proof (proj1 (Forall_forall _ _) H x (nth_error_In _ _ Hx)) as Hx'.
    destruct x as [[a b] pd]. cbn in *. apply Hx', Hb.
  - destruct v; try discriminate. constructor. apply Nat.eqb_eq, Hb.
  - destruct v; try discriminate. apply andb_true_iff in Hb. destruct Hb as [A B]. constructor; [exact A|].
    intros ->. exact B.
Qed.
