(* Property C17, event level: the component functions of Model/Parser.v (ingredient, cookware,
   timer and their helpers) map [ksim]-related token states to [proj]-equal events
   (relational reading, see Proofs/EditSimDefs.v).  The relation for [parse_quantity] is a
   section hypothesis, proved in another file. *)
From CL Require Import Base.StrLemmas Model.Lexer Model.PText Model.CommentMask Model.Parser Model.Edits
  Proofs.EditParserProofs Proofs.EditSimDefs.

Ltac mr_prim :=
  first [ apply MR_peek | apply MR_rest | apply MR_all_tokens | apply MR_parsed | apply MR_current_offset
        | apply MR_next_token | apply MR_bump_any | apply MR_bump | apply MR_consume | apply MR_at_kind
        | apply MR_until | apply MR_consume_while | apply MR_ws_comments | apply MR_consume_rest
        | apply MR_error | apply MR_warn | apply MR_get
        | (apply MR_textM; assumption) ].
Ltac mr_bind := eapply MR_bind; [mr_prim|].
(* [error c l ;;; ret x] *)
Ltac mr_err_ret := eapply MR_bind; [first [apply MR_error | apply MR_warn]|]; intros _ _ _; apply MR_ret.

(* ---------------------------------------------------------------- relations on component data *)
Definition brel (b1 b2 : body) : Prop :=
  ksim (bd_name b1) (bd_name b2) /\ (bd_close b1 = None <-> bd_close b2 = None)
  /\ orel ksim (bd_qty b1) (bd_qty b2).
Definition mrel (a b : N * span * option interdata) : Prop :=
  fst (fst a) = fst (fst b) /\ orel irel (snd a) (snd b).

Lemma ksim_app a1 a2 b1 b2 : ksim a1 a2 -> ksim b1 b2 -> ksim (a1 ++ b1) (a2 ++ b2).
Proof. apply Forall2_app. Qed.
Lemma ksim_one a b : krel a b -> ksim [a] [b].
Proof. intro H. constructor; [exact H | constructor]. Qed.

Lemma qvrel_pqv a b : qvrel a b -> pqv a = pqv b.
Proof.
  intros [H1 H2]. unfold pqv. rewrite H1. f_equal.
  destruct (qlock a), (qlock b); try reflexivity; exfalso.
  - assert (X : Some s = None) by (apply H2; reflexivity). discriminate X.
  - assert (X : Some s = None) by (apply H2; reflexivity). discriminate X.
Qed.
Lemma qrel_pq a b : qrel a b -> pq a = pq b.
Proof. intros [H1 H2]. unfold pq. rewrite (qvrel_pqv _ _ H1), (orel_map_tx _ _ H2). reflexivity. Qed.
Lemma orel_map_pq o1 o2 : orel qrel o1 o2 -> option_map pq o1 = option_map pq o2.
Proof. destruct o1, o2; cbn; try tauto. intro H. rewrite (qrel_pq _ _ H). reflexivity. Qed.
Lemma orel_map_pinter o1 o2 : orel irel o1 o2 -> option_map pinter o1 = option_map pinter o2.
Proof. destruct o1, o2; cbn; try tauto. unfold irel. intro H. rewrite H. reflexivity. Qed.
Lemma qrel_recover : qrel quantity_recover quantity_recover.
Proof. split; [split; [reflexivity | tauto] | exact I]. Qed.

Lemma ksim_find_kind (f : tkind -> bool) l1 l2 :
  ksim l1 l2 -> orel krel (find (fun t => f (kind t)) l1) (find (fun t => f (kind t)) l2).
Proof.
  induction 1 as [|a b r1 r2 H _ IH]; [exact I|]. cbn [find]. rewrite (krel_kind _ _ H).
  destruct (f (kind b)); [exact H | exact IH].
Qed.

Lemma krel_int_tstr a b c : krel a b -> c && tk_eqb (kind b) KInt = true -> tstr a = tstr b.
Proof.
  intros (Hk & _ & _ & _ & _ & Hs) E. apply andb_true_iff in E. destruct E as [_ E]. apply Hs. rewrite Hk.
  destruct (kind b); try discriminate E. reflexivity.
Qed.

(* ---------------------------------------------------------------- comp_body, modifiers, note *)
Lemma comp_body_rel : MR (orel brel) comp_body comp_body.
Proof.
  unfold comp_body. eapply MR_bind.
  - apply (MR_with_recover brel). eapply MR_obindM; [apply MR_until|]. intros n1 n2 Hn.
    eapply MR_obindM; [apply MR_consume|]. intros ob1 ob2 _.
    eapply MR_obindM; [apply MR_until|]. intros q1 q2 Hq.
    mr_bind. intros cb1 cb2 _. apply MR_ret. cbn [orel]. unfold brel. cbn [bd_name bd_close bd_qty].
    split; [exact Hn|]. split; [split; discriminate|].
    rewrite (ksim_existsb_kind (fun k => negb (is_ws_block k)) _ _ Hq).
    destruct (existsb _ q2); [exact Hq | exact I].
  - intros [b1|] [b2|] H; cbn in H; try contradiction; [apply MR_ret; exact H|].
    apply (MR_with_recover brel). mr_bind. intros ts1 ts2 Hts. destruct Hts as [|a b r1 r2 Hab Hr].
    + mr_bind. intros x1 x2 Hx. mr_bind. intros w1 w2 ->. eapply MR_bind with (RA := anyrel).
      * destruct Hx as [|xa xb xr1 xr2 _ _]; [apply MR_ret; exact I|].
        destruct w2; [apply MR_ret; exact I|]. mr_bind. intros c1 c2 _. apply MR_warn.
      * intros _ _ _. apply MR_ret. exact I.
    + apply MR_ret. cbn [orel]. unfold brel. cbn [bd_name bd_close bd_qty].
      split; [constructor; assumption|]. split; [tauto | exact I].
Qed.

(* ---------------------------------------------------------------- parse_inter *)
Lemma parse_inter_rel ts1 ts2 : ksim ts1 ts2 -> MR (prel (orel irel) ksim) (parse_inter ts1) (parse_inter ts2).
Proof.
  intro H. unfold parse_inter. pose proof (ksim_position (fun k => tk_eqb k KCloseParen) _ _ H) as Hp.
  pose proof (fun n => Forall2_firstn krel n _ _ H) as Hfn. pose proof (fun n => Forall2_skipn krel n _ _ H) as Hsk.
  destruct H as [|t01 t02 r1 r2 H0 Hr]; [apply MR_ret; split; [exact I | constructor]|].
  rewrite (krel_kind _ _ H0).
  destruct (negb (tk_eqb (kind t02) KOpenParen)); [apply MR_ret; split; [exact I | constructor; assumption]|].
  rewrite Hp. destruct (position _ (t02 :: r2)) as [endp|]; [|apply MR_panic_l].
  cbv zeta. specialize (Hfn (S endp)). specialize (Hsk (S endp)).
  remember (firstn (S endp) (t01 :: r1)) as sl1 eqn:Es1. remember (firstn (S endp) (t02 :: r2)) as sl2 eqn:Es2.
  remember (skipn (S endp) (t01 :: r1)) as af1 eqn:Ea1. remember (skipn (S endp) (t02 :: r2)) as af2 eqn:Ea2.
  clear Es1 Es2 Ea1 Ea2 Hp.
  assert (Hin : ksim (firstn (endp - 1) (tl sl1)) (firstn (endp - 1) (tl sl2))) by (apply Forall2_firstn, Forall2_tl, Hfn).
  remember (firstn (endp - 1) (tl sl1)) as in1 eqn:Ei1. remember (firstn (endp - 1) (tl sl2)) as in2 eqn:Ei2.
  clear Ei1 Ei2.
  assert (Hf : ksim (filter (fun t => negb (is_ws_block (kind t))) in1) (filter (fun t => negb (is_ws_block (kind t))) in2)).
  { apply Forall2_filter_k; [|exact Hin]. intros a b Hab. rewrite (krel_kind _ _ Hab). reflexivity. }
  pose proof (Forall2_rev' _ _ _ Hf) as Hrv.
  remember (filter (fun t => negb (is_ws_block (kind t))) in1) as f1 eqn:Ef1.
  remember (filter (fun t => negb (is_ws_block (kind t))) in2) as f2 eqn:Ef2. clear Ef1 Ef2.
  assert (Herr : forall c l1 l2, MR (prel (orel irel) ksim) (error c l1 ;;; ret (@None interdata, af1))
                                    (error c l2 ;;; ret (@None interdata, af2))).
  { intros c l1 l2. mr_err_ret. split; [exact I | exact Hsk]. }
  assert (Hgood : forall i1 i2 c rl sc, krel i1 i2 -> c && tk_eqb (kind i2) KInt = true ->
    MR (prel (orel irel) ksim)
       (if digits_val (tstr i1) <=? i16_max
        then ret (Some {| im_relative := rl; im_section := sc; im_val := digits_val (tstr i1); im_span := tokens_span sl1 |}, af1)
        else error D_INTER_INT [tok_span i1] ;;; ret (None, af1))
       (if digits_val (tstr i2) <=? i16_max
        then ret (Some {| im_relative := rl; im_section := sc; im_val := digits_val (tstr i2); im_span := tokens_span sl2 |}, af2)
        else error D_INTER_INT [tok_span i2] ;;; ret (None, af2))).
  { intros i1 i2 c rl sc Hi E. rewrite (krel_int_tstr _ _ _ Hi E).
    destruct (digits_val (tstr i2) <=? i16_max); [|apply Herr]. apply MR_ret. split; [reflexivity | exact Hsk]. }
  destruct Hf as [|a1 a2 g1 g2 Ha Hg]; [apply Herr|].
  destruct Hg as [|b1 b2 g1 g2 Hb Hg].
  { cbv iota. rewrite (krel_kind _ _ Ha). destruct (tk_eqb (kind a2) KInt) eqn:E; [|apply Herr].
    apply (Hgood a1 a2 true); [exact Ha | exact E]. }
  destruct Hg as [|c1 c2 g1 g2 Hc Hg].
  { cbv iota. rewrite (krel_kind _ _ Ha), (krel_kind _ _ Hb).
    destruct (tk_eqb (kind a2) KTilde && tk_eqb (kind b2) KInt) eqn:E1; [apply (Hgood b1 b2 _ _ _ Hb E1)|].
    destruct (tk_eqb (kind a2) KEq && tk_eqb (kind b2) KInt) eqn:E2; [apply (Hgood b1 b2 _ _ _ Hb E2)|].
    destruct ((tk_eqb (kind a2) KMinus || tk_eqb (kind a2) KPlus) && tk_eqb (kind b2) KInt); apply Herr. }
  destruct Hg as [|d1 d2 g1 g2 Hd Hg].
  { cbv iota. rewrite (krel_kind _ _ Ha), (krel_kind _ _ Hb), (krel_kind _ _ Hc).
    destruct (tk_eqb (kind a2) KEq && tk_eqb (kind b2) KTilde && tk_eqb (kind c2) KInt) eqn:E1;
      [apply (Hgood c1 c2 _ _ _ Hc E1)|].
    destruct (tk_eqb (kind a2) KTilde && tk_eqb (kind b2) KEq && tk_eqb (kind c2) KInt); [apply Herr|].
    destruct ((tk_eqb (kind b2) KMinus || tk_eqb (kind b2) KPlus) && tk_eqb (kind c2) KInt); apply Herr. }
  cbv iota zeta.
  remember (rev (a1 :: b1 :: c1 :: d1 :: g1)) as rv1 eqn:Er1. remember (rev (a2 :: b2 :: c2 :: d2 :: g2)) as rv2 eqn:Er2.
  clear Er1 Er2. destruct Hrv as [|i1 i2 w1 w2 Hi Hw]; [apply Herr|].
  destruct Hw as [|s1 s2 w1 w2 Hs Hw]; [apply Herr|].
  rewrite (krel_kind _ _ Hi), (krel_kind _ _ Hs).
  destruct ((tk_eqb (kind s2) KMinus || tk_eqb (kind s2) KPlus) && tk_eqb (kind i2) KInt); apply Herr.
Qed.

Section Comp.
  Variable cfg : pcfg.
  Hypothesis parse_quantity_rel : forall ts1 ts2, ksim ts1 ts2 ->
    MR (prel qrel anyrel) (parse_quantity cfg ts1) (parse_quantity cfg ts2).

  Lemma modifiers_loop_rel fuel : forall acc1 acc2, ksim acc1 acc2 ->
    MR ksim (modifiers_loop cfg fuel acc1) (modifiers_loop cfg fuel acc2).
  Proof.
    induction fuel as [|f IH]; intros acc1 acc2 Hacc; cbn [modifiers_loop]; [apply MR_panic_l|].
    mr_bind. intros k1 k2 ->.
    destruct k2; try (apply MR_ret; exact Hacc);
      try (mr_bind; intros t1 t2 Ht; apply IH; apply ksim_app; [exact Hacc | apply ksim_one; exact Ht]).
    mr_bind. intros t1 t2 Ht.
    destruct (has cfg X_INTERMEDIATE_PREPARATIONS);
      [|apply IH; apply ksim_app; [exact Hacc | apply ksim_one; exact Ht]].
    eapply MR_bind.
    - apply (MR_with_recover ksim). eapply MR_obindM; [apply MR_consume|]. intros op1 op2 Hop.
      eapply MR_obindM; [apply MR_until|]. intros in1 in2 Hin. mr_bind. intros cp1 cp2 Hcp.
      apply MR_ret. cbn [orel]. constructor; [exact Hop|]. apply ksim_app; [exact Hin | apply ksim_one; exact Hcp].
    - intros [ts1|] [ts2|] H; cbn in H; try contradiction; apply IH; apply ksim_app; try exact Hacc.
      + constructor; assumption.
      + apply ksim_one; exact Ht.
  Qed.

  Lemma modifiers_rel : MR ksim (modifiers cfg) (modifiers cfg).
  Proof.
    unfold modifiers. destruct (negb (has cfg X_COMPONENT_MODIFIERS)); [apply MR_ret; constructor|].
    mr_bind. intros r1 r2 Hr. rewrite (ksim_length _ _ Hr). apply modifiers_loop_rel. constructor.
  Qed.

  Lemma note_rel : MR (orel trel) (note cfg) (note cfg).
  Proof.
    unfold note. apply MR_with_recover. eapply MR_obindM; [apply MR_consume|]. intros op1 op2 _.
    mr_bind. intros o1 o2 _. eapply MR_obindM; [apply MR_until|]. intros n1 n2 Hn.
    mr_bind. intros cp1 cp2 _. eapply MR_bind; [apply MR_textM; exact Hn|]. intros t1 t2 Ht.
    apply MR_ret. exact Ht.
  Qed.

  Lemma check_note_rel : MR anyrel (check_note cfg) (check_note cfg).
  Proof.
    unfold check_note. eapply MR_bind with (RA := orel (@anyrel unit unit)).
    - apply MR_with_recover. eapply MR_obindM; [apply MR_consume|]. intros op1 op2 _.
      eapply MR_obindM; [apply MR_until|]. intros i1 i2 _. mr_bind. intros cp1 cp2 _.
      eapply MR_bind with (RA := anyrel).
      + destruct (tstart op1 =? 0); [apply MR_panic_l|]. destruct (tstart op2 =? 0); [apply MR_panic_r|].
        apply MR_ret. exact I.
      + intros _ _ _. mr_err_ret. exact I.
    - intros _ _ _. apply MR_ret. exact I.
  Qed.

  Lemma check_empty_name_rel n1 n2 : trel n1 n2 -> MR anyrel (check_empty_name n1) (check_empty_name n2).
  Proof.
    intro H. unfold check_empty_name. rewrite (trel_empty _ _ H).
    destruct (is_text_empty n2); [apply MR_error | apply MR_ret; exact I].
  Qed.

  Lemma parse_alias_rel ts1 ts2 o1 o2 : ksim ts1 ts2 ->
    MR (prel trel (orel trel)) (parse_alias cfg ts1 o1) (parse_alias cfg ts2 o2).
  Proof.
    intro H. unfold parse_alias. rewrite (ksim_position _ _ _ H).
    destruct (if has cfg X_COMPONENT_ALIAS then position (fun k => tk_eqb k KOr) ts2 else None) as [sepi|].
    - pose proof (Forall2_skipn _ sepi _ _ H) as Hs.
      destruct (skipn sepi ts1) as [|sep1 a1], (skipn sepi ts2) as [|sep2 a2]; try (inversion Hs; fail).
      + eapply MR_bind; [apply MR_textM; exact H|]. intros t1 t2 Ht. apply MR_ret. split; [exact Ht | exact I].
      + assert (Ha : ksim a1 a2) by (inversion Hs; assumption).
        eapply MR_bind; [apply MR_textM; exact Ha|]. intros at1 at2 Hat.
        eapply MR_bind with (RA := orel trel).
        * rewrite (ksim_existsb_kind (fun k => tk_eqb k KOr) _ _ Ha).
          destruct (existsb _ a2); [mr_err_ret; exact I|].
          rewrite (trel_empty _ _ Hat). destruct (is_text_empty at2); [mr_err_ret; exact I|].
          apply MR_ret. exact Hat.
        * intros al1 al2 Hal. eapply MR_bind; [apply MR_textM; apply Forall2_firstn; exact H|].
          intros t1 t2 Ht. apply MR_ret. split; [exact Ht | exact Hal].
    - eapply MR_bind; [apply MR_textM; exact H|]. intros t1 t2 Ht. apply MR_ret. split; [exact Ht | exact I].
  Qed.
  (* ---------------------------------------------------------------- parse_modifiers *)
  Lemma parse_mods_loop_rel fuel : forall ts1 ts2 ms1 ms2 mods i1 i2, ksim ts1 ts2 -> orel irel i1 i2 ->
    MR (prel eq (orel irel)) (parse_mods_loop cfg fuel ts1 ms1 mods i1) (parse_mods_loop cfg fuel ts2 ms2 mods i2).
  Proof.
    induction fuel as [|f IH]; intros ts1 ts2 ms1 ms2 mods i1 i2 Hts Hi; cbn [parse_mods_loop]; [apply MR_panic_l|].
    destruct Hts as [|t1 t2 r1 r2 Ht Hr]; [apply MR_ret; split; [reflexivity | exact Hi]|].
    rewrite (krel_kind _ _ Ht). destruct (mod_bit (kind t2)) as [bit|]; [|apply MR_panic_l].
    eapply MR_bind with (RA := prel (orel irel) ksim).
    - destruct (tk_eqb (kind t2) KAnd && has cfg X_INTERMEDIATE_PREPARATIONS);
        [apply parse_inter_rel; exact Hr | apply MR_ret; split; assumption].
    - intros [j1 q1] [j2 q2] [Hj Hq]. cbn [fst snd] in Hj, Hq.
      destruct (N.land mods bit =? bit); [|apply IH; assumption].
      eapply MR_bind; [apply MR_error|]. intros _ _ _. apply IH; assumption.
  Qed.

  Lemma parse_modifiers_rel mts1 mts2 p1 p2 : ksim mts1 mts2 ->
    MR mrel (parse_modifiers cfg mts1 p1) (parse_modifiers cfg mts2 p2).
  Proof.
    intro H. unfold parse_modifiers. pose proof (ksim_length _ _ H) as Hl.
    destruct H as [|a b r1 r2 Hab Hr]; [apply MR_ret; split; [reflexivity | exact I]|].
    rewrite Hl. eapply MR_bind.
    - apply parse_mods_loop_rel with (i1 := None) (i2 := None); [constructor; assumption | exact I].
    - intros [m1 j1] [m2 j2] [Hm Hj]. apply MR_ret. split; assumption.
  Qed.

  (* ---------------------------------------------------------------- ingredient, cookware, timer *)
  Theorem ingredient_rel : MR (orel erel) (ingredient_p cfg) (ingredient_p cfg).
  Proof.
    unfold ingredient_p. mr_bind. intros st1 st2 _. eapply MR_obindM; [apply MR_consume|]. intros at1 at2 _.
    mr_bind. intros mp1 mp2 _. eapply MR_bind; [apply modifiers_rel|]. intros mts1 mts2 Hm.
    mr_bind. intros no1 no2 _. eapply MR_obindM; [apply comp_body_rel|]. intros b1 b2 (Hbn & Hbc & Hbq).
    eapply MR_bind; [apply note_rel|]. intros nt1 nt2 Hnt. mr_bind. intros en1 en2 _.
    eapply MR_bind; [apply parse_alias_rel; exact Hbn|]. intros [n1 a1] [n2 a2] [Hn Ha]. cbn [fst snd] in Hn, Ha.
    eapply MR_bind; [apply check_empty_name_rel; exact Hn|]. intros _ _ _.
    eapply MR_bind; [apply parse_modifiers_rel; exact Hm|]. intros [[m1 ms1] j1] [[m2 ms2] j2] [Hmm Hj].
    cbn [fst snd] in Hmm, Hj. subst m2.
    eapply MR_bind with (RA := orel qrel).
    - destruct (bd_qty b1) as [q1|], (bd_qty b2) as [q2|]; cbn in Hbq; try contradiction; [|apply MR_ret; exact I].
      eapply MR_bind; [apply parse_quantity_rel; exact Hbq|]. intros [x1 u1] [x2 u2] [Hx _]. apply MR_ret. exact Hx.
    - intros q1 q2 Hq. apply MR_ret. cbn [orel]. unfold erel.
      cbn [proj i_mods i_inter i_name i_alias i_qty i_note].
      rewrite (orel_map_pinter _ _ Hj), (trel_tx _ _ Hn), (orel_map_tx _ _ Ha), (orel_map_pq _ _ Hq),
        (orel_map_tx _ _ Hnt). reflexivity.
  Qed.

  Definition cqrel (a b : qvalue * span) : Prop := qvrel (fst a) (fst b).
  Lemma orel_map_cq o1 o2 : orel cqrel o1 o2 ->
    option_map (fun q : qvalue * span => pqv (fst q)) o1 = option_map (fun q : qvalue * span => pqv (fst q)) o2.
  Proof. destruct o1, o2; cbn; try tauto. intro H. rewrite (qvrel_pqv _ _ H). reflexivity. Qed.

  Theorem cookware_rel : MR (orel erel) (cookware_p cfg) (cookware_p cfg).
  Proof.
    unfold cookware_p. mr_bind. intros st1 st2 _. eapply MR_obindM; [apply MR_consume|]. intros at1 at2 _.
    mr_bind. intros mp1 mp2 _. eapply MR_bind; [apply modifiers_rel|]. intros mts1 mts2 Hm.
    mr_bind. intros no1 no2 _. eapply MR_obindM; [apply comp_body_rel|]. intros b1 b2 (Hbn & Hbc & Hbq).
    eapply MR_bind; [apply note_rel|]. intros nt1 nt2 Hnt. mr_bind. intros en1 en2 _.
    eapply MR_bind; [apply parse_alias_rel; exact Hbn|]. intros [n1 a1] [n2 a2] [Hn Ha]. cbn [fst snd] in Hn, Ha.
    eapply MR_bind; [apply check_empty_name_rel; exact Hn|]. intros _ _ _.
    eapply MR_bind with (RA := orel cqrel).
    - destruct (bd_qty b1) as [q1|], (bd_qty b2) as [q2|]; cbn in Hbq; try contradiction; [|apply MR_ret; exact I].
      eapply MR_bind; [apply parse_quantity_rel; exact Hbq|]. intros [x1 u1] [x2 u2] [[Hv Hu] _].
      cbn [fst snd] in Hv, Hu. eapply MR_bind with (RA := anyrel).
      + destruct (q_unit x1), (q_unit x2); cbn in Hu; try contradiction; [apply MR_error | apply MR_ret; exact I].
      + intros _ _ _. apply MR_ret. exact Hv.
    - intros q1 q2 Hq.
      eapply MR_bind; [apply parse_modifiers_rel; exact Hm|]. intros [[m1 ms1] j1] [[m2 ms2] j2] [Hmm Hj].
      cbn [fst snd] in Hmm, Hj. subst m2.
      eapply MR_bind with (RA := anyrel).
      { destruct j1, j2; cbn in Hj; try contradiction; [apply MR_error | apply MR_ret; exact I]. }
      intros _ _ _. eapply MR_bind with (RA := anyrel).
      { destruct (N.land m1 M_RECIPE =? M_RECIPE); [|apply MR_ret; exact I].
        pose proof (ksim_find_kind (fun k => tk_eqb k KAt) _ _ Hm) as Hf.
        destruct (find _ mts1), (find _ mts2); cbn in Hf; try contradiction; [apply MR_error | apply MR_panic_l]. }
      intros _ _ _. apply MR_ret. cbn [orel]. unfold erel.
      cbn [proj c_mods c_name c_alias c_qty c_note].
      rewrite (trel_tx _ _ Hn), (orel_map_tx _ _ Ha), (orel_map_cq _ _ Hq), (orel_map_tx _ _ Hnt). reflexivity.
  Qed.

  Theorem timer_rel : MR (orel erel) (timer_p cfg) (timer_p cfg).
  Proof.
    unfold timer_p. mr_bind. intros st1 st2 _. eapply MR_obindM; [apply MR_consume|]. intros at1 at2 _.
    eapply MR_bind; [apply modifiers_rel|]. intros mts1 mts2 Hm.
    mr_bind. intros no1 no2 _. eapply MR_obindM; [apply comp_body_rel|]. intros b1 b2 (Hbn & Hbc & Hbq).
    mr_bind. intros en1 en2 _.
    eapply MR_bind with (RA := anyrel).
    { destruct Hm; [apply MR_ret; exact I | apply MR_error]. }
    intros _ _ _. eapply MR_bind with (RA := anyrel).
    { destruct (has cfg X_COMPONENT_ALIAS); [|apply MR_ret; exact I].
      rewrite (ksim_position _ _ _ Hbn). destruct (position _ (bd_name b2)) as [sepi|]; [|apply MR_ret; exact I].
      pose proof (Forall2_skipn _ sepi _ _ Hbn) as Hs.
      destruct (skipn sepi (bd_name b1)), (skipn sepi (bd_name b2)); try (inversion Hs; fail);
        [apply MR_ret; exact I | apply MR_error]. }
    intros _ _ _. eapply MR_bind; [apply check_note_rel|]. intros _ _ _.
    eapply MR_bind; [apply MR_textM; exact Hbn|]. intros n1 n2 Hn.
    eapply MR_bind with (RA := orel qrel).
    { destruct (bd_qty b1) as [q1|], (bd_qty b2) as [q2|]; cbn in Hbq; try contradiction; [|apply MR_ret; exact I].
      eapply MR_bind; [apply parse_quantity_rel; exact Hbq|]. intros [x1 u1] [x2 u2] [Hx _].
      cbn [fst snd] in Hx. eapply MR_bind with (RA := anyrel).
      + destruct Hx as [_ Hu]. destruct (q_unit x1), (q_unit x2); cbn in Hu; try contradiction;
          [apply MR_ret; exact I | apply MR_error].
      + intros _ _ _. apply MR_ret. exact Hx. }
    intros q1 q2 Hq. eapply MR_bind with (RA := orel qrel).
    { destruct q1 as [q1|], q2 as [q2|]; cbn in Hq; try contradiction; [apply MR_ret; exact Hq|].
      destruct (has cfg X_TIMER_REQUIRES_TIME); [|apply MR_ret; exact I]. mr_err_ret. exact qrel_recover. }
    intros q1' q2' Hq'. rewrite (trel_empty _ _ Hn). eapply MR_bind with (RA := orel qrel).
    { destruct (is_text_empty n2); [|apply MR_ret; exact Hq'].
      destruct q1' as [q1'|], q2' as [q2'|]; cbn in Hq'; try contradiction; [apply MR_ret; exact Hq'|].
      mr_err_ret. exact qrel_recover. }
    intros q1'' q2'' Hq''. apply MR_ret. cbn [orel]. unfold erel. cbn [proj t_name t_qty].
    rewrite (orel_map_pq _ _ Hq''). destruct (is_text_empty n2); cbn [option_map]; [reflexivity|].
    rewrite (trel_tx _ _ Hn). reflexivity.
  Qed.
End Comp.
