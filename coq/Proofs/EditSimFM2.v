(* Property C17, insertion of whole lines and the front-matter splitter (Model/Parser.v,
   parse_frontmatter).  Builds on Proofs/EditSimFM.v (the splitter by lines, [fm_parts]).
   A text "ends a line" when it is empty or ends with LF; at such a place the list of lines of a
   concatenation is the concatenation of the lists of lines ([lines_inclusive_app_endline]).
   Goal 1: inserting lines none of which is a fence at a line boundary of a text without front
           matter gives a text without front matter ([parse_frontmatter_insert_none]).
   Goal 2: when the text before the recipe part ends with LF (in particular when the recipe part
           is not empty), the recipe part can be replaced by any text — the front matter is found
           again with the same YAML text and the same offsets ([parse_frontmatter_replace_cook]);
           insertion of lines in the recipe part is the special case
           ([parse_frontmatter_insert_some]). *)
From CL Require Import Base.StrLemmas Model.Lexer Model.PText Model.Parser Model.Edits
  Proofs.EditProofs Proofs.ParserFM Proofs.EditSimFM.

Definition ends_line (x : str) : Prop := x = [] \/ exists p, x = p ++ [10].

(* ---------------------------------------------------------------- lines of a concatenation *)

Lemma lines_inclusive_nil_inv s : lines_inclusive s = [] -> s = [].
Proof. intro H. rewrite <- (lines_inclusive_concat s), H. reflexivity. Qed.

Lemma lines_inclusive_app_lf p y :
  lines_inclusive ((p ++ [10]) ++ y) = lines_inclusive (p ++ [10]) ++ lines_inclusive y.
Proof.
  induction p as [|c r IH]; [reflexivity|].
  cbn [app lines_inclusive]. cbn [app] in IH. destruct (c =? 10).
  - rewrite IH. reflexivity.
  - rewrite IH. destruct (lines_inclusive (r ++ [10])) as [|l0 ls0] eqn:E; [|reflexivity].
    apply lines_inclusive_nil_inv in E. destruct r; discriminate.
Qed.

Lemma lines_inclusive_app_endline x y : ends_line x ->
  lines_inclusive (x ++ y) = lines_inclusive x ++ lines_inclusive y.
Proof. intros [-> | (p & ->)]; [reflexivity | apply lines_inclusive_app_lf]. Qed.

(* every line but the last ends with LF *)
Lemma lines_inclusive_nonlast s : forall l ls,
  lines_inclusive s = l :: ls -> ls <> [] -> exists p, l = p ++ [10].
Proof.
  induction s as [|c r IH]; intros l ls H Hn; cbn [lines_inclusive] in H; [discriminate|].
  destruct (c =? 10) eqn:E10.
  - apply N.eqb_eq in E10. subst c. inversion H. exists []. reflexivity.
  - destruct (lines_inclusive r) as [|l0 ls0] eqn:El.
    + inversion H; subst. contradiction.
    + inversion H; subst. destruct (IH l0 ls eq_refl Hn) as (p & ->). exists (c :: p). reflexivity.
Qed.

(* ---------------------------------------------------------------- split_fence and insertion *)

Lemma split_fence_none_app a b :
  split_fence a = None -> split_fence b = None -> split_fence (a ++ b) = None.
Proof.
  induction a as [|l r IH]; intros Ha Hb; [exact Hb|]. cbn [app split_fence] in *.
  destruct (is_fence l); [discriminate|].
  destruct (split_fence r) as [[[p f] q]|]; [discriminate|]. rewrite (IH eq_refl Hb). reflexivity.
Qed.

Lemma split_fence_none_app_l a b : split_fence a = None ->
  split_fence (a ++ b) =
  match split_fence b with Some (p, f, q) => Some (a ++ p, f, q) | None => None end.
Proof.
  induction a as [|l r IH]; intro Ha.
  - cbn [app]. destruct (split_fence b) as [[[p f] q]|]; reflexivity.
  - cbn [app split_fence] in *. destruct (is_fence l); [discriminate|].
    destruct (split_fence r) as [[[p f] q]|]; [discriminate|]. rewrite (IH eq_refl).
    destruct (split_fence b) as [[[p f] q]|]; reflexivity.
Qed.

Lemma split_fence_some_app a b p f q : split_fence a = Some (p, f, q) ->
  split_fence (a ++ b) = Some (p, f, q ++ b).
Proof.
  revert p f q. induction a as [|l r IH]; intros p f q Ha; cbn [app split_fence] in *; [discriminate|].
  destruct (is_fence l).
  - inversion Ha; subst. reflexivity.
  - destruct (split_fence r) as [[[p' f'] q']|]; [|discriminate]. inversion Ha; subst.
    rewrite (IH _ _ _ eq_refl). reflexivity.
Qed.

Lemma split_fence_nofence L : Forall (fun x => is_fence x = false) L -> split_fence L = None.
Proof.
  induction 1 as [|l r Hl _ IH]; [reflexivity|]. cbn [split_fence]. rewrite Hl, IH. reflexivity.
Qed.

(* the fence found stays the fence found when the lines after it are replaced *)
Lemma split_fence_replace_tail ls p f q q' :
  split_fence ls = Some (p, f, q) -> split_fence (p ++ f :: q') = Some (p, f, q').
Proof.
  revert p f q. induction ls as [|l r IH]; intros p f q H; cbn [split_fence] in H; [discriminate|].
  destruct (is_fence l) eqn:El.
  - inversion H; subst. cbn [app split_fence]. rewrite El. reflexivity.
  - destruct (split_fence r) as [[[p0 f0] q0]|]; [|discriminate]. inversion H; subst.
    cbn [app split_fence]. rewrite El, (IH _ _ _ eq_refl). reflexivity.
Qed.

(* inserting lines without a fence: nothing found stays nothing found; otherwise the same fence
   is found and the inserted lines are either before it or after it *)
Lemma split_fence_insert_none A L B : Forall (fun x => is_fence x = false) L ->
  split_fence (A ++ B) = None -> split_fence (A ++ L ++ B) = None.
Proof.
  intros HL H. apply split_fence_nofence in HL.
  destruct (split_fence A) as [[[p f] q]|] eqn:EA.
  - rewrite (split_fence_some_app _ B _ _ _ EA) in H. discriminate.
  - rewrite (split_fence_none_app_l _ _ EA) in H.
    destruct (split_fence B) as [[[p f] q]|] eqn:EB; [discriminate|].
    apply split_fence_none_app; [exact EA|]. apply split_fence_none_app; assumption.
Qed.

Lemma split_fence_insert_some A L B p f q : Forall (fun x => is_fence x = false) L ->
  split_fence (A ++ B) = Some (p, f, q) ->
  (exists p2, p = A ++ p2 /\ split_fence (A ++ L ++ B) = Some (A ++ L ++ p2, f, q))
  \/ (exists q1, q = q1 ++ B /\ split_fence (A ++ L ++ B) = Some (p, f, q1 ++ L ++ B)).
Proof.
  intros HL H. apply split_fence_nofence in HL.
  destruct (split_fence A) as [[[p0 f0] q0]|] eqn:EA.
  - right. rewrite (split_fence_some_app _ B _ _ _ EA) in H. inversion H; subst.
    exists q0. split; [reflexivity|]. apply split_fence_some_app. exact EA.
  - left. rewrite (split_fence_none_app_l _ _ EA) in H.
    destruct (split_fence B) as [[[p0 f0] q0]|] eqn:EB; [|discriminate]. inversion H; subst.
    exists p0. split; [reflexivity|].
    rewrite (split_fence_none_app_l _ _ EA), (split_fence_none_app_l _ _ HL), EB.
    reflexivity.
Qed.

(* ---------------------------------------------------------------- Goal 1 *)

Lemma str_blank_app x y : str_blank (x ++ y) = str_blank x && str_blank y.
Proof. apply forallb_app. Qed.

Theorem parse_frontmatter_insert_none cfg a l b :
  (a = [] \/ exists p, a = p ++ [10]) ->
  (exists p, l = p ++ [10]) ->
  Forall (fun x => is_fence x = false) (lines_inclusive l) ->
  parse_frontmatter cfg (a ++ b) = None ->
  parse_frontmatter cfg (a ++ l ++ b) = None.
Proof.
  intros Ha Hl HL. rewrite !parse_frontmatter_parts. unfold fm_parts.
  rewrite (lines_inclusive_app_endline a (l ++ b) Ha), (lines_inclusive_app_endline a b Ha).
  rewrite (lines_inclusive_app_endline l b (or_intror Hl)).
  set (A := lines_inclusive a). set (L := lines_inclusive l) in *. set (B := lines_inclusive b).
  destruct (split_fence (A ++ B)) as [[[p f1] q]|] eqn:E1.
  - destruct (split_fence_insert_some A L B p f1 q HL E1) as [(p2 & -> & ->) | (q1 & -> & ->)].
    + destruct (split_fence q) as [[[m f2] t]|]; [|reflexivity].
      rewrite !concat_app, !str_blank_app.
      destruct (p_fm_anywhere cfg); cbn [orb]; [discriminate|].
      destruct (str_blank (concat A)); cbn [andb]; [|reflexivity].
      destruct (str_blank (concat p2)); [|rewrite andb_false_r; reflexivity]. discriminate.
    + destruct (split_fence (q1 ++ B)) as [[[m f2] t]|] eqn:E2.
      * destruct (split_fence_insert_some q1 L B m f2 t HL E2) as [(m2 & -> & ->) | (t1 & -> & ->)];
          destruct (p_fm_anywhere cfg || str_blank (concat p)); (discriminate || reflexivity).
      * rewrite (split_fence_insert_none q1 L B HL E2). reflexivity.
  - rewrite (split_fence_insert_none A L B HL E1). reflexivity.
Qed.

(* with blank inserted lines (or front matter allowed anywhere) the converse holds too *)
Theorem parse_frontmatter_insert_blank_none_iff cfg a l b :
  (a = [] \/ exists p, a = p ++ [10]) ->
  (exists p, l = p ++ [10]) ->
  Forall (fun x => is_fence x = false) (lines_inclusive l) ->
  p_fm_anywhere cfg = true \/ str_blank l = true ->
  parse_frontmatter cfg (a ++ l ++ b) = None <-> parse_frontmatter cfg (a ++ b) = None.
Proof.
  intros Ha Hl HL Hb. rewrite !parse_frontmatter_parts. unfold fm_parts.
  rewrite (lines_inclusive_app_endline a (l ++ b) Ha), (lines_inclusive_app_endline a b Ha).
  rewrite (lines_inclusive_app_endline l b (or_intror Hl)).
  assert (HbL : p_fm_anywhere cfg = true \/ str_blank (concat (lines_inclusive l)) = true)
    by (rewrite lines_inclusive_concat; exact Hb). clear Hb.
  set (A := lines_inclusive a). set (L := lines_inclusive l) in *. set (B := lines_inclusive b).
  destruct (split_fence (A ++ B)) as [[[p f1] q]|] eqn:E1.
  - destruct (split_fence_insert_some A L B p f1 q HL E1) as [(p2 & -> & ->) | (q1 & -> & ->)].
    + destruct (split_fence q) as [[[m f2] t]|]; [|tauto].
      rewrite !concat_app, !str_blank_app.
      destruct HbL as [-> | ->]; cbn [orb andb]; [split; discriminate|].
      destruct (p_fm_anywhere cfg || str_blank (concat A) && str_blank (concat p2)); [|tauto].
      split; discriminate.
    + destruct (split_fence (q1 ++ B)) as [[[m f2] t]|] eqn:E2.
      * destruct (split_fence_insert_some q1 L B m f2 t HL E2) as [(m2 & -> & ->) | (t1 & -> & ->)];
          (destruct (p_fm_anywhere cfg || str_blank (concat p)); [split; discriminate | tauto]).
      * rewrite (split_fence_insert_none q1 L B HL E2). tauto.
  - rewrite (split_fence_insert_none A L B HL E1). tauto.
Qed.

(* ---------------------------------------------------------------- Goal 2 *)

(* the text before the recipe part *)
Lemma cook_pre_parts cfg s fm p f1 m f2 t :
  parse_frontmatter cfg s = Some fm -> fm_parts s = Some (p, f1, m, f2, t) ->
  take_bytes s (cook_off fm) = concat (p ++ f1 :: m ++ [f2])
  /\ lines_inclusive (concat (p ++ f1 :: m ++ [f2])) = p ++ f1 :: m ++ [f2]
  /\ cook_text fm = concat t /\ yaml_text fm = concat m
  /\ yaml_off fm = blen (concat p ++ f1)
  /\ cook_off fm = blen (concat (p ++ f1 :: m ++ [f2]))
  /\ p_fm_anywhere cfg || str_blank (concat p) = true.
Proof.
  intros H E. rewrite parse_frontmatter_parts, E in H.
  destruct (p_fm_anywhere cfg || str_blank (concat p)); [|discriminate].
  inversion H as [Hfm]. clear H Hfm. cbn [yaml_text cook_text yaml_off cook_off].
  pose proof (fm_parts_text _ _ _ _ _ _ E) as Ht. apply fm_parts_lines in E.
  assert (C : concat (p ++ f1 :: m ++ [f2]) = concat p ++ f1 ++ concat m ++ f2).
  { rewrite concat_app. cbn [concat]. rewrite concat_app. cbn [concat]. rewrite app_nil_r. reflexivity. }
  split; [|split; [|repeat split]].
  - rewrite C. rewrite Ht at 1.
    replace (concat p ++ f1 ++ concat m ++ f2 ++ concat t)
      with ((concat p ++ f1 ++ concat m ++ f2) ++ concat t) by (rewrite <- !app_assoc; reflexivity).
    apply take_bytes_app.
  - apply (lines_inclusive_prefix s _ t).
    rewrite E, <- !app_assoc. cbn [app]. rewrite <- app_assoc. reflexivity.
  - rewrite C. reflexivity.
Qed.

(* the recipe part can be replaced by any text when the text before it ends with LF *)
Theorem parse_frontmatter_replace_cook cfg s fm c :
  parse_frontmatter cfg s = Some fm ->
  (exists q, take_bytes s (cook_off fm) = q ++ [10]) ->
  exists fm', parse_frontmatter cfg (take_bytes s (cook_off fm) ++ c) = Some fm'
    /\ yaml_text fm' = yaml_text fm /\ yaml_off fm' = yaml_off fm
    /\ cook_text fm' = c /\ cook_off fm' = cook_off fm.
Proof.
  intros H Hq. pose proof H as H0. rewrite parse_frontmatter_parts in H0.
  destruct (fm_parts s) as [[[[[p f1] m] f2] t]|] eqn:E; [|discriminate]. clear H0.
  destruct (cook_pre_parts _ _ _ _ _ _ _ _ H E) as (T & Lp & Hc & Hy & Hyo & Hco & Hb).
  rewrite parse_frontmatter_parts. unfold fm_parts.
  rewrite (lines_inclusive_app_endline _ c (or_intror Hq)), T, Lp.
  unfold fm_parts in E.
  destruct (split_fence (lines_inclusive s)) as [[[p' f1'] q']|] eqn:E1; [|discriminate].
  destruct (split_fence q') as [[[m' f2'] t']|] eqn:E2; [|discriminate].
  inversion E; subst p' f1' m' f2' t'. clear E.
  rewrite <- app_assoc. cbn [app]. rewrite <- app_assoc. cbn [app].
  rewrite (split_fence_replace_tail _ _ _ _ (m ++ f2 :: lines_inclusive c) E1).
  rewrite (split_fence_replace_tail _ _ _ _ (lines_inclusive c) E2).
  rewrite Hb. eexists. split; [reflexivity|]. cbn [yaml_text cook_text yaml_off cook_off].
  split; [symmetry; exact Hy|]. split; [symmetry; exact Hyo|].
  split; [apply lines_inclusive_concat|].
  rewrite Hco, concat_app. cbn [concat]. rewrite concat_app. cbn [concat]. rewrite app_nil_r. reflexivity.
Qed.

(* a non-empty recipe part begins a line: the text before it ends with LF *)
Lemma cook_pre_ends_lf cfg s fm :
  parse_frontmatter cfg s = Some fm -> cook_text fm <> [] ->
  exists q, take_bytes s (cook_off fm) = q ++ [10].
Proof.
  intros H Hn. pose proof H as H0. rewrite parse_frontmatter_parts in H0.
  destruct (fm_parts s) as [[[[[p f1] m] f2] t]|] eqn:E; [|discriminate]. clear H0.
  destruct (cook_pre_parts _ _ _ _ _ _ _ _ H E) as (T & _ & Hc & _).
  apply fm_parts_lines in E.
  assert (L : lines_inclusive (concat (f2 :: t)) = f2 :: t).
  { apply (lines_inclusive_suffix (p ++ f1 :: m) s). rewrite E, <- app_assoc. reflexivity. }
  assert (Ht : t <> []) by (intros ->; apply Hn; rewrite Hc; reflexivity).
  destruct (lines_inclusive_nonlast _ _ _ L Ht) as (q & ->).
  rewrite T, concat_app. cbn [concat]. rewrite concat_app. cbn [concat]. rewrite app_nil_r.
  exists (concat p ++ f1 ++ concat m ++ q). rewrite <- !app_assoc. reflexivity.
Qed.

(* Goal 2.  Extra hypothesis (needed): the text before the recipe part ends with LF.  Without it
   the second fence is the last line of the text and has no LF, the recipe part is empty, and the
   inserted line would be glued to the fence (see [parse_frontmatter_insert_glued]).  The
   hypotheses on [a] and [l] of the request are not needed. *)
Theorem parse_frontmatter_insert_some cfg s fm a l b :
  parse_frontmatter cfg s = Some fm ->
  cook_text fm = a ++ b ->
  (exists q, take_bytes s (cook_off fm) = q ++ [10]) ->
  exists fm', parse_frontmatter cfg (take_bytes s (cook_off fm) ++ a ++ l ++ b) = Some fm'
    /\ yaml_text fm' = yaml_text fm /\ yaml_off fm' = yaml_off fm
    /\ cook_text fm' = a ++ l ++ b /\ cook_off fm' = cook_off fm.
Proof. intros H _ Hq. apply parse_frontmatter_replace_cook; assumption. Qed.

(* the same with a non-empty recipe part instead *)
Theorem parse_frontmatter_insert_some_nonempty cfg s fm a l b :
  parse_frontmatter cfg s = Some fm ->
  cook_text fm = a ++ b ->
  cook_text fm <> [] ->
  exists fm', parse_frontmatter cfg (take_bytes s (cook_off fm) ++ a ++ l ++ b) = Some fm'
    /\ yaml_text fm' = yaml_text fm /\ yaml_off fm' = yaml_off fm
    /\ cook_text fm' = a ++ l ++ b /\ cook_off fm' = cook_off fm.
Proof.
  intros H Hc Hn. apply (parse_frontmatter_insert_some cfg s fm a l b H Hc).
  apply (cook_pre_ends_lf cfg s fm H Hn).
Qed.

(* the statement of the request, with its hypotheses on [a] and [l], and the extra one *)
Theorem parse_frontmatter_insert_some_lines cfg s fm a l b :
  parse_frontmatter cfg s = Some fm ->
  cook_text fm = a ++ b ->
  (a = [] \/ exists p, a = p ++ [10]) ->
  (exists p, l = p ++ [10]) ->
  Forall (fun x => is_fence x = false) (lines_inclusive l) ->
  (cook_text fm <> [] \/ exists q, take_bytes s (cook_off fm) = q ++ [10]) ->
  exists fm', parse_frontmatter cfg (take_bytes s (cook_off fm) ++ a ++ l ++ b) = Some fm'
    /\ yaml_text fm' = yaml_text fm /\ yaml_off fm' = yaml_off fm
    /\ cook_text fm' = a ++ l ++ b /\ cook_off fm' = cook_off fm.
Proof.
  intros H Hc _ _ _ [Hn | Hq].
  - apply parse_frontmatter_insert_some_nonempty; assumption.
  - apply parse_frontmatter_insert_some; assumption.
Qed.

(* ---------------------------------------------------------------- examples *)

Definition cfg0 : pcfg :=
  {| p_ext := 0; p_debug := false; p_strict_escape := false; p_note_label_old := false;
     p_fm_anywhere := false |}.

(* the hypotheses of Goal 1 are satisfiable: one fence only; text before the first fence *)
Example parse_frontmatter_insert_none_example :
  parse_frontmatter cfg0 ([45; 45; 45; 10] ++ [98; 10]) = None
  /\ parse_frontmatter cfg0 ([45; 45; 45; 10] ++ [97; 10] ++ [98; 10]) = None
  /\ parse_frontmatter cfg0 ([120; 10] ++ [45; 45; 45; 10; 45; 45; 45; 10]) = None
  /\ parse_frontmatter cfg0 ([120; 10] ++ [97; 10] ++ [45; 45; 45; 10; 45; 45; 45; 10]) = None.
Proof. repeat split; vm_compute; reflexivity. Qed.

(* the hypotheses of Goal 2 are satisfiable *)
Example parse_frontmatter_insert_some_example :
  let s := [45; 45; 45; 10; 97; 10; 45; 45; 45; 10; 98; 10] in
  option_map (fun fm => (yaml_text fm, yaml_off fm, cook_text fm, cook_off fm)) (parse_frontmatter cfg0 s)
    = Some ([97; 10], 4, [] ++ [98; 10], 10)
  /\ take_bytes s 10 = [45; 45; 45; 10; 97; 10; 45; 45; 45] ++ [10]
  /\ option_map (fun fm => (yaml_text fm, yaml_off fm, cook_text fm, cook_off fm))
       (parse_frontmatter cfg0 (take_bytes s 10 ++ [] ++ [99; 10] ++ [98; 10]))
    = Some ([97; 10], 4, [99; 10; 98; 10], 10).
Proof. cbv zeta. repeat split; vm_compute; reflexivity. Qed.

(* the extra hypothesis of Goal 2 is needed: the second fence without LF, a line appended *)
Example parse_frontmatter_insert_glued :
  let s := [45; 45; 45; 10; 97; 10; 45; 45; 45] in
  option_map (fun fm => (cook_text fm, cook_off fm)) (parse_frontmatter cfg0 s) = Some ([], 9)
  /\ parse_frontmatter cfg0 (take_bytes s 9 ++ [] ++ [99; 10] ++ []) = None.
Proof. cbv zeta. split; vm_compute; reflexivity. Qed.

Print Assumptions lines_inclusive_app_endline.
Print Assumptions parse_frontmatter_insert_none.
Print Assumptions parse_frontmatter_insert_blank_none_iff.
Print Assumptions parse_frontmatter_replace_cook.
Print Assumptions parse_frontmatter_insert_some.
Print Assumptions parse_frontmatter_insert_some_nonempty.
Print Assumptions parse_frontmatter_insert_some_lines.
