(* Property C17, event level: CRLF conversion of a whole document, with or without a front
   matter, for every source without a backslash or a lone carriage return. *)
From CL Require Import Base.StrLemmas Model.Lexer Model.PText Model.CommentMask Model.Parser Model.Edits
  Proofs.LexerProofs Proofs.EditProofs Proofs.ParserFM Proofs.EditSimDefs Proofs.EditSimDoc Proofs.EditSimAll
  Proofs.EditSimFM.

Theorem crlf_events_full (U : N -> ucls) (cfg : pcfg) :
  (forall c, (c =? 10) || (c =? 13) = true -> is_word_char U c = false /\ is_lex_ws U c = false) ->
  forall s, no_backslash s = true -> no_lone_cr s = true ->
    OR same_events (events U cfg s) (events U cfg (crlf s)).
Proof.
  intros Heol s Hb Hc. destruct (parse_frontmatter cfg s) as [fm|] eqn:F.
  - destruct (parse_frontmatter_crlf_some cfg s fm F) as (fm' & F' & Hy & Hct & _ & _).
    destruct (parse_frontmatter_located cfg s fm F) as [(pre & Es & _) _].
    assert (Hb' : no_backslash (cook_text fm) = true) by (apply (no_backslash_app pre); rewrite <- Es; exact Hb).
    assert (Hc' : no_lone_cr (cook_text fm) = true) by (apply (no_lone_cr_app pre); rewrite <- Es; exact Hc).
    destruct (lex_total U (cook_text fm) (cook_off fm)) as [ts L].
    destruct (lex_total U (cook_text fm') (cook_off fm')) as [ts' L'].
    apply (events_ksim_fm U cfg (ingredient_ksim cfg) (cookware_ksim cfg) (timer_ksim cfg) s (crlf s) fm fm' ts ts' F F').
    + rewrite Hy, crlf_idem. reflexivity.
    + exact L.
    + exact L'.
    + rewrite Hct in L'. exact (crlf_ksim_at U Heol _ _ _ _ _ Hb' Hc' L L').
  - apply (crlf_events_all cfg U Heol); try assumption. apply parse_frontmatter_crlf_none. exact F.
Qed.
