(* The hypotheses of Proofs/MaskProofs.v hold for the character classification dumped from
   the implementation (Gen/CharClass.v, regenerated on every run): finite checks over the
   table, lifted to every code point because code points outside the table have no class. *)
From CL Require Import Base.StrLemmas Model.Lexer Model.CommentMask Proofs.MaskProofs Gen.CharClass.

Lemma lookup_in (P : N -> ucls -> bool) t :
  forallb (fun kv => P (fst kv) (snd kv)) t = true ->
  forall c, (forall x, P x no_class = true) -> P c (cls_lookup c t) = true.
Proof.
  induction t as [|[k v] r IH]; cbn [forallb cls_lookup fst snd]; intros H c Hd; [apply Hd|].
  apply andb_true_iff in H as [H1 H2]. destruct (c =? k) eqn:E.
  - apply N.eqb_eq in E. subst. exact H1.
  - apply IH; assumption.
Qed.

Lemma gen_special_breaks : forall c, special c = true -> is_word_char U c = false /\ is_lex_ws U c = false.
Proof.
  intros c H. unfold special in H.
  destruct (c =? 45) eqn:E1; [apply N.eqb_eq in E1; subst; vm_compute; split; reflexivity|].
  destruct (c =? 91) eqn:E2; [apply N.eqb_eq in E2; subst; vm_compute; split; reflexivity|].
  destruct (c =? 92) eqn:E3; [apply N.eqb_eq in E3; subst; vm_compute; split; reflexivity|].
  discriminate.
Qed.

Definition alnum_ok (c : N) (u : ucls) : bool :=
  implb (u_alnum u)
    (negb (u_punct u) && negb (u_zs u || (c =? 9))
     && match single_kind c with None => true | Some _ => false end
     && negb (c =? 10) && negb (c =? 13) && negb (c =? 62) && negb (c =? 45) && negb (c =? 91)).

Lemma gen_alnum_table : forallb (fun kv => alnum_ok (fst kv) (snd kv)) cls_table = true.
Proof. vm_compute. reflexivity. Qed.

Lemma gen_alnum_not_struct : forall c, u_alnum (U c) = true ->
    u_punct (U c) = false /\ is_lex_ws U c = false /\ single_kind c = None
    /\ (c =? 10) = false /\ (c =? 13) = false /\ (c =? 62) = false /\ (c =? 45) = false /\ (c =? 91) = false.
Proof.
  intros c A. pose proof (lookup_in alnum_ok cls_table gen_alnum_table c (fun x => eq_refl)) as H.
  fold (U c) in H. unfold alnum_ok in H. rewrite A in H. cbn [implb] in H.
  repeat (apply andb_true_iff in H as [H ?]).
  unfold is_lex_ws.
  repeat match goal with X : negb _ = true |- _ => apply negb_true_iff in X end.
  destruct (single_kind c); [discriminate|]. repeat split; assumption.
Qed.
