(* No panic site of Model/Convert.v (fit and what it calls) or Model/Scale.v is reachable on a
   well-formed converter: totality of fit, scale, scale_to_servings (C08_scale_total).
   [conv_wf] states exactly what is needed; it is checked for the regenerated shipped table by
   boolean reflection (vm_compute), and its clauses are what the builder establishes (C16). *)
From Coq Require Import Lia ZArith NArith ZifyBool ZifyN.
From CL Require Import Base.StrLemmas Model.Convert Proofs.ConvertProofs Model.Scale Proofs.ScaleProofs.
Open Scope Q_scope.

(* the two assertions of Number::new_approx (quantity.rs 736-737) hold for this configuration *)
Definition cfg_ok (cfg : frac_cfg) : Prop :=
  Qle_bool 0 (fc_accuracy cfg) = true /\ Qle_bool (fc_accuracy cfg) 1 = true /\ (fc_max_den cfg <= 64)%N.

Record conv_wf (c : converter) : Prop := {
  (* every index entry points into all_units                         (all_units[id], mod.rs 143) *)
  wf_index_range : forall k id, get_unit_id c k = Some id ->
                                exists u, nth_error (all_units c) (N.to_nat id) = Some u;
  (* every unit has a name, a symbol or an alias                      (Unit::symbol expect, mod.rs 288) *)
  wf_named : forall u, In u (all_units c) -> exists s, symbol u = Done s;
  (* the symbol of a stored unit resolves to it                       (fractions_config expect, mod.rs 155) *)
  wf_index : index_consistent c;
  (* best lists hold stored units of their own physical quantity      (assert_eq! in convert_f64, mod.rs 721) *)
  wf_best : forall p s th id, In (th, id) (conversions (best c p) s) ->
                              exists u, nth_error (all_units c) (N.to_nat id) = Some u /\ u_pq u = p;
  (* every fractions configuration is clamped                         (asserts of new_approx) *)
  wf_fractions : forall s p id, cfg_ok (fr_config (c_fractions c) s p id) }.

(* ------------------------------------------------------------------ Number::new_approx never panics *)

Lemma new_approx_total v cfg : cfg_ok cfg -> exists o, new_approx v cfg = Done o.
Proof.
  intros (A & B & C). unfold new_approx. cbv zeta. rewrite A, B. cbn [andb negb].
  assert (D : (64 <? fc_max_den cfg)%N = false) by (apply N.ltb_ge; exact C). rewrite D.
  destruct (Qle_bool v 0); [eexists; reflexivity|].
  destruct (_ || _); [eexists; reflexivity|].
  destruct (Qlt_bool (v - inject_Z (Qtrunc v)) _); [eexists; reflexivity|].
  destruct (_ && _); [eexists; reflexivity|].
  destruct (tbl_lookup _ _) as [[num den]|]; [|eexists; reflexivity].
  destruct (Qlt_bool _ _); eexists; reflexivity.
Qed.

(* ------------------------------------------------------------------ fit never panics *)

Section Total.
  Variable approx : Q -> frac_cfg -> outcome (option number).
  Hypothesis approx_total : forall v cfg, cfg_ok cfg -> exists o, approx v cfg = Done o.
  Variable c : converter.
  Hypothesis Hwf : conv_wf c.

  Lemma unit_at_of_nth id u : nth_error (all_units c) (N.to_nat id) = Some u -> unit_at c id = Done (id, u).
  Proof. intro H. unfold unit_at. rewrite H. reflexivity. Qed.

  Lemma is_ref_of_nth id u : nth_error (all_units c) (N.to_nat id) = Some u -> is_ref c (id, u).
  Proof. intro H. unfold is_ref. cbn [fst]. apply unit_at_of_nth. exact H. Qed.

  Lemma is_ref_nth u : is_ref c u -> nth_error (all_units c) (N.to_nat (fst u)) = Some (snd u).
  Proof. intro H. unfold is_ref in H. apply unit_at_spec in H. tauto. Qed.

  Lemma unit_info_total q : exists ou, unit_info c q = Done ou.
  Proof.
    unfold unit_info, find_unit. destruct (q_unit q) as [k|]; [|eexists; reflexivity].
    destruct (get_unit_id c k) as [id|] eqn:G; [|eexists; reflexivity].
    destruct (wf_index_range c Hwf k id G) as [u Hu]. rewrite (unit_at_of_nth id u Hu).
    eexists; reflexivity.
  Qed.

  Lemma unit_info_ref q u : unit_info c q = Done (Some u) -> is_ref c u.
  Proof. intro H. destruct (unit_info_spec _ _ _ H) as (k & _ & _ & R). exact R. Qed.

  Lemma symbol_total u : is_ref c u -> exists s, symbol (snd u) = Done s.
  Proof. intro H. apply (wf_named c Hwf). eapply is_ref_in; eauto. Qed.

  Lemma fractions_config_total u :
    is_ref c u -> exists cfg, fractions_config c (snd u) = Done cfg /\ cfg_ok cfg.
  Proof.
    intro H. destruct (symbol_total u H) as [s Hs]. unfold fractions_config. rewrite Hs. cbn [obind].
    rewrite (wf_index c Hwf _ _ _ (is_ref_nth u H) Hs). eexists. split; [reflexivity|].
    apply (wf_fractions c Hwf).
  Qed.

  Lemma conv_f64_done v a b : u_pq (snd a) = u_pq (snd b) -> exists w, conv_f64 v a b = Done w.
  Proof. intro P. rewrite (conv_f64_total a b v P). eexists; reflexivity. Qed.

  Lemma try_approx_total n cfg : cfg_ok cfg -> exists r, try_approx approx n cfg = Done r.
  Proof.
    intro H. unfold try_approx. destruct (approx_total (num_value n) cfg H) as [o ->]. cbn [obind].
    destruct o; eexists; reflexivity.
  Qed.

  Lemma try_fraction_total q : exists r, try_fraction approx c q = Done r.
  Proof.
    unfold try_fraction. destruct (unit_info_total q) as [ou Hu]. rewrite Hu. cbn [obind].
    destruct ou as [u|]; [|eexists; reflexivity].
    destruct (fractions_config_total u (unit_info_ref _ _ Hu)) as (cfg & -> & Hc). cbn [obind].
    destruct (negb (fc_enabled cfg)); [eexists; reflexivity|].
    destruct (q_value q) as [n|s e|t].
    - destruct (try_approx_total n cfg Hc) as [r ->]. eexists; reflexivity.
    - destruct (try_approx_total s cfg Hc) as [rs ->]. cbn [obind]. destruct (snd rs); [eexists; reflexivity|].
      destruct (try_approx_total e cfg Hc) as [re ->]. eexists; reflexivity.
    - eexists; reflexivity.
  Qed.

  (* a list of thresholds whose ids are stored units of physical quantity p *)
  Definition convs_ok (p : pq) (convs : best_convs) : Prop :=
    forall th id, In (th, id) convs ->
                  exists u, nth_error (all_units c) (N.to_nat id) = Some u /\ u_pq u = p.

  Lemma convs_ok_best p s : convs_ok p (conversions (best c p) s).
  Proof. intros th id H. exact (wf_best c Hwf p s th id H). Qed.

  Lemma convs_ok_tail p x convs : convs_ok p (x :: convs) -> convs_ok p convs.
  Proof. intros H th id Hin. apply (H th id). right. exact Hin. Qed.

  Lemma candidates_total value u convs :
    convs_ok (u_pq (snd u)) convs ->
    exists l, candidates approx c value u convs = Done l /\
              forall n nu, In (n, nu) l -> is_ref c nu /\ u_pq (snd nu) = u_pq (snd u).
  Proof.
    induction convs as [|[th id] r IH]; intro Hok.
    - exists []. split; [reflexivity|]. intros n nu [].
    - destruct (IH (convs_ok_tail _ _ _ Hok)) as (rest & Hr & Hrest).
      destruct (Hok th id (or_introl eq_refl)) as (nu0 & Hn & Hp).
      cbn [candidates]. rewrite (unit_at_of_nth id nu0 Hn). cbn [obind snd].
      destruct (negb (fc_enabled _)) eqn:En; [exists rest; split; assumption|].
      destruct (conv_f64_done value u (id, nu0)) as [nv Hnv]; [cbn [snd]; symmetry; exact Hp|].
      rewrite Hnv. cbn [obind].
      destruct (approx_total nv (fr_config (c_fractions c) (u_sys nu0) (u_pq nu0) id)
                  (wf_fractions c Hwf _ _ _)) as [o Ho].
      rewrite Ho. cbn [obind]. rewrite Hr. cbn [obind].
      destruct o as [n0|]; [|exists rest; split; [reflexivity|exact Hrest]].
      exists ((n0, (id, nu0)) :: rest). split; [reflexivity|].
      intros n nu [E|Hin]; [|exact (Hrest n nu Hin)].
      injection E as <- <-. split; [apply is_ref_of_nth; exact Hn|exact Hp].
  Qed.

  Lemma fit_fraction_total q u t : is_ref c u -> exists r, fit_fraction approx c q u t = Done r.
  Proof.
    intro Hu. unfold fit_fraction. destruct t as [sys|].
    2:{ destruct (try_fraction_total q) as [r ->]. eexists; reflexivity. }
    destruct (q_value q) as [n|s e|tx]; [| |eexists; reflexivity].
    - destruct (candidates_total (num_value n) u _ (convs_ok_best (u_pq (snd u)) sys)) as (l & -> & Hl).
      cbn [obind]. destruct (min_cand l) as [[nv nu]|] eqn:M; [|eexists; reflexivity].
      destruct (Hl _ _ (min_cand_in _ _ M)) as [Rn _]. cbn [obind].
      destruct (symbol_total nu Rn) as [sy ->]. eexists; reflexivity.
    - destruct (candidates_total (num_value s) u _ (convs_ok_best (u_pq (snd u)) sys)) as (l & -> & Hl).
      cbn [obind]. destruct (min_cand l) as [[nv nu]|] eqn:M; [|eexists; reflexivity].
      destruct (Hl _ _ (min_cand_in _ _ M)) as [Rn Pn].
      destruct (conv_f64_done (num_value e) u nu (eq_sym Pn)) as [e' ->]. cbn [obind].
      destruct (fractions_config_total nu Rn) as (cfg & -> & Hc). cbn [obind].
      destruct (approx_total e' cfg Hc) as [o ->]. cbn [obind].
      destruct (symbol_total nu Rn) as [sy ->]. eexists; reflexivity.
  Qed.

  Lemma convert_value_total v a b :
    u_pq (snd a) = u_pq (snd b) -> exists v', convert_value v a b = Done v'.
  Proof.
    intro P. destruct v as [n|s e]; cbn [convert_value].
    - destruct (conv_f64_done n a b P) as [w ->]. eexists; reflexivity.
    - destruct (conv_f64_done s a b P) as [w ->]. cbn [obind].
      destruct (conv_f64_done e a b P) as [w' ->]. eexists; reflexivity.
  Qed.

  Lemma best_unit_total convs v u :
    convs_ok (u_pq (snd u)) convs ->
    exists ob, best_unit c convs v u = Done ob /\
               forall b, ob = Some b -> is_ref c b /\ u_pq (snd b) = u_pq (snd u).
  Proof.
    intro Hok. unfold best_unit. destruct convs as [|[th0 base_id] rest].
    - exists None. split; [reflexivity|]. intros b Hb. discriminate.
    - destruct (Hok th0 base_id (or_introl eq_refl)) as (bu & Hb & Pb).
      rewrite (unit_at_of_nth base_id bu Hb). cbn [obind].
      destruct (conv_f64_done (Qabs match v with CNum n => n | CRange s _ => s end) u (base_id, bu))
        as [norm ->]; [cbn [snd]; symmetry; exact Pb|]. cbn [obind].
      set (best_id := match find _ _ with Some (_, id) => id | None => base_id end).
      assert (Hin : exists th, In (th, best_id) ((th0, base_id) :: rest)).
      { unfold best_id. destruct (find _ _) as [[th id]|] eqn:F.
        - exists th. apply find_in in F. apply in_rev in F. exact F.
        - exists th0. left. reflexivity. }
      destruct Hin as [th Hin]. destruct (Hok th best_id Hin) as (x & Hx & Px).
      rewrite (unit_at_of_nth best_id x Hx). cbn [obind]. eexists. split; [reflexivity|].
      intros b E. injection E as <-. split; [apply is_ref_of_nth; exact Hx|exact Px].
  Qed.

  Lemma convert_to_best_total v u s :
    exists r, convert_to_best c v u s = Done r /\
              forall v' b, r = Ok (v', b) -> is_ref c b.
  Proof.
    unfold convert_to_best.
    destruct (best_unit_total (conversions (best c (u_pq (snd u))) s) v u (convs_ok_best _ s))
      as (ob & -> & Hob). cbn [obind].
    destruct ob as [b|].
    - destruct (Hob b eq_refl) as [Rb Pb].
      destruct (convert_value_total v u b (eq_sym Pb)) as [v' ->]. cbn [obind].
      eexists. split; [reflexivity|]. intros v2 b2 E. injection E as _ <-. exact Rb.
    - eexists. split; [reflexivity|]. intros v2 b2 E. discriminate.
  Qed.

  Lemma convert_impl_same_total q : exists r, convert_impl approx c q ToSame = Done r.
  Proof.
    unfold convert_impl. destruct (q_unit q) as [k|]; [|eexists; reflexivity].
    destruct (unit_info_total q) as [ou Hu]. rewrite Hu. cbn [obind].
    destruct ou as [u|]; [|eexists; reflexivity].
    destruct (cvalue_of (q_value q)) as [v|e]; [|eexists; reflexivity].
    unfold conv_convert. cbn [get_unit obind].
    destruct (convert_to_best_total v u
                (match u_sys (snd u) with Some s => s | None => default_system c end))
      as (r & -> & Hr). cbn [obind].
    destruct r as [[nv nu]|e]; [|eexists; reflexivity].
    pose proof (Hr nv nu eq_refl) as Rn.
    destruct (symbol_total nu Rn) as [sy ->]. cbn [obind].
    destruct (fit_fraction_total {| q_value := value_of nv; q_unit := Some sy |} nu (u_sys (snd u)) Rn)
      as [rr ->]. cbn [obind].
    destruct (snd rr); eexists; reflexivity.
  Qed.

  (* ScaledQuantity::fit returns: none of its panic sites is reachable *)
  Lemma fit_total q : exists r, fit approx c q = Done r.
  Proof.
    unfold fit. destruct (unit_info_total q) as [ou Hu]. rewrite Hu. cbn [obind].
    destruct ou as [u|]; [|eexists; reflexivity].
    pose proof (unit_info_ref _ _ Hu) as Ru.
    destruct (fractions_config_total u Ru) as (cfg & -> & Hc). cbn [obind].
    destruct (fc_enabled cfg); [|apply convert_impl_same_total].
    destruct (fit_fraction_total q u (u_sys (snd u)) Ru) as [rr ->]. cbn [obind].
    destruct (snd rr) as [[|]|e]; [eexists; reflexivity|apply convert_impl_same_total|eexists; reflexivity].
  Qed.

  (* ---------------------------------------------------------------- scaling never panics *)

  Lemma mapM_total {A B} (f : A -> outcome B) l :
    (forall a, exists b, f a = Done b) -> exists l', mapM f l = Done l'.
  Proof.
    intro H. induction l as [|a l [l' IH]]; [eexists; reflexivity|].
    cbn [mapM]. destruct (H a) as [b ->]. cbn [obind]. rewrite IH. eexists; reflexivity.
  Qed.

  Lemma fit_quietly_total q : exists r, fit_quietly approx c q = Done r.
  Proof.
    unfold fit_quietly. destruct q as [x|]; [|eexists; reflexivity].
    destruct (fit_total x) as [r ->]. eexists; reflexivity.
  Qed.

  Section Recipes.
    Context {IF CF MF : Type}.

    Lemma scale_total f (r : s_recipe IF CF MF) : exists r', scale approx c f r = Done r'.
    Proof.
      unfold scale.
      destruct (mapM_total (ingredient_scale_fit approx c f) (sr_ingredients r)) as [igs ->].
      { intro i. unfold ingredient_scale_fit.
        destruct (fit_quietly_total (ig_quantity (fst (ingredient_scale i f)))) as [q ->].
        eexists; reflexivity. }
      cbn [obind].
      destruct (mapM_total (timer_scale_fit approx c f) (sr_timers r)) as [tms ->].
      { intro t. unfold timer_scale_fit.
        destruct (fit_quietly_total (tm_quantity (fst (timer_scale t f)))) as [q ->].
        eexists; reflexivity. }
      eexists; reflexivity.
    Qed.

    Lemma scale_to_servings_total n (r : s_recipe IF CF MF) :
      servings_base r <> 0%N -> exists r', scale_to_servings approx c n r = Done r'.
    Proof.
      intro H. unfold scale_to_servings. apply N.eqb_neq in H. rewrite H. apply scale_total.
    Qed.

    (* the only non-Done result of scale_to_servings is the marker of a non-finite factor *)
    Lemma scale_to_servings_zero n (r : s_recipe IF CF MF) :
      servings_base r = 0%N -> scale_to_servings approx c n r = Panic site_factor_not_finite.
    Proof. intro H. unfold scale_to_servings. rewrite H. reflexivity. Qed.
  End Recipes.
End Total.

(* ------------------------------------------------------------------ boolean checkers *)

Definition cfg_ok_b (cfg : frac_cfg) : bool :=
  Qle_bool 0 (fc_accuracy cfg) && Qle_bool (fc_accuracy cfg) 1 && (fc_max_den cfg <=? 64)%N.

Lemma cfg_ok_sound cfg : cfg_ok_b cfg = true -> cfg_ok cfg.
Proof.
  unfold cfg_ok_b, cfg_ok. intro H. apply andb_true_iff in H as [H C]. apply andb_true_iff in H as [A B].
  repeat split; try assumption. apply N.leb_le. exact C.
Qed.

Definition ocfg_ok_b (o : option frac_cfg) : bool := match o with Some cfg => cfg_ok_b cfg | None => true end.

Definition fractions_ok_b (f : fractions) : bool :=
  ocfg_ok_b (fr_all f) && ocfg_ok_b (fr_metric f) && ocfg_ok_b (fr_imperial f) &&
  forallb (fun x => cfg_ok_b (snd x)) (fr_quantity f) && forallb (fun x => cfg_ok_b (snd x)) (fr_unit f).

Lemma assoc_N_in {A} k (l : list (N * A)) a : assoc_N k l = Some a -> exists k', In (k', a) l.
Proof.
  induction l as [|[k' x] l IH]; [discriminate|]. cbn [assoc_N]. destruct (k =? k')%N.
  - intro H. injection H as <-. exists k'. left. reflexivity.
  - intro H. destruct (IH H) as [k2 Hin]. exists k2. right. exact Hin.
Qed.

Lemma assoc_pq_in {A} k (l : list (pq * A)) a : assoc_pq k l = Some a -> exists k', In (k', a) l.
Proof.
  induction l as [|[k' x] l IH]; [discriminate|]. cbn [assoc_pq]. destruct (pq_eqb k k').
  - intro H. injection H as <-. exists k'. left. reflexivity.
  - intro H. destruct (IH H) as [k2 Hin]. exists k2. right. exact Hin.
Qed.

Lemma assoc_str_in {A} k (l : list (str * A)) a : assoc_str k l = Some a -> exists k', In (k', a) l.
Proof.
  induction l as [|[k' x] l IH]; [discriminate|]. cbn [assoc_str]. destruct (str_eqb k k').
  - intro H. injection H as <-. exists k'. left. reflexivity.
  - intro H. destruct (IH H) as [k2 Hin]. exists k2. right. exact Hin.
Qed.

Lemma default_cfg_ok : cfg_ok default_cfg.
Proof. apply cfg_ok_sound. vm_compute. reflexivity. Qed.

Lemma fractions_ok_sound f : fractions_ok_b f = true -> forall s p id, cfg_ok (fr_config f s p id).
Proof.
  unfold fractions_ok_b. intro H.
  apply andb_true_iff in H as [H Hu]. apply andb_true_iff in H as [H Hq].
  apply andb_true_iff in H as [H Hi]. apply andb_true_iff in H as [Ha Hm].
  rewrite forallb_forall in Hu, Hq.
  intros s p id. unfold fr_config.
  destruct (assoc_N id (fr_unit f)) as [cfg|] eqn:E1; cbn [oor].
  { destruct (assoc_N_in _ _ _ E1) as [k Hin]. apply cfg_ok_sound. exact (Hu _ Hin). }
  destruct (assoc_pq p (fr_quantity f)) as [cfg|] eqn:E2; cbn [oor].
  { destruct (assoc_pq_in _ _ _ E2) as [k Hin]. apply cfg_ok_sound. exact (Hq _ Hin). }
  destruct s as [[|]|].
  - destruct (fr_metric f) as [cfg|]; cbn [oor]; [apply cfg_ok_sound; exact Hm|].
    destruct (fr_all f) as [cfg|]; [apply cfg_ok_sound; exact Ha|apply default_cfg_ok].
  - destruct (fr_imperial f) as [cfg|]; cbn [oor]; [apply cfg_ok_sound; exact Hi|].
    destruct (fr_all f) as [cfg|]; [apply cfg_ok_sound; exact Ha|apply default_cfg_ok].
  - cbn [oor]. destruct (fr_all f) as [cfg|]; [apply cfg_ok_sound; exact Ha|apply default_cfg_ok].
Qed.

Definition index_range_b (c : converter) : bool :=
  forallb (fun kv : str * N => match nth_error (all_units c) (N.to_nat (snd kv)) with
                               | Some _ => true | None => false end) (unit_index c).

Lemma index_range_sound c : index_range_b c = true ->
  forall k id, get_unit_id c k = Some id -> exists u, nth_error (all_units c) (N.to_nat id) = Some u.
Proof.
  unfold index_range_b, get_unit_id. intros H k id G. rewrite forallb_forall in H.
  destruct (assoc_str_in _ _ _ G) as [k' Hin]. specialize (H _ Hin). cbn [snd] in H.
  destruct (nth_error _ _) as [u|]; [exists u; reflexivity|discriminate].
Qed.

Definition named_b (c : converter) : bool :=
  forallb (fun u => match symbol u with Done _ => true | Panic _ => false end) (all_units c).

Lemma named_sound c : named_b c = true -> forall u, In u (all_units c) -> exists s, symbol u = Done s.
Proof.
  unfold named_b. intros H u Hu. rewrite forallb_forall in H. specialize (H u Hu).
  destruct (symbol u) as [s|]; [exists s; reflexivity|discriminate].
Qed.

Definition convs_ok_b (c : converter) (p : pq) (l : best_convs) : bool :=
  forallb (fun tid : Q * N => match nth_error (all_units c) (N.to_nat (snd tid)) with
                              | Some u => pq_eqb (u_pq u) p | None => false end) l.

Definition best_ok_b (c : converter) : bool :=
  forallb (fun p => convs_ok_b c p (conversions (best c p) Metric) &&
                    convs_ok_b c p (conversions (best c p) Imperial))
          [Volume; Mass; Length; Temperature; Time].

Lemma best_ok_sound c : best_ok_b c = true ->
  forall p s th id, In (th, id) (conversions (best c p) s) ->
                    exists u, nth_error (all_units c) (N.to_nat id) = Some u /\ u_pq u = p.
Proof.
  unfold best_ok_b. intros H p s th id Hin. rewrite forallb_forall in H.
  assert (Hp : In p [Volume; Mass; Length; Temperature; Time]) by (destruct p; cbn; tauto).
  specialize (H p Hp). apply andb_true_iff in H as [Hm Hi].
  assert (Hs : convs_ok_b c p (conversions (best c p) s) = true) by (destruct s; assumption).
  unfold convs_ok_b in Hs. rewrite forallb_forall in Hs. specialize (Hs _ Hin). cbn [snd] in Hs.
  destruct (nth_error _ _) as [u|]; [|discriminate]. exists u. split; [reflexivity|].
  apply pq_eqb_eq. exact Hs.
Qed.

Definition conv_wf_b (c : converter) : bool :=
  index_range_b c && named_b c && index_consistent_b c && best_ok_b c && fractions_ok_b (c_fractions c).

Lemma conv_wf_sound c : conv_wf_b c = true -> conv_wf c.
Proof.
  unfold conv_wf_b. intro H.
  apply andb_true_iff in H as [H Hf]. apply andb_true_iff in H as [H Hb].
  apply andb_true_iff in H as [H Hi]. apply andb_true_iff in H as [Hr Hn].
  constructor.
  - apply index_range_sound; exact Hr.
  - apply named_sound; exact Hn.
  - apply index_consistent_sound; exact Hi.
  - apply best_ok_sound; exact Hb.
  - apply fractions_ok_sound; exact Hf.
Qed.

(* the regenerated shipped table is well formed *)
Lemma bundled_wf : conv_wf bundled_conv.
Proof. apply conv_wf_sound. vm_compute. reflexivity. Qed.
