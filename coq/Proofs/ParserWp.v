(* Partial-correctness facts about the pull-parser model (Model/Parser.v) that need no
   location invariant: which events a model function may push and whether it moves the
   position.  They complement the totality/location traversal of Proofs/ParserTotal.v
   ([runs m s R]: the run returns and R holds): a fact [wp m s Q] (if the run returns, Q holds)
   is combined with it by [runs_wp] (Proofs/ParserOrder.v).

   [rel false m] = "quiet": the event queue grew by diagnostics only.
   [rel true m]  = "stay": quiet, and the token position is what it was.
   Every function of the model below the block level is one or the other (one lemma per
   function, proved by [rel_auto] from the lemmas of the primitives); [valp m P] states a fact
   about the returned value alone: the three component parsers return an event with the
   properties the stream grammar of Model/Events.v asks for ([item_ok], through the bridge of
   Model/EventBridge.v: intermediate-reference data only with the REF bit, a timer with a name
   or a quantity). *)
From Coq Require Import ZArith.
From CL Require Import Base.StrLemmas Model.Lexer Model.Parser Model.EventBridge Proofs.LexerProofs Proofs.ParserSeg.
From CL Require Model.Events.

(* ------------------------------------------------------------------ the judgements *)

Definition wp {A} (m : M A) (s : bp) (Q : A -> bp -> Prop) : Prop :=
  forall a s', m s = Done (a, s') -> Q a s'.

Lemma wp_ret {A} (a : A) s (Q : A -> bp -> Prop) : Q a s -> wp (ret a) s Q.
Proof. intros H a' s' E. injection E as <- <-. exact H. Qed.

Lemma wp_bind {A B} (m : M A) (f : A -> M B) s Q :
  wp m s (fun a s1 => wp (f a) s1 Q) -> wp (bind m f) s Q.
Proof.
  intros H b s2 E. unfold bind in E. destruct (m s) as [[a s1]|p] eqn:Em; [|discriminate].
  exact (H a s1 Em b s2 E).
Qed.

Lemma wp_conseq {A} (m : M A) s (Q Q' : A -> bp -> Prop) :
  wp m s Q -> (forall a s', Q a s' -> Q' a s') -> wp m s Q'.
Proof. intros H HI a s' E. apply HI, H, E. Qed.

Lemma wp_obindM {A B} (m : M (option A)) (f : A -> M (option B)) s Q :
  wp m s (fun o s1 => match o with Some a => wp (f a) s1 Q | None => Q None s1 end) ->
  wp (obindM m f) s Q.
Proof.
  intro H. unfold obindM. apply wp_bind. eapply wp_conseq; [exact H|].
  intros [a|] s1 H1; [exact H1|apply wp_ret; exact H1].
Qed.

Lemma wp_panic {A} site s (Q : A -> bp -> Prop) : wp (panic site) s Q.
Proof. intros a s' E. discriminate. Qed.

Lemma wp_lift {A} (o : outcome A) s (Q : A -> bp -> Prop) :
  (forall a, o = Done a -> Q a s) -> wp (lift o) s Q.
Proof. intros H a s' E. unfold lift in E. destruct o as [x|p]; [|discriminate]. injection E as <- <-. apply H. reflexivity. Qed.

Lemma wp_get_like {A} (g : bp -> A) (m : M A) s (Q : A -> bp -> Prop) :
  (forall s, m s = Done (g s, s)) -> Q (g s) s -> wp m s Q.
Proof. intros E H a s' E'. rewrite E in E'. injection E' as <- <-. exact H. Qed.

Lemma wp_current_offset s (Q : N -> bp -> Prop) : Q (current_offset_of s) s -> wp current_offset s Q.
Proof. apply (wp_get_like current_offset_of). reflexivity. Qed.
Lemma wp_rest s (Q : list tok -> bp -> Prop) : Q (b_rest s) s -> wp rest s Q.
Proof. apply (wp_get_like b_rest). reflexivity. Qed.
Lemma wp_peek s (Q : tkind -> bp -> Prop) : Q (peek_of s) s -> wp peek s Q.
Proof. apply (wp_get_like peek_of). reflexivity. Qed.

(* ------------------------------------------------------------------ the state relations *)

Definition is_diag (ev : pevent) : bool := match ev with EvDiag _ => true | _ => false end.

Definition quiet (s s' : bp) : Prop :=
  exists ds, b_evs s' = ds ++ b_evs s /\ Forall (fun e => is_diag e = true) ds.

Definition same_place (s s' : bp) : Prop :=
  b_all s' = b_all s /\ b_done s' = b_done s /\ b_rest s' = b_rest s.

Definition rl (k : bool) (s s' : bp) : Prop := quiet s s' /\ (k = true -> same_place s s').

Lemma quiet_refl s : quiet s s.
Proof. exists []. split; [reflexivity|constructor]. Qed.

Lemma quiet_trans a b c : quiet a b -> quiet b c -> quiet a c.
Proof.
  intros (d1 & E1 & F1) (d2 & E2 & F2). exists (d2 ++ d1). rewrite E2, E1, app_assoc.
  split; [reflexivity|apply Forall_app; tauto].
Qed.

Lemma same_place_refl s : same_place s s.
Proof. unfold same_place. tauto. Qed.

Lemma same_place_trans a b c : same_place a b -> same_place b c -> same_place a c.
Proof. unfold same_place. intros (A1 & A2 & A3) (B1 & B2 & B3). repeat split; congruence. Qed.

Lemma same_place_cur s s' : same_place s s' -> current_offset_of s' = current_offset_of s.
Proof. intros (A1 & A2 & A3). unfold current_offset_of, base_offset. rewrite A1, A2. reflexivity. Qed.

Lemma rl_refl k s : rl k s s.
Proof. split; [apply quiet_refl|intros _; apply same_place_refl]. Qed.

Lemma rl_trans k a b c : rl k a b -> rl k b c -> rl k a c.
Proof.
  intros (Q1 & P1) (Q2 & P2). split; [eapply quiet_trans; eassumption|].
  intro Hk. eapply same_place_trans; [apply P1|apply P2]; exact Hk.
Qed.

Lemma rl_weaken k s s' : rl true s s' -> rl k s s'.
Proof. intros (Q1 & P1). split; [exact Q1|intros _; apply P1; reflexivity]. Qed.

Lemma rl_quiet k s s' : rl k s s' -> quiet s s'.
Proof. intros (Q1 & _). exact Q1. Qed.

Lemma rl_true_cur s s' : rl true s s' -> current_offset_of s' = current_offset_of s.
Proof. intros (_ & P). apply same_place_cur, P. reflexivity. Qed.

(* every returning run of [m] relates its start and end state *)
Definition rel (k : bool) {A} (m : M A) : Prop := forall s a s', m s = Done (a, s') -> rl k s s'.

Lemma rel_weaken k {A} (m : M A) : rel true m -> rel k m.
Proof. intros H s a s' E. apply rl_weaken. eapply H; exact E. Qed.

Lemma rel_ret k {A} (a : A) : rel k (ret a).
Proof. intros s a' s' E. injection E as <- <-. apply rl_refl. Qed.

Lemma rel_panic k {A} site : rel k (@panic A site).
Proof. intros s a s' E. discriminate. Qed.

Lemma rel_lift k {A} (o : outcome A) : rel k (lift o).
Proof. intros s a s' E. unfold lift in E. destruct o; [|discriminate]. injection E as <- <-. apply rl_refl. Qed.

Lemma rel_bind k {A B} (m : M A) (f : A -> M B) : rel k m -> (forall a, rel k (f a)) -> rel k (bind m f).
Proof.
  intros Hm Hf s b s2 E. unfold bind in E. destruct (m s) as [[a s1]|p] eqn:Em; [|discriminate].
  eapply rl_trans; [eapply Hm; exact Em|eapply Hf; exact E].
Qed.

Lemma rel_obindM k {A B} (m : M (option A)) (f : A -> M (option B)) :
  rel k m -> (forall a, rel k (f a)) -> rel k (obindM m f).
Proof. intros Hm Hf. unfold obindM. apply rel_bind; [exact Hm|]. intros [a|]; [apply Hf|apply rel_ret]. Qed.

Lemma rel_get_like k {A} (g : bp -> A) (m : M A) : (forall s, m s = Done (g s, s)) -> rel k m.
Proof. intros E s a s' E'. rewrite E in E'. injection E' as <- <-. apply rl_refl. Qed.

Lemma rel_peek k : rel k peek. Proof. apply (rel_get_like k peek_of). reflexivity. Qed.
Lemma rel_at_kind k x : rel k (at_kind x). Proof. apply (rel_get_like k (fun s => tk_eqb (peek_of s) x)). reflexivity. Qed.
Lemma rel_rest k : rel k rest. Proof. apply (rel_get_like k b_rest). reflexivity. Qed.
Lemma rel_all_tokens k : rel k all_tokens. Proof. apply (rel_get_like k b_all). reflexivity. Qed.
Lemma rel_parsed k : rel k parsed. Proof. apply (rel_get_like k (fun s => rev (b_done s))). reflexivity. Qed.
Lemma rel_current_offset k : rel k current_offset. Proof. apply (rel_get_like k current_offset_of). reflexivity. Qed.
Lemma rel_get k : rel k get. Proof. apply (rel_get_like k (fun s => s)). reflexivity. Qed.

Lemma rel_textM k cfg off ts : rel k (textM cfg off ts).
Proof. apply rel_lift. Qed.

Lemma rel_event_diag k d : rel k (event (EvDiag d)).
Proof.
  intros s a s' E. injection E as _ <-. split.
  - exists [EvDiag d]. split; [reflexivity|]. constructor; [reflexivity|constructor].
  - intros _. unfold same_place. cbn. tauto.
Qed.

Lemma rel_error k code labels : rel k (error code labels).
Proof. apply rel_event_diag. Qed.
Lemma rel_warn k code labels : rel k (warn code labels).
Proof. apply rel_event_diag. Qed.

Lemma quiet_evs s s' : b_evs s' = b_evs s -> quiet s s'.
Proof. intro E. exists []. split; [exact E|constructor]. Qed.

Lemma rel_next_token : rel false next_token.
Proof.
  intros s a s' E. unfold next_token in E. split; [|discriminate].
  destruct (b_rest s); injection E as _ <-; apply quiet_evs; reflexivity.
Qed.

Lemma advance_evs n : forall s, b_evs (advance n s) = b_evs s.
Proof.
  induction n as [|n IH]; intro s; cbn [advance]; [reflexivity|].
  destruct (b_rest s); [reflexivity|]. rewrite IH. reflexivity.
Qed.

Lemma rel_until f : rel false (until f).
Proof.
  intros s a s' E. unfold until in E. split; [|discriminate].
  destruct (position f (b_rest s)); injection E as _ <-; apply quiet_evs; [apply advance_evs|reflexivity].
Qed.

Lemma rel_consume_while f : rel false (consume_while f).
Proof.
  intros s a s' E. unfold consume_while in E. split; [|discriminate].
  injection E as _ <-. apply quiet_evs, advance_evs.
Qed.

(* with_recover keeps the events of the attempt and restores the position on None *)
Lemma rel_with_recover k {A} (m : M (option A)) : rel k m -> rel k (with_recover m).
Proof.
  intros H s a s' E. unfold with_recover in E. destruct (m s) as [[[x|] s1]|p] eqn:Em; [| |discriminate].
  - injection E as <- <-. eapply H; exact Em.
  - injection E as <- <-. pose proof (H _ _ _ Em) as (Q1 & _). split.
    + destruct Q1 as (ds & E1 & F1). exists ds. cbn [b_evs]. tauto.
    + intros _. unfold same_place. cbn. tauto.
Qed.

(* an attempt that can only fail stays in place whatever it consumed *)
Lemma rel_with_recover_none {A} (m : M (option A)) :
  rel false m -> (forall s a s', m s = Done (a, s') -> a = None) -> rel true (with_recover m).
Proof.
  intros H HN s a s' E. unfold with_recover in E. destruct (m s) as [[x s1]|p] eqn:Em; [|discriminate].
  pose proof (HN _ _ _ Em) as ->. injection E as <- <-. pose proof (H _ _ _ Em) as (Q1 & _). split.
  - destruct Q1 as (ds & E1 & F1). exists ds. cbn [b_evs]. tauto.
  - intros _. unfold same_place. cbn. tauto.
Qed.

(* a sub-block shares the event queue only *)
Lemma rel_sub_block {A} ts (m : M A) : rel false m -> rel true (sub_block ts m).
Proof.
  intros H s a s' E. unfold sub_block in E. destruct ts as [|t0 tr]; [discriminate|].
  match type of E with match ?y with _ => _ end = _ => destruct y as [[x s1]|p] eqn:Em; [|discriminate] end.
  injection E as <- <-. pose proof (H _ _ _ Em) as (Q1 & _). split.
  - destruct Q1 as (ds & E1 & F1). exists ds. cbn [b_evs] in *. tauto.
  - intros _. unfold same_place. cbn. tauto.
Qed.

(* computations whose only result is None *)
Definition always_none {A} (m : M (option A)) : Prop := forall s a s', m s = Done (a, s') -> a = None.

Lemma an_ret {A} : always_none (ret (@None A)).
Proof. intros s a s' E. injection E as <- _. reflexivity. Qed.

Lemma an_bind {A B} (m : M A) (f : A -> M (option B)) : (forall a, always_none (f a)) -> always_none (bind m f).
Proof.
  intros H s b s2 E. unfold bind in E. destruct (m s) as [[a s1]|p]; [|discriminate]. eapply H; exact E.
Qed.

Lemma an_obindM {A B} (m : M (option A)) (f : A -> M (option B)) :
  (forall a, always_none (f a)) -> always_none (obindM m f).
Proof. intro H. unfold obindM. apply an_bind. intros [a|]; [apply H|apply an_ret]. Qed.

(* ------------------------------------------------------------------ automation *)

Create HintDb prel.
#[export] Hint Resolve rel_ret rel_panic rel_lift rel_textM rel_peek rel_at_kind rel_rest rel_all_tokens
  rel_parsed rel_current_offset rel_get rel_event_diag rel_error rel_warn rel_next_token rel_until
  rel_consume_while : prel.

Ltac rel_step :=
  lazymatch goal with
  | |- rel _ (bind _ _) => apply rel_bind; [|intro]
  | |- rel _ (obindM _ _) => apply rel_obindM; [|intro]
  | |- rel _ (with_recover _) => apply rel_with_recover
  | |- rel _ (sub_block _ _) => first [apply rel_sub_block | apply rel_weaken, rel_sub_block]
  | |- rel _ (match ?x with _ => _ end) => destruct x
  | |- rel _ (if ?c then _ else _) => destruct c
  | |- rel _ _ => first [ solve [auto with prel] | solve [apply rel_weaken; auto with prel] ]
  end.
Ltac rel_auto := repeat rel_step.

(* ------------------------------------------------------------------ value-only facts *)

Definition valp {A} (m : M A) (P : A -> Prop) : Prop := forall s a s', m s = Done (a, s') -> P a.

Lemma valp_ret {A} (a : A) (P : A -> Prop) : P a -> valp (ret a) P.
Proof. intros H s a' s' E. injection E as <- _. exact H. Qed.

Lemma valp_panic {A} site (P : A -> Prop) : valp (panic site) P.
Proof. intros s a s' E. discriminate. Qed.

Lemma valp_bind {A B} (m : M A) (f : A -> M B) (P1 : A -> Prop) (P : B -> Prop) :
  valp m P1 -> (forall a, P1 a -> valp (f a) P) -> valp (bind m f) P.
Proof.
  intros Hm Hf s b s2 E. unfold bind in E. destruct (m s) as [[a s1]|p] eqn:Em; [|discriminate].
  eapply Hf; [eapply Hm; exact Em|exact E].
Qed.

Lemma valp_skip {A B} (m : M A) (f : A -> M B) (P : B -> Prop) :
  (forall a, valp (f a) P) -> valp (bind m f) P.
Proof. intro H. apply (valp_bind m f (fun _ => True)); [intros s a s' _; exact I|intros a _; apply H]. Qed.

Lemma valp_oskip {A B} (m : M (option A)) (f : A -> M (option B)) (P : option B -> Prop) :
  P None -> (forall a, valp (f a) P) -> valp (obindM m f) P.
Proof. intros HN H. unfold obindM. apply valp_skip. intros [a|]; [apply H|apply valp_ret; exact HN]. Qed.

(* skipping over a part of a computation whose result does not matter / which is [rel k] *)
Lemma wp_skip {A B} (m : M A) (f : A -> M B) s (Q : B -> bp -> Prop) :
  (forall a s1, wp (f a) s1 Q) -> wp (bind m f) s Q.
Proof. intro H. apply wp_bind. intros a s1 _. apply H. Qed.

Lemma wp_oskip {A B} (m : M (option A)) (f : A -> M (option B)) s (Q : option B -> bp -> Prop) :
  (forall s1, Q None s1) -> (forall a s1, wp (f a) s1 Q) -> wp (obindM m f) s Q.
Proof. intros HN H. apply wp_obindM. intros [a|] s1 _; [apply H|apply HN]. Qed.

Lemma wp_rel k {A B} (m : M A) (f : A -> M B) s (Q : B -> bp -> Prop) :
  rel k m -> (forall a s1, rl k s s1 -> wp (f a) s1 Q) -> wp (bind m f) s Q.
Proof. intros Hm H. apply wp_bind. intros a s1 E. apply H. eapply Hm; exact E. Qed.

(* ------------------------------------------------------------------ primitives *)

Lemma rel_bump_any : rel false bump_any.
Proof. unfold bump_any. rel_auto. Qed.
#[export] Hint Resolve rel_bump_any : prel.

Lemma rel_bump x : rel false (bump x).
Proof. unfold bump. rel_auto. Qed.

Lemma rel_consume x : rel false (consume x).
Proof. unfold consume. rel_auto. Qed.
#[export] Hint Resolve rel_bump rel_consume : prel.

Lemma rel_ws_comments : rel false ws_comments.
Proof. unfold ws_comments. rel_auto. Qed.
Lemma rel_consume_rest : rel false consume_rest.
Proof. unfold consume_rest. rel_auto. Qed.
#[export] Hint Resolve rel_ws_comments rel_consume_rest : prel.

(* ------------------------------------------------------------------ quantities *)

Section Fns.
  Variable cfg : pcfg.

  Lemma rel_scaling_lock : rel false scaling_lock.
  Proof. unfold scaling_lock. rel_auto. Qed.
  Hint Resolve rel_scaling_lock : prel.

  Lemma rel_text_value ts off : rel true (text_value cfg ts off).
  Proof. unfold text_value. rel_auto. Qed.
  Hint Resolve rel_text_value : prel.

  Lemma rel_parse_value ts : rel true (parse_value cfg ts).
  Proof. unfold parse_value. rel_auto. Qed.
  Hint Resolve rel_parse_value : prel.

  Lemma rel_value_p : rel false (value_p cfg).
  Proof. unfold value_p. rel_auto. Qed.
  Hint Resolve rel_value_p : prel.

  Lemma rel_parse_regular_quantity : rel false (parse_regular_quantity cfg).
  Proof. unfold parse_regular_quantity. rel_auto. Qed.
  Hint Resolve rel_parse_regular_quantity : prel.

  Lemma rel_parse_advanced_quantity : rel false (parse_advanced_quantity cfg).
  Proof. unfold parse_advanced_quantity. rel_auto. Qed.
  Hint Resolve rel_parse_advanced_quantity : prel.

  Lemma rel_parse_quantity ts : rel true (parse_quantity cfg ts).
  Proof. unfold parse_quantity. destruct ts; [apply rel_panic|]. apply rel_sub_block. rel_auto. Qed.
  Hint Resolve rel_parse_quantity : prel.

  (* ---------------------------------------------------------------- component pieces *)

  Lemma rel_comp_body : rel false comp_body.
  Proof. unfold comp_body. rel_auto. Qed.
  Hint Resolve rel_comp_body : prel.

  Lemma rel_modifiers_loop fuel : forall acc, rel false (modifiers_loop cfg fuel acc).
  Proof.
    induction fuel as [|f IH]; intro acc; cbn [modifiers_loop]; [apply rel_panic|].
    apply rel_bind; [auto with prel|]. intro k0.
    destruct k0; try apply rel_ret; try (apply rel_bind; [auto with prel|intro; apply IH]).
    apply rel_bind; [auto with prel|intro]. destruct (has cfg X_INTERMEDIATE_PREPARATIONS); [|apply IH].
    apply rel_bind; [rel_auto|]. intros [ts|]; apply IH.
  Qed.

  Lemma rel_modifiers : rel false (modifiers cfg).
  Proof. unfold modifiers. destruct (negb _); [apply rel_ret|]. apply rel_bind; [auto with prel|]. intro. apply rel_modifiers_loop. Qed.
  Hint Resolve rel_modifiers : prel.

  Lemma rel_note : rel false (note cfg).
  Proof. unfold note. rel_auto. Qed.
  Hint Resolve rel_note : prel.

  Lemma rel_parse_inter ts : rel true (parse_inter ts).
  Proof. unfold parse_inter. cbv zeta. rel_auto. Qed.
  Hint Resolve rel_parse_inter : prel.

  Lemma rel_parse_mods_loop fuel : forall ts msp mods inter, rel true (parse_mods_loop cfg fuel ts msp mods inter).
  Proof.
    induction fuel as [|f IH]; intros ts msp mods inter; cbn [parse_mods_loop]; [apply rel_panic|].
    destruct ts as [|t r]; [apply rel_ret|]. destruct (mod_bit (kind t)); [|apply rel_panic].
    apply rel_bind; [rel_auto|]. intros [i' r']. destruct (_ =? _); [|apply IH].
    apply rel_bind; [auto with prel|]. intro. apply IH.
  Qed.
  Hint Resolve rel_parse_mods_loop : prel.

  Lemma rel_parse_modifiers mts mpos : rel true (parse_modifiers cfg mts mpos).
  Proof. unfold parse_modifiers. rel_auto. Qed.
  Hint Resolve rel_parse_modifiers : prel.

  Lemma rel_parse_alias ts off : rel true (parse_alias cfg ts off).
  Proof. unfold parse_alias. rel_auto. Qed.
  Hint Resolve rel_parse_alias : prel.

  Lemma rel_check_empty_name name : rel true (check_empty_name name).
  Proof. unfold check_empty_name. rel_auto. Qed.
  Hint Resolve rel_check_empty_name : prel.

  Lemma rel_check_note : rel true (check_note cfg).
  Proof.
    unfold check_note. apply rel_bind; [|intro; apply rel_ret]. apply rel_with_recover_none.
    - cbv zeta. rel_auto.
    - cbv zeta. repeat first [apply an_obindM; intro | apply an_bind; intro]. apply an_ret.
  Qed.
  Hint Resolve rel_check_note : prel.

  (* ---------------------------------------------------------------- what the components return *)

  (* intermediate-reference data is only ever set by a `&`, which also sets the REF bit *)
  Definition ref_inv (mods : N) (inter : option interdata) : Prop :=
    inter <> None -> N.testbit mods 1 = true.

  Lemma land_ref_testbit m : N.land m M_REF = M_REF -> N.testbit m 1 = true.
  Proof.
    intro H. apply (f_equal (fun x => N.testbit x 1)) in H. rewrite N.land_spec in H.
    replace (N.testbit M_REF 1) with true in H by (vm_compute; reflexivity). rewrite andb_true_r in H. exact H.
  Qed.

  Lemma valp_parse_mods_loop fuel : forall ts msp mods inter,
    ref_inv mods inter ->
    valp (parse_mods_loop cfg fuel ts msp mods inter) (fun r => ref_inv (fst r) (snd r)).
  Proof.
    induction fuel as [|f IH]; intros ts msp mods inter Hi; cbn [parse_mods_loop]; [apply valp_panic|].
    destruct ts as [|t r]; [apply valp_ret; exact Hi|].
    destruct (mod_bit (kind t)) as [bit|] eqn:Eb; [|apply valp_panic].
    destruct (tk_eqb (kind t) KAnd) eqn:Ek.
    - apply tk_eqb_true in Ek. rewrite Ek in Eb. cbn [mod_bit] in Eb. injection Eb as <-.
      apply valp_skip. intros [i' r']. destruct (N.land mods M_REF =? M_REF) eqn:El.
      + apply N.eqb_eq, land_ref_testbit in El. apply valp_skip. intros _. apply IH. intros _. exact El.
      + apply IH. intros _. rewrite N.lor_spec. replace (N.testbit M_REF 1) with true by (vm_compute; reflexivity).
        apply orb_true_r.
    - cbn [andb]. eapply valp_bind; [apply (valp_ret _ (fun x => x = (inter, r))); reflexivity|].
      intros x ->. destruct (_ =? _).
      + apply valp_skip. intros _. apply IH. exact Hi.
      + apply IH. intro Hn. rewrite N.lor_spec, (Hi Hn). reflexivity.
  Qed.

  Lemma valp_parse_modifiers mts mpos :
    valp (parse_modifiers cfg mts mpos) (fun r => ref_inv (fst (fst r)) (snd r)).
  Proof.
    unfold parse_modifiers. destruct mts as [|m0 mr].
    - apply valp_ret. cbn [fst snd]. intro H. congruence.
    - eapply valp_bind; [apply valp_parse_mods_loop; intro H; congruence|].
      intros [m i] H. apply valp_ret. exact H.
  Qed.

  (* the side conditions of Events.shape_step on an item of a block *)
  Definition item_ok (ev : pevent) : Prop := Events.item_event_ok (abstract_event ev) = true.

  Definition opt_item_ok (o : option pevent) : Prop := forall ev, o = Some ev -> item_ok ev.

  Lemma opt_item_ok_none : opt_item_ok None.
  Proof. intros ev H. discriminate. Qed.

  Ltac vskip :=
    lazymatch goal with
    | |- valp (obindM _ _) _ => apply valp_oskip; [apply opt_item_ok_none|intros ?]
    | |- valp (bind _ _) _ => apply valp_skip; intros ?
    end;
    repeat match goal with |- valp (let (_, _) := ?x in _) _ => destruct x end.

  Lemma valp_ingredient_p : valp (ingredient_p cfg) opt_item_ok.
  Proof.
    unfold ingredient_p. do 10 vskip.
    eapply valp_bind; [apply valp_parse_modifiers|]. intros [[m msp] inter] Hr. cbn [fst snd] in Hr.
    vskip. apply valp_ret. intros ev E. injection E as <-.
    unfold item_ok. cbn [abstract_event Events.item_event_ok Events.pi_inter Events.pi_mods i_inter i_mods].
    destruct inter as [d|]; cbn [option_map]; [|reflexivity].
    unfold Events.mods_of_bits; cbn [Events.m_ref]. rewrite Hr by discriminate. cbn [andb].
    unfold abstract_inter; cbn [Events.ir_val]. apply Z.leb_le. apply N2Z.is_nonneg.
  Qed.

  Lemma valp_cookware_p : valp (cookware_p cfg) opt_item_ok.
  Proof.
    unfold cookware_p. do 14 vskip. apply valp_ret. intros ev E. injection E as <-. reflexivity.
  Qed.

  Lemma valp_timer_p : valp (timer_p cfg) opt_item_ok.
  Proof.
    unfold timer_p. do 11 vskip. apply valp_skip; intro q0.
    set (name_o := if is_text_empty _ then None else Some _). clearbody name_o.
    eapply (valp_bind _ _ (fun q => name_o = None -> q <> None)).
    - destruct name_o as [n|]; [apply valp_ret; congruence|].
      destruct q0 as [q|]; [apply valp_ret; congruence|].
      vskip. apply valp_ret. congruence.
    - intros q Hq. apply valp_ret. intros ev E. injection E as <-.
      unfold item_ok. cbn [abstract_event Events.item_event_ok Events.pt_name Events.pt_quantity t_name t_qty].
      destruct name_o as [n|]; [reflexivity|]. destruct q as [q|]; [reflexivity|]. exfalso. apply Hq; reflexivity.
  Qed.

  (* ---------------------------------------------------------------- components and single lines are quiet *)

  Lemma rel_ingredient_p : rel false (ingredient_p cfg).
  Proof. unfold ingredient_p. rel_auto. Qed.

  Lemma rel_cookware_p : rel false (cookware_p cfg).
  Proof. unfold cookware_p. rel_auto. Qed.

  Lemma rel_timer_p : rel false (timer_p cfg).
  Proof. unfold timer_p. rel_auto. Qed.

  Lemma rel_metadata_entry : rel false (metadata_entry cfg).
  Proof. unfold metadata_entry. rel_auto. Qed.

  Lemma rel_section_p : rel false (section_p cfg).
  Proof. unfold section_p. rel_auto. Qed.
End Fns.

#[export] Hint Resolve rel_scaling_lock rel_text_value rel_parse_value rel_value_p rel_parse_regular_quantity
  rel_parse_advanced_quantity rel_parse_quantity rel_comp_body rel_modifiers rel_note rel_parse_inter
  rel_parse_mods_loop rel_parse_modifiers rel_parse_alias rel_check_empty_name rel_check_note
  rel_ingredient_p rel_cookware_p rel_timer_p rel_metadata_entry rel_section_p : prel.

(* a relational and a value fact about the same computation, as one weakest precondition *)
Lemma wp_of k {A} (m : M A) (P : A -> Prop) s : rel k m -> valp m P -> wp m s (fun a s' => rl k s s' /\ P a).
Proof. intros Hr Hv a s' E. split; [eapply Hr; exact E|eapply Hv; exact E]. Qed.

Lemma valp_with_recover {A} (m : M (option A)) (P : option A -> Prop) :
  valp m P -> valp (with_recover m) P.
Proof.
  intros H s a s' E. unfold with_recover in E. destruct (m s) as [[[x|] s1]|p] eqn:Em; [| |discriminate].
  - injection E as <- _. eapply H; exact Em.
  - injection E as <- _. eapply H; exact Em.
Qed.

Lemma wp_event ev s (Q : unit -> bp -> Prop) :
  Q tt {| b_all := b_all s; b_done := b_done s; b_rest := b_rest s; b_evs := ev :: b_evs s |} -> wp (event ev) s Q.
Proof. intros H a s' E. injection E as <- <-. exact H. Qed.
