(* Proofs about Model/Fraction.v (property C12).  Everything is universally quantified over the
   rational input and the parameters; the only computed facts are about the regenerated constants
   of Gen/FracConsts.v ([consts_sound], [table_ok]) and are re-checked whenever they change. *)
From Coq Require Import List NArith ZArith QArith Qround Qabs Bool Lia Lqa Sorted Decimal DecimalN DecimalPos.
From CL Require Import Base.Chars Gen.FracConsts Model.Fraction.
Import ListNotations.
Local Open Scope Q_scope.

(* ---------- booleans on Q ---------- *)

Lemma Qlt_bool_true a b : Qlt_bool a b = true <-> a < b.
Proof.
  unfold Qlt_bool. rewrite negb_true_iff. split; intro H.
  - apply Qnot_le_lt. intro H1. apply Qle_bool_iff in H1. congruence.
  - destruct (Qle_bool b a) eqn:E; auto. apply Qle_bool_iff in E.
    exfalso. exact (Qlt_not_le _ _ H E).
Qed.

Lemma Qlt_bool_false a b : Qlt_bool a b = false <-> b <= a.
Proof.
  unfold Qlt_bool. rewrite negb_false_iff. apply Qle_bool_iff.
Qed.

Lemma Qle_bool_false a b : Qle_bool a b = false <-> b < a.
Proof.
  split; intro H.
  - apply Qnot_le_lt. intro H1. apply Qle_bool_iff in H1. congruence.
  - destruct (Qle_bool a b) eqn:E; auto. apply Qle_bool_iff in E.
    exfalso. exact (Qlt_not_le _ _ H E).
Qed.

(* ---------- the regenerated constants ---------- *)

Definition consts_soundb : bool :=
  Qle_bool acc_lo 0 && Qle_bool 1 acc_hi && (64 <=? assert_max_den)%N
  && Qle_bool 0 acc_lo && Qlt_bool 0 regular_eps && Qlt_bool 0 fix_ratio
  && Qle_bool acc_lo clamp_acc_lo && Qle_bool clamp_acc_hi acc_hi && (clamp_den_hi <=? assert_max_den)%N
  && Qle_bool clamp_acc_lo default_accuracy && Qle_bool default_accuracy clamp_acc_hi.

Lemma consts_sound : consts_soundb = true.
Proof. vm_compute. reflexivity. Qed.

Lemma consts_facts :
  acc_lo <= 0 /\ 1 <= acc_hi /\ (64 <= assert_max_den)%N /\ 0 <= acc_lo /\ 0 < regular_eps /\ 0 < fix_ratio.
Proof.
  pose proof consts_sound as H. unfold consts_soundb in H.
  repeat (apply andb_prop in H; destruct H as [H ?]).
  repeat split;
    try (apply Qle_bool_iff; assumption); try (apply Qlt_bool_true; assumption).
  apply N.leb_le; assumption.
Qed.

(* ---------- the lookup table ---------- *)

Definition entry_wfb (e : entry) : bool :=
  existsb (N.eqb (eden e)) denoms && (0 <? enum e)%N && (enum e <? eden e)%N
  && (ekey e =? Qfloor (N2Q (enum e) / N2Q (eden e) * fix_ratio))%Z
  && (0 <=? ekey e)%Z && (ekey e <=? i16_max)%Z.

Fixpoint keys_increasing (t : list entry) : bool :=
  match t with
  | a :: (b :: _) as r => (ekey a <? ekey b)%Z && keys_increasing r
  | _ => true
  end.

(* every fraction n/d, d a supported denominator, has its cell in the table *)
Definition table_completeb (t : list entry) : bool :=
  forallb (fun e => existsb (fun e' => (ekey e' =? ekey e)%Z) t) (table_entries denoms).

Definition table_wfb (t : list entry) : bool :=
  forallb entry_wfb t && keys_increasing t && table_completeb t.

Definition table_okb : bool :=
  match table_new with Done t => table_wfb t | Panic _ => false end.

(* the one obligation that depends on the concrete DENOMS / FIX_RATIO *)
Lemma table_okb_true : table_okb = true.
Proof. vm_compute. reflexivity. Qed.

Lemma table_ok : exists t, table_new = Done t /\ table_wfb t = true.
Proof.
  pose proof table_okb_true as H. unfold table_okb in H.
  destruct table_new as [t|s]; [exists t; auto | discriminate].
Qed.

Definition entry_wf (e : entry) : Prop :=
  In (eden e) denoms /\ (0 < enum e < eden e)%N
  /\ ekey e = Qfloor (N2Q (enum e) / N2Q (eden e) * fix_ratio)
  /\ (0 <= ekey e <= i16_max)%Z.

Lemma entry_wfb_wf e : entry_wfb e = true -> entry_wf e.
Proof.
  unfold entry_wfb, entry_wf. intro H.
  repeat (apply andb_prop in H; destruct H as [H ?]).
  apply existsb_exists in H. destruct H as (d & Hin & Hd). apply N.eqb_eq in Hd. subst d.
  repeat split; try assumption.
  - apply N.ltb_lt; assumption.
  - apply N.ltb_lt; assumption.
  - apply Z.eqb_eq; assumption.
  - apply Z.leb_le; assumption.
  - apply Z.leb_le; assumption.
Qed.

Lemma keys_increasing_sorted t :
  keys_increasing t = true -> Sorted (fun a b => (ekey a < ekey b)%Z) t.
Proof.
  induction t as [|a r IH]; intro H; [constructor|].
  destruct r as [|b r'].
  - constructor; constructor.
  - cbn [keys_increasing] in H. apply andb_prop in H. destruct H as [H1 H2].
    constructor; [apply IH; exact H2|]. constructor. apply Z.ltb_lt. exact H1.
Qed.

Lemma table_wf_entries t : table_wfb t = true -> forall e, In e t -> entry_wf e.
Proof.
  unfold table_wfb. intros H e He.
  apply andb_prop in H. destruct H as [H _]. apply andb_prop in H. destruct H as [H _].
  rewrite forallb_forall in H. apply entry_wfb_wf. apply H. exact He.
Qed.

(* ---------- lookup ---------- *)

Lemma split_at_key_spec k t lo hi :
  split_at_key k t = (lo, hi) ->
  t = lo ++ hi /\ Forall (fun e => (ekey e < k)%Z) lo.
Proof.
  revert lo hi. induction t as [|e r IH]; intros lo hi H; cbn [split_at_key] in H.
  - injection H as <- <-. split; [reflexivity|constructor].
  - destruct (ekey e <? k)%Z eqn:E.
    + destruct (split_at_key k r) as [lo' hi'] eqn:S. injection H as <- <-.
      destruct (IH lo' hi' eq_refl) as [-> F]. split; [reflexivity|].
      constructor; [apply Z.ltb_lt; exact E|exact F].
    + injection H as <- <-. split; [reflexivity|constructor].
Qed.

Ltac obind_cases H :=
  repeat match type of H with
  | obind ?o _ = _ => let E := fresh "E" in destruct o eqn:E; cbn [obind] in H; [|discriminate H]
  end.

Lemma lookup_member t x md nd :
  lookup t x md = Done (Some nd) ->
  exists e, In e t /\ snd e = nd /\ den_ok md e = true.
Proof.
  unfold lookup. destruct (split_at_key (fixed_of x) t) as [lo hi] eqn:S.
  apply split_at_key_spec in S. destruct S as [-> _].
  intro H.
  assert (Hhi : forall e, find (den_ok md) hi = Some e -> In e (lo ++ hi) /\ den_ok md e = true).
  { intros e F. apply find_some in F. destruct F. split; [apply in_or_app; right|]; assumption. }
  assert (Hlo : forall e, find (den_ok md) (rev lo) = Some e -> In e (lo ++ hi) /\ den_ok md e = true).
  { intros e F. apply find_some in F. destruct F as [F1 F2]. apply in_rev in F1.
    split; [apply in_or_app; left|]; assumption. }
  destruct hi as [|h hi'].
  - (* no element at or above *)
    cbn [find] in H.
    destruct (find (den_ok md) (rev lo)) as [a|] eqn:Fa; [|discriminate H].
    injection H as <-. exists a. destruct (Hlo a eq_refl). auto.
  - destruct ((ekey h =? fixed_of x)%Z && den_ok md h) eqn:Fd.
    + injection H as <-. exists h. apply andb_prop in Fd. destruct Fd.
      repeat split; auto. apply in_or_app. right. left. reflexivity.
    + destruct (find (den_ok md) (rev lo)) as [a|] eqn:Fa;
      destruct (find (den_ok md) (h :: hi')) as [b|] eqn:Fb.
      * obind_cases H.
        destruct ((a1 <? a3)%Z || ((a1 =? a3)%Z && (eden a <=? eden b)%N));
          injection H as <-.
        -- exists a. destruct (Hlo a eq_refl). auto.
        -- exists b. destruct (Hhi b eq_refl). auto.
      * injection H as <-. exists a. destruct (Hlo a eq_refl). auto.
      * injection H as <-. exists b. destruct (Hhi b eq_refl). auto.
      * discriminate H.
Qed.

Lemma sat_i16_range z : (i16_min <= sat_i16 z <= i16_max)%Z.
Proof.
  unfold sat_i16, i16_min, i16_max.
  destruct (z <? -32768)%Z eqn:A; [lia|]. destruct (32767 <? z)%Z eqn:B; [lia|].
  apply Z.ltb_ge in A. apply Z.ltb_ge in B. lia.
Qed.

Lemma lookup_no_panic t x md :
  (forall e, In e t -> (0 <= ekey e <= i16_max)%Z) ->
  exists r, lookup t x md = Done r.
Proof.
  intro W. unfold lookup. destruct (split_at_key (fixed_of x) t) as [lo hi] eqn:S.
  apply split_at_key_spec in S. destruct S as [-> Flo].
  pose proof (sat_i16_range (qtrunc (x * fix_ratio))) as R. fold (fixed_of x) in R.
  set (k := fixed_of x) in *.
  destruct (match hi with
            | [] => None
            | e :: _ => if (ekey e =? k)%Z && den_ok md e then Some e else None
            end) as [e|]; [eexists; reflexivity|].
  destruct (find (den_ok md) (rev lo)) as [a|] eqn:Fa;
  destruct (find (den_ok md) hi) as [b|] eqn:Fb; try (eexists; reflexivity).
  apply find_some in Fa. destruct Fa as [Fa _]. apply in_rev in Fa.
  apply find_some in Fb. destruct Fb as [Fb _].
  assert (Ka : (0 <= ekey a <= i16_max)%Z) by (apply W; apply in_or_app; left; exact Fa).
  assert (Kb : (0 <= ekey b <= i16_max)%Z) by (apply W; apply in_or_app; right; exact Fb).
  rewrite Forall_forall in Flo. specialize (Flo a Fa). cbv beta in Flo.
  unfold i16_min, i16_max in *.
  unfold i16_sub, i16_abs, i16_min, i16_max.
  replace ((-32768 <=? ekey a - k) && (ekey a - k <=? 32767))%Z with true
    by (symmetry; apply andb_true_intro; split; apply Z.leb_le; lia).
  cbn [obind].
  replace (ekey a - k =? -32768)%Z with false by (symmetry; apply Z.eqb_neq; lia).
  cbn [obind].
  replace ((-32768 <=? ekey b - k) && (ekey b - k <=? 32767))%Z with true
    by (symmetry; apply andb_true_intro; split; apply Z.leb_le; lia).
  cbn [obind].
  replace (ekey b - k =? -32768)%Z with false by (symmetry; apply Z.eqb_neq; lia).
  cbn [obind].
  match goal with |- context [if ?c then _ else _] => destruct c end; eexists; reflexivity.
Qed.

(* ---------- truncation, rounding, saturating casts ---------- *)

Lemma qtrunc_floor v : 0 <= v -> qtrunc v = Qfloor v.
Proof.
  destruct v as [n d]. unfold Qle, qtrunc, Qfloor. cbn [Qnum Qden]. intro H.
  apply Z.quot_div_nonneg; lia.
Qed.

Lemma floor_lb v : inject_Z (Qfloor v) <= v.
Proof. apply Qfloor_le. Qed.

Lemma floor_ub v : v < inject_Z (Qfloor v) + 1.
Proof.
  pose proof (Qlt_floor v) as H. rewrite inject_Z_plus in H. change (inject_Z 1) with 1 in H. exact H.
Qed.

Lemma floor_le_of_lt v k : v < inject_Z k + 1 -> (Qfloor v <= k)%Z.
Proof.
  intro H. pose proof (floor_lb v) as L.
  assert (inject_Z (Qfloor v) < inject_Z (k + 1)) as H1 by (rewrite inject_Z_plus; change (inject_Z 1) with 1; lra).
  rewrite <- Zlt_Qlt in H1. lia.
Qed.

Lemma floor_ge_of_le v k : inject_Z k <= v -> (k <= Qfloor v)%Z.
Proof.
  intro H. pose proof (floor_ub v) as U.
  assert (inject_Z k < inject_Z (Qfloor v + 1)) as H1 by (rewrite inject_Z_plus; change (inject_Z 1) with 1; lra).
  rewrite <- Zlt_Qlt in H1. lia.
Qed.

Lemma qround_pos v : 0 < v -> qround v = Qfloor (v + (1 # 2)).
Proof.
  intro H. unfold qround. replace (Qle_bool 0 v) with true; [reflexivity|].
  symmetry. apply Qle_bool_iff. lra.
Qed.

Lemma sat_u32_id z : (0 <= z <= u32_max)%Z -> sat_u32 z = Z.to_N z.
Proof.
  intro H. unfold sat_u32.
  replace (z <? 0)%Z with false by (symmetry; apply Z.ltb_ge; lia).
  replace (u32_max <? z)%Z with false by (symmetry; apply Z.ltb_ge; lia).
  reflexivity.
Qed.

Lemma sat_u32_top z : (u32_max <= z)%Z -> sat_u32 z = u32_max_N.
Proof.
  intro H. unfold sat_u32.
  replace (z <? 0)%Z with false by (symmetry; apply Z.ltb_ge; unfold u32_max in H; lia).
  destruct (u32_max <? z)%Z eqn:E; [reflexivity|].
  apply Z.ltb_ge in E. assert (z = u32_max) by lia. subst z. reflexivity.
Qed.

Lemma N2Q_to_N z : (0 <= z)%Z -> N2Q (Z.to_N z) = inject_Z z.
Proof. intro H. unfold N2Q. rewrite Z2N.id; auto. Qed.

(* what passing the whole-part test of new_approx tells about v *)
Lemma whole_test c v mw :
  0 < v ->
  (mw <? sat_u32 (qtrunc v))%N
    || (if sentinel_on_cast c then (sat_u32 (qtrunc v) =? u32_max_N)%N else Qlt_bool (inject_Z u32_max) v) = false ->
  qtrunc v = Qfloor v /\ (0 <= Qfloor v <= u32_max)%Z /\ (Qfloor (v + (1 # 2)) <= u32_max)%Z
  /\ sat_u32 (qtrunc v) = Z.to_N (Qfloor v) /\ (Z.to_N (Qfloor v) <= mw)%N.
Proof.
  intros Hv H. apply orb_false_elim in H. destruct H as [H1 H2].
  assert (T : qtrunc v = Qfloor v) by (apply qtrunc_floor; lra).
  rewrite T in *.
  assert (F0 : (0 <= Qfloor v)%Z) by (apply floor_ge_of_le; change (inject_Z 0) with 0; lra).
  assert (B : (Qfloor v <= u32_max)%Z /\ (Qfloor (v + (1 # 2)) <= u32_max)%Z).
  { destruct (sentinel_on_cast c).
    - apply N.eqb_neq in H2.
      assert (Qfloor v < u32_max)%Z as L.
      { destruct (Z_lt_le_dec (Qfloor v) u32_max) as [L|L]; [exact L|].
        exfalso. apply H2. apply sat_u32_top. exact L. }
      split; [lia|]. apply floor_le_of_lt.
      pose proof (floor_ub v) as U.
      assert (inject_Z (Qfloor v + 1) <= inject_Z u32_max) as Hc by (rewrite <- Zle_Qle; lia).
      rewrite inject_Z_plus in Hc. change (inject_Z 1) with 1 in Hc.
      lra.
    - apply Qlt_bool_false in H2. split.
      + apply floor_le_of_lt. lra.
      + apply floor_le_of_lt. lra. }
  destruct B as [B1 B2].
  assert (S : sat_u32 (Qfloor v) = Z.to_N (Qfloor v)) by (apply sat_u32_id; lia).
  repeat split; auto.
  rewrite S in H1. apply N.ltb_ge in H1. exact H1.
Qed.

(* ---------- inversion of new_approx ---------- *)

Definition frac_of (v : Q) : Q := v - inject_Z (Qfloor v).

Inductive approx_result (v acc : Q) (md mw : N) : number -> Prop :=
| AR_regular :
    frac_of v < regular_eps ->
    approx_result v acc md mw (Regular v)
| AR_rounded r :
    r = Qfloor (v + (1 # 2)) -> (0 < r <= u32_max)%Z -> (Z.to_N r <= mw)%N ->
    Qabs (v - inject_Z r) < acc * v ->
    regular_eps <= frac_of v ->
    approx_result v acc md mw (Fraction (Z.to_N r) 0 1 (v - inject_Z r))
| AR_fraction t n d :
    table_new = Done t ->
    lookup t (frac_of v) md = Done (Some (n, d)) ->
    Qabs (v - (inject_Z (Qfloor v) + N2Q n / N2Q d)) <= acc * v ->
    regular_eps <= frac_of v ->
    approx_result v acc md mw
      (Fraction (Z.to_N (Qfloor v)) n d (v - (N2Q (Z.to_N (Qfloor v)) + N2Q n / N2Q d))).

Lemma new_approx_inv c v acc md mw x :
  new_approx c (Fin v) (Fin acc) md mw = Done (Some x) ->
  0 < v /\ acc_lo <= acc <= acc_hi /\ (md <= assert_max_den)%N
  /\ (0 <= Qfloor v <= u32_max)%Z /\ (Z.to_N (Qfloor v) <= mw)%N
  /\ approx_result v acc md mw x.
Proof.
  unfold new_approx.
  destruct (Qle_bool acc_lo acc && Qle_bool acc acc_hi) eqn:A; cbn [negb]; [|discriminate].
  destruct (md <=? assert_max_den)%N eqn:M; cbn [negb]; [|discriminate].
  destruct (Qle_bool v 0) eqn:V; [discriminate|].
  apply Qle_bool_false in V.
  match goal with |- (if ?b then _ else _) = _ -> _ => destruct b eqn:W end; [discriminate|].
  destruct (whole_test c v mw V W) as (T & F & R & S & L).
  rewrite S, T.
  apply andb_prop in A. destruct A as [A1 A2]. apply Qle_bool_iff in A1, A2. apply N.leb_le in M.
  fold (frac_of v).
  assert (PRE : forall P : Prop, P -> 0 < v /\ acc_lo <= acc <= acc_hi /\ (md <= assert_max_den)%N
    /\ (0 <= Qfloor v <= u32_max)%Z /\ (Z.to_N (Qfloor v) <= mw)%N /\ P).
  { intros P HP. split; [exact V|]. split; [split; assumption|]. split; [exact M|].
    split; [exact F|]. split; [exact L|exact HP]. }
  destruct (Qlt_bool (frac_of v) regular_eps) eqn:D.
  { intro H. injection H as <-. apply Qlt_bool_true in D.
    apply PRE. constructor. exact D. }
  apply Qlt_bool_false in D.
  rewrite (qround_pos v V).
  set (r := Qfloor (v + (1 # 2))) in *.
  assert (R0 : (0 <= r)%Z) by (apply floor_ge_of_le; change (inject_Z 0) with 0; lra).
  rewrite (sat_u32_id r) by lia.
  match goal with |- (if ?b then _ else _) = _ -> _ => destruct b eqn:RC end.
  { intro H. injection H as <-.
    apply andb_prop in RC. destruct RC as [RC R3]. apply andb_prop in RC. destruct RC as [R1 R2].
    apply Qlt_bool_true in R1. apply N.ltb_lt in R2. apply N.leb_le in R3.
    apply PRE. apply AR_rounded with (r := r); auto. lia. }
  clear RC.
  destruct table_new as [t|s] eqn:TN; cbn [obind]; [|discriminate].
  destruct (lookup t (frac_of v) md) as [[[n d]|]|s] eqn:LK; cbn [obind]; try discriminate.
  match goal with |- (if ?b then _ else _) = _ -> _ => destruct b eqn:EC end; [discriminate|].
  intro H. injection H as <-. apply Qlt_bool_false in EC.
  apply PRE. apply AR_fraction with (t := t); auto.
  rewrite (N2Q_to_N (Qfloor v)) in EC by lia. exact EC.
Qed.

(* ---------- consequences ---------- *)

Lemma table_unique t : table_new = Done t -> table_wfb t = true.
Proof.
  intro H. destruct table_ok as (t' & H' & W). rewrite H in H'. injection H' as ->. exact W.
Qed.

Lemma lookup_entry t x md n d :
  table_new = Done t -> lookup t x md = Done (Some (n, d)) ->
  In (n, d) (map snd t) /\ In d denoms /\ (0 < n < d)%N /\ (d <= md)%N.
Proof.
  intros T H. apply lookup_member in H. destruct H as (e & He & Hs & Hd).
  pose proof (table_wf_entries t (table_unique t T) e He) as (W1 & W2 & _).
  unfold den_ok in Hd. apply N.leb_le in Hd.
  destruct e as [k [n' d']]. cbn [snd] in Hs. injection Hs as -> ->.
  unfold eden, enum in *. cbn [fst snd] in *.
  repeat split; auto; try lia.
  change (n, d) with (snd (k, (n, d))). apply in_map. exact He.
Qed.

Lemma approx_no_panic c v acc md mw :
  acc_lo <= acc <= acc_hi -> (md <= assert_max_den)%N ->
  exists r, new_approx c v (Fin acc) md mw = Done r.
Proof.
  intros [A1 A2] M. unfold new_approx.
  replace (Qle_bool acc_lo acc && Qle_bool acc acc_hi) with true
    by (symmetry; apply andb_true_intro; split; apply Qle_bool_iff; assumption).
  replace (md <=? assert_max_den)%N with true by (symmetry; apply N.leb_le; exact M).
  cbn [negb].
  destruct v as [v| | |]; try (eexists; reflexivity).
  repeat match goal with
  | |- exists r, (if ?b then _ else _) = Done r => destruct b; [eexists; reflexivity|]
  end.
  destruct table_ok as (t & -> & W). cbn [obind].
  destruct (lookup_no_panic t (v - inject_Z (qtrunc v)) md) as (r & ->).
  { intros e He. apply (table_wf_entries t W e He). }
  cbn [obind]. destruct r as [[n d]|]; [|eexists; reflexivity].
  match goal with |- exists r, (if ?b then _ else _) = Done r => destruct b end; eexists; reflexivity.
Qed.

Lemma approx_exact v acc md mw x :
  approx_result v acc md mw x -> exists q, value x = Fin q /\ q == v.
Proof.
  intros [D | r -> R0 R1 R2 _ | t n d T L E _].
  - exists v. split; reflexivity.
  - eexists. split; [reflexivity|].
    rewrite N2Q_to_N by lia. change (N2Q 0 / N2Q 1) with (0 / 1). field.
  - destruct (lookup_entry _ _ _ _ _ T L) as (_ & _ & Hn & _).
    cbn [value]. replace (d =? 0)%N with false by (symmetry; apply N.eqb_neq; lia).
    eexists. split; [reflexivity|]. set (y := N2Q n / N2Q d). ring.
Qed.

Lemma approx_within v acc md mw x :
  0 < v -> 0 <= acc -> approx_result v acc md mw x -> Qabs (err_of x) <= acc * v.
Proof.
  intros Hv Ha [D | r -> R0 R1 R2 _ | t n d T L E _]; cbn [err_of].
  - change (Qabs 0) with 0. nra.
  - apply Qlt_le_weak. exact R2.
  - rewrite N2Q_to_N. exact E.
    pose proof (floor_ge_of_le v 0) as F. apply F. change (inject_Z 0) with 0. lra.
Qed.

Definition shape (v : Q) (md mw : N) (x : number) : Prop :=
  match x with
  | Regular r => r = v /\ frac_of v < regular_eps /\ (Z.to_N (Qfloor v) <= mw)%N
  | Fraction w n d _ =>
      (w <= mw)%N /\
      ((n = 0%N /\ d = 1%N /\ (0 < w)%N) \/ (In d denoms /\ (d <= md)%N /\ (0 < n < d)%N))
  end.

Lemma approx_shape v acc md mw x :
  (Z.to_N (Qfloor v) <= mw)%N -> approx_result v acc md mw x -> shape v md mw x.
Proof.
  intros W [D | r -> R0 R1 R2 _ | t n d T L E _]; cbn [shape].
  - auto.
  - split; [exact R1|]. left. repeat split. lia.
  - destruct (lookup_entry _ _ _ _ _ T L) as (_ & Hd & Hn & Hm).
    split; [exact W|]. right. auto.
Qed.

Lemma approx_declines c v acc md mw :
  acc_lo <= acc <= acc_hi -> (md <= assert_max_den)%N ->
  match v with Fin q => q <= 0 | _ => True end ->
  new_approx c v (Fin acc) md mw = Done None.
Proof.
  intros [A1 A2] M H. unfold new_approx.
  replace (Qle_bool acc_lo acc && Qle_bool acc acc_hi) with true
    by (symmetry; apply andb_true_intro; split; apply Qle_bool_iff; assumption).
  replace (md <=? assert_max_den)%N with true by (symmetry; apply N.leb_le; exact M).
  cbn [negb]. destruct v as [q| | |]; try reflexivity.
  replace (Qle_bool q 0) with true by (symmetry; apply Qle_bool_iff; exact H). reflexivity.
Qed.

Lemma qtrunc_integer v z : v == inject_Z z -> qtrunc v = z.
Proof.
  destruct v as [n d]. unfold Qeq, qtrunc. cbn [Qnum Qden inject_Z]. intro H.
  rewrite Z.mul_1_r in H. subst n. apply Z.quot_mul. lia.
Qed.

Lemma approx_integer c v z acc md mw :
  acc_lo <= acc <= acc_hi -> (md <= assert_max_den)%N ->
  v == inject_Z z -> (0 < z)%Z -> (Z.to_N z <= mw)%N -> (mw <= u32_max_N)%N ->
  (sentinel_on_cast c = true -> (z < u32_max)%Z) ->
  new_approx c (Fin v) (Fin acc) md mw = Done (Some (Regular v)).
Proof.
  intros [A1 A2] M E Z0 ZW WU SC. unfold new_approx.
  replace (Qle_bool acc_lo acc && Qle_bool acc acc_hi) with true
    by (symmetry; apply andb_true_intro; split; apply Qle_bool_iff; assumption).
  replace (md <=? assert_max_den)%N with true by (symmetry; apply N.leb_le; exact M).
  cbn [negb].
  assert (ZU : (z <= u32_max)%Z) by (unfold u32_max_N, u32_max in *; lia).
  assert (Hz : 0 < inject_Z z) by (change 0 with (inject_Z 0); rewrite <- Zlt_Qlt; exact Z0).
  replace (Qle_bool v 0) with false by (symmetry; apply Qle_bool_false; lra).
  rewrite (qtrunc_integer v z E).
  rewrite (sat_u32_id z) by lia.
  replace (mw <? Z.to_N z)%N with false by (symmetry; apply N.ltb_ge; exact ZW).
  replace (if sentinel_on_cast c then (Z.to_N z =? u32_max_N)%N else Qlt_bool (inject_Z u32_max) v)
    with false.
  2:{ symmetry. destruct (sentinel_on_cast c).
      - apply N.eqb_neq. specialize (SC eq_refl). unfold u32_max_N, u32_max in *. lia.
      - apply Qlt_bool_false. rewrite E. rewrite <- Zle_Qle. exact ZU. }
  cbn [orb].
  replace (Qlt_bool (v - inject_Z z) regular_eps) with true; [reflexivity|].
  symmetry. apply Qlt_bool_true. destruct consts_facts as (_ & _ & _ & _ & He & _). lra.
Qed.

(* the code as found declines the integer u32::MAX although it is within max_whole = u32::MAX *)
Lemma integer_u32max_declined_as_found :
  new_approx cfg0 (Fin (inject_Z u32_max)) (Fin default_accuracy) default_max_den u32_max_N = Done None.
Proof. vm_compute. reflexivity. Qed.

Lemma integer_u32max_after_fix :
  new_approx cfgF (Fin (inject_Z u32_max)) (Fin default_accuracy) default_max_den u32_max_N
  = Done (Some (Regular (inject_Z u32_max))).
Proof. vm_compute. reflexivity. Qed.

(* ---------- display ---------- *)

Definition stops (rest : str) : Prop :=
  match rest with [] => True | c :: _ => digit_of c = None end.

Lemma read_uint_codes u rest : stops rest -> read_uint (uint_codes u ++ rest) = (u, rest).
Proof.
  intro S. induction u; cbn [uint_codes app read_uint];
    try (match goal with |- context [digit_of ?c] => change (digit_of c) with (Some D0) || change (digit_of c) with (Some D1)
          || change (digit_of c) with (Some D2) || change (digit_of c) with (Some D3) || change (digit_of c) with (Some D4)
          || change (digit_of c) with (Some D5) || change (digit_of c) with (Some D6) || change (digit_of c) with (Some D7)
          || change (digit_of c) with (Some D8) || change (digit_of c) with (Some D9) end;
         rewrite IHu; reflexivity).
  destruct rest as [|c r]; [reflexivity|]. cbn [read_uint]. unfold stops in S. rewrite S. reflexivity.
Qed.

Lemma to_uint_nonnil n : N.to_uint n <> Nil.
Proof.
  destruct n as [|p]; [discriminate|]. apply DecimalPos.Unsigned.to_uint_nonnil.
Qed.

Lemma read_nat_dec n rest : stops rest -> read_nat (dec n ++ rest) = Some (n, rest).
Proof.
  intro S. unfold read_nat, dec. rewrite (read_uint_codes _ _ S).
  pose proof (to_uint_nonnil n) as NN. pose proof (DecimalN.Unsigned.of_to n) as OT.
  destruct (N.to_uint n); try congruence; rewrite OT; reflexivity.
Qed.

Lemma read_nat_dec_end n : read_nat (dec n) = Some (n, []).
Proof. rewrite <- (app_nil_r (dec n)). apply read_nat_dec. exact I. Qed.

Lemma read_frac_dec n d : read_frac (dec n ++ c_slash :: dec d) = Some (n, d).
Proof.
  unfold read_frac. rewrite read_nat_dec by reflexivity.
  change (c_slash =? c_slash)%N with true. cbv iota. rewrite read_nat_dec_end. reflexivity.
Qed.

Section DisplayProofs.
  Variable fmt fmtp : Q -> str.
  Hypothesis fmt_zero : fmt 0 = [48%N].   (* `{}` of 0.0 prints "0" *)

  Lemma display_reads w n d e :
    is_zero (value (Fraction w n d e)) = false ->
    exists q, read_display (display fmt fmtp false (Fraction w n d e)) = Some q
              /\ q == N2Q w + N2Q n / N2Q d.
  Proof.
    intro NZ. unfold display. rewrite NZ. cbn [andb]. rewrite app_nil_r.
    destruct (w =? 0)%N eqn:W; destruct (n =? 0)%N eqn:Nn; cbn [andb].
    - apply N.eqb_eq in W, Nn. subst. rewrite fmt_zero. exists (N2Q 0). split; [reflexivity|].
      change (N2Q 0) with 0. unfold Qdiv. ring.
    - apply N.eqb_eq in W. subst w. unfold read_display.
      cbn [app]. rewrite read_nat_dec by reflexivity.
      change (c_slash =? c_slash)%N with true. cbv iota. rewrite read_nat_dec_end.
      eexists. split; [reflexivity|]. change (N2Q 0) with 0. unfold Qdiv. ring.
    - apply N.eqb_eq in Nn. subst n. unfold read_display. rewrite read_nat_dec_end.
      eexists. split; [reflexivity|]. change (N2Q 0) with 0. unfold Qdiv. ring.
    - unfold read_display. cbn [app]. rewrite read_nat_dec by reflexivity.
      change (c_space =? c_slash)%N with false. change (c_space =? c_space)%N with true. cbv iota.
      rewrite read_frac_dec. eexists. split; reflexivity.
  Qed.
End DisplayProofs.

Lemma approx_display fmt fmtp c v acc md mw w n d e :
  fmt 0 = [48%N] ->
  new_approx c (Fin v) (Fin acc) md mw = Done (Some (Fraction w n d e)) ->
  exists q, read_display (display fmt fmtp false (Fraction w n d e)) = Some q
            /\ q == N2Q w + N2Q n / N2Q d.
Proof.
  intros F H. apply display_reads; [exact F|].
  apply new_approx_inv in H. destruct H as (V & _ & _ & _ & _ & R).
  apply approx_exact in R. destruct R as (q & -> & E). cbn [is_zero].
  destruct (Qeq_bool q 0) eqn:B; [|reflexivity].
  apply Qeq_bool_iff in B. lra.
Qed.

(* ---------- completeness of the table ---------- *)

Lemma nums_of_in n d : (0 < n < d)%N -> In n (nums_of d).
Proof.
  intro H. unfold nums_of. apply in_map_iff. exists (N.to_nat n). split; [apply N2Nat.id|].
  apply in_seq. lia.
Qed.

Lemma table_complete t :
  table_wfb t = true ->
  forall d n, In d denoms -> (0 < n < d)%N ->
    exists e, In e t /\ ekey e = fixed_of (N2Q n / N2Q d).
Proof.
  unfold table_wfb. intros H d n Hd Hn.
  apply andb_prop in H. destruct H as [_ H]. unfold table_completeb in H.
  rewrite forallb_forall in H.
  specialize (H (fixed_of (N2Q n / N2Q d), (n, d))).
  assert (In (fixed_of (N2Q n / N2Q d), (n, d)) (table_entries denoms)) as I.
  { unfold table_entries. apply in_flat_map. exists d. split; [exact Hd|].
    apply in_map_iff. exists n. split; [reflexivity|]. apply nums_of_in. exact Hn. }
  specialize (H I). apply existsb_exists in H. destruct H as (e & He & K).
  exists e. split; [exact He|]. apply Z.eqb_eq in K. exact K.
Qed.
