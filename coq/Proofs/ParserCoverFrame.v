(* Frame facts of the block parser (for C05), by partial correctness: every function of
   Model/Parser.v only consumes tokens forwards ([grow]) or keeps the position ([stay]), and only
   adds events; a component parser that returns an event gives it the span
   (offset at entry, offset at exit). *)
From CL Require Import Base.StrLemmas Model.Lexer Model.CommentMask Model.Parser
  Proofs.LexerProofs Proofs.ParserSeg Proofs.ParserCover.

(* ------------------------------------------------------------------ the judgement *)

Definition pc {A} (m : M A) (s : bp) (R : A -> bp -> Prop) : Prop :=
  forall a s', m s = Done (a, s') -> R a s'.

Lemma pc_bind {A B} (m : M A) (f : A -> M B) s R :
  pc m s (fun a s1 => pc (f a) s1 R) -> pc (bind m f) s R.
Proof.
  intros H b s2 E. unfold bind in E. destruct (m s) as [[a s1]|] eqn:Em; [|discriminate].
  exact (H a s1 Em b s2 E).
Qed.

Lemma pc_ret {A} (a : A) s (R : A -> bp -> Prop) : R a s -> pc (ret a) s R.
Proof. intros H a' s' E. unfold ret in E. injection E as <- <-. exact H. Qed.

Lemma pc_panic {A} site s (R : A -> bp -> Prop) : pc (panic site) s R.
Proof. intros a s' E. discriminate. Qed.

Lemma pc_conseq {A} (m : M A) s (R R' : A -> bp -> Prop) :
  pc m s R -> (forall a s', R a s' -> R' a s') -> pc m s R'.
Proof. intros H HI a s' E. apply HI, H, E. Qed.

Lemma pc_obindM {A B} (m : M (option A)) (f : A -> M (option B)) s R :
  pc m s (fun o s1 => match o with Some a => pc (f a) s1 R | None => R None s1 end) ->
  pc (obindM m f) s R.
Proof.
  intro H. unfold obindM. apply pc_bind. eapply pc_conseq; [exact H|].
  intros [a|] s1 H1; [exact H1 | apply pc_ret; exact H1].
Qed.

Lemma pc_lift {A} (o : outcome A) s (R : A -> bp -> Prop) :
  (forall a, o = Done a -> R a s) -> pc (lift o) s R.
Proof. intros H a s' E. unfold lift in E. destruct o; [|discriminate]. injection E as <- <-. apply H. reflexivity. Qed.

(* ------------------------------------------------------------------ relations between states *)

Definition push (ev : pevent) (s : bp) : bp :=
  {| b_all := b_all s; b_done := b_done s; b_rest := b_rest s; b_evs := ev :: b_evs s |}.
Definition restore (s s' : bp) : bp :=
  {| b_all := b_all s; b_done := b_done s; b_rest := b_rest s; b_evs := b_evs s' |}.
Definition sub_state (ts : list tok) (s : bp) : bp :=
  {| b_all := ts; b_done := []; b_rest := ts; b_evs := b_evs s |}.

(* events are only added *)
Definition evg (s s' : bp) : Prop := exists es, b_evs s' = es ++ b_evs s.
Definition keep (s s' : bp) : Prop :=
  b_all s' = b_all s /\ b_done s' = b_done s /\ b_rest s' = b_rest s.
Definition stay (s s' : bp) : Prop := keep s s' /\ evg s s'.
(* exactly the tokens c were consumed, nothing else changed *)
Definition mv (s : bp) (c : list tok) (s' : bp) : Prop :=
  b_all s' = b_all s /\ b_rest s = c ++ b_rest s' /\ b_done s' = rev c ++ b_done s /\ b_evs s' = b_evs s.
Definition fwd (s : bp) (c : list tok) (s' : bp) : Prop :=
  b_all s' = b_all s /\ b_rest s = c ++ b_rest s' /\ b_done s' = rev c ++ b_done s.
Definition grow (s s' : bp) : Prop := (exists c, fwd s c s') /\ evg s s'.

Lemma evg_refl s : evg s s.
Proof. exists []. reflexivity. Qed.
Lemma evg_trans a b c : evg a b -> evg b c -> evg a c.
Proof. intros (x & A) (y & B). exists (y ++ x). rewrite B, A, app_assoc. reflexivity. Qed.
Lemma evg_In s s' e : evg s s' -> In e (b_evs s) -> In e (b_evs s').
Proof. intros (es & E) H. rewrite E. apply in_or_app. right. exact H. Qed.

Lemma keep_refl s : keep s s.
Proof. unfold keep. tauto. Qed.
Lemma keep_trans a b c : keep a b -> keep b c -> keep a c.
Proof. unfold keep. intros (A1 & A2 & A3) (B1 & B2 & B3). repeat split; congruence. Qed.

Lemma stay_refl s : stay s s.
Proof. split; [apply keep_refl|apply evg_refl]. Qed.
Lemma stay_trans a b c : stay a b -> stay b c -> stay a c.
Proof. intros (A1 & A2) (B1 & B2). split; [eapply keep_trans|eapply evg_trans]; eassumption. Qed.
Lemma stay_evg s s' : stay s s' -> evg s s'.
Proof. unfold stay. tauto. Qed.

Lemma fwd_trans a c1 b c2 c : fwd a c1 b -> fwd b c2 c -> fwd a (c1 ++ c2) c.
Proof.
  intros (A1 & A2 & A3) (B1 & B2 & B3). split; [congruence|]. split.
  - rewrite A2, B2, app_assoc. reflexivity.
  - rewrite B3, A3, rev_app_distr, app_assoc. reflexivity.
Qed.

Lemma grow_refl s : grow s s.
Proof. split; [exists []; unfold fwd; cbn [app rev]; tauto|apply evg_refl]. Qed.
Lemma grow_trans a b c : grow a b -> grow b c -> grow a c.
Proof.
  intros ((c1 & A) & A') ((c2 & B) & B'). split; [|eapply evg_trans; eassumption].
  exists (c1 ++ c2). eapply fwd_trans; eassumption.
Qed.
Lemma grow_evg s s' : grow s s' -> evg s s'.
Proof. unfold grow. tauto. Qed.
Lemma stay_grow s s' : stay s s' -> grow s s'.
Proof.
  intros ((A1 & A2 & A3) & B). split; [|exact B]. exists []. unfold fwd. cbn [app rev]. repeat split; congruence.
Qed.
Lemma mv_fwd s c s' : mv s c s' -> fwd s c s'.
Proof. unfold mv, fwd. tauto. Qed.
Lemma mv_evg s c s' : mv s c s' -> evg s s'.
Proof. intros (_ & _ & _ & E). exists []. exact E. Qed.
Lemma mv_grow s c s' : mv s c s' -> grow s s'.
Proof. intro H. split; [exists c; apply mv_fwd; exact H|eapply mv_evg; exact H]. Qed.

Lemma push_stay ev s : stay s (push ev s).
Proof. split; [unfold keep, push; cbn; tauto|exists [ev]; reflexivity]. Qed.
Lemma restore_stay s s' : evg s s' -> stay s (restore s s').
Proof. intro H. split; [unfold keep, restore; cbn; tauto|exact H]. Qed.
Lemma sub_state_evg ts s : evg s (sub_state ts s).
Proof. exists []. reflexivity. Qed.

Lemma keep_cur s s' : keep s s' -> current_offset_of s' = current_offset_of s.
Proof. intros (A1 & A2 & A3). unfold current_offset_of, base_offset. rewrite A1, A2. reflexivity. Qed.
Lemma stay_cur s s' : stay s s' -> current_offset_of s' = current_offset_of s.
Proof. intros (H & _). apply keep_cur. exact H. Qed.
Lemma stay_rest s s' : stay s s' -> b_rest s' = b_rest s.
Proof. intros ((_ & _ & H) & _). exact H. Qed.
Lemma stay_done s s' : stay s s' -> b_done s' = b_done s.
Proof. intros ((_ & H & _) & _). exact H. Qed.
Lemma stay_peek s s' : stay s s' -> peek_of s' = peek_of s.
Proof. intro H. unfold peek_of. rewrite (stay_rest _ _ H). reflexivity. Qed.

(* the events of these derived states are those of their last argument *)
Lemma evg_restore a b z : evg a z -> evg a (restore b z).
Proof. intro H. exact H. Qed.
Lemma evg_sub_state a ts z : evg a z -> evg a (sub_state ts z).
Proof. intro H. exact H. Qed.
Lemma evg_from_sub a ts z : evg (sub_state ts a) z -> evg a z.
Proof. intro H. exact H. Qed.

(* solve [evg a b] / [stay a b] / [grow a b] from the chain of facts in the context, walking
   backwards from b *)
Ltac esolve :=
  first
    [ apply evg_refl
    | lazymatch goal with
      | |- evg ?a (push _ ?x) => apply evg_trans with x; [esolve|apply stay_evg, push_stay]
      | |- evg ?a (restore _ ?x) => apply evg_restore; esolve
      | |- evg ?a (sub_state _ ?x) => apply evg_sub_state; esolve
      | H : mv ?x _ ?y |- evg ?a ?y => apply evg_trans with x; [esolve|exact (mv_evg _ _ _ H)]
      | H : evg ?x ?y |- evg ?a ?y => apply evg_trans with x; [esolve|exact H]
      | H : stay ?x ?y |- evg ?a ?y => apply evg_trans with x; [esolve|exact (stay_evg _ _ H)]
      | H : grow ?x ?y |- evg ?a ?y => apply evg_trans with x; [esolve|exact (grow_evg _ _ H)]
      end ].

Ltac ssolve :=
  first
    [ apply stay_refl
    | lazymatch goal with
      | |- stay ?a (push _ ?x) => apply stay_trans with x; [ssolve|apply push_stay]
      | |- stay ?a (restore ?b ?x) => apply stay_trans with b; [ssolve|apply restore_stay; esolve]
      | H : stay ?x ?y |- stay ?a ?y => apply stay_trans with x; [ssolve|exact H]
      end ].

Ltac gsolve :=
  first
    [ apply grow_refl
    | lazymatch goal with
      | |- grow ?a (push _ ?x) => apply grow_trans with x; [gsolve|apply stay_grow, push_stay]
      | |- grow ?a (restore ?b ?x) => apply grow_trans with b; [gsolve|apply stay_grow, restore_stay; esolve]
      | H : mv ?x _ ?y |- grow ?a ?y => apply grow_trans with x; [gsolve|exact (mv_grow _ _ _ H)]
      | H : grow ?x ?y |- grow ?a ?y => apply grow_trans with x; [gsolve|exact H]
      | H : stay ?x ?y |- grow ?a ?y => apply grow_trans with x; [gsolve|exact (stay_grow _ _ H)]
      end ].

(* ------------------------------------------------------------------ primitives *)

Lemma pc_peek s (R : tkind -> bp -> Prop) : R (peek_of s) s -> pc peek s R.
Proof. intros H a s' E. injection E as <- <-. exact H. Qed.
Lemma pc_at_kind k s (R : bool -> bp -> Prop) : R (tk_eqb (peek_of s) k) s -> pc (at_kind k) s R.
Proof. intros H a s' E. injection E as <- <-. exact H. Qed.
Lemma pc_rest s (R : list tok -> bp -> Prop) : R (b_rest s) s -> pc rest s R.
Proof. intros H a s' E. injection E as <- <-. exact H. Qed.
Lemma pc_all_tokens s (R : list tok -> bp -> Prop) : R (b_all s) s -> pc all_tokens s R.
Proof. intros H a s' E. injection E as <- <-. exact H. Qed.
Lemma pc_current_offset s (R : N -> bp -> Prop) : R (current_offset_of s) s -> pc current_offset s R.
Proof. intros H a s' E. injection E as <- <-. exact H. Qed.
Lemma pc_event ev s (R : unit -> bp -> Prop) : R tt (push ev s) -> pc (event ev) s R.
Proof. intros H a s' E. unfold event in E. injection E as <- <-. exact H. Qed.
Lemma pc_error code labels s (R : unit -> bp -> Prop) :
  R tt (push (mkdiag true code labels) s) -> pc (error code labels) s R.
Proof. apply pc_event. Qed.
Lemma pc_warn code labels s (R : unit -> bp -> Prop) :
  R tt (push (mkdiag false code labels) s) -> pc (warn code labels) s R.
Proof. apply pc_event. Qed.

Lemma pc_bump_any s (R : tok -> bp -> Prop) :
  (forall t s', mv s [t] s' -> R t s') -> pc bump_any s R.
Proof.
  intros H a s' E. unfold bump_any, bind, next_token in E.
  destruct (b_rest s) as [|t r] eqn:Er; [discriminate|]. unfold ret in E. injection E as <- <-.
  apply H. unfold mv; cbn [b_all b_done b_rest b_evs app rev]. tauto.
Qed.

Lemma pc_bump k s (R : tok -> bp -> Prop) :
  (forall t s', mv s [t] s' -> kind t = k -> R t s') -> pc (bump k) s R.
Proof.
  intro H. unfold bump. apply pc_bind, pc_bump_any. intros t s' Hm.
  destruct (tk_eqb (kind t) k) eqn:E; [|apply pc_panic]. apply pc_ret, H; [exact Hm|apply tk_eqb_true; exact E].
Qed.

Lemma peek_kind s k t r : tk_eqb (peek_of s) k = true -> b_rest s = t :: r -> kind t = k.
Proof. intros E Er. unfold peek_of in E. rewrite Er in E. apply tk_eqb_true. exact E. Qed.

Lemma pc_consume k s (R : option tok -> bp -> Prop) :
  (forall t s', mv s [t] s' -> kind t = k -> R (Some t) s') -> R None s -> pc (consume k) s R.
Proof.
  intros HS HN. unfold consume. apply pc_bind, pc_at_kind. destruct (tk_eqb (peek_of s) k) eqn:Ek.
  - apply pc_bind, pc_bump_any. intros t s' Hm. apply pc_ret, HS; [exact Hm|].
    destruct Hm as (_ & Er & _). cbn [app] in Er. eapply peek_kind; eassumption.
  - apply pc_ret, HN.
Qed.

Lemma advance_mv n : forall s,
  mv s (firstn n (b_rest s)) (advance n s) /\ b_rest (advance n s) = skipn n (b_rest s).
Proof.
  induction n as [|n IH]; intro s; cbn [advance firstn skipn].
  - split; [unfold mv; cbn [app rev]; tauto|reflexivity].
  - destruct (b_rest s) as [|t r] eqn:E.
    + split; [unfold mv; cbn [app rev]; rewrite E; tauto|exact E].
    + set (s1 := {| b_all := b_all s; b_done := t :: b_done s; b_rest := r; b_evs := b_evs s |}).
      destruct (IH s1) as ((A1 & A2 & A3 & A4) & B). cbn [b_rest b_all b_done b_evs s1] in *. split; [|exact B].
      unfold mv. split; [exact A1|]. split; [cbn [app]; try rewrite E; f_equal; exact A2|]. split; [|exact A4].
      rewrite A3. cbn [rev]. rewrite <- app_assoc. reflexivity.
Qed.

Lemma pc_until f s (R : option (list tok) -> bp -> Prop) :
  (forall ts s', mv s ts s' -> R (Some ts) s') -> R None s -> pc (until f) s R.
Proof.
  intros HS HN a s' E. unfold until in E. destruct (position f (b_rest s)) as [n|].
  - injection E as <- <-. apply HS. apply advance_mv.
  - injection E as <- <-. exact HN.
Qed.

Lemma position_stop f ts n : position f ts = Some n -> Forall (fun t => f (kind t) = false) (firstn n ts).
Proof.
  revert n. induction ts as [|t r IH]; intros n H; cbn [position] in H; [discriminate|].
  destruct (f (kind t)) eqn:E.
  - injection H as <-. constructor.
  - destruct (position f r) as [m|]; [|discriminate]. injection H as <-. cbn [firstn].
    constructor; [exact E|apply IH; reflexivity].
Qed.

Lemma position_never f ts : position f ts = None -> Forall (fun t => f (kind t) = false) ts.
Proof.
  induction ts as [|t r IH]; intro H; cbn [position] in H; [constructor|].
  destruct (f (kind t)) eqn:E; [discriminate|]. destruct (position f r); [discriminate|].
  constructor; [exact E|apply IH; reflexivity].
Qed.

Lemma pc_consume_while f s (R : list tok -> bp -> Prop) :
  (forall ts s', mv s ts s' -> Forall (fun t => f (kind t) = true) ts -> R ts s') ->
  pc (consume_while f) s R.
Proof.
  intros H a s' E. unfold consume_while in E. injection E as <- <-.
  apply H; [apply advance_mv|].
  destruct (position (fun k => negb (f k)) (b_rest s)) as [n|] eqn:Ep.
  - apply position_stop in Ep. eapply Forall_impl; [|exact Ep]. cbn beta. intros t Ht. apply negb_false_iff. exact Ht.
  - apply position_never in Ep. rewrite firstn_all. eapply Forall_impl; [|exact Ep]. cbn beta.
    intros t Ht. apply negb_false_iff. exact Ht.
Qed.

Lemma pc_with_recover {A} (m : M (option A)) s (R : option A -> bp -> Prop) :
  pc m s (fun o s' => match o with Some a => R (Some a) s' | None => R None (restore s s') end) ->
  pc (with_recover m) s R.
Proof.
  intros H a s' E. unfold with_recover in E. destruct (m s) as [[[x|] s1]|] eqn:Em; try discriminate.
  - injection E as <- <-. exact (H _ _ Em).
  - injection E as <- <-. exact (H _ _ Em).
Qed.

Lemma pc_sub_block {A} ts (m : M A) s (R : A -> bp -> Prop) :
  pc m (sub_state ts s) (fun a s2 => R a (restore s s2)) -> pc (sub_block ts m) s R.
Proof.
  intros H a s' E. unfold sub_block in E. destruct ts as [|t0 tr]; [discriminate|].
  fold (sub_state (t0 :: tr) s) in E. destruct (m (sub_state (t0 :: tr) s)) as [[x s2]|] eqn:Em; [|discriminate].
  injection E as <- <-. exact (H _ _ Em).
Qed.

(* ------------------------------------------------------------------ the traversal tactic *)

Ltac pcfun := fail.

Ltac pcstep :=
  lazymatch goal with
  | |- pc (bind _ _) _ _ => apply pc_bind
  | |- pc (obindM _ _) _ _ => apply pc_obindM
  | |- pc (ret _) _ _ => apply pc_ret
  | |- pc (panic _) _ _ => apply pc_panic
  | |- pc peek _ _ => apply pc_peek
  | |- pc (at_kind _) _ _ => apply pc_at_kind
  | |- pc rest _ _ => apply pc_rest
  | |- pc all_tokens _ _ => apply pc_all_tokens
  | |- pc current_offset _ _ => apply pc_current_offset
  | |- pc (event _) _ _ => apply pc_event
  | |- pc (error _ _) _ _ => apply pc_error
  | |- pc (warn _ _) _ _ => apply pc_warn
  | |- pc bump_any _ _ => apply pc_bump_any; intros ? ? ?
  | |- pc (bump _) _ _ => apply pc_bump; intros ? ? ? ?
  | |- pc (consume _) _ _ => apply pc_consume; [intros ? ? ? ?|]
  | |- pc (until _) _ _ => apply pc_until; [intros ? ? ?|]
  | |- pc (consume_while _) _ _ => apply pc_consume_while; intros ? ? ? ?
  | |- pc ws_comments _ _ => apply pc_consume_while; intros ? ? ? ?
  | |- pc consume_rest _ _ => apply pc_consume_while; intros ? ? ? ?
  | |- pc (textM _ _ _) _ _ => apply pc_lift; intros ? ?
  | |- pc (with_recover _) _ _ => apply pc_with_recover
  | |- pc (sub_block _ _) _ _ => apply pc_sub_block
  | |- pc (match ?x with _ => _ end) _ _ => destruct x eqn:?
  | |- pc (if ?x then _ else _) _ _ => destruct x eqn:?
  | |- pc _ _ _ => pcfun
  | |- match ?x with _ => _ end => destruct x eqn:?
  end.

Ltac pcgo := repeat (cbv beta iota zeta; pcstep).

(* ------------------------------------------------------------------ quantities *)

Section Frame.
  Variable cfg : pcfg.

  Lemma scaling_lock_fr s (R : option span -> bp -> Prop) :
    (forall o s', grow s s' -> R o s') -> pc scaling_lock s R.
  Proof. intro HR. unfold scaling_lock. pcgo; apply HR; gsolve. Qed.

  Ltac pcf1 :=
    lazymatch goal with
    | |- pc scaling_lock _ _ => apply scaling_lock_fr; intros ? ? ?
    end.
  Ltac pcfun ::= pcf1.

  Lemma text_value_fr ts off s (R : value -> bp -> Prop) :
    (forall v s', stay s s' -> R v s') -> pc (text_value cfg ts off) s R.
  Proof. intro HR. unfold text_value. pcgo; apply HR; ssolve. Qed.

  Ltac pcf2 :=
    lazymatch goal with
    | |- pc (text_value _ _ _) _ _ => apply text_value_fr; intros ? ? ?
    | |- _ => pcf1
    end.
  Ltac pcfun ::= pcf2.

  Lemma parse_value_fr ts s (R : value * span -> bp -> Prop) :
    (forall v s', stay s s' -> R v s') -> pc (parse_value cfg ts) s R.
  Proof. intro HR. unfold parse_value. pcgo; apply HR; ssolve. Qed.

  Ltac pcf3 :=
    lazymatch goal with
    | |- pc (parse_value _ _) _ _ => apply parse_value_fr; intros ? ? ?
    | |- _ => pcf2
    end.
  Ltac pcfun ::= pcf3.

  Lemma value_p_fr s (R : qvalue -> bp -> Prop) :
    (forall v s', grow s s' -> R v s') -> pc (value_p cfg) s R.
  Proof. intro HR. unfold value_p. pcgo. destruct v as [v sp]. pcgo. apply HR; gsolve. Qed.

  Ltac pcf4 :=
    lazymatch goal with
    | |- pc (value_p _) _ _ => apply value_p_fr; intros ? ? ?
    | |- _ => pcf3
    end.
  Ltac pcfun ::= pcf4.

  Lemma parse_regular_quantity_fr s (R : quantity * option span -> bp -> Prop) :
    (forall v s', grow s s' -> R v s') -> pc (parse_regular_quantity cfg) s R.
  Proof. intro HR. unfold parse_regular_quantity. pcgo; try (destruct p as [sep ut]; pcgo); apply HR; gsolve. Qed.

  Lemma parse_advanced_quantity_fr s (R : option (quantity * option span) -> bp -> Prop) :
    (forall v s', grow s s' -> R v s') -> pc (parse_advanced_quantity cfg) s R.
  Proof. intro HR. unfold parse_advanced_quantity. pcgo; apply HR; gsolve. Qed.

  Ltac pcf5 :=
    lazymatch goal with
    | |- pc (parse_regular_quantity _) _ _ => apply parse_regular_quantity_fr; intros ? ? ?
    | |- pc (parse_advanced_quantity _) _ _ => apply parse_advanced_quantity_fr; intros ? ? ?
    | |- _ => pcf4
    end.
  Ltac pcfun ::= pcf5.

  Lemma parse_quantity_fr ts s (R : quantity * option span -> bp -> Prop) :
    (forall v s', stay s s' -> R v s') -> pc (parse_quantity cfg ts) s R.
  Proof. intro HR. unfold parse_quantity. pcgo; apply HR; ssolve. Qed.

  Ltac pcf6 :=
    lazymatch goal with
    | |- pc (parse_quantity _ _) _ _ => apply parse_quantity_fr; intros ? ? ?
    | |- _ => pcf5
    end.
  Ltac pcfun ::= pcf6.

  (* ---------------------------------------------------------------- component pieces *)

  Lemma comp_body_fr s (R : option body -> bp -> Prop) :
    (forall o s', grow s s' -> R o s') -> pc comp_body s R.
  Proof. intro HR. unfold comp_body. pcgo; apply HR; gsolve. Qed.

  Lemma modifiers_loop_fr fuel : forall acc s (R : list tok -> bp -> Prop),
    (forall o s', grow s s' -> R o s') -> pc (modifiers_loop cfg fuel acc) s R.
  Proof.
    induction fuel as [|f IH]; intros acc s R HR; cbn [modifiers_loop]; [apply pc_panic|].
    pcgo; try (apply IH; intros; apply HR; gsolve); apply HR; gsolve.
  Qed.

  Lemma modifiers_fr s (R : list tok -> bp -> Prop) :
    (forall o s', grow s s' -> R o s') -> pc (modifiers cfg) s R.
  Proof.
    intro HR. unfold modifiers. pcgo; [apply HR; gsolve|]. apply modifiers_loop_fr. exact HR.
  Qed.

  Lemma note_fr s (R : option text -> bp -> Prop) :
    (forall o s', grow s s' -> R o s') -> pc (note cfg) s R.
  Proof. intro HR. unfold note. pcgo; apply HR; gsolve. Qed.

  Lemma parse_inter_fr ts s (R : option interdata * list tok -> bp -> Prop) :
    (forall o s', stay s s' -> R o s') -> pc (parse_inter ts) s R.
  Proof. intro HR. unfold parse_inter. pcgo; apply HR; ssolve. Qed.

  Ltac pcf7 :=
    lazymatch goal with
    | |- pc comp_body _ _ => apply comp_body_fr; intros ? ? ?
    | |- pc (modifiers _) _ _ => apply modifiers_fr; intros ? ? ?
    | |- pc (note _) _ _ => apply note_fr; intros ? ? ?
    | |- pc (parse_inter _) _ _ => apply parse_inter_fr; intros ? ? ?
    | |- _ => pcf6
    end.
  Ltac pcfun ::= pcf7.

  Lemma parse_mods_loop_fr fuel : forall ts mspan mods inter s (R : N * option interdata -> bp -> Prop),
    (forall o s', stay s s' -> R o s') -> pc (parse_mods_loop cfg fuel ts mspan mods inter) s R.
  Proof.
    induction fuel as [|f IH]; intros ts mspan mods inter s R HR; cbn [parse_mods_loop]; [apply pc_panic|].
    pcgo; try (destruct o as [i' r']; pcgo); try (apply IH; intros; apply HR; ssolve); try (apply HR; ssolve).
  Qed.

  Lemma parse_modifiers_fr mts mpos s (R : N * span * option interdata -> bp -> Prop) :
    (forall o s', stay s s' -> R o s') -> pc (parse_modifiers cfg mts mpos) s R.
  Proof.
    intro HR. unfold parse_modifiers. pcgo; [apply HR; ssolve|].
    apply parse_mods_loop_fr. intros [m i] s' Hs. pcgo. apply HR; ssolve.
  Qed.

  Lemma parse_alias_fr ts off s (R : text * option text -> bp -> Prop) :
    (forall o s', stay s s' -> R o s') -> pc (parse_alias cfg ts off) s R.
  Proof. intro HR. unfold parse_alias. pcgo; apply HR; ssolve. Qed.

  Lemma check_empty_name_fr name s (R : unit -> bp -> Prop) :
    (forall o s', stay s s' -> R o s') -> pc (check_empty_name name) s R.
  Proof. intro HR. unfold check_empty_name. pcgo; apply HR; ssolve. Qed.

  Lemma check_note_fr s (R : unit -> bp -> Prop) :
    (forall o s', stay s s' -> R o s') -> pc (check_note cfg) s R.
  Proof. intro HR. unfold check_note. pcgo; apply HR; ssolve. Qed.

  Ltac pcf8 :=
    lazymatch goal with
    | |- pc (parse_modifiers _ _ _) _ _ => apply parse_modifiers_fr; intros ? ? ?
    | |- pc (parse_alias _ _ _) _ _ => apply parse_alias_fr; intros ? ? ?
    | |- pc (check_empty_name _) _ _ => apply check_empty_name_fr; intros ? ? ?
    | |- pc (check_note _) _ _ => apply check_note_fr; intros ? ? ?
    | |- _ => pcf7
    end.
  Ltac pcfun ::= pcf8.

  (* ---------------------------------------------------------------- components *)

  Notation cur := current_offset_of.

  (* a component parser that returns an event spans exactly what it consumed *)
  Definition comp_res (s : bp) (o : option pevent) (s' : bp) : Prop :=
    grow s s' /\ match o with Some ev => event_span ev = Some (cur s, cur s') | None => True end.

  Ltac comp_leaf HR :=
    apply HR; (split; [gsolve|]); try exact I;
    cbn [event_span i_span c_span t_span]; do 2 f_equal; symmetry; apply stay_cur; ssolve.

  Lemma ingredient_p_fr s (R : option pevent -> bp -> Prop) :
    (forall o s', comp_res s o s' -> R o s') -> pc (ingredient_p cfg) s R.
  Proof. intro HR. unfold ingredient_p. pcgo; comp_leaf HR. Qed.

  Lemma cookware_p_fr s (R : option pevent -> bp -> Prop) :
    (forall o s', comp_res s o s' -> R o s') -> pc (cookware_p cfg) s R.
  Proof. intro HR. unfold cookware_p. pcgo; comp_leaf HR. Qed.

  Lemma timer_p_fr s (R : option pevent -> bp -> Prop) :
    (forall o s', comp_res s o s' -> R o s') -> pc (timer_p cfg) s R.
  Proof. intro HR. unfold timer_p. pcgo; comp_leaf HR. Qed.
End Frame.

(* the traversal tactic knows every function above *)
Ltac pcframe :=
  lazymatch goal with
  | |- pc scaling_lock _ _ => apply scaling_lock_fr; intros ? ? ?
  | |- pc (text_value _ _ _) _ _ => apply text_value_fr; intros ? ? ?
  | |- pc (parse_value _ _) _ _ => apply parse_value_fr; intros ? ? ?
  | |- pc (value_p _) _ _ => apply value_p_fr; intros ? ? ?
  | |- pc (parse_regular_quantity _) _ _ => apply parse_regular_quantity_fr; intros ? ? ?
  | |- pc (parse_advanced_quantity _) _ _ => apply parse_advanced_quantity_fr; intros ? ? ?
  | |- pc (parse_quantity _ _) _ _ => apply parse_quantity_fr; intros ? ? ?
  | |- pc comp_body _ _ => apply comp_body_fr; intros ? ? ?
  | |- pc (modifiers _) _ _ => apply modifiers_fr; intros ? ? ?
  | |- pc (note _) _ _ => apply note_fr; intros ? ? ?
  | |- pc (parse_inter _) _ _ => apply parse_inter_fr; intros ? ? ?
  | |- pc (parse_modifiers _ _ _) _ _ => apply parse_modifiers_fr; intros ? ? ?
  | |- pc (parse_alias _ _ _) _ _ => apply parse_alias_fr; intros ? ? ?
  | |- pc (check_empty_name _) _ _ => apply check_empty_name_fr; intros ? ? ?
  | |- pc (check_note _) _ _ => apply check_note_fr; intros ? ? ?
  | |- pc (ingredient_p _) _ _ => apply ingredient_p_fr; intros ? ? ?
  | |- pc (cookware_p _) _ _ => apply cookware_p_fr; intros ? ? ?
  | |- pc (timer_p _) _ _ => apply timer_p_fr; intros ? ? ?
  end.
