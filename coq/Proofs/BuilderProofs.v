(* Proofs about Model/Builder.v for C16. *)
From Coq Require Import Lia Permutation.
From CL Require Import Base.StrLemmas Model.Builder Model.BuilderSpec.
Local Open Scope N_scope.

(* ------------------------------------------------------------------ *)
(* Hoare-style reading of the two result monads                         *)

Definition rspec {A} (r : bres A) (P : A -> Prop) : Prop :=
  match r with ROk a => P a | RErr _ => True end.

(* never a panic; on success the post-condition *)
Definition spec {A} (m : M A) (P : A -> Prop) : Prop :=
  match m with Panic _ => False | Done (RErr _) => True | Done (ROk a) => P a end.

Lemma rspec_bind {A B} (r : bres A) (f : A -> bres B) P Q :
  rspec r P -> (forall a, P a -> rspec (f a) Q) -> rspec (rbind r f) Q.
Proof. destruct r; cbn; auto. Qed.

Lemma spec_bind {A B} (m : M A) (f : A -> M B) P Q :
  spec m P -> (forall a, P a -> spec (f a) Q) -> spec (bind m f) Q.
Proof. destruct m as [[a|e]|s]; cbn; auto. Qed.

Lemma spec_lift {A} (r : bres A) P : rspec r P -> spec (lift r) P.
Proof. destruct r; cbn; auto. Qed.

Lemma spec_weaken {A} (m : M A) (P Q : A -> Prop) : spec m P -> (forall a, P a -> Q a) -> spec m Q.
Proof. destruct m as [[a|e]|s]; cbn; auto. Qed.

Lemma rspec_weaken {A} (r : bres A) (P Q : A -> Prop) : rspec r P -> (forall a, P a -> Q a) -> rspec r Q.
Proof. destruct r; cbn; auto. Qed.

Lemma spec_ok {A} (m : M A) P a : spec m P -> m = Done (ROk a) -> P a.
Proof. intros H ->. exact H. Qed.

Lemma spec_total {A} (m : M A) P : spec m P -> exists r, m = Done r.
Proof. destruct m as [r|s]; cbn; [eauto | tauto]. Qed.

Lemma rspec_ok {A} (r : bres A) P a : rspec r P -> r = ROk a -> P a.
Proof. intros H ->. exact H. Qed.

(* rspec with the equation: what one gets by case analysis *)
Lemma rspec_intro {A} (r : bres A) (P : A -> Prop) : (forall a, r = ROk a -> P a) -> rspec r P.
Proof. destruct r; cbn; auto. Qed.

(* ------------------------------------------------------------------ *)
(* the index as a finite map                                            *)

Lemma str_eqb_sym a b : str_eqb a b = str_eqb b a.
Proof.
  destruct (str_eqb a b) eqn:E.
  - apply str_eqb_eq in E. subst. symmetry. apply str_eqb_refl.
  - symmetry. apply str_eqb_neq. apply str_eqb_neq in E. congruence.
Qed.

Lemma find_remove_same k ix : find k (remove k ix) = None.
Proof.
  induction ix as [|[k' v] r IH]; cbn [remove find]; [reflexivity|].
  destruct (str_eqb k k') eqn:E; [exact IH|]. cbn [find]. rewrite E. exact IH.
Qed.

Lemma find_remove_other k k' ix : k <> k' -> find k' (remove k ix) = find k' ix.
Proof.
  intro N. induction ix as [|[k2 v] r IH]; cbn [remove find]; [reflexivity|].
  destruct (str_eqb k k2) eqn:E.
  - apply str_eqb_eq in E. subst k2.
    assert (str_eqb k' k = false) as -> by (apply str_eqb_neq; congruence). exact IH.
  - cbn [find]. rewrite IH. reflexivity.
Qed.

Lemma find_remove k k' ix : find k' (remove k ix) = if str_eqb k' k then None else find k' ix.
Proof.
  destruct (str_eqb k' k) eqn:E.
  - apply str_eqb_eq in E. subst. apply find_remove_same.
  - apply find_remove_other. apply str_eqb_neq in E. congruence.
Qed.

Lemma find_insert k v ix k' :
  find k' (fst (insert k v ix)) = if str_eqb k' k then Some v else find k' ix.
Proof.
  unfold insert. cbn [fst find]. destruct (str_eqb k' k) eqn:E; [reflexivity|].
  rewrite find_remove, E. reflexivity.
Qed.

Definition in_keys (k : str) (ks : list str) : bool := existsb (str_eqb k) ks.

Lemma in_keys_In k ks : in_keys k ks = true <-> In k ks.
Proof.
  unfold in_keys. rewrite existsb_exists. split.
  - intros (x & Hx & E). apply str_eqb_eq in E. subst. exact Hx.
  - intro H. exists k. split; [exact H | apply str_eqb_refl].
Qed.

Lemma in_keys_not k ks : in_keys k ks = false <-> ~ In k ks.
Proof.
  rewrite <- in_keys_In. destruct (in_keys k ks); split; intro H; try congruence; try tauto.
Qed.

(* UnitIndex::add_unit on success: the keys were new, pairwise different and not blank, and
   the index is extended by exactly them *)
Lemma add_keys_spec ks : forall id ix ix',
  index_add_keys ks id ix = ROk ix' ->
  NoDup ks /\ (forall k, In k ks -> find k ix = None /\ blank_key k = false) /\
  (forall k, find k ix' = if in_keys k ks then Some id else find k ix).
Proof.
  induction ks as [|k r IH]; intros id ix ix' H; cbn [index_add_keys] in H.
  - injection H as <-. split; [constructor|]. split; [intros k []|]. intro k. reflexivity.
  - destruct (blank_key k) eqn:Eb; [discriminate|].
    unfold insert in H. destruct (find k ix) eqn:Ef; [discriminate|].
    apply IH in H as (Hnd & Hnew & Hfind).
    assert (Hk : ~ In k r).
    { intro Hin. destruct (Hnew k Hin) as [Hn _]. cbn [find] in Hn.
      rewrite str_eqb_refl in Hn. discriminate. }
    split; [|split].
    + constructor; assumption.
    + intros k0 [<-|Hin]; [split; assumption|].
      destruct (Hnew k0 Hin) as [Hn Hb]. split; [|exact Hb]. cbn [find] in Hn.
      destruct (str_eqb k0 k) eqn:E; [discriminate|]. rewrite find_remove, E in Hn. exact Hn.
    + intro k0. rewrite Hfind. cbn [in_keys existsb find].
      destruct (in_keys k0 r) eqn:Ein.
      * unfold in_keys in Ein. rewrite Ein, orb_true_r. reflexivity.
      * unfold in_keys in Ein. rewrite Ein, orb_false_r.
        destruct (str_eqb k0 k) eqn:E; [reflexivity|]. rewrite find_remove, E. reflexivity.
Qed.

Lemma add_unit_index_spec u id ix ix' :
  index_add_unit u id ix = ROk ix' ->
  all_keys u <> [] /\ NoDup (all_keys u) /\
  (forall k, In k (all_keys u) -> find k ix = None /\ blank_key k = false) /\
  (forall k, find k ix' = if in_keys k (all_keys u) then Some id else find k ix).
Proof.
  unfold index_add_unit, rbind. intro H.
  destruct (index_add_keys (all_keys u) id ix) as [ix1|e] eqn:E; [|discriminate].
  apply add_keys_spec in E as (H1 & H2 & H3).
  destruct (all_keys u) eqn:Ek; [discriminate|]. injection H as <-.
  split; [discriminate|]. split; [assumption|]. split; assumption.
Qed.

Lemma remove_unit_find u ix k :
  find k (index_remove_unit u ix) = if in_keys k (all_keys u) then None else find k ix.
Proof.
  unfold index_remove_unit. generalize (all_keys u) as ks. intro ks. revert ix.
  induction ks as [|k0 r IH]; intro ix; cbn [fold_left in_keys existsb]; [reflexivity|].
  rewrite IH. fold (in_keys k r). destruct (in_keys k r); [rewrite orb_true_r; reflexivity|].
  rewrite orb_false_r, find_remove. reflexivity.
Qed.

(* ------------------------------------------------------------------ *)
(* the invariant of the builder: units and index                        *)

Definition keys_at (units : list ubuilder) (i : nat) : list str :=
  match nth_error units i with Some u => all_keys (ub_unit u) | None => [] end.

Record WF (units : list ubuilder) (ix : index) : Prop := {
  (* every key of every unit resolves to it *)
  wf_fwd : forall i u k, nth_error units i = Some u -> In k (all_keys (ub_unit u)) -> find k ix = Some i;
  (* and the index holds nothing else *)
  wf_bwd : forall k i, find k ix = Some i ->
             exists u, nth_error units i = Some u /\ In k (all_keys (ub_unit u));
  (* keys of a unit: at least one, no repetition, none blank *)
  wf_keys : forall i u, nth_error units i = Some u ->
              all_keys (ub_unit u) <> [] /\ NoDup (all_keys (ub_unit u)) /\
              forall k, In k (all_keys (ub_unit u)) -> blank_key k = false;
  (* the SI expansions of a unit are six other units, which are not expanded further *)
  wf_exp : forall i u f, nth_error units i = Some u -> ub_expanded u = Some f ->
             ub_expand_si u = true /\
             forall p, f p <> i /\ (forall p', f p' = f p -> p' = p) /\
                       exists e, nth_error units (f p) = Some e /\ ub_expanded e = None /\
                                 ub_expand_si e = false;
}.

Lemma WF_nil : WF [] [].
Proof.
  constructor.
  - intros i u k H. destruct i; discriminate.
  - intros k i H. discriminate.
  - intros i u H. destruct i; discriminate.
  - intros i u f H. destruct i; discriminate.
Qed.

Lemma nth_error_snoc {A} (l : list A) x i y :
  nth_error (l ++ [x]) i = Some y ->
  (i < length l)%nat /\ nth_error l i = Some y \/ i = length l /\ y = x.
Proof.
  intro H. destruct (Nat.lt_ge_cases i (length l)) as [L|L].
  - left. split; [exact L|]. rewrite nth_error_app1 in H by exact L. exact H.
  - right. rewrite nth_error_app2 in H by exact L.
    destruct (i - length l)%nat as [|n] eqn:E.
    + cbn in H. injection H as <-. split; [lia | reflexivity].
    + cbn in H. destruct n; discriminate.
Qed.

Lemma nth_error_snoc_old {A} (l : list A) x i y :
  nth_error l i = Some y -> nth_error (l ++ [x]) i = Some y.
Proof.
  intro H. rewrite nth_error_app1; [exact H|]. apply nth_error_Some. congruence.
Qed.

Lemma nth_error_snoc_new {A} (l : list A) x : nth_error (l ++ [x]) (length l) = Some x.
Proof. rewrite nth_error_app2 by lia. rewrite Nat.sub_diag. reflexivity. Qed.

(* ConverterBuilder::add_unit with a unit that has no expansion record *)
Lemma add_unit_WF units ix u :
  WF units ix -> ub_expanded u = None ->
  rspec (add_unit units ix u)
        (fun r => let '(units', ix', id) := r in
                  units' = units ++ [u] /\ id = length units /\ WF units' ix').
Proof.
  intros W Hn. unfold add_unit, rbind.
  destruct (index_add_unit (ub_unit u) (length units) ix) as [ix'|e] eqn:E; cbn [rspec]; [|exact I].
  apply add_unit_index_spec in E as (Hne & Hnd & Hnew & Hfind).
  split; [reflexivity|]. split; [reflexivity|].
  constructor.
  - intros i v k Hi Hk. rewrite Hfind. apply nth_error_snoc in Hi as [[L Hi]|[-> ->]].
    + destruct (in_keys k (all_keys (ub_unit u))) eqn:Ein.
      * apply in_keys_In in Ein. destruct (Hnew k Ein) as [Hf _].
        rewrite (wf_fwd _ _ W i v k Hi Hk) in Hf. discriminate.
      * exact (wf_fwd _ _ W i v k Hi Hk).
    + apply in_keys_In in Hk. rewrite Hk. reflexivity.
  - intros k i Hf. rewrite Hfind in Hf.
    destruct (in_keys k (all_keys (ub_unit u))) eqn:Ein.
    + injection Hf as <-. exists u. split; [apply nth_error_snoc_new | apply in_keys_In; exact Ein].
    + destruct (wf_bwd _ _ W k i Hf) as (v & Hv & Hk). exists v.
      split; [apply nth_error_snoc_old; exact Hv | exact Hk].
  - intros i v Hi. apply nth_error_snoc in Hi as [[L Hi]|[-> ->]].
    + exact (wf_keys _ _ W i v Hi).
    + split; [exact Hne|]. split; [exact Hnd|]. intros k Hk. apply Hnew. exact Hk.
  - intros i v f Hi Hf. apply nth_error_snoc in Hi as [[L Hi]|[-> ->]].
    + destruct (wf_exp _ _ W i v f Hi Hf) as [He Hp]. split; [exact He|].
      intro p. destruct (Hp p) as (H1 & H2 & e & H3 & H4). split; [exact H1|]. split; [exact H2|].
      exists e. split; [apply nth_error_snoc_old; exact H3 | exact H4].
    + congruence.
Qed.

(* --- phase 1: add_units_file ------------------------------------------ *)

Definition no_expansion (units : list ubuilder) : Prop :=
  forall i u, nth_error units i = Some u -> ub_expanded u = None.

Lemma no_expansion_snoc units u :
  no_expansion units -> ub_expanded u = None -> no_expansion (units ++ [u]).
Proof.
  intros H Hu i v Hi. apply nth_error_snoc in Hi as [[_ Hi]|[_ ->]]; [exact (H i v Hi) | exact Hu].
Qed.

Definition P1 (r : list ubuilder * index) : Prop := WF (fst r) (snd r) /\ no_expansion (fst r).

Lemma add_entries_P1 q sys es : forall units ix,
  P1 (units, ix) -> rspec (add_entries q sys es units ix) P1.
Proof.
  induction es as [|e r IH]; intros units ix [W N]; cbn [add_entries].
  - cbn. split; assumption.
  - eapply rspec_bind.
    + apply add_unit_WF; [exact W | reflexivity].
    + intros [[units' ix'] id] (-> & _ & W'). apply IH. split; [exact W'|].
      apply no_expansion_snoc; [exact N | reflexivity].
Qed.

Definition BestNonEmpty (best : pq -> option best_units) : Prop :=
  forall q b, best q = Some b -> best_is_empty b = false.

Definition S1 (st : bstate) : Prop :=
  P1 (b_units st, b_index st) /\ BestNonEmpty (b_best st).

Lemma add_group_S1 st g : S1 st -> rspec (add_group st g) S1.
Proof.
  intros [HP HB]. unfold add_group.
  eapply rspec_bind with (P := P1).
  - destruct (qg_units g) as [[l|m i u]|].
    + apply add_entries_P1. exact HP.
    + eapply rspec_bind; [apply add_entries_P1; exact HP|]. intros [u1 i1] H1.
      eapply rspec_bind; [apply add_entries_P1; exact H1|]. intros [u2 i2] H2.
      apply add_entries_P1. exact H2.
    + cbn. exact HP.
  - intros [units ix] HP'.
    eapply rspec_bind with (P := BestNonEmpty).
    + destruct (qg_best g) as [b|]; [|cbn; exact HB].
      destruct (best_is_empty b) eqn:Eb; cbn; [exact I|].
      intros q b' H. unfold set_best in H. destruct (pq_eqb q (qg_quantity g)).
      * injection H as <-. exact Eb.
      * exact (HB q b' H).
    + intros best Hbest. cbn. split; assumption.
Qed.

Lemma add_groups_S1 gs : forall st, S1 st -> rspec (add_groups st gs) S1.
Proof.
  induction gs as [|g r IH]; intros st H; cbn [add_groups]; [exact H|].
  eapply rspec_bind; [apply add_group_S1; exact H|]. intros st' H'. apply IH. exact H'.
Qed.

Lemma add_units_file_S1 st f : S1 st -> rspec (add_units_file st f) S1.
Proof.
  intro H. unfold add_units_file. eapply rspec_bind; [apply add_groups_S1; exact H|].
  intros st1 [HP HB]. cbn. split; assumption.
Qed.

Lemma add_files_S1 fs : forall st, S1 st -> rspec (add_files st fs) S1.
Proof.
  induction fs as [|f r IH]; intros st H; cbn [add_files]; [exact H|].
  eapply rspec_bind; [apply add_units_file_S1; exact H|]. intros st' H'. apply IH. exact H'.
Qed.

Lemma S1_init : S1 bstate0.
Proof.
  split; [split|].
  - exact WF_nil.
  - intros i u H. destruct i; discriminate.
  - intros q b H. discriminate.
Qed.

(* --- lists: set_nth ------------------------------------------------------ *)

Lemma set_nth_spec {A} (x : A) : forall l i l',
  set_nth i x l = Some l' ->
  (i < length l)%nat /\ length l' = length l /\ nth_error l' i = Some x /\
  forall j, j <> i -> nth_error l' j = nth_error l j.
Proof.
  induction l as [|y r IH]; intros i l' H; [destruct i; discriminate|].
  destruct i as [|i]; cbn [set_nth] in H.
  - injection H as <-. cbn. repeat split; try lia. intros [|j] Hj; [congruence | reflexivity].
  - destruct (set_nth i x r) as [r'|] eqn:E; [|discriminate]. injection H as <-.
    destruct (IH i r' E) as (H1 & H2 & H3 & H4). cbn. repeat split; try lia; [exact H3|].
    intros [|j] Hj; [reflexivity|]. cbn. apply H4. congruence.
Qed.

Lemma set_nth_some {A} (x : A) : forall l i, (i < length l)%nat -> exists l', set_nth i x l = Some l'.
Proof.
  induction l as [|y r IH]; intros i H; [cbn in H; lia|].
  destruct i as [|i]; cbn [set_nth]; [eauto|].
  destruct (IH i) as [r' ->]; [cbn in H; lia|]. eauto.
Qed.

Lemma sipre_eqb_eq a b : sipre_eqb a b = true <-> a = b.
Proof. destruct a, b; cbn; split; intro H; congruence. Qed.

Lemma pq_eqb_eq a b : pq_eqb a b = true <-> a = b.
Proof. destruct a, b; cbn; split; intro H; congruence. Qed.

Lemma NoDup_all_sipre : NoDup all_sipre.
Proof.
  unfold all_sipre. repeat constructor; cbn; intro H;
    repeat (destruct H as [H|H]; [discriminate|]); exact H.
Qed.

Lemma In_all_sipre p : In p all_sipre.
Proof. destruct p; cbn; tauto. Qed.

(* --- phase 2: SI expansion in finish ------------------------------------ *)

Definition fresh_unit (u : ubuilder) : Prop := ub_expanded u = None /\ ub_expand_si u = false.

Lemma add_expanded_spec new : (forall p, fresh_unit (new p)) ->
  forall ps ids units ix, NoDup ps -> WF units ix ->
  rspec (add_expanded ps new ids units ix)
        (fun r => let '(units', ix', ids') := r in
           WF units' ix' /\ (exists ext, units' = units ++ ext /\ Forall fresh_unit ext) /\
           (forall p, In p ps ->
              nth_error units' (ids' p) = Some (new p) /\ (length units <= ids' p)%nat /\
              forall p', In p' ps -> ids' p' = ids' p -> p' = p) /\
           (forall p, ~ In p ps -> ids' p = ids p)).
Proof.
  intro Hnew. induction ps as [|p r IH]; intros ids units ix ND W; cbn [add_expanded].
  - cbn. split; [exact W|]. split; [exists []; rewrite app_nil_r; split; [reflexivity|constructor]|].
    split; [intros p []|]. reflexivity.
  - inversion ND as [|? ? Hp ND']; subst.
    eapply rspec_bind; [apply add_unit_WF; [exact W | apply Hnew]|].
    intros [[units1 ix1] id] (-> & -> & W1).
    eapply rspec_weaken; [apply IH; [exact ND' | exact W1]|].
    intros [[units' ix'] ids'] (W' & (ext & -> & Hext) & Hin & Hout).
    split; [exact W'|].
    split; [exists (new p :: ext); rewrite <- app_assoc; split; [reflexivity | constructor; [apply Hnew | exact Hext]]|].
    assert (Hidp : ids' p = length units).
    { rewrite Hout by exact Hp. unfold set_id. rewrite (proj2 (sipre_eqb_eq p p) eq_refl). reflexivity. }
    split.
    + intros p0 [<-|Hp0].
      * rewrite Hidp. split; [|split; [lia|]].
        { rewrite <- app_assoc. rewrite nth_error_app2 by lia. rewrite Nat.sub_diag. reflexivity. }
        intros p' [<-|Hp'] He; [reflexivity|].
        destruct (Hin p' Hp') as (_ & Hge & _). rewrite app_length in Hge. cbn in Hge. lia.
      * destruct (Hin p0 Hp0) as (H1 & H2 & H3). split; [exact H1|].
        rewrite app_length in H2. cbn in H2. split; [lia|].
        intros p' [<-|Hp'] He; [|apply H3; assumption]. rewrite Hidp in He. lia.
    + intros p0 Hp0. rewrite Hout by (intro; apply Hp0; right; assumption).
      unfold set_id. destruct (sipre_eqb p0 p) eqn:E; [|reflexivity].
      apply sipre_eqb_eq in E. subst. exfalso. apply Hp0. left. reflexivity.
Qed.

(* every expand_si unit has its expansion record *)
Definition AllExpanded (units : list ubuilder) : Prop :=
  forall i u, nth_error units i = Some u -> ub_expand_si u = true -> ub_expanded u <> None.

Lemma expanded_unit_fresh u pt st p : fresh_unit (expanded_unit u pt st p).
Proof. split; reflexivity. Qed.

Lemma expand_loop_spec si : forall n id units ix,
  WF units ix -> (id + n <= length units)%nat ->
  (forall i u, nth_error units i = Some u -> ub_expand_si u = true -> ub_expanded u = None ->
               (id <= i < id + n)%nat) ->
  spec (expand_loop n id si units ix)
       (fun r => WF (fst r) (snd r) /\ AllExpanded (fst r)).
Proof.
  induction n as [|n IH]; intros id units ix W Hlen Hpend; cbn [expand_loop].
  - cbn. split; [exact W|]. intros i u Hi He Hn. specialize (Hpend i u Hi He Hn). lia.
  - unfold get_ub. destruct (nth_error units id) as [u|] eqn:Eu.
    2:{ apply nth_error_None in Eu. lia. }
    cbn [bind ret]. destruct (ub_expand_si u) eqn:Ex.
    + unfold expand_si. rewrite Ex. cbn [negb].
      destruct (si_prefixes si) as [pt|]; [|cbn; exact I].
      destruct (si_symbol_prefixes si) as [st|]; [|cbn; exact I].
      cbn [bind ret].
      pose proof (add_expanded_spec (expanded_unit (ub_unit u) pt st)
                    (expanded_unit_fresh (ub_unit u) pt st) all_sipre (fun _ => O) units ix
                    NoDup_all_sipre W) as HA.
      destruct (add_expanded all_sipre (expanded_unit (ub_unit u) pt st) (fun _ => O) units ix)
        as [[[units1 ix1] ids]|e]; cbn [lift bind]; [|exact I].
      cbn [rspec] in HA. destruct HA as (W1 & (ext & -> & Hext) & Hin & _).
      unfold set_ub.
      set (u' := {| ub_unit := ub_unit u; ub_is_expanded := ub_is_expanded u;
                    ub_expand_si := true; ub_expanded := Some ids |}).
      destruct (set_nth_some u' (units ++ ext) id) as [units2 E2].
      { rewrite app_length. lia. }
      rewrite E2. cbn [bind ret].
      destruct (set_nth_spec u' _ _ _ E2) as (_ & Hlen2 & Hat & Hother).
      assert (Hu1 : nth_error (units ++ ext) id = Some u).
      { rewrite nth_error_app1 by lia. exact Eu. }
      assert (Hidp : forall p, ids p <> id).
      { intro p. destruct (Hin p (In_all_sipre p)) as (_ & Hge & _). lia. }
      apply IH.
      * constructor.
        -- intros i v k Hi Hk. destruct (Nat.eq_dec i id) as [->|Hne].
           ++ rewrite Hat in Hi. injection Hi as <-. exact (wf_fwd _ _ W1 id u k Hu1 Hk).
           ++ rewrite Hother in Hi by exact Hne. exact (wf_fwd _ _ W1 i v k Hi Hk).
        -- intros k i Hf. destruct (wf_bwd _ _ W1 k i Hf) as (v & Hv & Hk).
           destruct (Nat.eq_dec i id) as [->|Hne].
           ++ exists u'. split; [exact Hat|]. rewrite Hu1 in Hv. injection Hv as <-. exact Hk.
           ++ exists v. split; [rewrite Hother by exact Hne; exact Hv | exact Hk].
        -- intros i v Hi. destruct (Nat.eq_dec i id) as [->|Hne].
           ++ rewrite Hat in Hi. injection Hi as <-. exact (wf_keys _ _ W1 id u Hu1).
           ++ rewrite Hother in Hi by exact Hne. exact (wf_keys _ _ W1 i v Hi).
        -- intros i v f Hi Hf. destruct (Nat.eq_dec i id) as [->|Hne].
           ++ rewrite Hat in Hi. injection Hi as <-. cbn in Hf. injection Hf as <-.
              split; [reflexivity|]. intro p.
              destruct (Hin p (In_all_sipre p)) as (H1 & H2 & H3).
              split; [apply Hidp|]. split; [intros p' He; apply H3; [apply In_all_sipre | exact He]|].
              exists (expanded_unit (ub_unit u) pt st p).
              split; [rewrite Hother by apply Hidp; exact H1 | split; reflexivity].
           ++ rewrite Hother in Hi by exact Hne.
              destruct (wf_exp _ _ W1 i v f Hi Hf) as [He Hp]. split; [exact He|].
              intro p. destruct (Hp p) as (H1 & H2 & e & H3 & H4 & H5).
              split; [exact H1|]. split; [exact H2|]. exists e.
              assert (f p <> id) by (intro Eq; rewrite Eq, Hu1 in H3; injection H3 as <-; congruence).
              split; [rewrite Hother by assumption; exact H3 | split; assumption].
      * rewrite Hlen2, app_length. lia.
      * intros i v Hi He Hn. destruct (Nat.eq_dec i id) as [->|Hne].
        -- rewrite Hat in Hi. injection Hi as <-. discriminate.
        -- rewrite Hother in Hi by exact Hne.
           destruct (Nat.lt_ge_cases i (length units)) as [L|L].
           ++ rewrite nth_error_app1 in Hi by exact L. specialize (Hpend i v Hi He Hn). lia.
           ++ rewrite nth_error_app2 in Hi by exact L. apply nth_error_In in Hi.
              rewrite Forall_forall in Hext. destruct (Hext v Hi) as [_ Hf]. congruence.
    + cbn [bind ret]. apply IH; [exact W | lia |].
      intros i v Hi He Hn. specialize (Hpend i v Hi He Hn).
      destruct (Nat.eq_dec i id) as [->|Hne]; [congruence | lia].
Qed.

(* --- phase 3: extend groups ---------------------------------------------- *)

Definition keys_ok (u : ubuilder) : Prop :=
  all_keys (ub_unit u) <> [] /\ NoDup (all_keys (ub_unit u)) /\
  forall k, In k (all_keys (ub_unit u)) -> blank_key k = false.

(* the index describes all units except those of [U], whose keys are absent from it
   (apply_extend_groups removes a unit and its SI expansions, edits them, and adds them again) *)
Record PWF (U : nat -> Prop) (units : list ubuilder) (ix : index) : Prop := {
  p_fwd : forall i u k, ~ U i -> nth_error units i = Some u -> In k (all_keys (ub_unit u)) ->
            find k ix = Some i;
  p_bwd : forall k i, find k ix = Some i ->
            ~ U i /\ exists u, nth_error units i = Some u /\ In k (all_keys (ub_unit u));
  p_keys : forall i u, ~ U i -> nth_error units i = Some u -> keys_ok u;
}.

Definition EXP (units : list ubuilder) : Prop :=
  forall i u f, nth_error units i = Some u -> ub_expanded u = Some f ->
    ub_expand_si u = true /\
    forall p, f p <> i /\ (forall p', f p' = f p -> p' = p) /\
              exists e, nth_error units (f p) = Some e /\ ub_expanded e = None /\ ub_expand_si e = false.

Lemma WF_split units ix : WF units ix <-> PWF (fun _ => False) units ix /\ EXP units.
Proof.
  split.
  - intro W. split; [constructor|].
    + intros i u k _. apply (wf_fwd _ _ W).
    + intros k i H. split; [tauto | exact (wf_bwd _ _ W k i H)].
    + intros i u _ H. exact (wf_keys _ _ W i u H).
    + exact (wf_exp _ _ W).
  - intros [P E]. constructor.
    + intros i u k. apply (p_fwd _ _ _ P). tauto.
    + intros k i H. exact (proj2 (p_bwd _ _ _ P k i H)).
    + intros i u. apply (p_keys _ _ _ P). tauto.
    + exact E.
Qed.

Lemma PWF_ext (U U' : nat -> Prop) units ix : (forall i, U i <-> U' i) -> PWF U units ix -> PWF U' units ix.
Proof.
  intros E P. constructor.
  - intros i u k N. apply (p_fwd _ _ _ P). intro H. apply N. apply E. exact H.
  - intros k i H. destruct (p_bwd _ _ _ P k i H) as [N X]. split; [|exact X].
    intro H'. apply N. apply E. exact H'.
  - intros i u N. apply (p_keys _ _ _ P). intro H. apply N. apply E. exact H.
Qed.

Lemma PWF_remove (U : nat -> Prop) units ix j u :
  PWF U units ix -> ~ U j -> nth_error units j = Some u ->
  PWF (fun i => U i \/ i = j) units (index_remove_unit (ub_unit u) ix).
Proof.
  intros P Nj Hj. constructor.
  - intros i v k N Hi Hk. rewrite remove_unit_find.
    assert (Hf : find k ix = Some i) by (apply (p_fwd _ _ _ P i v k); tauto).
    destruct (in_keys k (all_keys (ub_unit u))) eqn:Ein; [|exact Hf].
    apply in_keys_In in Ein. rewrite (p_fwd _ _ _ P j u k Nj Hj Ein) in Hf. injection Hf as Hji.
    exfalso. apply N. right. symmetry. exact Hji.
  - intros k i Hf. rewrite remove_unit_find in Hf.
    destruct (in_keys k (all_keys (ub_unit u))) eqn:Ein; [discriminate|].
    destruct (p_bwd _ _ _ P k i Hf) as [N (v & Hv & Hk)]. split; [|eauto].
    intros [H|H]; [tauto|]. subst i. rewrite Hj in Hv. injection Hv as <-.
    apply in_keys_not in Ein. tauto.
  - intros i v N. apply (p_keys _ _ _ P). tauto.
Qed.

Lemma PWF_set (U : nat -> Prop) units ix j x units' :
  PWF U units ix -> U j -> set_nth j x units = Some units' -> PWF U units' ix.
Proof.
  intros P Uj E. destruct (set_nth_spec x _ _ _ E) as (_ & _ & _ & Ho).
  assert (Hne : forall i, ~ U i -> nth_error units' i = nth_error units i).
  { intros i N. apply Ho. intro Hij. subst i. tauto. }
  constructor.
  - intros i u k N Hi. rewrite Hne in Hi by exact N. exact (p_fwd _ _ _ P i u k N Hi).
  - intros k i Hf. destruct (p_bwd _ _ _ P k i Hf) as [N (v & Hv & Hk)]. split; [exact N|].
    exists v. rewrite Hne by exact N. split; assumption.
  - intros i u N Hi. rewrite Hne in Hi by exact N. exact (p_keys _ _ _ P i u N Hi).
Qed.

Lemma PWF_add (U : nat -> Prop) units ix j u ix' :
  PWF U units ix -> nth_error units j = Some u -> index_add_unit (ub_unit u) j ix = ROk ix' ->
  PWF (fun i => U i /\ i <> j) units ix'.
Proof.
  intros P Hj E. apply add_unit_index_spec in E as (Hne & Hnd & Hnew & Hfind). constructor.
  - intros i v k N Hi Hk. rewrite Hfind. destruct (Nat.eq_dec i j) as [Hij|Hij].
    + subst i. rewrite Hj in Hi. injection Hi as <-. apply in_keys_In in Hk. rewrite Hk. reflexivity.
    + assert (Ni : ~ U i) by tauto. pose proof (p_fwd _ _ _ P i v k Ni Hi Hk) as Hf.
      destruct (in_keys k (all_keys (ub_unit u))) eqn:Ein; [|exact Hf].
      apply in_keys_In in Ein. destruct (Hnew k Ein) as [Hn _]. congruence.
  - intros k i Hf. rewrite Hfind in Hf. destruct (in_keys k (all_keys (ub_unit u))) eqn:Ein.
    + injection Hf as <-. split; [intros [_ H]; apply H; reflexivity|].
      exists u. split; [exact Hj | apply in_keys_In; exact Ein].
    + destruct (p_bwd _ _ _ P k i Hf) as [N X]. split; [tauto | exact X].
  - intros i v N Hi. destruct (Nat.eq_dec i j) as [Hij|Hij].
    + subst i. rewrite Hj in Hi. injection Hi as <-. split; [exact Hne|]. split; [exact Hnd|].
      intros k Hk. apply Hnew. exact Hk.
    + apply (p_keys _ _ _ P i v); [tauto | exact Hi].
Qed.

Definition same_shape (x old : ubuilder) : Prop :=
  (ub_expanded x = ub_expanded old /\ ub_expand_si x = ub_expand_si old) \/ fresh_unit x.

Lemma EXP_set units j old x units' :
  EXP units -> nth_error units j = Some old -> set_nth j x units = Some units' -> same_shape x old ->
  EXP units'.
Proof.
  intros E Hj Es Hx. destruct (set_nth_spec x _ _ _ Es) as (_ & _ & Hat & Ho).
  assert (Hleaf : forall i e, nth_error units i = Some e -> ub_expanded e = None -> ub_expand_si e = false ->
            exists e', nth_error units' i = Some e' /\ ub_expanded e' = None /\ ub_expand_si e' = false).
  { intros i e Hi H1 H2. destruct (Nat.eq_dec i j) as [Hij|Hij].
    - subst i. exists x. split; [exact Hat|]. rewrite Hj in Hi. injection Hi as <-.
      destruct Hx as [[A B]|[A B]]; [rewrite A, B; tauto | tauto].
    - exists e. rewrite Ho by exact Hij. tauto. }
  intros i u f Hi Hf. destruct (Nat.eq_dec i j) as [Hij|Hij].
  - subst i. rewrite Hat in Hi. injection Hi as <-.
    destruct Hx as [[A B]|[A B]]; [|congruence].
    rewrite A in Hf. destruct (E j old f Hj Hf) as [He Hp]. split; [congruence|].
    intro p. destruct (Hp p) as (H1 & H2 & e & H3 & H4 & H5). split; [exact H1|]. split; [exact H2|].
    exact (Hleaf _ _ H3 H4 H5).
  - rewrite Ho in Hi by exact Hij. destruct (E i u f Hi Hf) as [He Hp]. split; [exact He|].
    intro p. destruct (Hp p) as (H1 & H2 & e & H3 & H4 & H5). split; [exact H1|]. split; [exact H2|].
    exact (Hleaf _ _ H3 H4 H5).
Qed.

Lemma AllExpanded_set units j old x units' :
  AllExpanded units -> nth_error units j = Some old -> set_nth j x units = Some units' -> same_shape x old ->
  AllExpanded units'.
Proof.
  intros A Hj Es Hx. destruct (set_nth_spec x _ _ _ Es) as (_ & _ & Hat & Ho).
  intros i u Hi He. destruct (Nat.eq_dec i j) as [Hij|Hij].
  - subst i. rewrite Hat in Hi. injection Hi as <-. destruct Hx as [[X Y]|[X Y]]; [|congruence].
    rewrite X. apply (A j old Hj). congruence.
  - rewrite Ho in Hi by exact Hij. exact (A i u Hi He).
Qed.

(* UnitIndex::remove_unit_rec: two levels are enough *)
Lemma remove_rec_eq fuel units u ix :
  index_remove_rec (S fuel) units u ix =
  obind (match ub_expanded u with
         | None => Done ix
         | Some f =>
             fold_left (fun acc p =>
                          obind acc (fun ix =>
                            match nth_error units (f p) with
                            | Some e => index_remove_rec fuel units e ix
                            | None => Panic site_remove_index
                            end))
                       all_sipre (Done ix)
         end)
        (fun ix => Done (index_remove_unit (ub_unit u) ix)).
Proof. reflexivity. Qed.

Lemma remove_rec_leaf n units e ix :
  ub_expanded e = None -> index_remove_rec (S n) units e ix = Done (index_remove_unit (ub_unit e) ix).
Proof. intro H. rewrite remove_rec_eq, H. reflexivity. Qed.

Lemma remove_fold_spec units (f : sipre -> nat) n :
  (forall p, exists e, nth_error units (f p) = Some e /\ ub_expanded e = None) ->
  (forall p p', f p' = f p -> p' = p) ->
  forall ps (U : nat -> Prop) ix, NoDup ps -> PWF U units ix -> (forall p, In p ps -> ~ U (f p)) ->
  exists ix',
    fold_left (fun acc p =>
                 obind acc (fun ix =>
                   match nth_error units (f p) with
                   | Some e => index_remove_rec (S n) units e ix
                   | None => Panic site_remove_index
                   end)) ps (Done ix) = Done ix' /\
    PWF (fun i => U i \/ exists p, In p ps /\ i = f p) units ix'.
Proof.
  intros Hleaf Hinj. induction ps as [|p r IH]; intros U ix ND P HU.
  - exists ix. split; [reflexivity|]. eapply PWF_ext; [|exact P].
    intro i. split; [tauto|]. intros [H|(p & [] & _)]. exact H.
  - inversion ND as [|? ? Hp ND']; subst. cbn [fold_left obind].
    destruct (Hleaf p) as (e & He & Hn). rewrite He, (remove_rec_leaf n units e ix Hn).
    destruct (IH (fun i => U i \/ i = f p) (index_remove_unit (ub_unit e) ix) ND') as (ix' & E & P').
    + apply PWF_remove; [exact P | apply HU; left; reflexivity | exact He].
    + intros p' Hp' [H|H]; [exact (HU p' (or_intror Hp') H)|].
      apply Hinj in H. subst p'. exact (Hp Hp').
    + exists ix'. split; [exact E|]. eapply PWF_ext; [|exact P'].
      intro i. split.
      * intros [[H|H]|(p' & Hp' & H)]; [tauto | right; exists p; split; [left; reflexivity | exact H] |
                                          right; exists p'; split; [right; exact Hp' | exact H]].
      * intros [H|(p' & [Hp'|Hp'] & H)]; [tauto | subst p'; tauto | right; exists p'; tauto].
Qed.

(* the state between removal and re-insertion *)
Definition Mid (U : nat -> Prop) (n : nat) (id : nat) (base : ubuilder) (r : list ubuilder * index) : Prop :=
  PWF U (fst r) (snd r) /\ EXP (fst r) /\ AllExpanded (fst r) /\
  length (fst r) = n /\ nth_error (fst r) id = Some base.

Lemma update_loop_spec id base f new :
  ub_expanded base = Some f -> (forall p, fresh_unit (new p)) ->
  forall ps (U : nat -> Prop) units ix, NoDup ps ->
    Mid U (length units) id base (units, ix) -> (forall p, In p ps -> U (f p)) ->
    spec (update_loop ps id new units ix)
         (Mid (fun i => U i /\ ~ exists p, In p ps /\ i = f p) (length units) id base).
Proof.
  intros Hf Hnew. induction ps as [|p r IH]; intros U units ix ND (P & E & A & _ & Hb) HU;
    cbn [update_loop].
  - cbn. split; [|tauto]. eapply PWF_ext; [|exact P]. intro i. split; [|tauto].
    intro H. split; [exact H|]. intros (p & [] & _).
  - inversion ND as [|? ? Hp ND']; subst. cbn [fst snd] in *.
    unfold get_ub at 1. rewrite Hb. cbn [bind ret]. rewrite Hf.
    destruct (E id base f Hb Hf) as [_ Hall]. destruct (Hall p) as (Hne & Hinj & e & He & _).
    unfold get_ub. rewrite He. cbn [bind ret].
    match goal with |- spec (bind (set_ub _ _ _ ?x) _) _ => set (nu := x) end.
    assert (Hfresh : fresh_unit nu) by (destruct (Hnew p) as [X Y]; split; [exact X | exact Y]).
    unfold set_ub. destruct (set_nth_some nu units (f p)) as [units' Es].
    { apply nth_error_Some. congruence. }
    rewrite Es. cbn [bind ret].
    destruct (set_nth_spec nu _ _ _ Es) as (_ & Hlen & Hat & Ho).
    destruct (index_add_unit (ub_unit nu) (f p) ix) as [ix'|err] eqn:Ea; cbn [lift bind]; [|exact I].
    rewrite <- Hlen.
    eapply spec_weaken.
    + apply (IH (fun i => U i /\ i <> f p) units' ix' ND').
      * split; [|split; [|split; [|split]]]; cbn [fst snd].
        -- eapply PWF_add; [|exact Hat | exact Ea].
           eapply PWF_set; [exact P | apply HU; left; reflexivity | exact Es].
        -- eapply EXP_set; [exact E | exact He | exact Es | right; exact Hfresh].
        -- eapply AllExpanded_set; [exact A | exact He | exact Es | right; exact Hfresh].
        -- reflexivity.
        -- rewrite Ho by (intro X; apply Hne; symmetry; exact X). exact Hb.
      * intros p' Hp'. split; [apply HU; right; exact Hp'|].
        intro X. apply Hinj in X. subst p'. exact (Hp Hp').
    + intros [units2 ix2] (P2 & E2 & A2 & L2 & B2). cbn [fst snd] in *.
      split; [|tauto]. eapply PWF_ext; [|exact P2]. intro i. split.
      * intros [[H1 H2] H3]. split; [exact H1|]. intros (p' & [Hp'|Hp'] & X).
        -- subst p'. tauto.
        -- apply H3. exists p'. tauto.
      * intros [H1 H2]. split; [split; [exact H1|]|].
        -- intro X. apply H2. exists p. split; [left; reflexivity | exact X].
        -- intros (p' & Hp' & X). apply H2. exists p'. split; [right; exact Hp' | exact X].
Qed.

Definition Inv (r : list ubuilder * index) : Prop := WF (fst r) (snd r) /\ AllExpanded (fst r).

Lemma with_unit_shape u c : same_shape (with_unit u c) u.
Proof. left. split; reflexivity. Qed.

(* one entry of the second loop of apply_extend_groups *)
Lemma apply_updates_spec p si : forall ups units ix,
  Inv (units, ix) -> Forall (fun x => (fst x < length units)%nat) ups ->
  spec (apply_updates ups p si units ix) (fun r => Inv r /\ length (fst r) = length units).
Proof.
  induction ups as [|[id e] r IH]; intros units ix [W A] Hups; cbn [apply_updates].
  - cbn. split; [split; assumption | reflexivity].
  - cbn [fst snd] in *. inversion Hups as [|? ? Hid Hups']; subst. cbn [fst] in Hid.
    apply WF_split in W as [P E].
    destruct (nth_error units id) as [u|] eqn:Hu; [|apply nth_error_None in Hu; lia].
    unfold get_ub at 1. rewrite Hu. cbn [bind ret].
    set (u' := with_unit u (edit_unit (ub_unit u) e p)).
    (* the removal *)
    assert (Hrem : exists ix1 (U : nat -> Prop),
               index_remove_rec 2 units u ix = Done ix1 /\ PWF U units ix1 /\ U id /\
               match ub_expanded u with
               | None => forall i, U i -> i = id
               | Some f => (forall i, U i -> i = id \/ exists q, i = f q) /\ forall q, U (f q)
               end).
    { rewrite remove_rec_eq. destruct (ub_expanded u) as [f|] eqn:Hf.
      - destruct (E id u f Hu Hf) as [_ Hall].
        destruct (remove_fold_spec units f 0) with (ps := all_sipre) (U := fun _ : nat => False) (ix := ix)
          as (ix1 & -> & P1).
        + intro q. destruct (Hall q) as (_ & _ & x & Hx & Hn & _). eauto.
        + intros q q' X. destruct (Hall q) as (_ & Hinj & _). apply Hinj. exact X.
        + exact NoDup_all_sipre.
        + exact P.
        + tauto.
        + cbn [obind]. eexists. exists (fun i => (False \/ exists q, In q all_sipre /\ i = f q) \/ i = id).
          split; [reflexivity|]. split; [|split; [right; reflexivity|split]].
          * apply PWF_remove; [exact P1 | | exact Hu].
            intros [[]|(q & _ & X)]. destruct (Hall q) as (Hne & _). apply Hne. symmetry. exact X.
          * intros i [[[]|(q & _ & X)]|X]; [right; exists q; exact X | left; exact X].
          * intro q. left. right. exists q. split; [apply In_all_sipre | reflexivity].
      - cbn [obind]. eexists. exists (fun i => False \/ i = id).
        split; [reflexivity|]. split; [|split; [right; reflexivity|]].
        + apply PWF_remove; [exact P | tauto | exact Hu].
        + intros i [[]|X]. exact X. }
    destruct Hrem as (ix1 & U & -> & P1 & Uid & HU).
    unfold set_ub. destruct (set_nth_some u' units id Hid) as [units1 Es]. rewrite Es. cbn [bind ret].
    destruct (set_nth_spec u' _ _ _ Es) as (_ & Hlen1 & Hat1 & Ho1).
    assert (M1 : Mid U (length units1) id u' (units1, ix1)).
    { split; [|split; [|split; [|split]]]; cbn [fst snd].
      - eapply PWF_set; [exact P1 | exact Uid | exact Es].
      - eapply EXP_set; [exact E | exact Hu | exact Es | apply with_unit_shape].
      - eapply AllExpanded_set; [exact A | exact Hu | exact Es | apply with_unit_shape].
      - reflexivity.
      - exact Hat1. }
    eapply spec_bind with (P := Mid (fun i => i = id) (length units1) id u').
    + change (ub_expand_si u') with (ub_expand_si u).
      destruct (ub_expand_si u) eqn:Hx.
      * (* the SI expansions are recomputed *)
        destruct (ub_expanded u) as [f|] eqn:Hf; [|exfalso; exact (A id u Hu Hx Hf)].
        destruct HU as [HU1 HU2].
        unfold update_expanded_units, get_ub. rewrite Hat1. cbn [bind ret].
        unfold expand_si. change (ub_expand_si u') with (ub_expand_si u). rewrite Hx. cbn [negb].
        destruct (si_prefixes si) as [pt|]; [|cbn; exact I].
        destruct (si_symbol_prefixes si) as [st|]; [|cbn; exact I].
        cbn [bind ret].
        eapply spec_weaken.
        -- apply (update_loop_spec id u' f (expanded_unit (ub_unit u') pt st)) with (U := U).
           ++ exact Hf.
           ++ intro q. apply expanded_unit_fresh.
           ++ exact NoDup_all_sipre.
           ++ exact M1.
           ++ intros q _. apply HU2.
        -- intros [units2 ix2] (P2 & R2). split; [|exact R2]. eapply PWF_ext; [|exact P2].
           intro i. cbn [fst snd]. split.
           ++ intros [H1 H2]. destruct (HU1 i H1) as [X|(q & X)]; [exact X|].
              exfalso. apply H2. exists q. split; [apply In_all_sipre | exact X].
           ++ intro X. subst i. split; [exact Uid|]. intros (q & _ & X).
              destruct (proj1 M1) as [_ _ _]. destruct M1 as (_ & E1 & _).
              destruct (E1 id u' f Hat1 Hf) as [_ Hall]. destruct (Hall q) as (Hne & _).
              apply Hne. symmetry. exact X.
      * cbn. destruct M1 as (PM & R1). split; [|exact R1]. eapply PWF_ext; [|exact PM].
        intro i. cbn [fst snd]. split; [|intro X; subst i; exact Uid].
        destruct (ub_expanded u) as [f|] eqn:Hf.
        -- destruct (E id u f Hu Hf) as [X _]. congruence.
        -- apply HU.
    + intros [units2 ix2] (P2 & E2 & A2 & L2 & B2). cbn [fst snd] in *.
      unfold get_ub. rewrite B2. cbn [bind ret].
      destruct (index_add_unit (ub_unit u') id ix2) as [ix3|err] eqn:Ea; cbn [lift bind]; [|exact I].
      eapply spec_weaken.
      * apply IH.
        -- split; [|exact A2]. cbn [fst snd]. apply WF_split. split; [|exact E2].
           eapply PWF_ext; [|eapply PWF_add; [exact P2 | exact B2 | exact Ea]].
           intro i. cbn. tauto.
        -- rewrite L2, Hlen1. exact Hups'.
      * intros r2 [I2 L]. split; [exact I2|]. rewrite L, L2, Hlen1. reflexivity.
Qed.

Lemma resolve_entries_spec units ix : WF units ix -> forall es acc,
  Forall (fun x : nat * ext_entry => (fst x < length units)%nat) acc ->
  spec (resolve_entries es units ix acc)
       (Forall (fun x : nat * ext_entry => (fst x < length units)%nat)).
Proof.
  intros W. induction es as [|[k e] r IH]; intros acc Hacc; cbn [resolve_entries].
  - exact Hacc.
  - unfold get_unit_id. destruct (find k ix) as [id|] eqn:Hf; cbn [lift bind]; [|exact I].
    destruct (existsb _ acc); [exact I|].
    destruct (wf_bwd _ _ W k id Hf) as (u & Hu & _).
    unfold get_ub. rewrite Hu. cbn [bind ret].
    destruct (_ && _); [exact I|].
    apply IH. apply Forall_app. split; [exact Hacc|]. constructor; [|constructor].
    cbn [fst]. apply nth_error_Some. congruence.
Qed.

Lemma apply_extend_groups_spec si : forall exts units ix, Inv (units, ix) ->
  spec (apply_extend_groups exts si units ix) Inv.
Proof.
  induction exts as [|g r IH]; intros units ix I0; cbn [apply_extend_groups].
  - exact I0.
  - eapply spec_bind; [apply resolve_entries_spec; [exact (proj1 I0) | constructor]|].
    intros ups Hups. eapply spec_bind; [apply apply_updates_spec; [exact I0 | exact Hups]|].
    intros [units' ix'] [I1 _]. apply IH. exact I1.
Qed.

(* --- phase 4: best lists -------------------------------------------------- *)

Definition ratio_le2 (x y : nat * cunit) : Prop := (ratio (snd x) <= ratio (snd y))%Q.

Lemma ins_by_ratio_perm x l : Permutation (x :: l) (ins_by_ratio x l).
Proof.
  induction l as [|y r IH]; cbn [ins_by_ratio]; [apply Permutation_refl|].
  destruct (Qle_bool _ _); [apply Permutation_refl|].
  eapply perm_trans; [apply perm_swap|]. apply perm_skip. exact IH.
Qed.

Lemma sort_perm l : Permutation l (sort_by_ratio l).
Proof.
  induction l as [|x r IH]; cbn; [constructor|].
  eapply perm_trans; [apply perm_skip; exact IH | apply ins_by_ratio_perm].
Qed.

Lemma ins_hdrel a x l : ratio_le2 a x -> HdRel ratio_le2 a l -> HdRel ratio_le2 a (ins_by_ratio x l).
Proof.
  intros H1 H2. destruct l as [|y r]; cbn [ins_by_ratio]; [constructor; exact H1|].
  destruct (Qle_bool _ _); constructor; [exact H1 | inversion H2; assumption].
Qed.

Lemma ins_sorted x l : Sorted ratio_le2 l -> Sorted ratio_le2 (ins_by_ratio x l).
Proof.
  induction l as [|y r IH]; intro H; cbn [ins_by_ratio]; [repeat constructor|].
  destruct (Qle_bool (ratio (snd x)) (ratio (snd y))) eqn:E.
  - constructor; [exact H|]. constructor. apply Qle_bool_iff. exact E.
  - inversion H as [|? ? Hs Hh]; subst. constructor; [apply IH; exact Hs|].
    apply ins_hdrel; [|exact Hh]. unfold ratio_le2.
    destruct (Qlt_le_dec (ratio (snd y)) (ratio (snd x))) as [L|L]; [apply Qlt_le_weak; exact L|].
    apply Qle_bool_iff in L. congruence.
Qed.

Lemma sort_sorted l : Sorted ratio_le2 (sort_by_ratio l).
Proof. induction l as [|x r IH]; cbn; [constructor | apply ins_sorted; exact IH]. Qed.

Definition id_ok (units : list ubuilder) (q : pq) (x : nat * cunit) : Prop :=
  exists ub, nth_error units (fst x) = Some ub /\ snd x = ub_unit ub /\ quantity (snd x) = q.

Lemma id_ok_nth units q x :
  id_ok units q x -> nth_error (map ub_unit units) (fst x) = Some (snd x) /\ quantity (snd x) = q.
Proof.
  intros (ub & H1 & H2 & H3). split; [|exact H3]. rewrite H2. apply map_nth_error. exact H1.
Qed.

Definition Bounded (units : list ubuilder) (ix : index) : Prop :=
  forall k i, find k ix = Some i -> (i < length units)%nat.

Lemma WF_Bounded units ix : WF units ix -> Bounded units ix.
Proof.
  intros W k i H. destruct (wf_bwd _ _ W k i H) as (u & Hu & _). apply nth_error_Some. congruence.
Qed.

Lemma best_ids_spec q ix units : Bounded units ix ->
  forall ns, spec (best_ids cfg_new q ns ix units)
                  (fun l => length l = length ns /\ Forall (id_ok units q) l).
Proof.
  intros Hb. induction ns as [|n r IH]; cbn [best_ids].
  - cbn. split; [reflexivity | constructor].
  - unfold get_unit_id. destruct (find n ix) as [id|] eqn:Hf; cbn [lift bind]; [|exact I].
    destruct (nth_error units id) as [u|] eqn:Hu;
      [|apply nth_error_None in Hu; specialize (Hb _ _ Hf); lia].
    unfold get_ub. rewrite Hu. cbn [bind ret].
    change (check_best_quantity cfg_new) with true. cbn [andb].
    destruct (pq_eqb (quantity (ub_unit u)) q) eqn:Eq; cbn [negb]; [|exact I].
    eapply spec_bind; [exact IH|]. intros rest [L F]. cbn. split; [congruence|].
    constructor; [|exact F]. exists u. cbn [fst snd]. split; [exact Hu|]. split; [reflexivity|].
    apply pq_eqb_eq. exact Eq.
Qed.

Lemma best_thresholds_spec base : forall l,
  Forall (fun x : nat * cunit => quantity (snd x) = quantity base) l ->
  best_thresholds base l = Done (map (fun x => (threshold_of (snd x) base, fst x)) l).
Proof.
  induction l as [|[id u] r IH]; intro F; cbn [best_thresholds map]; [reflexivity|].
  inversion F as [|? ? Hq F']; subst. cbn [snd fst] in *. unfold convert_q. rewrite Hq.
  assert (pq_eqb (quantity base) (quantity base) = true) as -> by (apply pq_eqb_eq; reflexivity).
  cbn [obind]. rewrite (IH F'). cbn [obind]. reflexivity.
Qed.

Lemma sorted_ids units q l :
  Forall (id_ok units q) l -> Sorted ratio_le2 l -> Sorted (ratio_le (map ub_unit units)) (map fst l).
Proof.
  intros F Hs. induction Hs as [|a l Hs IH Hh]; cbn [map]; [constructor|].
  inversion F as [|? ? Fa Fl]; subst. constructor; [apply IH; exact Fl|].
  destruct Hh as [|b l' Hab]; cbn [map]; constructor.
  inversion Fl as [|? ? Fb _]; subst.
  destruct (id_ok_nth _ _ _ Fa) as [Ha _]. destruct (id_ok_nth _ _ _ Fb) as [Hb' _].
  exists (snd a), (snd b). split; [exact Ha|]. split; [exact Hb' | exact Hab].
Qed.

Lemma best_new_spec q ns ix units : Bounded units ix -> ns <> [] ->
  spec (best_new cfg_new q ns ix units) (best_list_ok (map ub_unit units) q).
Proof.
  intros Hb Hne. unfold best_new. eapply spec_bind; [apply best_ids_spec; exact Hb|].
  intros ids [L F].
  pose proof (sort_perm ids) as Pm. pose proof (sort_sorted ids) as Hs.
  assert (F' : Forall (id_ok units q) (sort_by_ratio ids)) by (eapply Permutation_Forall; eassumption).
  destruct (sort_by_ratio ids) as [|[bid bu] rest] eqn:Es.
  - apply Permutation_length in Pm. cbn in Pm. destruct ns; [congruence | cbn in L; lia].
  - inversion F' as [|? ? Hbase Frest]; subst.
    destruct (id_ok_nth _ _ _ Hbase) as [Hbn Hbq]. cbn [fst snd] in Hbn, Hbq.
    rewrite best_thresholds_spec.
    2:{ eapply Forall_impl; [|exact Frest]. intros x Hx. destruct (id_ok_nth _ _ _ Hx) as [_ Hq]. congruence. }
    cbn [spec ret]. split; [|split].
    + exists bid, (map (fun x => (threshold_of (snd x) bu, fst x)) rest). split; [reflexivity|].
      intros th i Hin. apply in_map_iff in Hin as (x & Hx & Hin). injection Hx as <- <-.
      rewrite Forall_forall in Frest. destruct (id_ok_nth _ _ _ (Frest x Hin)) as [Hxn _].
      exists (snd x), bu. split; [exact Hxn|]. split; [exact Hbn | reflexivity].
    + intros th i [Hin|Hin].
      * injection Hin as _ <-. exists bu. split; assumption.
      * apply in_map_iff in Hin as (x & Hx & Hin). injection Hx as _ <-.
        rewrite Forall_forall in Frest. destruct (id_ok_nth _ _ _ (Frest x Hin)) as [Hxn Hxq].
        exists (snd x). split; assumption.
    + replace (map snd ((1%Q, bid) :: map (fun x => (threshold_of (snd x) bu, fst x)) rest))
        with (map fst ((bid, bu) :: rest)).
      * eapply sorted_ids; [exact F' | exact Hs].
      * cbn [map fst snd]. f_equal. rewrite map_map. reflexivity.
Qed.

Lemma store_new_spec q b ix units : Bounded units ix -> best_is_empty b = false ->
  spec (store_new cfg_new q b ix units) (best_store_ok (map ub_unit units) q).
Proof.
  intros Hb He. destruct b as [ns|m i]; cbn [store_new].
  - eapply spec_bind; [apply best_new_spec; [exact Hb|]|].
    + intro X. subst ns. discriminate.
    + intros l Hl. exact Hl.
  - assert (m <> [] /\ i <> []) as [Hm Hi].
    { cbn in He. destruct m; [discriminate|]. destruct i; [discriminate|]. split; discriminate. }
    eapply spec_bind; [apply best_new_spec; [exact Hb | exact Hm]|]. intros lm Hlm.
    eapply spec_bind; [apply best_new_spec; [exact Hb | exact Hi]|]. intros li Hli.
    cbn. split; assumption.
Qed.

Lemma best_for_spec best ix units q : Bounded units ix -> BestNonEmpty best ->
  spec (best_for cfg_new best ix units q) (best_store_ok (map ub_unit units) q).
Proof.
  intros Hb Hn. unfold best_for. destruct (best q) as [b|] eqn:E; [|exact I].
  apply store_new_spec; [exact Hb | exact (Hn q b E)].
Qed.

(* --- phase 5: fractions ----------------------------------------------------- *)

Lemma frac_units_of_total al me im qs ix units : Bounded units ix ->
  forall es acc, spec (frac_units_of es al me im qs ix units acc) (fun _ => True).
Proof.
  intro Hb. induction es as [|[k w] r IH]; intro acc; cbn [frac_units_of]; [exact I|].
  unfold get_unit_id. destruct (find k ix) as [id|] eqn:Hf; cbn [lift bind]; [|exact I].
  destruct (nth_error units id) as [u|] eqn:Hu;
    [|apply nth_error_None in Hu; specialize (Hb _ _ Hf); lia].
  unfold get_ub. rewrite Hu. cbn [bind ret]. apply IH.
Qed.

Lemma frac_units_total al me im qs ix units : Bounded units ix ->
  forall frs acc, spec (frac_units frs al me im qs ix units acc) (fun _ => True).
Proof.
  intro Hb. induction frs as [|f r IH]; intro acc; cbn [frac_units]; [exact I|].
  eapply spec_bind; [apply frac_units_of_total; exact Hb|]. intros acc' _. apply IH.
Qed.

Lemma build_fractions_total frs ix units : Bounded units ix ->
  spec (build_fractions_config frs ix units) (fun _ => True).
Proof.
  intro Hb. unfold build_fractions_config.
  eapply spec_bind; [apply frac_units_total; exact Hb|]. intros us _. exact I.
Qed.

(* --- finish, build ------------------------------------------------------------ *)

Lemma nth_error_map_inv {A B} (f : A -> B) l i y :
  nth_error (map f l) i = Some y -> exists x, nth_error l i = Some x /\ y = f x.
Proof.
  revert i. induction l as [|a r IH]; intros [|i] H; try discriminate.
  - injection H as <-. exists a. split; reflexivity.
  - exact (IH i H).
Qed.

Lemma WF_consistent units ix : WF units ix ->
  index_consistent (map ub_unit units) ix /\ keys_well_formed (map ub_unit units) /\
  no_shared_key (map ub_unit units).
Proof.
  intro W. split; [split|split].
  - intros i u k Hi Hk. apply nth_error_map_inv in Hi as (x & Hx & ->). exact (wf_fwd _ _ W i x k Hx Hk).
  - intros k i Hf. destruct (wf_bwd _ _ W k i Hf) as (x & Hx & Hk). exists (ub_unit x).
    split; [apply map_nth_error; exact Hx | exact Hk].
  - intros i u Hi. apply nth_error_map_inv in Hi as (x & Hx & ->). exact (wf_keys _ _ W i x Hx).
  - intros i j u v k Hi Hj Hu Hv.
    apply nth_error_map_inv in Hi as (x & Hx & ->). apply nth_error_map_inv in Hj as (y & Hy & ->).
    pose proof (wf_fwd _ _ W i x k Hx Hu) as H1. pose proof (wf_fwd _ _ W j y k Hy Hv) as H2. congruence.
Qed.

Definition conv_ok (c : converter) : Prop :=
  index_consistent (c_units c) (c_index c) /\ keys_well_formed (c_units c) /\
  no_shared_key (c_units c) /\ forall q, best_store_ok (c_units c) q (c_best c q).

Lemma finish_spec st : S1 st -> spec (finish cfg_new st) conv_ok.
Proof.
  intros [[W N] HB]. unfold finish. cbn [fst snd] in W, N.
  eapply spec_bind.
  { apply expand_loop_spec; [exact W | lia |].
    intros i u Hi _ _. split; [lia|]. apply nth_error_Some. congruence. }
  intros [units1 ix1] I1.
  eapply spec_bind; [apply apply_extend_groups_spec; exact I1|].
  intros [units ix] [W2 _]. cbn [fst snd] in W2.
  pose proof (WF_Bounded _ _ W2) as Hb.
  eapply spec_bind; [apply best_for_spec; [exact Hb | exact HB]|]. intros bv Hv.
  eapply spec_bind; [apply best_for_spec; [exact Hb | exact HB]|]. intros bm Hm.
  eapply spec_bind; [apply best_for_spec; [exact Hb | exact HB]|]. intros bl Hl.
  eapply spec_bind; [apply best_for_spec; [exact Hb | exact HB]|]. intros bt Ht.
  eapply spec_bind; [apply best_for_spec; [exact Hb | exact HB]|]. intros bh Hh.
  eapply spec_bind; [apply build_fractions_total; exact Hb|]. intros fr _.
  cbn [spec ret]. destruct (WF_consistent _ _ W2) as (C1 & C2 & C3).
  split; [exact C1|]. split; [exact C2|]. split; [exact C3|].
  intros []; assumption.
Qed.

Lemma build_spec files : spec (build cfg_new files) conv_ok.
Proof.
  unfold build. eapply spec_bind.
  - apply spec_lift. apply add_files_S1. exact S1_init.
  - intros st Hst. apply finish_spec. exact Hst.
Qed.

Lemma build_total files : exists r, build cfg_new files = Done r.
Proof. exact (spec_total _ _ (build_spec files)). Qed.

Lemma build_ok files c : build cfg_new files = Done (ROk c) -> conv_ok c.
Proof. exact (spec_ok _ _ c (build_spec files)). Qed.

(* --- layers: what the builder state and the converter hold after the files --- *)

Lemma pq_eqb_sym a b : pq_eqb a b = pq_eqb b a.
Proof. destruct a, b; reflexivity. Qed.

Lemma bind_ok {A B} (m : M A) (f : A -> M B) b :
  bind m f = Done (ROk b) -> exists a, m = Done (ROk a) /\ f a = Done (ROk b).
Proof. destruct m as [[a|e]|s]; cbn; intro H; try discriminate. eauto. Qed.

Lemma rbind_ok {A B} (r : bres A) (f : A -> bres B) b :
  rbind r f = ROk b -> exists a, r = ROk a /\ f a = ROk b.
Proof. destruct r as [a|e]; cbn; intro H; try discriminate. eauto. Qed.

Lemma add_group_facts st g st' : add_group st g = ROk st' ->
  b_default st' = b_default st /\ b_si st' = b_si st /\ b_fractions st' = b_fractions st /\
  b_extend st' = b_extend st /\
  forall q, b_best st' q = if pq_eqb (qg_quantity g) q
                           then match qg_best g with Some b => Some b | None => b_best st q end
                           else b_best st q.
Proof.
  unfold add_group. intro H. apply rbind_ok in H as ([units ix] & _ & H).
  apply rbind_ok in H as (best & Hb & H). injection H as <-. cbn.
  repeat (split; [reflexivity|]). intro q.
  destruct (qg_best g) as [b|].
  - destruct (best_is_empty b); [discriminate|]. injection Hb as <-. unfold set_best.
    rewrite pq_eqb_sym. reflexivity.
  - injection Hb as <-. destruct (pq_eqb _ _); reflexivity.
Qed.

Definition best_step (q : pq) (acc : option best_units) (g : qgroup) : option best_units :=
  if pq_eqb (qg_quantity g) q then match qg_best g with Some b => Some b | None => acc end else acc.

Lemma add_groups_facts gs : forall st st', add_groups st gs = ROk st' ->
  b_default st' = b_default st /\ b_si st' = b_si st /\ b_fractions st' = b_fractions st /\
  b_extend st' = b_extend st /\
  forall q, b_best st' q = fold_left (best_step q) gs (b_best st q).
Proof.
  induction gs as [|g r IH]; intros st st' H; cbn [add_groups] in H.
  - injection H as <-. repeat (split; [reflexivity|]). reflexivity.
  - apply rbind_ok in H as (st1 & H1 & H). apply add_group_facts in H1 as (A1 & A2 & A3 & A4 & A5).
    apply IH in H as (B1 & B2 & B3 & B4 & B5).
    split; [congruence|]. split; [congruence|]. split; [congruence|]. split; [congruence|].
    intro q. rewrite B5, A5. reflexivity.
Qed.

Definition tables_of (st : bstate) : option ptable * option ptable :=
  (si_prefixes (b_si st), si_symbol_prefixes (b_si st)).

Definition tables_step (acc : option ptable * option ptable) (f : units_file) :=
  match uf_si f with
  | Some si => (layered_table (fst acc) (si_prefixes si) (si_prec si),
                layered_table (snd acc) (si_symbol_prefixes si) (si_prec si))
  | None => acc
  end.

Lemma join_prefixes_layered a b p : join_prefixes a b p = layered_table a b p.
Proof. destruct a as [a|], b as [b|]; try reflexivity. destruct p; reflexivity. Qed.

Lemma add_files_facts fs : forall st st', add_files st fs = ROk st' ->
  Some (b_default st') = last_given uf_default_system fs (Some (b_default st)) /\
  b_fractions st' = b_fractions st ++ fractions_layers fs /\
  tables_of st' = fold_left tables_step fs (tables_of st) /\
  forall q, b_best st' q =
            fold_left (fun acc f => fold_left (best_step q) (uf_quantity f) acc) fs (b_best st q).
Proof.
  induction fs as [|f r IH]; intros st st' H; cbn [add_files] in H.
  - injection H as <-. cbn. rewrite app_nil_r. repeat (split; [reflexivity|]). reflexivity.
  - apply rbind_ok in H as (st1 & H1 & H). unfold add_units_file in H1.
    apply rbind_ok in H1 as (st0 & H0 & H1). injection H1 as <-.
    apply add_groups_facts in H0 as (A1 & A2 & A3 & A4 & A5).
    apply IH in H as (B1 & B2 & B3 & B4). cbn [b_default b_fractions b_best] in *.
    split; [|split; [|split]].
    + rewrite B1. cbn [last_given]. rewrite A1. destruct (uf_default_system f); reflexivity.
    + rewrite B2, A3. cbn [fractions_layers flat_map]. fold (fractions_layers r).
      destruct (uf_fractions f); [rewrite <- app_assoc|]; reflexivity.
    + rewrite B3. cbn [fold_left]. f_equal. unfold tables_of, tables_step. cbn [b_si].
      rewrite A2. destruct (uf_si f) as [si|]; [|reflexivity].
      cbn [join_si si_prefixes si_symbol_prefixes fst snd]. rewrite !join_prefixes_layered. reflexivity.
    + intro q. rewrite B4, A5. reflexivity.
Qed.

(* what finish passes through *)
Definition FinishFacts (st : bstate) (c : converter) : Prop :=
  exists units,
    c_units c = map ub_unit units /\ c_default c = b_default st /\
    (forall q, best_for cfg_new (b_best st) (c_index c) units q = Done (ROk (c_best c q))) /\
    build_fractions_config (b_fractions st) (c_index c) units = Done (ROk (c_fractions c)).

Lemma finish_facts st c : finish cfg_new st = Done (ROk c) -> FinishFacts st c.
Proof.
  unfold finish. intro H.
  apply bind_ok in H as ([units1 ix1] & _ & H). apply bind_ok in H as ([units ix] & _ & H).
  apply bind_ok in H as (bv & Hv & H). apply bind_ok in H as (bm & Hm & H).
  apply bind_ok in H as (bl & Hl & H). apply bind_ok in H as (bt & Ht & H).
  apply bind_ok in H as (bh & Hh & H). apply bind_ok in H as (fr & Hfr & H).
  injection H as <-. exists units. cbn. split; [reflexivity|]. split; [reflexivity|].
  split; [|exact Hfr]. intros []; assumption.
Qed.

(* partial correctness only: nothing is said about panics *)
Definition post {A} (m : M A) (P : A -> Prop) : Prop :=
  match m with Done (ROk a) => P a | _ => True end.

Lemma post_bind {A B} (m : M A) (f : A -> M B) P Q :
  post m P -> (forall a, P a -> post (f a) Q) -> post (bind m f) Q.
Proof. destruct m as [[a|e]|s]; cbn; auto. Qed.

Lemma post_ok {A} (m : M A) P a : post m P -> m = Done (ROk a) -> P a.
Proof. intros H ->. exact H. Qed.

(* the ids of a best list are those its names resolve to *)
Lemma best_ids_resolves c q ix units : forall ns,
  post (best_ids c q ns ix units) (fun l => Forall2 (fun n i => find n ix = Some i) ns (map fst l)).
Proof.
  induction ns as [|n r IH]; cbn [best_ids]; [constructor|].
  unfold get_unit_id. destruct (find n ix) as [id|] eqn:Hf; cbn [lift bind]; [|exact I].
  unfold get_ub. destruct (nth_error units id) as [u|]; [|exact I]. cbn [bind ret].
  destruct (_ && _); [exact I|].
  eapply post_bind; [exact IH|]. intros rest F. cbn. constructor; assumption.
Qed.

Lemma best_thresholds_ids base : forall l l', best_thresholds base l = Done l' -> map snd l' = map fst l.
Proof.
  induction l as [|[id u] r IH]; intros l' H; cbn [best_thresholds] in H.
  - injection H as <-. reflexivity.
  - destruct (convert_q 1 u base) as [v|s]; [|discriminate]. cbn [obind] in H.
    destruct (best_thresholds base r) as [rest|s]; [|discriminate]. cbn [obind] in H.
    injection H as <-. cbn. f_equal. apply IH. reflexivity.
Qed.

Definition resolves_ix (ix : index) (ns : list str) (l : list (Q * nat)) : Prop :=
  exists ids, Forall2 (fun n i => find n ix = Some i) ns ids /\ Permutation ids (map snd l).

Lemma best_new_resolves c q ns ix units : post (best_new c q ns ix units) (resolves_ix ix ns).
Proof.
  unfold best_new. eapply post_bind; [apply best_ids_resolves|]. intros ids F.
  pose proof (sort_perm ids) as Pm.
  destruct (sort_by_ratio ids) as [|[bid bu] rest]; [exact I|].
  destruct (best_thresholds bu rest) as [l|s] eqn:E; [|exact I]. cbn.
  exists (map fst ids). split; [exact F|].
  apply best_thresholds_ids in E. cbn [map snd]. rewrite E.
  apply (Permutation_map fst) in Pm. exact Pm.
Qed.

Definition store_from (ix : index) (b : best_units) (s : best_store) : Prop :=
  match b, s with
  | BUnified ns, SUnified l => resolves_ix ix ns l
  | BBySystem m i, SBySystem lm li => resolves_ix ix m lm /\ resolves_ix ix i li
  | _, _ => False
  end.

Lemma store_new_resolves c q b ix units : post (store_new c q b ix units) (store_from ix b).
Proof.
  destruct b as [ns|m i]; cbn [store_new].
  - eapply post_bind; [apply best_new_resolves|]. intros l H. exact H.
  - eapply post_bind; [apply best_new_resolves|]. intros lm Hm.
    eapply post_bind; [apply best_new_resolves|]. intros li Hi. cbn. split; assumption.
Qed.

(* the three whole-file fractions settings *)
Lemma last_some_last_set sel : forall frs d,
  fold_left (fun acc cfg => o_or (option_map fw_get (sel cfg)) acc) frs (option_map fw_get d) =
  option_map fw_get (last_set sel frs d).
Proof.
  induction frs as [|f r IH]; intro d; cbn [fold_left last_set]; [reflexivity|].
  rewrite <- IH. f_equal. destruct (sel f); reflexivity.
Qed.

Lemma fractions_heads frs ix units fr : build_fractions_config frs ix units = Done (ROk fr) ->
  cf_all fr = defined (last_set fr_all frs None) /\
  cf_metric fr = defined (last_set fr_metric frs None) /\
  cf_imperial fr = defined (last_set fr_imperial frs None).
Proof.
  unfold build_fractions_config. intro H. apply bind_ok in H as (us & _ & H). injection H as <-.
  cbn [cf_all cf_metric cf_imperial]. unfold last_some, defined.
  rewrite !(last_some_last_set _ _ None). 
  split; [|split]; destruct (last_set _ frs None); reflexivity.
Qed.

Definition layers_stmt (files : list units_file) (c : converter) : Prop :=
  Some (c_default c) = last_given uf_default_system files (Some Metric) /\
  (forall q, exists b, last_best q files = Some b /\ best_from c q b) /\
  cf_all (c_fractions c) = defined (last_set fr_all (fractions_layers files) None) /\
  cf_metric (c_fractions c) = defined (last_set fr_metric (fractions_layers files) None) /\
  cf_imperial (c_fractions c) = defined (last_set fr_imperial (fractions_layers files) None).

Lemma build_layers files c : build cfg_new files = Done (ROk c) -> layers_stmt files c.
Proof.
  unfold build. intro H. apply bind_ok in H as (st & Hst & H). unfold lift in Hst. injection Hst as Hst.
  apply add_files_facts in Hst as (A1 & A2 & _ & A4). cbn [bstate0 b_default b_fractions b_best app] in *.
  apply finish_facts in H as (units & Hu & Hd & Hb & Hf).
  split; [rewrite Hd; exact A1|]. split.
  - intro q. specialize (Hb q). unfold best_for in Hb. rewrite A4 in Hb.
    change (fold_left (fun acc f => fold_left (best_step q) (uf_quantity f) acc) files None)
      with (last_best q files) in Hb.
    destruct (last_best q files) as [b|]; [|discriminate]. exists b. split; [reflexivity|].
    pose proof (post_ok _ _ _ (store_new_resolves cfg_new q b (c_index c) units) Hb) as R.
    unfold best_from. destruct b as [ns|m i], (c_best c q) as [l|lm li]; cbn in R; try exact R.
  - rewrite A2 in Hf. exact (fractions_heads _ _ _ _ Hf).
Qed.

Lemma add_files_tables files st : add_files bstate0 files = ROk st ->
  (si_prefixes (b_si st), si_symbol_prefixes (b_si st)) = final_tables files.
Proof. intro H. apply add_files_facts in H as (_ & _ & A3 & _). exact A3. Qed.

Lemma edit_unit_layered u e p : edit_unit u e p = layered_unit u e p.
Proof. unfold edit_unit, layered_unit. destruct p; reflexivity. Qed.

(* --- what an extend block does to the aliases (all entries, all units) ---------- *)

Lemma post_weaken {A} (m : M A) (P Q : A -> Prop) : post m P -> (forall a, P a -> Q a) -> post m Q.
Proof. destruct m as [[a|e]|s]; cbn; auto. Qed.

Definition al (units : list ubuilder) (j : nat) : option (list str) :=
  option_map (fun u => aliases (ub_unit u)) (nth_error units j).

(* update_expanded_units regenerates the SI forms of a unit and keeps the aliases they had *)
Lemma update_loop_aliases id new : forall ps units ix,
  post (update_loop ps id new units ix)
       (fun r => length (fst r) = length units /\ forall j, al (fst r) j = al units j).
Proof.
  induction ps as [|p r IH]; intros units ix; cbn [update_loop].
  - cbn. split; reflexivity.
  - unfold get_ub at 1. destruct (nth_error units id) as [base|]; cbn [bind ret]; [|exact I].
    destruct (ub_expanded base) as [f|]; [|exact I].
    unfold get_ub. destruct (nth_error units (f p)) as [old|] eqn:Ho; cbn [bind ret]; [|exact I].
    match goal with |- post (bind (set_ub _ _ _ ?x) _) _ => set (nu := x) end.
    unfold set_ub. destruct (set_nth (f p) nu units) as [units'|] eqn:Es; cbn [bind ret]; [|exact I].
    destruct (index_add_unit (ub_unit nu) (f p) ix) as [ix'|err]; cbn [lift bind]; [|exact I].
    destruct (set_nth_spec nu _ _ _ Es) as (_ & Hlen & Hat & Hother).
    eapply post_weaken; [apply IH|]. intros r2 [L H]. split; [congruence|].
    intro j. rewrite H. unfold al. destruct (Nat.eq_dec j (f p)) as [E|E].
    + subst j. rewrite Hat, Ho. reflexivity.
    + rewrite Hother by exact E. reflexivity.
Qed.

Lemma join_alias_vec_layered a l p : join_alias_vec a l p = layered a l p.
Proof. destruct p; reflexivity. Qed.

Lemma apply_updates_aliases p si : forall ups units ix,
  post (apply_updates ups p si units ix)
       (fun r => forall j u, nth_error units j = Some u ->
                  exists u', nth_error (fst r) j = Some u' /\
                             aliases (ub_unit u') = aliases_after p ups j (aliases (ub_unit u))).
Proof.
  induction ups as [|[id e] r IH]; intros units ix; cbn [apply_updates].
  - cbn. intros j u H. exists u. split; [exact H | reflexivity].
  - unfold get_ub at 1. destruct (nth_error units id) as [u|] eqn:Hu; cbn [bind ret]; [|exact I].
    destruct (index_remove_rec 2 units u ix) as [ix1|s]; [|exact I].
    set (u' := with_unit u (edit_unit (ub_unit u) e p)).
    unfold set_ub. destruct (set_nth id u' units) as [units1|] eqn:Es; cbn [bind ret]; [|exact I].
    destruct (set_nth_spec u' _ _ _ Es) as (_ & Hlen & Hat & Hother).
    eapply post_bind with (P := fun r => forall j, al (fst r) j = al units1 j).
    + destruct (ub_expand_si u').
      * unfold update_expanded_units. unfold get_ub. destruct (nth_error units1 id) as [b|]; cbn [bind ret]; [|exact I].
        destruct (expand_si b si) as [[new|err]|s]; cbn [bind]; try exact I.
        eapply post_weaken; [apply update_loop_aliases|]. intros r2 [_ H]. exact H.
      * cbn. reflexivity.
    + intros [units2 ix2] H. cbn [fst snd] in H.
      unfold get_ub. destruct (nth_error units2 id) as [u2|]; cbn [bind ret]; [|exact I].
      destruct (index_add_unit (ub_unit u2) id ix2) as [ix3|err]; cbn [lift bind]; [|exact I].
      eapply post_weaken; [apply IH|]. intros r3 H3 j v Hj.
      assert (Hv : exists v2, nth_error units2 j = Some v2 /\
                     aliases (ub_unit v2) =
                     if Nat.eqb id j then match xe_aliases e with Some l => layered (aliases (ub_unit v)) l p
                                                             | None => aliases (ub_unit v) end
                     else aliases (ub_unit v)).
      { specialize (H j). unfold al in H. destruct (Nat.eqb id j) eqn:Eid.
        - apply Nat.eqb_eq in Eid. subst j. rewrite Hat in H. rewrite Hu in Hj. injection Hj as <-.
          destruct (nth_error units2 id) as [v2|]; [|discriminate]. cbn in H. injection H as H.
          exists v2. split; [reflexivity|]. rewrite H. destruct (xe_aliases e); [apply join_alias_vec_layered | reflexivity].
        - apply Nat.eqb_neq in Eid. rewrite Hother in H by congruence. rewrite Hj in H.
          destruct (nth_error units2 j) as [v2|]; [|discriminate]. cbn in H. injection H as H.
          exists v2. split; [reflexivity | exact H]. }
      destruct Hv as (v2 & Hv2 & Ha). destruct (H3 j v2 Hv2) as (v3 & Hv3 & Ha3).
      exists v3. split; [exact Hv3|]. rewrite Ha3, Ha. reflexivity.
Qed.

Lemma apply_updates_aliases_ok p si ups units ix units' ix' :
  apply_updates ups p si units ix = Done (ROk (units', ix')) ->
  forall j u, nth_error units j = Some u ->
    exists u', nth_error units' j = Some u' /\
               aliases (ub_unit u') = aliases_after p ups j (aliases (ub_unit u)).
Proof. intro H. exact (post_ok _ _ _ (apply_updates_aliases p si ups units ix) H). Qed.

(* the entries of a block address the units that own their keys when the block starts *)
Lemma resolve_entries_sound units ix : WF units ix -> forall es acc,
  post (resolve_entries es units ix acc)
       (fun ups => exists new, ups = acc ++ new /\
          Forall2 (fun ke ie => snd ke = snd ie /\
                     exists u, nth_error units (fst ie) = Some u /\ In (fst ke) (all_keys (ub_unit u)))
                  es new).
Proof.
  intro W. induction es as [|[k e] r IH]; intro acc; cbn [resolve_entries].
  - exists []. rewrite app_nil_r. split; [reflexivity | constructor].
  - unfold get_unit_id. destruct (find k ix) as [id|] eqn:Hf; cbn [lift bind]; [|exact I].
    destruct (existsb _ acc); [exact I|].
    destruct (wf_bwd _ _ W k id Hf) as (u & Hu & Hk).
    unfold get_ub. rewrite Hu. cbn [bind ret]. destruct (_ && _); [exact I|].
    eapply post_weaken; [apply IH|]. intros ups (new & -> & F).
    exists ((id, e) :: new). rewrite <- app_assoc. split; [reflexivity|].
    constructor; [|exact F]. cbn [fst snd]. split; [reflexivity|]. exists u. split; assumption.
Qed.

(* --- one extend entry in all the layers: the addressed unit is edited as the rule says ---- *)

Lemma update_loop_keeps id new b : (forall f p, ub_expanded b = Some f -> f p <> id) ->
  forall ps units ix, nth_error units id = Some b ->
  post (update_loop ps id new units ix) (fun r => nth_error (fst r) id = Some b).
Proof.
  intros Hne. induction ps as [|p r IH]; intros units ix Hb; cbn [update_loop]; [exact Hb|].
  unfold get_ub at 1. rewrite Hb. cbn [bind ret]. destruct (ub_expanded b) as [f|] eqn:Hf; [|exact I].
  unfold get_ub. destruct (nth_error units (f p)) as [old|]; cbn [bind ret]; [|exact I].
  match goal with |- post (bind (set_ub _ _ _ ?x) _) _ => set (nu := x) end.
  unfold set_ub. destruct (set_nth (f p) nu units) as [units'|] eqn:Es; cbn [bind ret]; [|exact I].
  destruct (index_add_unit (ub_unit nu) (f p) ix) as [ix'|err]; cbn [lift bind]; [|exact I].
  destruct (set_nth_spec nu _ _ _ Es) as (_ & _ & _ & Hother).
  apply IH. rewrite Hother; [exact Hb|]. intro X. exact (Hne f p eq_refl (eq_sym X)).
Qed.

Lemma apply_update_single id e p si units ix u : WF units ix -> nth_error units id = Some u ->
  post (apply_updates [(id, e)] p si units ix)
       (fun r => nth_error (fst r) id = Some (with_unit u (layered_unit (ub_unit u) e p))).
Proof.
  intros W Hu. rewrite <- edit_unit_layered. cbn [apply_updates].
  unfold get_ub at 1. rewrite Hu. cbn [bind ret].
  destruct (index_remove_rec 2 units u ix) as [ix1|s]; [|exact I].
  set (u' := with_unit u (edit_unit (ub_unit u) e p)).
  unfold set_ub. destruct (set_nth id u' units) as [units1|] eqn:Es; cbn [bind ret]; [|exact I].
  destruct (set_nth_spec u' _ _ _ Es) as (_ & _ & Hat & _).
  eapply post_bind with (P := fun r => nth_error (fst r) id = Some u').
  - destruct (ub_expand_si u').
    + unfold update_expanded_units, get_ub. rewrite Hat. cbn [bind ret].
      destruct (expand_si u' si) as [[new|err]|s]; cbn [bind]; try exact I.
      apply update_loop_keeps; [|exact Hat].
      intros f q Hf. destruct (wf_exp _ _ W id u f Hu Hf) as [_ Hall]. destruct (Hall q) as [H _]. exact H.
    + cbn. exact Hat.
  - intros [units2 ix2] H2. cbn [fst] in H2. unfold get_ub. rewrite H2. cbn [bind ret].
    destruct (index_add_unit (ub_unit u') id ix2); cbn [lift bind]; [|exact I]. cbn. exact H2.
Qed.

(* the declared units, in order, are the first units of the builder *)
Lemma add_entries_units q sys es : forall units ix units' ix',
  add_entries q sys es units ix = ROk (units', ix') ->
  map ub_unit units' = map ub_unit units ++ map (fun e => unit_of (q, sys, e)) es.
Proof.
  induction es as [|e r IH]; intros units ix units' ix' H; cbn [add_entries] in H.
  - injection H as <- <-. cbn. rewrite app_nil_r. reflexivity.
  - apply rbind_ok in H as ([[u1 i1] id] & H1 & H). unfold add_unit in H1.
    apply rbind_ok in H1 as (ix1 & _ & H1). injection H1 as <- <- <-.
    apply IH in H. rewrite H, map_app, <- app_assoc. reflexivity.
Qed.

Definition group_decl (g : qgroup) : list (pq * option system * unit_entry) :=
  match qg_units g with
  | Some d => map (fun se => (qg_quantity g, fst se, snd se)) (entries_of d)
  | None => []
  end.

Lemma add_group_units st g st' : add_group st g = ROk st' ->
  map ub_unit (b_units st') = map ub_unit (b_units st) ++ map unit_of (group_decl g).
Proof.
  unfold add_group. intro H. apply rbind_ok in H as ([units ix] & Hu & H).
  apply rbind_ok in H as (best & _ & H). injection H as <-. cbn [b_units].
  unfold group_decl. destruct (qg_units g) as [[l|m i u]|].
  - apply add_entries_units in Hu. rewrite Hu. cbn [entries_of]. rewrite !map_map. reflexivity.
  - apply rbind_ok in Hu as ([u1 i1] & H1 & Hu). apply rbind_ok in Hu as ([u2 i2] & H2 & Hu).
    apply add_entries_units in H1, H2, Hu. rewrite Hu, H2, H1. cbn [entries_of].
    rewrite !map_app, !map_map, <- !app_assoc. reflexivity.
  - injection Hu as <- <-. cbn. rewrite app_nil_r. reflexivity.
Qed.

Lemma add_groups_units gs : forall st st', add_groups st gs = ROk st' ->
  map ub_unit (b_units st') = map ub_unit (b_units st) ++ map unit_of (flat_map group_decl gs).
Proof.
  induction gs as [|g r IH]; intros st st' H; cbn [add_groups] in H.
  - injection H as <-. cbn. rewrite app_nil_r. reflexivity.
  - apply rbind_ok in H as (st1 & H1 & H). apply add_group_units in H1. apply IH in H.
    rewrite H, H1. cbn [flat_map]. rewrite map_app, <- app_assoc. reflexivity.
Qed.

Lemma add_files_units fs : forall st st', add_files st fs = ROk st' ->
  map ub_unit (b_units st') = map ub_unit (b_units st) ++ map unit_of (declared fs) /\
  b_extend st' = b_extend st ++ extend_layers fs.
Proof.
  induction fs as [|f r IH]; intros st st' H; cbn [add_files] in H.
  - injection H as <-. cbn. rewrite !app_nil_r. split; reflexivity.
  - apply rbind_ok in H as (st1 & H1 & H). unfold add_units_file in H1.
    apply rbind_ok in H1 as (st0 & H0 & H1). injection H1 as <-.
    pose proof (add_groups_units _ _ _ H0) as U0. apply add_groups_facts in H0 as (_ & _ & _ & X0 & _).
    apply IH in H as [U E]. cbn [b_units b_extend] in U, E. split.
    + rewrite U, U0. unfold declared. cbn [flat_map]. rewrite map_app, <- app_assoc. reflexivity.
    + rewrite E, X0. unfold extend_layers. cbn [flat_map]. destruct (uf_extend f); [rewrite <- app_assoc|]; reflexivity.
Qed.

Lemma set_nth_map {A B} (f : A -> B) x : forall l i l' y,
  set_nth i x l = Some l' -> nth_error l i = Some y -> f x = f y -> map f l' = map f l.
Proof.
  induction l as [|a r IH]; intros i l' y H Hy E; [destruct i; discriminate|].
  destruct i as [|i]; cbn [set_nth] in H.
  - injection H as <-. cbn in Hy. injection Hy as <-. cbn. rewrite E. reflexivity.
  - destruct (set_nth i x r) as [r'|] eqn:Er; [|discriminate]. injection H as <-. cbn.
    f_equal. exact (IH i r' y Er Hy E).
Qed.

Lemma add_expanded_prefix new : forall ps ids units ix units' ix' ids',
  add_expanded ps new ids units ix = ROk (units', ix', ids') -> exists ext, units' = units ++ ext.
Proof.
  induction ps as [|p r IH]; intros ids units ix units' ix' ids' H; cbn [add_expanded] in H.
  - injection H as <- _ _. exists []. rewrite app_nil_r. reflexivity.
  - apply rbind_ok in H as ([[u1 i1] id] & H1 & H). unfold add_unit in H1.
    apply rbind_ok in H1 as (ix1 & _ & H1). injection H1 as <- <- <-.
    apply IH in H as (ext & ->). exists (new p :: ext). rewrite <- app_assoc. reflexivity.
Qed.

(* the SI expansion of finish appends units and leaves the existing ones as they are *)
Lemma expand_loop_prefix si : forall n id units ix,
  post (expand_loop n id si units ix) (fun r => exists ext, map ub_unit (fst r) = map ub_unit units ++ ext).
Proof.
  induction n as [|n IH]; intros id units ix; cbn [expand_loop].
  - cbn. exists []. rewrite app_nil_r. reflexivity.
  - unfold get_ub. destruct (nth_error units id) as [u|] eqn:Hu; cbn [bind ret]; [|exact I].
    destruct (ub_expand_si u).
    + destruct (expand_si u si) as [[new|err]|s]; cbn [bind]; try exact I.
      destruct (add_expanded all_sipre new (fun _ => O) units ix) as [[[units1 ix1] ids]|err] eqn:Ea;
        cbn [lift bind]; [|exact I].
      apply add_expanded_prefix in Ea as (ext & ->).
      match goal with |- post (bind (bind (set_ub _ _ _ ?x) _) _) _ => set (u' := x) end.
      unfold set_ub. destruct (set_nth id u' (units ++ ext)) as [units2|] eqn:Es; cbn [bind ret]; [|exact I].
      eapply post_weaken; [apply IH|]. intros r2 (ext2 & E2). cbn [fst] in *.
      assert (Hu1 : nth_error (units ++ ext) id = Some u).
      { rewrite nth_error_app1; [exact Hu|]. apply nth_error_Some. congruence. }
      rewrite (set_nth_map ub_unit u' _ _ _ u Es Hu1 eq_refl) in E2.
      rewrite map_app, <- app_assoc in E2. eauto.
    + cbn [bind ret]. apply IH.
Qed.

Lemma build_single_extend files c : build cfg_new files = Done (ROk c) -> single_extend_ok files c.
Proof.
  unfold build. intro H. apply bind_ok in H as (st & Hst & H). unfold lift in Hst. injection Hst as Hst.
  pose proof (rspec_ok _ _ _ (add_files_S1 files bstate0 S1_init) Hst) as [[W0 _] _].
  destruct (add_files_units _ _ _ Hst) as [HU HE]. cbn [bstate0 b_units b_extend map app] in HU, HE.
  unfold finish in H.
  apply bind_ok in H as ([units1 ix1] & H1 & H). apply bind_ok in H as ([units ix] & H2 & H).
  apply bind_ok in H as (bv & _ & H). apply bind_ok in H as (bm & _ & H).
  apply bind_ok in H as (bl & _ & H). apply bind_ok in H as (bt & _ & H).
  apply bind_ok in H as (bh & _ & H). apply bind_ok in H as (fr & _ & H).
  injection H as <-. cbn [c_units].
  intros p key e j d Hext Hd Hkey.
  (* after the SI expansion *)
  assert (I1 : WF units1 ix1).
  { refine (proj1 (spec_ok _ _ _ (expand_loop_spec (b_si st) (length (b_units st)) 0 (b_units st) (b_index st) W0 _ _) H1)).
    - lia.
    - intros i u Hi _ _. split; [lia|]. apply nth_error_Some. congruence. }
  destruct (post_ok _ _ _ (expand_loop_prefix (b_si st) (length (b_units st)) 0 (b_units st) (b_index st)) H1)
    as (ext & Hpre). cbn [fst] in Hpre. rewrite HU in Hpre.
  assert (Hj : nth_error (map ub_unit units1) j = Some (unit_of d)).
  { rewrite Hpre. rewrite nth_error_app1.
    - apply map_nth_error. exact Hd.
    - rewrite map_length. apply nth_error_Some. congruence. }
  apply nth_error_map_inv in Hj as (ub1 & Hub1 & Hud).
  (* the block *)
  rewrite HE, Hext in H2. cbn [apply_extend_groups ex_units ex_prec] in H2.
  apply bind_ok in H2 as (ups & Hr & H2). apply bind_ok in H2 as ([units' ix'] & Hu & H2).
  injection H2 as <- <-.
  assert (Hups : ups = [(j, e)]).
  { cbn [resolve_entries] in Hr. unfold get_unit_id in Hr.
    rewrite (wf_fwd _ _ I1 j ub1 key Hub1) in Hr by (rewrite <- Hud; exact Hkey).
    cbn [lift bind existsb] in Hr. unfold get_ub in Hr. rewrite Hub1 in Hr. cbn [bind ret] in Hr.
    destruct (_ && _); [discriminate|]. injection Hr as <-. reflexivity. }
  subst ups.
  pose proof (post_ok _ _ _ (apply_update_single j e p (b_si st) units1 ix1 ub1 I1 Hub1) Hu) as Hfin.
  cbn [fst] in Hfin. apply (map_nth_error ub_unit) in Hfin. cbn [c_units]. rewrite Hfin. cbn [with_unit ub_unit].
  rewrite <- Hud. reflexivity.
Qed.

Lemma resolve_entries_sound_ok units ix es ups : WF units ix ->
  resolve_entries es units ix [] = Done (ROk ups) ->
  Forall2 (fun ke ie => snd ke = snd ie /\
             exists u, nth_error units (fst ie) = Some u /\ In (fst ke) (all_keys (ub_unit u)))
          es ups.
Proof.
  intros W H. destruct (post_ok _ _ _ (resolve_entries_sound units ix W es []) H) as (new & -> & F). exact F.
Qed.

(* --- fractions: unit > quantity > system > all, later layers winning ------------ *)

Lemma qmap_get_remove {V} q q' (m : list (pq * V)) :
  qmap_get q (qmap_remove q' m) = if pq_eqb q q' then None else qmap_get q m.
Proof.
  induction m as [|[k v] r IH]; cbn [qmap_remove qmap_get]; [destruct (pq_eqb q q'); reflexivity|].
  destruct (pq_eqb q' k) eqn:E.
  - rewrite IH. apply pq_eqb_eq in E. subst k. destruct (pq_eqb q q'); reflexivity.
  - cbn [qmap_get]. rewrite IH. destruct (pq_eqb q k) eqn:E2; [|reflexivity].
    apply pq_eqb_eq in E2. subst k. rewrite pq_eqb_sym, E. reflexivity.
Qed.

Lemma qmap_get_insert {V} q q' (v : V) m :
  qmap_get q (qmap_insert q' v m) = if pq_eqb q q' then Some v else qmap_get q m.
Proof. unfold qmap_insert. cbn [qmap_get]. rewrite qmap_get_remove. destruct (pq_eqb q q'); reflexivity. Qed.

Lemma nmap_get_remove {V} k k' (m : list (nat * V)) :
  nmap_get k (nmap_remove k' m) = if Nat.eqb k k' then None else nmap_get k m.
Proof.
  induction m as [|[x v] r IH]; cbn [nmap_remove nmap_get]; [destruct (Nat.eqb k k'); reflexivity|].
  destruct (Nat.eqb k' x) eqn:E.
  - rewrite IH. apply Nat.eqb_eq in E. subst x. destruct (Nat.eqb k k'); reflexivity.
  - cbn [nmap_get]. rewrite IH. destruct (Nat.eqb k x) eqn:E2; [|reflexivity].
    apply Nat.eqb_eq in E2. subst x. rewrite Nat.eqb_sym, E. reflexivity.
Qed.

Lemma nmap_get_insert {V} k k' (v : V) m :
  nmap_get k (nmap_insert k' v m) = if Nat.eqb k k' then Some v else nmap_get k m.
Proof. unfold nmap_insert. cbn [nmap_get]. rewrite nmap_get_remove. destruct (Nat.eqb k k'); reflexivity. Qed.

Lemma frac_quantities_get q : forall frs acc accw,
  qmap_get q acc = option_map fw_get accw ->
  qmap_get q (fold_left (fun acc cfg =>
               fold_left (fun acc e => qmap_insert (fst e) (fw_get (snd e)) acc) (fr_quantity cfg) acc) frs acc) =
  option_map fw_get (fold_left (fun acc fr =>
               fold_left (fun acc e => if pq_eqb (fst e) q then Some (snd e) else acc) (fr_quantity fr) acc) frs accw).
Proof.
  induction frs as [|f r IH]; intros acc accw H; cbn [fold_left]; [exact H|].
  apply IH. clear IH. generalize dependent accw. revert acc.
  induction (fr_quantity f) as [|[k w] es IHe]; intros acc accw H; cbn [fold_left]; [exact H|].
  apply IHe. cbn [fst snd]. rewrite qmap_get_insert, pq_eqb_sym. destruct (pq_eqb k q); [reflexivity | exact H].
Qed.

Lemma qmap_get_map q (qs : list (pq * frac_helper)) :
  qmap_get q (map (fun e => (fst e, fh_define (snd e))) qs) = option_map fh_define (qmap_get q qs).
Proof.
  induction qs as [|[k v] r IH]; cbn [map qmap_get fst snd]; [reflexivity|].
  destruct (pq_eqb q k); [reflexivity | exact IH].
Qed.

(* the value stored for a per-unit entry [w] of a unit [u] *)
Definition unit_value (al me im : option frac_helper) (qs : list (pq * frac_helper)) (u : cunit) (w : frac_wrapper) : fcfg :=
  fh_define (match reduce_merge (flatten3 (qmap_get (quantity u) qs)
                                          (match usystem u with Some Metric => me | Some Imperial => im | None => None end)
                                          al) with
             | Some i => fh_merge (fw_get w) i
             | None => fw_get w
             end).

Definition entry_step (ix : index) (t : nat) (acc : option frac_wrapper) (e : str * frac_wrapper) :=
  match find (fst e) ix with
  | Some i => if Nat.eqb i t then Some (snd e) else acc
  | None => acc
  end.

Lemma frac_units_of_get al me im qs ix units t ub : nth_error units t = Some ub ->
  forall es acc accw acc',
  nmap_get t acc = option_map (unit_value al me im qs (ub_unit ub)) accw ->
  frac_units_of es al me im qs ix units acc = Done (ROk acc') ->
  nmap_get t acc' = option_map (unit_value al me im qs (ub_unit ub)) (fold_left (entry_step ix t) es accw).
Proof.
  intros Ht. induction es as [|[k w] r IH]; intros acc accw acc' H E; cbn [frac_units_of] in E.
  - injection E as <-. exact H.
  - apply bind_ok in E as (id & Hid & E). apply bind_ok in E as (u & Hu & E).
    unfold lift, get_unit_id in Hid. destruct (find k ix) as [i|] eqn:Hf; [|discriminate]. injection Hid as ->.
    unfold get_ub in Hu. destruct (nth_error units id) as [u0|] eqn:Hn; [|discriminate]. injection Hu as ->.
    cbn [fold_left]. eapply IH; [|exact E].
    unfold entry_step. cbn [fst snd]. rewrite Hf, nmap_get_insert, Nat.eqb_sym.
    destruct (Nat.eqb id t) eqn:Eq; [|exact H].
    apply Nat.eqb_eq in Eq. subst id. rewrite Ht in Hn. injection Hn as <-. reflexivity.
Qed.

Lemma frac_units_get al me im qs ix units t ub : nth_error units t = Some ub ->
  forall frs acc accw acc',
  nmap_get t acc = option_map (unit_value al me im qs (ub_unit ub)) accw ->
  frac_units frs al me im qs ix units acc = Done (ROk acc') ->
  nmap_get t acc' = option_map (unit_value al me im qs (ub_unit ub))
                      (fold_left (fun a fr => fold_left (entry_step ix t) (fr_unit fr) a) frs accw).
Proof.
  intros Ht. induction frs as [|f r IH]; intros acc accw acc' H E; cbn [frac_units] in E.
  - injection E as <-. exact H.
  - apply bind_ok in E as (acc1 & E1 & E). cbn [fold_left]. eapply IH; [|exact E].
    eapply frac_units_of_get; eassumption.
Qed.

Lemma merged_is_first_defined h (oq os oa : option frac_wrapper) w : h = fw_get w ->
  match reduce_merge (flatten3 (option_map fw_get oq) (option_map fw_get os) (option_map fw_get oa)) with
  | Some i => fh_merge h i
  | None => h
  end =
  let l := [Some w; oq; os; oa] in
  {| fh_enabled := first_defined fh_enabled l; fh_accuracy := first_defined fh_accuracy l;
     fh_max_den := first_defined fh_max_den l; fh_max_whole := first_defined fh_max_whole l |}.
Proof.
  intros ->. destruct oq as [wq|], os as [ws|], oa as [wa|];
    cbn [option_map flatten3 app reduce_merge fold_left first_defined];
    unfold fh_merge, o_or; cbn [fh_enabled fh_accuracy fh_max_den fh_max_whole];
    destruct (fw_get w) as [e1 a1 d1 m1]; cbn [fh_enabled fh_accuracy fh_max_den fh_max_whole];
    try destruct (fw_get wq) as [e2 a2 d2 m2]; try destruct (fw_get ws) as [e3 a3 d3 m3];
    try destruct (fw_get wa) as [e4 a4 d4 m4]; cbn [fh_enabled fh_accuracy fh_max_den fh_max_whole];
    f_equal;
    repeat match goal with |- context [match ?x with Some _ => _ | None => _ end] => is_var x; destruct x end;
    reflexivity.
Qed.

Lemma build_fractions_layers files c : build cfg_new files = Done (ROk c) ->
  forall t u, nth_error (c_units c) t = Some u ->
    fractions_config (c_fractions c) (usystem u) (quantity u) t = resolved_fractions files c t u.
Proof.
  unfold build. intro H. apply bind_ok in H as (st & Hst & H). unfold lift in Hst. injection Hst as Hst.
  apply add_files_facts in Hst as (_ & A2 & _ & _). cbn [bstate0 b_fractions app] in A2.
  apply finish_facts in H as (units & Hu & _ & _ & Hf). rewrite A2 in Hf.
  intros t u Ht. rewrite Hu in Ht. apply nth_error_map_inv in Ht as (ub & Hub & ->).
  unfold build_fractions_config in Hf. apply bind_ok in Hf as (us & Hus & Hf). injection Hf as Hf.
  set (layers := fractions_layers files) in *.
  pose proof (frac_units_get _ _ _ _ _ _ t ub Hub layers [] None us eq_refl Hus) as Hget.
  unfold fractions_config, resolved_fractions. fold layers. rewrite <- Hf.
  cbn [cf_unit cf_quantity cf_metric cf_imperial cf_all].
  rewrite Hget. unfold last_unit_entry, find_unit.
  change (fun (acc : option frac_wrapper) (fr : fractions) => fold_left
            (fun acc0 e => match find (fst e) (c_index c) with
                           | Some i => if Nat.eqb i t then Some (snd e) else acc0 | None => acc0 end) (fr_unit fr) acc)
    with (fun a fr => fold_left (entry_step (c_index c) t) (fr_unit fr) a).
  destruct (fold_left (fun a fr => fold_left (entry_step (c_index c) t) (fr_unit fr) a) layers None) as [w|].
  - cbn [option_map o_or o_get]. unfold unit_value. f_equal.
    unfold frac_quantities, last_some.
    rewrite (frac_quantities_get (quantity (ub_unit ub)) layers [] None eq_refl).
    rewrite !(last_some_last_set _ _ None).
    replace (match usystem (ub_unit ub) with
             | Some Metric => option_map fw_get (last_set fr_metric layers None)
             | Some Imperial => option_map fw_get (last_set fr_imperial layers None)
             | None => None end)
      with (option_map fw_get (system_setting layers (usystem (ub_unit ub))))
      by (destruct (usystem (ub_unit ub)) as [[|]|]; reflexivity).
    apply merged_is_first_defined. reflexivity.
  - cbn [option_map o_or]. rewrite qmap_get_map. unfold frac_quantities, last_some.
    rewrite (frac_quantities_get (quantity (ub_unit ub)) layers [] None eq_refl).
    rewrite !(last_some_last_set _ _ None).
    fold (last_quantity (quantity (ub_unit ub)) layers).
    destruct (last_quantity (quantity (ub_unit ub)) layers) as [wq|]; [reflexivity|].
    cbn [option_map o_or]. unfold system_setting.
    destruct (usystem (ub_unit ub)) as [[|]|];
      repeat match goal with |- context [last_set ?s layers None] => destruct (last_set s layers None) end;
      reflexivity.
Qed.
