(* Proofs about Model/Builder.v for C16. *)
From Coq Require Import Lia Permutation.
From CL Require Import Base.StrLemmas Model.Builder Model.BuilderSpec.
Local Open Scope N_scope.

(* ------------------------------------------------------------------ *)
(* Hoare-style reading of the two result monads                         *)

Definition rspec {A} (r : bres A) (P : A -> Prop) : Prop :=
  match r with ROk a => P a | RErr _ => True end.

(* never a panic; on success the post-condition *)
Definition spec {A} (m : M A) (P : A -> Prop) : Prop :=
  match m with Panic _ => False | Done (RErr _) => True | Done (ROk a) => P a end.

Lemma rspec_bind {A B} (r : bres A) (f : A -> bres B) P Q :
  rspec r P -> (forall a, P a -> rspec (f a) Q) -> rspec (rbind r f) Q.
Proof. destruct r; cbn; auto. Qed.

Lemma spec_bind {A B} (m : M A) (f : A -> M B) P Q :
  spec m P -> (forall a, P a -> spec (f a) Q) -> spec (bind m f) Q.
Proof. destruct m as [[a|e]|s]; cbn; auto. Qed.

Lemma spec_lift {A} (r : bres A) P : rspec r P -> spec (lift r) P.
Proof. destruct r; cbn; auto. Qed.

Lemma spec_weaken {A} (m : M A) (P Q : A -> Prop) : spec m P -> (forall a, P a -> Q a) -> spec m Q.
Proof. destruct m as [[a|e]|s]; cbn; auto. Qed.

Lemma rspec_weaken {A} (r : bres A) (P Q : A -> Prop) : rspec r P -> (forall a, P a -> Q a) -> rspec r Q.
Proof. destruct r; cbn; auto. Qed.

Lemma spec_ok {A} (m : M A) P a : spec m P -> m = Done (ROk a) -> P a.
Proof. intros H ->. exact H. Qed.

Lemma spec_total {A} (m : M A) P : spec m P -> exists r, m = Done r.
Proof. destruct m as [r|s]; cbn; [eauto | tauto]. Qed.

Lemma rspec_ok {A} (r : bres A) P a : rspec r P -> r = ROk a -> P a.
Proof. intros H ->. exact H. Qed.

(* rspec with the equation: what one gets by case analysis *)
Lemma rspec_intro {A} (r : bres A) (P : A -> Prop) : (forall a, r = ROk a -> P a) -> rspec r P.
Proof. destruct r; cbn; auto. Qed.

(* ------------------------------------------------------------------ *)
(* the index as a finite map                                            *)

Lemma str_eqb_sym a b : str_eqb a b = str_eqb b a.
Proof.
  destruct (str_eqb a b) eqn:E.
  - apply str_eqb_eq in E. subst. symmetry. apply str_eqb_refl.
  - symmetry. apply str_eqb_neq. apply str_eqb_neq in E. congruence.
Qed.

Lemma find_remove_same k ix : find k (remove k ix) = None.
Proof.
  induction ix as [|[k' v] r IH]; cbn [remove find]; [reflexivity|].
  destruct (str_eqb k k') eqn:E; [exact IH|]. cbn [find]. rewrite E. exact IH.
Qed.

Lemma find_remove_other k k' ix : k <> k' -> find k' (remove k ix) = find k' ix.
Proof.
  intro N. induction ix as [|[k2 v] r IH]; cbn [remove find]; [reflexivity|].
  destruct (str_eqb k k2) eqn:E.
  - apply str_eqb_eq in E. subst k2.
    assert (str_eqb k' k = false) as -> by (apply str_eqb_neq; congruence). exact IH.
  - cbn [find]. rewrite IH. reflexivity.
Qed.

Lemma find_remove k k' ix : find k' (remove k ix) = if str_eqb k' k then None else find k' ix.
Proof.
  destruct (str_eqb k' k) eqn:E.
  - apply str_eqb_eq in E. subst. apply find_remove_same.
  - apply find_remove_other. apply str_eqb_neq in E. congruence.
Qed.

Lemma find_insert k v ix k' :
  find k' (fst (insert k v ix)) = if str_eqb k' k then Some v else find k' ix.
Proof.
  unfold insert. cbn [fst find]. destruct (str_eqb k' k) eqn:E; [reflexivity|].
  rewrite find_remove, E. reflexivity.
Qed.

Definition in_keys (k : str) (ks : list str) : bool := existsb (str_eqb k) ks.

Lemma in_keys_In k ks : in_keys k ks = true <-> In k ks.
Proof.
  unfold in_keys. rewrite existsb_exists. split.
  - intros (x & Hx & E). apply str_eqb_eq in E. subst. exact Hx.
  - intro H. exists k. split; [exact H | apply str_eqb_refl].
Qed.

Lemma in_keys_not k ks : in_keys k ks = false <-> ~ In k ks.
Proof.
  rewrite <- in_keys_In. destruct (in_keys k ks); split; intro H; try congruence; try tauto.
Qed.

(* UnitIndex::add_unit on success: the keys were new, pairwise different and not blank, and
   the index is extended by exactly them *)
Lemma add_keys_spec ks : forall id ix ix',
  index_add_keys ks id ix = ROk ix' ->
  NoDup ks /\ (forall k, In k ks -> find k ix = None /\ blank_key k = false) /\
  (forall k, find k ix' = if in_keys k ks then Some id else find k ix).
Proof.
  induction ks as [|k r IH]; intros id ix ix' H; cbn [index_add_keys] in H.
  - injection H as <-. split; [constructor|]. split; [intros k []|]. intro k. reflexivity.
  - destruct (blank_key k) eqn:Eb; [discriminate|].
    unfold insert in H. destruct (find k ix) eqn:Ef; [discriminate|].
    apply IH in H as (Hnd & Hnew & Hfind).
    assert (Hk : ~ In k r).
    { intro Hin. destruct (Hnew k Hin) as [Hn _]. cbn [find] in Hn.
      rewrite str_eqb_refl in Hn. discriminate. }
    split; [|split].
    + constructor; assumption.
    + intros k0 [<-|Hin]; [split; assumption|].
      destruct (Hnew k0 Hin) as [Hn Hb]. split; [|exact Hb]. cbn [find] in Hn.
      destruct (str_eqb k0 k) eqn:E; [discriminate|]. rewrite find_remove, E in Hn. exact Hn.
    + intro k0. rewrite Hfind. cbn [in_keys existsb find].
      destruct (in_keys k0 r) eqn:Ein.
      * unfold in_keys in Ein. rewrite Ein, orb_true_r. reflexivity.
      * unfold in_keys in Ein. rewrite Ein, orb_false_r.
        destruct (str_eqb k0 k) eqn:E; [reflexivity|]. rewrite find_remove, E. reflexivity.
Qed.

Lemma add_unit_index_spec u id ix ix' :
  index_add_unit u id ix = ROk ix' ->
  all_keys u <> [] /\ NoDup (all_keys u) /\
  (forall k, In k (all_keys u) -> find k ix = None /\ blank_key k = false) /\
  (forall k, find k ix' = if in_keys k (all_keys u) then Some id else find k ix).
Proof.
  unfold index_add_unit, rbind. intro H.
  destruct (index_add_keys (all_keys u) id ix) as [ix1|e] eqn:E; [|discriminate].
  apply add_keys_spec in E as (H1 & H2 & H3).
  destruct (all_keys u) eqn:Ek; [discriminate|]. injection H as <-.
  split; [discriminate|]. split; [assumption|]. split; assumption.
Qed.

Lemma remove_unit_find u ix k :
  find k (index_remove_unit u ix) = if in_keys k (all_keys u) then None else find k ix.
Proof.
  unfold index_remove_unit. generalize (all_keys u) as ks. intro ks. revert ix.
  induction ks as [|k0 r IH]; intro ix; cbn [fold_left in_keys existsb]; [reflexivity|].
  rewrite IH. fold (in_keys k r). destruct (in_keys k r); [rewrite orb_true_r; reflexivity|].
  rewrite orb_false_r, find_remove. reflexivity.
Qed.

(* ------------------------------------------------------------------ *)
(* the invariant of the builder: units and index                        *)

Definition keys_at (units : list ubuilder) (i : nat) : list str :=
  match nth_error units i with Some u => all_keys (ub_unit u) | None => [] end.

Record WF (units : list ubuilder) (ix : index) : Prop := {
  (* every key of every unit resolves to it *)
  wf_fwd : forall i u k, nth_error units i = Some u -> In k (all_keys (ub_unit u)) -> find k ix = Some i;
  (* and the index holds nothing else *)
  wf_bwd : forall k i, find k ix = Some i ->
             exists u, nth_error units i = Some u /\ In k (all_keys (ub_unit u));
  (* keys of a unit: at least one, no repetition, none blank *)
  wf_keys : forall i u, nth_error units i = Some u ->
              all_keys (ub_unit u) <> [] /\ NoDup (all_keys (ub_unit u)) /\
              forall k, In k (all_keys (ub_unit u)) -> blank_key k = false;
  (* the SI expansions of a unit are six other units, which are not expanded further *)
  wf_exp : forall i u f, nth_error units i = Some u -> ub_expanded u = Some f ->
             ub_expand_si u = true /\
             forall p, f p <> i /\ (forall p', f p' = f p -> p' = p) /\
                       exists e, nth_error units (f p) = Some e /\ ub_expanded e = None /\
                                 ub_expand_si e = false;
}.

Lemma WF_nil : WF [] [].
Proof.
  constructor.
  - intros i u k H. destruct i; discriminate.
  - intros k i H. discriminate.
  - intros i u H. destruct i; discriminate.
  - intros i u f H. destruct i; discriminate.
Qed.

Lemma nth_error_snoc {A} (l : list A) x i y :
  nth_error (l ++ [x]) i = Some y ->
  (i < length l)%nat /\ nth_error l i = Some y \/ i = length l /\ y = x.
Proof.
  intro H. destruct (Nat.lt_ge_cases i (length l)) as [L|L].
  - left. split; [exact L|]. rewrite nth_error_app1 in H by exact L. exact H.
  - right. rewrite nth_error_app2 in H by exact L.
    destruct (i - length l)%nat as [|n] eqn:E.
    + cbn in H. injection H as <-. split; [lia | reflexivity].
    + cbn in H. destruct n; discriminate.
Qed.

Lemma nth_error_snoc_old {A} (l : list A) x i y :
  nth_error l i = Some y -> nth_error (l ++ [x]) i = Some y.
Proof.
  intro H. rewrite nth_error_app1; [exact H|]. apply nth_error_Some. congruence.
Qed.

Lemma nth_error_snoc_new {A} (l : list A) x : nth_error (l ++ [x]) (length l) = Some x.
Proof. rewrite nth_error_app2 by lia. rewrite Nat.sub_diag. reflexivity. Qed.

(* ConverterBuilder::add_unit with a unit that has no expansion record *)
Lemma add_unit_WF units ix u :
  WF units ix -> ub_expanded u = None ->
  rspec (add_unit units ix u)
        (fun r => let '(units', ix', id) := r in
                  units' = units ++ [u] /\ id = length units /\ WF units' ix').
Proof.
  intros W Hn. unfold add_unit, rbind.
  destruct (index_add_unit (ub_unit u) (length units) ix) as [ix'|e] eqn:E; cbn [rspec]; [|exact I].
  apply add_unit_index_spec in E as (Hne & Hnd & Hnew & Hfind).
  split; [reflexivity|]. split; [reflexivity|].
  constructor.
  - intros i v k Hi Hk. rewrite Hfind. apply nth_error_snoc in Hi as [[L Hi]|[-> ->]].
    + destruct (in_keys k (all_keys (ub_unit u))) eqn:Ein.
      * apply in_keys_In in Ein. destruct (Hnew k Ein) as [Hf _].
        rewrite (wf_fwd _ _ W i v k Hi Hk) in Hf. discriminate.
      * exact (wf_fwd _ _ W i v k Hi Hk).
    + apply in_keys_In in Hk. rewrite Hk. reflexivity.
  - intros k i Hf. rewrite Hfind in Hf.
    destruct (in_keys k (all_keys (ub_unit u))) eqn:Ein.
    + injection Hf as <-. exists u. split; [apply nth_error_snoc_new | apply in_keys_In; exact Ein].
    + destruct (wf_bwd _ _ W k i Hf) as (v & Hv & Hk). exists v.
      split; [apply nth_error_snoc_old; exact Hv | exact Hk].
  - intros i v Hi. apply nth_error_snoc in Hi as [[L Hi]|[-> ->]].
    + exact (wf_keys _ _ W i v Hi).
    + split; [exact Hne|]. split; [exact Hnd|]. intros k Hk. apply Hnew. exact Hk.
  - intros i v f Hi Hf. apply nth_error_snoc in Hi as [[L Hi]|[-> ->]].
    + destruct (wf_exp _ _ W i v f Hi Hf) as [He Hp]. split; [exact He|].
      intro p. destruct (Hp p) as (H1 & H2 & e & H3 & H4). split; [exact H1|]. split; [exact H2|].
      exists e. split; [apply nth_error_snoc_old; exact H3 | exact H4].
    + congruence.
Qed.

(* --- phase 1: add_units_file ------------------------------------------ *)

Definition no_expansion (units : list ubuilder) : Prop :=
  forall i u, nth_error units i = Some u -> ub_expanded u = None.

Lemma no_expansion_snoc units u :
  no_expansion units -> ub_expanded u = None -> no_expansion (units ++ [u]).
Proof.
  intros H Hu i v Hi. apply nth_error_snoc in Hi as [[_ Hi]|[_ ->]]; [exact (H i v Hi) | exact Hu].
Qed.

Definition P1 (r : list ubuilder * index) : Prop := WF (fst r) (snd r) /\ no_expansion (fst r).

Lemma add_entries_P1 q sys es : forall units ix,
  P1 (units, ix) -> rspec (add_entries q sys es units ix) P1.
Proof.
  induction es as [|e r IH]; intros units ix [W N]; cbn [add_entries].
  - cbn. split; assumption.
  - eapply rspec_bind.
    + apply add_unit_WF; [exact W | reflexivity].
    + intros [[units' ix'] id] (-> & _ & W'). apply IH. split; [exact W'|].
      apply no_expansion_snoc; [exact N | reflexivity].
Qed.

Definition BestNonEmpty (best : pq -> option best_units) : Prop :=
  forall q b, best q = Some b -> best_is_empty b = false.

Definition S1 (st : bstate) : Prop :=
  P1 (b_units st, b_index st) /\ BestNonEmpty (b_best st).

Lemma add_group_S1 st g : S1 st -> rspec (add_group st g) S1.
Proof.
  intros [HP HB]. unfold add_group.
  eapply rspec_bind with (P := P1).
  - destruct (qg_units g) as [[l|m i u]|].
    + apply add_entries_P1. exact HP.
    + eapply rspec_bind; [apply add_entries_P1; exact HP|]. intros [u1 i1] H1.
      eapply rspec_bind; [apply add_entries_P1; exact H1|]. intros [u2 i2] H2.
      apply add_entries_P1. exact H2.
    + cbn. exact HP.
  - intros [units ix] HP'.
    eapply rspec_bind with (P := BestNonEmpty).
    + destruct (qg_best g) as [b|]; [|cbn; exact HB].
      destruct (best_is_empty b) eqn:Eb; cbn; [exact I|].
      intros q b' H. unfold set_best in H. destruct (pq_eqb q (qg_quantity g)).
      * injection H as <-. exact Eb.
      * exact (HB q b' H).
    + intros best Hbest. cbn. split; assumption.
Qed.

Lemma add_groups_S1 gs : forall st, S1 st -> rspec (add_groups st gs) S1.
Proof.
  induction gs as [|g r IH]; intros st H; cbn [add_groups]; [exact H|].
  eapply rspec_bind; [apply add_group_S1; exact H|]. intros st' H'. apply IH. exact H'.
Qed.

Lemma add_units_file_S1 st f : S1 st -> rspec (add_units_file st f) S1.
Proof.
  intro H. unfold add_units_file. eapply rspec_bind; [apply add_groups_S1; exact H|].
  intros st1 [HP HB]. cbn. split; assumption.
Qed.

Lemma add_files_S1 fs : forall st, S1 st -> rspec (add_files st fs) S1.
Proof.
  induction fs as [|f r IH]; intros st H; cbn [add_files]; [exact H|].
  eapply rspec_bind; [apply add_units_file_S1; exact H|]. intros st' H'. apply IH. exact H'.
Qed.

Lemma S1_init : S1 bstate0.
Proof.
  split; [split|].
  - exact WF_nil.
  - intros i u H. destruct i; discriminate.
  - intros q b H. discriminate.
Qed.

(* --- lists: set_nth ------------------------------------------------------ *)

Lemma set_nth_spec {A} (x : A) : forall l i l',
  set_nth i x l = Some l' ->
  (i < length l)%nat /\ length l' = length l /\ nth_error l' i = Some x /\
  forall j, j <> i -> nth_error l' j = nth_error l j.
Proof.
  induction l as [|y r IH]; intros i l' H; [destruct i; discriminate|].
  destruct i as [|i]; cbn [set_nth] in H.
  - injection H as <-. cbn. repeat split; try lia. intros [|j] Hj; [congruence | reflexivity].
  - destruct (set_nth i x r) as [r'|] eqn:E; [|discriminate]. injection H as <-.
    destruct (IH i r' E) as (H1 & H2 & H3 & H4). cbn. repeat split; try lia; [exact H3|].
    intros [|j] Hj; [reflexivity|]. cbn. apply H4. congruence.
Qed.

Lemma set_nth_some {A} (x : A) : forall l i, (i < length l)%nat -> exists l', set_nth i x l = Some l'.
Proof.
  induction l as [|y r IH]; intros i H; [cbn in H; lia|].
  destruct i as [|i]; cbn [set_nth]; [eauto|].
  destruct (IH i) as [r' ->]; [cbn in H; lia|]. eauto.
Qed.

Lemma sipre_eqb_eq a b : sipre_eqb a b = true <-> a = b.
Proof. destruct a, b; cbn; split; intro H; congruence. Qed.

Lemma pq_eqb_eq a b : pq_eqb a b = true <-> a = b.
Proof. destruct a, b; cbn; split; intro H; congruence. Qed.

Lemma NoDup_all_sipre : NoDup all_sipre.
Proof.
  unfold all_sipre. repeat constructor; cbn; intro H;
    repeat (destruct H as [H|H]; [discriminate|]); exact H.
Qed.

Lemma In_all_sipre p : In p all_sipre.
Proof. destruct p; cbn; tauto. Qed.

(* --- phase 2: SI expansion in finish ------------------------------------ *)

Definition fresh_unit (u : ubuilder) : Prop := ub_expanded u = None /\ ub_expand_si u = false.

Lemma add_expanded_spec new : (forall p, fresh_unit (new p)) ->
  forall ps ids units ix, NoDup ps -> WF units ix ->
  rspec (add_expanded ps new ids units ix)
        (fun r => let '(units', ix', ids') := r in
           WF units' ix' /\ (exists ext, units' = units ++ ext /\ Forall fresh_unit ext) /\
           (forall p, In p ps ->
              nth_error units' (ids' p) = Some (new p) /\ (length units <= ids' p)%nat /\
              forall p', In p' ps -> ids' p' = ids' p -> p' = p) /\
           (forall p, ~ In p ps -> ids' p = ids p)).
Proof.
  intro Hnew. induction ps as [|p r IH]; intros ids units ix ND W; cbn [add_expanded].
  - cbn. split; [exact W|]. split; [exists []; rewrite app_nil_r; split; [reflexivity|constructor]|].
    split; [intros p []|]. reflexivity.
  - inversion ND as [|? ? Hp ND']; subst.
    eapply rspec_bind; [apply add_unit_WF; [exact W | apply Hnew]|].
    intros [[units1 ix1] id] (-> & -> & W1).
    eapply rspec_weaken; [apply IH; [exact ND' | exact W1]|].
    intros [[units' ix'] ids'] (W' & (ext & -> & Hext) & Hin & Hout).
    split; [exact W'|].
    split; [exists (new p :: ext); rewrite <- app_assoc; split; [reflexivity | constructor; [apply Hnew | exact Hext]]|].
    assert (Hidp : ids' p = length units).
    { rewrite Hout by exact Hp. unfold set_id. rewrite (proj2 (sipre_eqb_eq p p) eq_refl). reflexivity. }
    split.
    + intros p0 [<-|Hp0].
      * rewrite Hidp. split; [|split; [lia|]].
        { rewrite <- app_assoc. rewrite nth_error_app2 by lia. rewrite Nat.sub_diag. reflexivity. }
        intros p' [<-|Hp'] He; [reflexivity|].
        destruct (Hin p' Hp') as (_ & Hge & _). rewrite app_length in Hge. cbn in Hge. lia.
      * destruct (Hin p0 Hp0) as (H1 & H2 & H3). split; [exact H1|].
        rewrite app_length in H2. cbn in H2. split; [lia|].
        intros p' [<-|Hp'] He; [|apply H3; assumption]. rewrite Hidp in He. lia.
    + intros p0 Hp0. rewrite Hout by (intro; apply Hp0; right; assumption).
      unfold set_id. destruct (sipre_eqb p0 p) eqn:E; [|reflexivity].
      apply sipre_eqb_eq in E. subst. exfalso. apply Hp0. left. reflexivity.
Qed.

(* every expand_si unit has its expansion record *)
Definition AllExpanded (units : list ubuilder) : Prop :=
  forall i u, nth_error units i = Some u -> ub_expand_si u = true -> ub_expanded u <> None.

Lemma expanded_unit_fresh u pt st p : fresh_unit (expanded_unit u pt st p).
Proof. split; reflexivity. Qed.

Lemma expand_loop_spec si : forall n id units ix,
  WF units ix -> (id + n <= length units)%nat ->
  (forall i u, nth_error units i = Some u -> ub_expand_si u = true -> ub_expanded u = None ->
               (id <= i < id + n)%nat) ->
  spec (expand_loop n id si units ix)
       (fun r => WF (fst r) (snd r) /\ AllExpanded (fst r)).
Proof.
  induction n as [|n IH]; intros id units ix W Hlen Hpend; cbn [expand_loop].
  - cbn. split; [exact W|]. intros i u Hi He Hn. specialize (Hpend i u Hi He Hn). lia.
  - unfold get_ub. destruct (nth_error units id) as [u|] eqn:Eu.
    2:{ apply nth_error_None in Eu. lia. }
    cbn [bind ret]. destruct (ub_expand_si u) eqn:Ex.
    + unfold expand_si. rewrite Ex. cbn [negb].
      destruct (si_prefixes si) as [pt|]; [|cbn; exact I].
      destruct (si_symbol_prefixes si) as [st|]; [|cbn; exact I].
      cbn [bind ret].
      pose proof (add_expanded_spec (expanded_unit (ub_unit u) pt st)
                    (expanded_unit_fresh (ub_unit u) pt st) all_sipre (fun _ => O) units ix
                    NoDup_all_sipre W) as HA.
      destruct (add_expanded all_sipre (expanded_unit (ub_unit u) pt st) (fun _ => O) units ix)
        as [[[units1 ix1] ids]|e]; cbn [lift bind]; [|exact I].
      cbn [rspec] in HA. destruct HA as (W1 & (ext & -> & Hext) & Hin & _).
      unfold set_ub.
      set (u' := {| ub_unit := ub_unit u; ub_is_expanded := ub_is_expanded u;
                    ub_expand_si := true; ub_expanded := Some ids |}).
      destruct (set_nth_some u' (units ++ ext) id) as [units2 E2].
      { rewrite app_length. lia. }
      rewrite E2. cbn [bind ret].
      destruct (set_nth_spec u' _ _ _ E2) as (_ & Hlen2 & Hat & Hother).
      assert (Hu1 : nth_error (units ++ ext) id = Some u).
      { rewrite nth_error_app1 by lia. exact Eu. }
      assert (Hidp : forall p, ids p <> id).
      { intro p. destruct (Hin p (In_all_sipre p)) as (_ & Hge & _). lia. }
      apply IH.
      * constructor.
        -- intros i v k Hi Hk. destruct (Nat.eq_dec i id) as [->|Hne].
           ++ rewrite Hat in Hi. injection Hi as <-. exact (wf_fwd _ _ W1 id u k Hu1 Hk).
           ++ rewrite Hother in Hi by exact Hne. exact (wf_fwd _ _ W1 i v k Hi Hk).
        -- intros k i Hf. destruct (wf_bwd _ _ W1 k i Hf) as (v & Hv & Hk).
           destruct (Nat.eq_dec i id) as [->|Hne].
           ++ exists u'. split; [exact Hat|]. rewrite Hu1 in Hv. injection Hv as <-. exact Hk.
           ++ exists v. split; [rewrite Hother by exact Hne; exact Hv | exact Hk].
        -- intros i v Hi. destruct (Nat.eq_dec i id) as [->|Hne].
           ++ rewrite Hat in Hi. injection Hi as <-. exact (wf_keys _ _ W1 id u Hu1).
           ++ rewrite Hother in Hi by exact Hne. exact (wf_keys _ _ W1 i v Hi).
        -- intros i v f Hi Hf. destruct (Nat.eq_dec i id) as [->|Hne].
           ++ rewrite Hat in Hi. injection Hi as <-. cbn in Hf. injection Hf as <-.
              split; [reflexivity|]. intro p.
              destruct (Hin p (In_all_sipre p)) as (H1 & H2 & H3).
              split; [apply Hidp|]. split; [intros p' He; apply H3; [apply In_all_sipre | exact He]|].
              exists (expanded_unit (ub_unit u) pt st p).
              split; [rewrite Hother by apply Hidp; exact H1 | split; reflexivity].
           ++ rewrite Hother in Hi by exact Hne.
              destruct (wf_exp _ _ W1 i v f Hi Hf) as [He Hp]. split; [exact He|].
              intro p. destruct (Hp p) as (H1 & H2 & e & H3 & H4 & H5).
              split; [exact H1|]. split; [exact H2|]. exists e.
              assert (f p <> id) by (intro Eq; rewrite Eq, Hu1 in H3; injection H3 as <-; congruence).
              split; [rewrite Hother by assumption; exact H3 | split; assumption].
      * rewrite Hlen2, app_length. lia.
      * intros i v Hi He Hn. destruct (Nat.eq_dec i id) as [->|Hne].
        -- rewrite Hat in Hi. injection Hi as <-. discriminate.
        -- rewrite Hother in Hi by exact Hne.
           destruct (Nat.lt_ge_cases i (length units)) as [L|L].
           ++ rewrite nth_error_app1 in Hi by exact L. specialize (Hpend i v Hi He Hn). lia.
           ++ rewrite nth_error_app2 in Hi by exact L. apply nth_error_In in Hi.
              rewrite Forall_forall in Hext. destruct (Hext v Hi) as [_ Hf]. congruence.
    + cbn [bind ret]. apply IH; [exact W | lia |].
      intros i v Hi He Hn. specialize (Hpend i v Hi He Hn).
      destruct (Nat.eq_dec i id) as [->|Hne]; [congruence | lia].
Qed.
