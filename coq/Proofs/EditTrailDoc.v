(* Property C17, the trailing edit at DOCUMENT level: blanks (U+0020) and / or a line comment appended
   at the end of any line of the Cooklang part of a source - inside a step, a component name, an
   alias, a note, a quantity, a modifier group, a metadata line, a section header, a paragraph.

   [trail_events(_fm)]   the event streams of the source and of the edited source are related by [fwr]
                         (EditTrailDefs.v), hence have the same observation and the same validity
                         (EditTrailObs.v: [fwr_observed], [fwr_has_error]);
   [trail_parse(_fm)]    CooklangParser::parse ([parse_model_cfg], [parse_meta_model] of
                         Proofs/EditAnalysis.v): same recipe up to blank space in step and paragraph
                         text ([rnorm] of EditTrailAnalysis.v), same validity, same panic site if
                         any, same metadata map. *)
From Coq Require Import List Lia.
From CL Require Import Base.StrLemmas Model.Lexer Model.PText Model.CommentMask Model.Parser Model.Edits Model.EventBridge Model.MetaMap
  Proofs.LexerProofs Proofs.MaskProofs Proofs.EditProofs Proofs.EditParserProofs Proofs.EditLink Proofs.ParserTotal
  Proofs.EditSimDefs Proofs.EditSimDoc Proofs.EditInsDefs Proofs.ParserFM Proofs.EditSimFM2 Proofs.ParseTotal Proofs.EditAnalysis.
From CL Require Model.Events Model.Analysis Proofs.AnalysisTotal.
From CL Require Import Proofs.EditTrailDefs Proofs.EditTrailStr Proofs.EditTrailPrim Proofs.EditTrailQty Proofs.EditTrailFun Proofs.EditTrailLine Proofs.EditTrailStep Proofs.EditTrailSplit Proofs.EditTrailLex Proofs.EditTrailObs Proofs.EditTrailAnalysis.
Import ListNotations.

Lemma evw_refl l : evw l l.
Proof. induction l as [|e r IH]; [constructor | apply evw_cons; [reflexivity | exact IH]]. Qed.

(* what is appended to a line: U+0020s, then possibly a line comment (then at least one blank) *)
Definition trailing_text (w lc : str) : Prop :=
  sp32 w /\ (lc = [] \/ exists c, lc = line_comment_text c /\ no_newline c = true /\ w <> []).

Section TrailDoc.
  Variable U : N -> ucls.
  Variable cfg : pcfg.

  Theorem blocks_w f1 f2 ts1 ts2 old evs1 evs2 :
    W ts1 ts2 -> evw evs1 evs2 -> OR evw (blocks_loop cfg f1 ts1 old evs1) (blocks_loop cfg f2 ts2 old evs2).
  Proof. apply (blocks_loop_w cfg (block_w cfg)). Qed.

  Lemma blocks_fwr f1 f2 ts1 ts2 old evs :
    W ts1 ts2 ->
    OR fwr (obind (blocks_loop cfg f1 ts1 old evs) (fun e => Done (rev e)))
           (obind (blocks_loop cfg f2 ts2 old evs) (fun e => Done (rev e))).
  Proof.
    intro H. pose proof (blocks_w f1 f2 ts1 ts2 old evs evs H (evw_refl evs)) as R.
    unfold OR in *. destruct (blocks_loop cfg f1 ts1 old evs) as [e1|]; cbn [obind]; [|exact I].
    destruct (blocks_loop cfg f2 ts2 old evs) as [e2|]; cbn [obind]; [|exact I].
    apply evw_fwr. exact R.
  Qed.

  Theorem events_w s1 s2 ts1 ts2 :
    parse_frontmatter cfg s1 = None -> parse_frontmatter cfg s2 = None ->
    lex_at U s1 0 = Some ts1 -> lex_at U s2 0 = Some ts2 -> W ts1 ts2 ->
    OR fwr (events U cfg s1) (events U cfg s2).
  Proof. intros F1 F2 L1 L2 H. unfold events. rewrite F1, F2, L1, L2. apply blocks_fwr. exact H. Qed.

  Theorem events_w_fm s1 s2 fm1 fm2 ts1 ts2 :
    parse_frontmatter cfg s1 = Some fm1 -> parse_frontmatter cfg s2 = Some fm2 ->
    yaml_text fm1 = yaml_text fm2 -> yaml_off fm1 = yaml_off fm2 ->
    lex_at U (cook_text fm1) (cook_off fm1) = Some ts1 -> lex_at U (cook_text fm2) (cook_off fm2) = Some ts2 ->
    W ts1 ts2 ->
    OR fwr (events U cfg s1) (events U cfg s2).
  Proof.
    intros F1 F2 Hy Hyo L1 L2 H. unfold events. rewrite F1, F2, L1, L2, <- Hy, <- Hyo. apply blocks_fwr. exact H.
  Qed.

  Hypothesis special_breaks : forall c, special c = true -> is_word_char U c = false /\ is_lex_ws U c = false.
  Hypothesis eol_breaks : forall c, (c =? 10) || (c =? 13) = true -> is_word_char U c = false /\ is_lex_ws U c = false.
  Hypothesis blank_ws : is_lex_ws U 32 = true /\ is_word_char U 32 = false.

  (* no front matter *)
  Theorem trail_events a b ta tb w lc :
    parse_frontmatter cfg (a ++ b) = None -> parse_frontmatter cfg (a ++ (w ++ lc) ++ b) = None ->
    lex_at U a 0 = Some ta -> lex_at U b (blen a) = Some tb -> lex_at U (a ++ b) 0 = Some (ta ++ tb) ->
    last_open_ended ta = false -> line_end b -> trailing_text w lc ->
    OR fwr (events U cfg (a ++ b)) (events U cfg (a ++ (w ++ lc) ++ b)).
  Proof.
    intros F1 F2 La Lb Lab Ho Hb [Hw Hlc].
    destruct (trail_tokens U special_breaks eol_breaks blank_ws a b 0 ta tb w lc La Lb Lab Ho Hb Hw Hlc) as (ts2 & L2 & Hts).
    exact (events_w _ _ _ _ F1 F2 Lab L2 Hts).
  Qed.

  (* below a front matter whose Cooklang part is [a ++ b] *)
  Theorem trail_events_fm s fm a b ta tb w lc :
    parse_frontmatter cfg s = Some fm -> cook_text fm = a ++ b -> a ++ b <> [] ->
    lex_at U a (cook_off fm) = Some ta -> lex_at U b (cook_off fm + blen a) = Some tb ->
    lex_at U (a ++ b) (cook_off fm) = Some (ta ++ tb) ->
    last_open_ended ta = false -> line_end b -> trailing_text w lc ->
    OR fwr (events U cfg s) (events U cfg (take_bytes s (cook_off fm) ++ a ++ (w ++ lc) ++ b)).
  Proof.
    intros F C Hne La Lb Lab Ho Hb [Hw Hlc].
    assert (Hct : cook_text fm <> []) by (rewrite C; exact Hne).
    destruct (parse_frontmatter_insert_some_nonempty cfg s fm a (w ++ lc) b F C Hct) as (fm' & F' & Hy & Hyo & Hct' & Hco).
    destruct (trail_tokens U special_breaks eol_breaks blank_ws a b (cook_off fm) ta tb w lc La Lb Lab Ho Hb Hw Hlc) as (ts2 & L2 & Hts).
    apply (events_w_fm s _ fm fm' (ta ++ tb) ts2 F F'); try (symmetry; assumption).
    - rewrite C. exact Lab.
    - rewrite Hct', Hco. exact L2.
    - exact Hts.
  Qed.
End TrailDoc.

(* ---------------------------------------------------------------- the metadata map *)
Section MetaW.
  Variable Y : Type.
  Variable ystr : str -> Y.
  Variable yeqb : Y -> Y -> bool.
  Variable yaml : str -> option (list (Y * Y)).
  Variable modes : bool.
  Hypothesis yaml_blind : crlf_blind yaml.

  Notation mstep := (mm_step Y ystr yeqb yaml modes).
  Notation mrun := (mm_run Y ystr yeqb yaml modes).

  Lemma mm_run_cons s e r : mrun s (e :: r) = mrun (mstep s e) r.
  Proof. reflexivity. Qed.

  Lemma mm_step_text s t : mstep s (EvText t) = s.
  Proof. unfold mm_step. destruct (mm_halted Y s); reflexivity. Qed.
  Lemma mm_step_end s b : mstep s (EvEnd b) = s.
  Proof. unfold mm_step. destruct (mm_halted Y s); reflexivity. Qed.
  Lemma mm_step_warning s w : is_warning w = true -> mstep s w = s.
  Proof.
    unfold mm_step, is_warning. destruct (mm_halted Y s); [reflexivity|]. destruct w; try discriminate.
    intro H. apply negb_true_iff in H. rewrite H. reflexivity.
  Qed.
  Lemma mm_step_error s d1 d2 : d_err d1 = true -> d_err d2 = true -> mstep s (EvDiag d1) = mstep s (EvDiag d2).
  Proof. intros H1 H2. unfold mm_step. rewrite H1, H2. reflexivity. Qed.

  Lemma mm_run_wblind e1 e2 : fwr e1 e2 -> forall s, mrun s e1 = mrun s e2.
  Proof.
    induction 1 as [|a b l1 l2 He _ IH|t1 t2 l1 l2 Ht _ IH|d1 d2 l1 l2 H1 H2 _ IH|w l1 l2 Hw _ IH|w l1 l2 Hw _ IH
                   |b t1 t2 l1 l2 Ht Hn _ IH|b t2 c1 c2 l1 l2 Hb Hc He _ IH]; intro s; rewrite ?mm_run_cons.
    - reflexivity.
    - rewrite (mm_step_blind Y ystr yeqb yaml modes yaml_blind s a b He). apply IH.
    - rewrite !mm_step_text. apply IH.
    - rewrite (mm_step_error s d1 d2 H1 H2). apply IH.
    - rewrite (mm_step_warning s w Hw). apply IH.
    - rewrite (mm_step_warning s w Hw). apply IH.
    - rewrite !mm_step_text, !mm_step_end. apply IH.
    - rewrite (mm_step_blind Y ystr yeqb yaml modes yaml_blind s c1 c2 He), !mm_step_text, !mm_step_end. apply IH.
  Qed.

  Theorem metadata_wblind e1 e2 : fwr e1 e2 ->
    metadata_of Y ystr yeqb yaml modes e1 = metadata_of Y ystr yeqb yaml modes e2.
  Proof. intro H. unfold metadata_of. rewrite (mm_run_wblind e1 e2 H). reflexivity. Qed.
End MetaW.

(* ---------------------------------------------------------------- the whole parse *)
(* the outcomes of CooklangParser::parse for two sources agree up to blank space in step and
   paragraph text: same normal form of the recipe, same validity, same panic site; and the metadata
   maps are equal *)
Definition orelw (o1 o2 : outcome (option Analysis.recipe * bool)) : Prop :=
  match o1, o2 with
  | Done (r1, v1), Done (r2, v2) => option_map rnorm r1 = option_map rnorm r2 /\ v1 = v2
  | Panic p1, Panic p2 => p1 = p2
  | _, _ => False
  end.

Definition same_parse_w (ac : Analysis.acfg) (U : N -> ucls) (cfg : pcfg) ci_key yaml_ok find_iq unit_class (x : Analysis.aext)
    (Y : Type) (ystr : str -> Y) (yeqb : Y -> Y -> bool) (yaml : str -> option (list (Y * Y))) (s1 s2 : str) : Prop :=
  orelw (parse_model_cfg ac U cfg ci_key yaml_ok find_iq unit_class x s1) (parse_model_cfg ac U cfg ci_key yaml_ok find_iq unit_class x s2)
  /\ parse_meta_model U cfg Y ystr yeqb yaml s1 = parse_meta_model U cfg Y ystr yeqb yaml s2.

(* the inline-quantity oracle: off, or it reads U+0020 runs alike and shrinks its argument *)
Definition iq_ok (x : Analysis.aext) (find_iq : str -> option (str * str)) : Prop :=
  Analysis.x_inline x = false \/ (iq_ws_stable find_iq /\ AnalysisTotal.iq_shrinks find_iq).

Theorem parse_wblind ac U cfg ci_key yaml_ok find_iq unit_class x Y ystr yeqb yaml s1 s2 :
  p_strict_escape cfg = false ->
  crlf_blind yaml_ok -> crlf_blind yaml ->
  src_no_text_mode U cfg x s1 -> iq_ok x find_iq ->
  OR fwr (events U cfg s1) (events U cfg s2) ->
  same_parse_w ac U cfg ci_key yaml_ok find_iq unit_class x Y ystr yeqb yaml s1 s2.
Proof.
  intros Hc By Bm Hm Hq H. unfold same_parse_w, parse_model_cfg, parse_meta_model.
  destruct (events_ok U cfg s1 Hc) as (e1 & E1 & _). destruct (events_ok U cfg s2 Hc) as (e2 & E2 & _).
  rewrite E1, E2 in *. cbn [obind]. unfold OR in H. split.
  - pose proof (analyse_wblind_iq ci_key yaml_ok find_iq unit_class x ac By s1 s2 e1 e2 H (Hm e1 E1) Hq) as X. unfold orelw.
    destruct (Analysis.analyse ci_key yaml_ok find_iq unit_class s1 x ac (abstract_events e1)) as [[r1 v1]|p1];
      destruct (Analysis.analyse ci_key yaml_ok find_iq unit_class s2 x ac (abstract_events e2)) as [[r2 v2]|p2]; exact X.
  - rewrite (metadata_wblind Y ystr yeqb yaml _ Bm e1 e2 H). reflexivity.
Qed.
