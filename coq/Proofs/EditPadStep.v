(* Property C17, the padded block comment: the components, the step loop and the block parser of
   Model/Parser.v under [psim].  The two runs are in step throughout (a gap starts with a blank token, as
   the blank it replaces does): one relation [pany] on the remaining tokens at every point, [pnog] where a
   paragraph line starts, [pstart] where a block starts. *)
From Coq Require Import List Lia.
From CL Require Import Base.StrLemmas Model.Lexer Model.PText Model.CommentMask Model.Parser Model.Edits
  Proofs.EditParserProofs Proofs.EditSimDefs Proofs.EditSimQty Proofs.EditSimComp Proofs.EditInsDefs Proofs.EditInsPrim.
From CL Require Import Proofs.EditTrailDefs Proofs.EditTrailStr Proofs.EditTrailPrim Proofs.EditTrailQty Proofs.EditTrailFun
  Proofs.EditTrailLine Proofs.EditTrailStep Proofs.EditPadDefs Proofs.EditPadPrim Proofs.EditPadFun.
Import ListNotations.

(* the first token of a block; a block that starts with `>>` is one line *)
Definition pstart (r1 r2 : list tok) : Prop := pline r1 r2 /\ (hdk r1 = KMeta -> no_nl r1).

Lemma pstart_pnog r1 r2 : pstart r1 r2 -> pnog r1 r2.
Proof. intros [H _]. exact (pline_pnog _ _ H). Qed.
Lemma pstart_pany r1 r2 : pstart r1 r2 -> pany r1 r2.
Proof. intro H. exact (pnog_pany _ _ (pstart_pnog _ _ H)). Qed.

(* with_recover: on None the tokens are those before *)
Lemma PJ_with_recover {A B} (T T' : TR) (R : A -> B -> Prop) (m1 : M (option A)) (m2 : M (option B)) :
  HJ (Sw T) m1 m2 (fun o1 s1 o2 s2 => orel R o1 o2 /\ Sw T' s1 s2) ->
  HJ (Sw T) (with_recover m1) (with_recover m2)
     (fun o1 s1 o2 s2 => orel R o1 o2 /\ match o1 with Some _ => Sw T' s1 s2 | None => Sw T s1 s2 end).
Proof.
  intros H s1 s2 S. unfold with_recover. specialize (H s1 s2 S).
  destruct (m1 s1) as [[o1 s1']|]; [|exact I]. destruct (m2 s2) as [[o2 s2']|]; [|destruct o1; exact I].
  destruct H as (Ho & S'). destruct o1 as [a|], o2 as [b|]; cbn in Ho; try contradiction.
  - split; [exact Ho | exact S'].
  - split; [exact I|]. destruct S as (Sr & Sa & _). destruct S' as (_ & _ & Se). split; [exact Sr | split; assumption].
Qed.

(* the key of a metadata entry: `[...]` is seen through str::trim *)
Lemma is_config_key_trw k1 k2 : trw false k1 k2 -> is_config_key k1 = is_config_key k2.
Proof.
  intros (H & _). unfold is_config_key, text_outer_trimmed. pose proof (spins_trim _ _ _ H) as T.
  pose proof (spins_hd _ _ T) as Hh. pose proof (spins_last _ _ T) as Hl. pose proof (spins_nil_iff _ _ T) as Hn.
  destruct (trim (text_str k1)) as [|c r], (trim (text_str k2)) as [|c' r'].
  - reflexivity.
  - destruct Hn as [N _]. discriminate (N eq_refl).
  - destruct Hn as [_ N]. discriminate (N eq_refl).
  - cbn [hd] in Hh. subst c'. rewrite Hl. reflexivity.
Qed.

Section Step.
  Variable cfg : pcfg.

  (* ================================================================ components *)
  Lemma ingredient_pp : WL pany (orel crel) (ingredient_p cfg) (ingredient_p cfg) pany.
  Proof.
    unfold ingredient_p. eapply WL_bind; [apply WN_of, WN_current_offset|]. intros st1 st2 _.
    eapply WL_obindM; [apply PL_consume; discriminate | | auto]. intros at1 at2 _.
    eapply WL_bind; [apply WN_of, WN_current_offset|]. intros mp1 mp2 _.
    eapply WL_bind; [apply modifiers_p|]. intros mts1 mts2 Hm.
    eapply WL_bind; [apply WN_of, WN_current_offset|]. intros no1 no2 _.
    eapply WL_obindM; [apply comp_body_p | | auto]. intros bd1 bd2 (Hn & Hc & Hq).
    eapply WL_bind; [apply note_p|]. intros nt1 nt2 Hnt.
    eapply WL_bind; [apply WN_of, WN_current_offset|]. intros en1 en2 _.
    eapply WL_bind; [apply WN_of, (parse_alias_q cfg); exact Hn|]. intros [name1 al1] [name2 al2] [Hname Hal]. cbn in Hname, Hal.
    eapply WL_bind; [apply WN_of, (check_empty_name_w false); exact Hname|]. intros _ _ _.
    eapply WL_bind; [apply WN_of, (parse_modifiers_q cfg); exact Hm|]. intros [[m1 msp1] i1] [[m2 msp2] i2] [Hmm Hi]. cbn in Hmm, Hi.
    eapply WL_bind; [apply WN_of, qty_opt_w; exact Hq|]. intros q1 q2 Hqq.
    apply WL_ret. cbn. split; [|reflexivity]. unfold erel. cbn [proj i_mods i_inter i_name i_alias i_qty i_note].
    rewrite Hmm, (orel_map_pinter _ _ Hi), (trw_tx _ _ _ Hname), (otrw_map_tx _ _ _ Hal), (orel_map_pqw _ _ Hqq), (otrw_map_tx _ _ _ Hnt).
    reflexivity.
  Qed.

  Lemma cookware_pp : WL pany (orel crel) (cookware_p cfg) (cookware_p cfg) pany.
  Proof.
    unfold cookware_p. eapply WL_bind; [apply WN_of, WN_current_offset|]. intros st1 st2 _.
    eapply WL_obindM; [apply PL_consume; discriminate | | auto]. intros at1 at2 _.
    eapply WL_bind; [apply WN_of, WN_current_offset|]. intros mp1 mp2 _.
    eapply WL_bind; [apply modifiers_p|]. intros mts1 mts2 Hm.
    eapply WL_bind; [apply WN_of, WN_current_offset|]. intros no1 no2 _.
    eapply WL_obindM; [apply comp_body_p | | auto]. intros b1 b2 (Hbn & Hbc & Hbq).
    eapply WL_bind; [apply note_p|]. intros nt1 nt2 Hnt.
    eapply WL_bind; [apply WN_of, WN_current_offset|]. intros en1 en2 _.
    eapply WL_bind; [apply WN_of, (parse_alias_q cfg); exact Hbn|]. intros [n1 a1] [n2 a2] [Hn Ha]. cbn [fst snd] in Hn, Ha.
    eapply WL_bind; [apply WN_of, (check_empty_name_w false); exact Hn|]. intros _ _ _.
    eapply WL_bind with (RA := orel cqrw).
    - apply WN_of. destruct (bd_qty b1) as [q1|], (bd_qty b2) as [q2|]; cbn in Hbq; try contradiction; [|apply WN_ret; exact I].
      eapply WN_bind; [apply parse_quantity_w; apply wsimb_weaken; exact Hbq|]. intros [x1 u1] [x2 u2] [[Hv Hu] _].
      cbn [fst snd] in Hv, Hu. eapply WN_bind with (RA := anyrel).
      + destruct (q_unit x1), (q_unit x2); cbn in Hu; try contradiction; [apply WN_error | apply WN_ret; exact I].
      + intros _ _ _. apply WN_ret. exact Hv.
    - intros q1 q2 Hq.
      eapply WL_bind; [apply WN_of, (parse_modifiers_q cfg); exact Hm|]. intros [[m1 ms1] j1] [[m2 ms2] j2] [Hmm Hj].
      cbn [fst snd] in Hmm, Hj. subst m2.
      eapply WL_bind with (RA := anyrel).
      { apply WN_of. destruct j1, j2; cbn in Hj; try contradiction; [apply WN_error | apply WN_ret; exact I]. }
      intros _ _ _. eapply WL_bind with (RA := anyrel).
      { apply WN_of. destruct (N.land m1 M_RECIPE =? M_RECIPE); [|apply WN_ret; exact I].
        destruct (find (fun t => tk_eqb (kind t) KAt) mts1), (find (fun t => tk_eqb (kind t) KAt) mts2).
        - apply WN_error.
        - apply WN_panic_r.
        - apply WN_panic_l.
        - apply WN_panic_l. }
      intros _ _ _. apply WL_ret. cbn [orel]. split; [|reflexivity]. unfold erel.
      cbn [proj c_mods c_name c_alias c_qty c_note].
      rewrite (trw_tx _ _ _ Hn), (otrw_map_tx _ _ _ Ha), (orel_map_cqw _ _ Hq), (otrw_map_tx _ _ _ Hnt). reflexivity.
  Qed.

  Lemma timer_pp : WL pany (orel crel) (timer_p cfg) (timer_p cfg) pany.
  Proof.
    unfold timer_p. eapply WL_bind; [apply WN_of, WN_current_offset|]. intros st1 st2 _.
    eapply WL_obindM; [apply PL_consume; discriminate | | auto]. intros at1 at2 _.
    eapply WL_bind; [apply modifiers_p|]. intros mts1 mts2 Hm.
    eapply WL_bind; [apply WN_of, WN_current_offset|]. intros no1 no2 _.
    eapply WL_obindM; [apply comp_body_p | | auto]. intros b1 b2 (Hbn & Hbc & Hbq).
    eapply WL_bind; [apply WN_of, WN_current_offset|]. intros en1 en2 _.
    eapply WL_bind with (RA := anyrel).
    { apply WN_of. pose proof (qsim_nil_iff _ _ Hm) as Hnil.
      destruct mts1, mts2; [apply WN_ret; exact I | | | apply WN_error].
      - destruct Hnil as [X _]. specialize (X eq_refl). discriminate.
      - destruct Hnil as [_ X]. specialize (X eq_refl). discriminate. }
    intros _ _ _. eapply WL_bind with (RA := anyrel).
    { apply WN_of. destruct (has cfg X_COMPONENT_ALIAS); [|apply WN_ret; exact I].
      pose proof (qsim_split (fun k => tk_eqb k KOr) _ _ eq_refl eq_refl Hbn) as X.
      destruct (position (fun k => tk_eqb k KOr) (bd_name b1)) as [n1|], (position (fun k => tk_eqb k KOr) (bd_name b2)) as [n2|];
        try contradiction; [|apply WN_ret; exact I].
      destruct X as [_ (sa & sb & r1 & r2 & -> & -> & _)]. apply WN_error. }
    intros _ _ _. eapply WL_bind; [apply check_note_p|]. intros _ _ _.
    eapply WL_bind; [apply WN_of, WN_textM_q; exact Hbn|]. intros n1 n2 Hn.
    eapply WL_bind with (RA := orel qrw).
    { apply WN_of. destruct (bd_qty b1) as [q1|], (bd_qty b2) as [q2|]; cbn in Hbq; try contradiction; [|apply WN_ret; exact I].
      eapply WN_bind; [apply parse_quantity_w; apply wsimb_weaken; exact Hbq|]. intros [x1 u1] [x2 u2] [Hx _].
      cbn [fst snd] in Hx. eapply WN_bind with (RA := anyrel).
      + destruct Hx as [_ Hu]. destruct (q_unit x1), (q_unit x2); cbn in Hu; try contradiction;
          [apply WN_ret; exact I | apply WN_error].
      + intros _ _ _. apply WN_ret. exact Hx. }
    intros q1 q2 Hq. eapply WL_bind with (RA := orel qrw).
    { apply WN_of. destruct q1 as [q1|], q2 as [q2|]; cbn in Hq; try contradiction; [apply WN_ret; exact Hq|].
      destruct (has cfg X_TIMER_REQUIRES_TIME); [|apply WN_ret; exact I].
      eapply WN_bind; [apply WN_error|]. intros _ _ _. apply WN_ret. exact qrw_recover. }
    intros q1' q2' Hq'. rewrite (trw_empty _ _ _ Hn). eapply WL_bind with (RA := orel qrw).
    { apply WN_of. destruct (is_text_empty n2); [|apply WN_ret; exact Hq'].
      destruct q1' as [q1'|], q2' as [q2'|]; cbn in Hq'; try contradiction; [apply WN_ret; exact Hq'|].
      eapply WN_bind; [apply WN_error|]. intros _ _ _. apply WN_ret. exact qrw_recover. }
    intros q1'' q2'' Hq''. apply WL_ret. cbn [orel]. split; [|reflexivity]. unfold erel. cbn [proj t_name t_qty].
    rewrite (orel_map_pqw _ _ Hq''). destruct (is_text_empty n2); cbn [option_map]; [reflexivity|].
    rewrite (trw_tx _ _ _ Hn). reflexivity.
  Qed.

  (* ================================================================ the step loop *)
  Lemma nm_gap g : Forall gapt g -> Forall (fun t => nm (kind t) = true) g.
  Proof. apply (gap_all_f nm); reflexivity. Qed.

  (* one token, then everything up to the next marker *)
  Lemma psim_text_run m t1 q1 l2 : psim m (t1 :: q1) l2 ->
    exists t2 q2, l2 = t2 :: q2 /\ qsim (t1 :: firstn (cwc nm q1) q1) (t2 :: firstn (cwc nm q2) q2)
                  /\ pany (skipn (cwc nm q1) q1) (skipn (cwc nm q2) q2).
  Proof.
    intro H. remember (t1 :: q1) as l1 eqn:E. destruct H as [m|m a b r1 r2 Hab Ho H|m w g r1 r2 Hok Hg H]; try discriminate.
    - inversion E; subst. exists b, r2. split; [reflexivity|].
      destruct (psim_run nm _ _ _ eq_refl eq_refl H) as [[X1 X2] | (X1 & X2 & X3)].
      + split; [apply q_cons; [exact Hab | exact (psim_qsim _ _ _ X1)]|]. eexists. exact (psynced_psim _ _ _ _ X2).
      + split; [apply q_cons; [exact Hab | exact (psim_qsim _ _ _ X1)]|]. rewrite X2, X3. exact pany_nil.
    - inversion E; subst. destruct (gapl_cons _ _ Hg) as (w1 & g' & Eg & K1). subst g. cbn [app].
      exists w1, (g' ++ r2). split; [reflexivity|].
      assert (Gg : Forall gapt g') by (destruct Hg as (_ & _ & _ & X & _); inversion X; assumption).
      rewrite (cwc_app_pass nm g' r2 (nm_gap _ Gg)), firstn_app_len, skipn_app_len.
      change (w1 :: g' ++ firstn (cwc nm r2) r2) with ((w1 :: g') ++ firstn (cwc nm r2) r2).
      destruct (psim_run nm _ _ _ eq_refl eq_refl H) as [[X1 X2] | (X1 & X2 & X3)].
      + split; [apply q_gap; [exact Hg | exact (psim_qsim _ _ _ X1)]|]. eexists. exact (psynced_psim _ _ _ _ X2).
      + split; [apply q_gap; [exact Hg | exact (psim_qsim _ _ _ X1)]|]. rewrite X2, X3. exact pany_nil.
  Qed.

  Lemma PJ_text_run {A B} (K1 : tok -> list tok -> M A) (K2 : tok -> list tok -> M B) (Q : A -> bp -> B -> bp -> Prop) :
    (forall t1 q1 t2 q2, qsim (t1 :: q1) (t2 :: q2) -> HJ (Sw pany) (K1 t1 q1) (K2 t2 q2) Q) ->
    HJ (Sw pany)
       (t0 <- bump_any ;; more <- consume_while (fun k => negb (is_marker k)) ;; K1 t0 more)
       (t0 <- bump_any ;; more <- consume_while (fun k => negb (is_marker k)) ;; K2 t0 more) Q.
  Proof.
    intros HK s1 s2 S. unfold bind. rewrite !bump_any_step. pose proof S as ([m Hr] & Sa & Se).
    destruct (b_rest s1) as [|a q1] eqn:E1; [exact I|].
    destruct (psim_text_run _ _ _ _ Hr) as (b & q2 & E2 & Hq & Hs). rewrite E2.
    cbv beta iota. rewrite !consume_while_cwc. cbn [step1 b_rest]. fold nm.
    apply (HK _ _ _ _ Hq). unfold Sw. rewrite !advance_rest, !advance_all, !advance_evs. cbn [step1 b_rest b_all b_evs].
    split; [exact Hs | split; assumption].
  Qed.

  Lemma step_loop_p : forall f1 f2, WL pany anyrel (step_loop cfg f1) (step_loop cfg f2) pany.
  Proof.
    induction f1 as [|f1 IH]; intro f2; [apply WL_panic_l|]. destruct f2 as [|f2]; [apply WL_panic_r|].
    cbn [step_loop].
    eapply WL_bind; [apply WL_rest|]. intros r1 r2 Hr. pose proof (pany_nil_iff _ _ Hr) as Hnil.
    destruct r1 as [|a r1], r2 as [|b r2]; try (exfalso; destruct Hnil as [A B]; first [discriminate (A eq_refl) | discriminate (B eq_refl)]).
    { apply WL_ret. exact I. }
    eapply WL_bind; [apply PL_peek|]. intros k1 k2 <-.
    eapply WL_bind with (RA := orel crel).
    { destruct k1; try (apply WL_ret; exact I); apply WL_with_recover;
        first [apply ingredient_pp | apply cookware_pp | apply timer_pp]. }
    intros [ev1|] [ev2|] Hev; cbn [orel] in Hev; try contradiction.
    - eapply WL_bind; [apply WN_of, WN_event; exact (proj1 Hev)|]. intros _ _ _. apply IH.
    - eapply WL_bind; [apply WN_of, WN_current_offset|]. intros st1 st2 _.
      unfold WL. apply PJ_text_run. intros t1 q1 t2 q2 Hq. apply (WL_HJ pany pany).
      eapply WL_bind; [apply WN_of, WN_textM_q; exact Hq|]. intros x1 x2 Hx.
      eapply WL_bind with (RA := anyrel).
      { apply WN_of. destruct Hx as (Hs & _ & Hf). pose proof (Hf eq_refl) as Hn.
        destruct (frags x1) as [|fa fr] eqn:F1, (frags x2) as [|fb fr'] eqn:F2.
        - apply WN_ret. exact I.
        - destruct Hn as [N _]. discriminate (N eq_refl).
        - destruct Hn as [_ N]. discriminate (N eq_refl).
        - apply WN_event_text. exact Hs. }
      intros _ _ _. apply IH.
  Qed.

  Lemma parse_step_p : WL pany anyrel (parse_step cfg) (parse_step cfg) pany.
  Proof.
    unfold parse_step. eapply WL_bind; [apply WN_of; apply WN_event; reflexivity|]. intros _ _ _.
    eapply WL_bind; [apply WL_rest|]. intros r1 r2 _.
    eapply WL_bind; [apply step_loop_p|]. intros _ _ _. apply WN_of. apply WN_event. reflexivity.
  Qed.

  (* ================================================================ blocks *)
  Lemma parse_multiline_block_p : WL pnog anyrel (parse_multiline_block cfg) (parse_multiline_block cfg) pany.
  Proof.
    unfold parse_multiline_block. eapply WL_bind; [apply WN_of; apply WN_all_tokens|]. intros a1 a2 Ha.
    rewrite <- (ballr_empty _ _ Ha). destruct (forallb (fun t => is_empty_tok (kind t)) a1).
    - eapply WL_pre; [exact pnog_pany|]. eapply WL_bind; [apply PL_consume_rest|]. intros _ _ _. apply WL_ret. exact I.
    - eapply WL_bind with (RA := eq) (T1 := pnog).
      { intros s1 s2 S. cbn. rewrite !peek_of_hdk. pose proof S as (Hr & _). split; [exact (pany_hd _ _ (pnog_pany _ _ Hr)) | exact S]. }
      intros k1 k2 <-. destruct k1; try (eapply WL_pre; [exact pnog_pany | apply parse_step_p]).
      eapply WL_post; [apply parse_text_block_p | exact pnog_pany].
  Qed.
  Definition phd (T : TR) (k : tkind) (r1 r2 : list tok) : Prop := T r1 r2 /\ hdk r1 = k.

  Lemma parse_block_p old :
    HJ (Sw pstart) (parse_block cfg old) (parse_block cfg old) (fun _ s1 _ s2 => Sw pany s1 s2).
  Proof.
    unfold parse_block.
    eapply HJ_bind_d with (R := eq) (P' := fun k s1 s2 => Sw (phd pstart k) s1 s2).
    { intros s1 s2 S. cbn. rewrite !peek_of_hdk. pose proof S as (Hr & _). split; [exact (pany_hd _ _ (pstart_pany _ _ Hr))|].
      apply (Sw_rest _ _ _ _ S). split; [exact Hr | reflexivity]. }
    intros k1 k2 <-. cbv beta.
    assert (KK : forall mos1 mos2, orel erel mos1 mos2 ->
        HJ (fun s1 s2 => match mos1 with Some _ => Sw pany s1 s2 | None => Sw (phd pstart k1) s1 s2 end)
           (match mos1 with Some ev => event ev | None => parse_multiline_block cfg end)
           (match mos2 with Some ev => event ev | None => parse_multiline_block cfg end)
           (fun _ s1 _ s2 => Sw pany s1 s2)).
    { intros [e1|] [e2|] He; cbn [orel] in He; try contradiction.
      - eapply HJ_conseq; [intros s1 s2 X; exact X | apply (WN_event e1 e2 He pany) |]. intros u1 s1 u2 s2 [_ S]. exact S.
      - eapply HJ_conseq; [| apply parse_multiline_block_p |].
        + intros s1 s2 S. eapply Sw_mono; [|exact S]. intros l1 l2 [X _]. exact (pstart_pnog _ _ X).
        + intros u1 s1 u2 s2 [_ S]. exact S. }
    eapply HJ_bind_d with (R := orel erel)
      (P' := fun mos s1 s2 => match mos with Some _ => Sw pany s1 s2 | None => Sw (phd pstart k1) s1 s2 end);
      [|intros mos1 mos2 Hm; exact (KK mos1 mos2 Hm)].
    destruct k1; try (apply HJ_ret; intros s1 s2 S; split; [exact I | exact S]).
    - (* `>>` *)
      apply PJ_with_recover. apply (HJ_pre (Sw (pL LStart))).
      { intros s1 s2 S. eapply Sw_mono; [|exact S]. intros l1 l2 [[(m & _ & Hl & Hp) Hn] Hk].
        split; [exists m; split; assumption | exact (Hn Hk)]. }
      eapply HJ_obindM_d with (RA := mdp) (PP := fun _ s1 s2 => Sw pany s1 s2);
        [apply metadata_entry_p | | intros s1 s2 S; split; [exact I | exact S]].
      intros e1 e2 Hm. destruct e1, e2; cbn in Hm; try contradiction.
      destruct Hm as [Hkk Hv]. unfold meta_kept. rewrite (is_config_key_trw _ _ Hkk).
      match goal with |- context [if ?c then _ else _] => destruct c end;
        apply HJ_ret; intros s1 s2 S; (split; [|exact S]); cbn [orel]; [|exact I].
      apply (mdp_erel (EvMetadata _ _) (EvMetadata _ _)). split; assumption.
    - (* `=` *)
      apply PJ_with_recover. apply (HJ_pre (Sw pany)); [|apply section_p_p].
      intros s1 s2 S. eapply Sw_mono; [|exact S]. intros l1 l2 [X _]. exact (pstart_pany _ _ X).
  Qed.

  Theorem block_p blk1 blk2 evs1 evs2 old :
    pstart blk1 blk2 -> evw evs1 evs2 ->
    OR evw (run_block blk1 evs1 (parse_block cfg old)) (run_block blk2 evs2 (parse_block cfg old)).
  Proof.
    intros Hb He. unfold run_block. pose proof (pany_nil_iff _ _ (pstart_pany _ _ Hb)) as Hnil.
    destruct blk1 as [|x1 q1]; [exact I|].
    destruct blk2 as [|x2 q2]; [destruct Hnil as [_ N]; discriminate (N eq_refl)|].
    set (s1 := {| b_all := x1 :: q1; b_done := []; b_rest := x1 :: q1; b_evs := evs1 |}).
    set (s2 := {| b_all := x2 :: q2; b_done := []; b_rest := x2 :: q2; b_evs := evs2 |}).
    assert (S0 : Sw pstart s1 s2).
    { split; [exact Hb | split; [|exact He]]. cbn. apply qsim_ballr. exact (pany_qsim _ _ (pstart_pany _ _ Hb)). }
    pose proof (parse_block_p old s1 s2 S0) as X. unfold OR.
    destruct (parse_block cfg old s1) as [[u1 z1]|]; [|exact I].
    destruct (parse_block cfg old s2) as [[u2 z2]|]; [|destruct (b_rest z1); exact I].
    destruct X as (Hr & _ & Hev).
    destruct (b_rest z1), (b_rest z2); try exact I. exact Hev.
  Qed.
End Step.
