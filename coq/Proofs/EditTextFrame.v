(* Property C17, text mode.  A unary frame judgement for the block parser of Model/Parser.v:
   [fr m]: whenever [m] finishes it has only moved forwards over its tokens ([tfr]: the token
   tape [rev done ++ rest] is unchanged) and has only ADDED events, none of them a component
   event ([efr]).  Everything below the three component parsers and the non-step block
   parsers satisfy it; a component event is pushed only by the step loop.
   Used by Proofs/EditTextSim.v to carry the source slices of component events through the
   relational reading of Proofs/EditSim*.v. *)
From CL Require Import Base.StrLemmas Model.Lexer Model.PText Model.CommentMask Model.Parser
  Proofs.ParserSeg Proofs.ParserCover Proofs.ParserCoverFrame.

Definition comp_span (e : pevent) : option span :=
  match e with
  | EvIngredient i => Some (i_span i)
  | EvCookware c => Some (c_span c)
  | EvTimer t => Some (t_span t)
  | _ => None
  end.
Definition noncomp (e : pevent) : Prop := comp_span e = None.

Definition tfr (s s' : bp) : Prop := exists c, fwd s c s'.
Definition efr (s s' : bp) : Prop := exists es, b_evs s' = es ++ b_evs s /\ Forall noncomp es.
Definition fr {A} (m : M A) : Prop := forall s a s', m s = Done (a, s') -> tfr s s' /\ efr s s'.

Lemma tfr_refl s : tfr s s.
Proof. exists []. unfold fwd. cbn [app rev]. tauto. Qed.
Lemma tfr_trans a b c : tfr a b -> tfr b c -> tfr a c.
Proof. intros (c1 & A) (c2 & B). exists (c1 ++ c2). eapply fwd_trans; eassumption. Qed.
Lemma efr_refl s : efr s s.
Proof. exists []. split; [reflexivity | constructor]. Qed.
Lemma efr_trans a b c : efr a b -> efr b c -> efr a c.
Proof.
  intros (x & A & Fx) (y & B & Fy). exists (y ++ x). split; [rewrite B, A, app_assoc; reflexivity|].
  apply Forall_app. split; assumption.
Qed.

Lemma fr_ret {A} (a : A) : fr (ret a).
Proof. intros s x s' H. unfold ret in H. injection H as <- <-. split; [apply tfr_refl | apply efr_refl]. Qed.
Lemma fr_panic {A} p : fr (@panic A p).
Proof. intros s x s' H. discriminate. Qed.
Lemma fr_bind {A B} (m : M A) (f : A -> M B) : fr m -> (forall a, fr (f a)) -> fr (bind m f).
Proof.
  intros Hm Hf s b s2 H. unfold bind in H. destruct (m s) as [[a s1]|] eqn:E; [|discriminate].
  destruct (Hm _ _ _ E) as [T1 E1]. destruct (Hf a _ _ _ H) as [T2 E2].
  split; [eapply tfr_trans | eapply efr_trans]; eassumption.
Qed.
Lemma fr_same {A} (m : M A) : (forall s a s', m s = Done (a, s') -> s' = s) -> fr m.
Proof. intros H s a s' E. rewrite (H _ _ _ E). split; [apply tfr_refl | apply efr_refl]. Qed.

Ltac same := apply fr_same; intros s r0 s' H;
  cbv beta delta [ret get peek at_kind rest all_tokens parsed current_offset panic] in H; inversion H; reflexivity.

Lemma fr_peek : fr peek. Proof. same. Qed.
Lemma fr_at_kind k : fr (at_kind k). Proof. same. Qed.
Lemma fr_rest : fr rest. Proof. same. Qed.
Lemma fr_all_tokens : fr all_tokens. Proof. same. Qed.
Lemma fr_parsed : fr parsed. Proof. same. Qed.
Lemma fr_current_offset : fr current_offset. Proof. same. Qed.
Lemma fr_lift {A} (o : outcome A) : fr (lift o).
Proof. apply fr_same. intros s a s' H. unfold lift in H. destruct o; inversion H. reflexivity. Qed.
Lemma fr_textM cfg off ts : fr (textM cfg off ts). Proof. apply fr_lift. Qed.

Lemma fr_event ev : noncomp ev -> fr (event ev).
Proof.
  intros Hn s a s' H. unfold event in H. injection H as _ <-. split.
  - exists []. unfold fwd. cbn [b_all b_rest b_done app rev]. tauto.
  - exists [ev]. split; [reflexivity | constructor; [exact Hn | constructor]].
Qed.
Lemma fr_error k l : fr (error k l). Proof. apply fr_event. reflexivity. Qed.
Lemma fr_warn k l : fr (warn k l). Proof. apply fr_event. reflexivity. Qed.

Lemma mv_fr s c s' : mv s c s' -> tfr s s' /\ efr s s'.
Proof.
  intro H. split; [exists c; apply mv_fwd; exact H|]. destruct H as (_ & _ & _ & E).
  exists []. split; [exact E | constructor].
Qed.

Lemma fr_pc {A} (m : M A) :
  (forall s, pc m s (fun _ s' => tfr s s' /\ efr s s')) -> fr m.
Proof. intros H s a s' E. exact (H s a s' E). Qed.

Lemma fr_bump_any : fr bump_any.
Proof. apply fr_pc. intro s. apply pc_bump_any. intros t s' H. eapply mv_fr; exact H. Qed.
Lemma fr_bump k : fr (bump k).
Proof. apply fr_pc. intro s. apply pc_bump. intros t s' H _. eapply mv_fr; exact H. Qed.
Lemma fr_consume k : fr (consume k).
Proof.
  apply fr_pc. intro s. apply pc_consume.
  - intros t s' H _. eapply mv_fr; exact H.
  - split; [apply tfr_refl | apply efr_refl].
Qed.
Lemma fr_until f : fr (until f).
Proof.
  apply fr_pc. intro s. apply pc_until.
  - intros t s' H. eapply mv_fr; exact H.
  - split; [apply tfr_refl | apply efr_refl].
Qed.
Lemma fr_consume_while f : fr (consume_while f).
Proof. apply fr_pc. intro s. apply pc_consume_while. intros t s' H _. eapply mv_fr; exact H. Qed.

Lemma fr_with_recover {A} (m : M (option A)) : fr m -> fr (with_recover m).
Proof.
  intros Hm s a s' H. unfold with_recover in H.
  destruct (m s) as [[[x|] s1]|] eqn:E; try discriminate; injection H as <- <-.
  - exact (Hm _ _ _ E).
  - destruct (Hm _ _ _ E) as [_ Ev]. split; [|exact Ev].
    exists []. unfold fwd. cbn [b_all b_rest b_done app rev]. tauto.
Qed.
Lemma fr_obindM {A B} (m : M (option A)) (f : A -> M (option B)) :
  fr m -> (forall a, fr (f a)) -> fr (obindM m f).
Proof. intros Hm Hf. unfold obindM. apply fr_bind; [exact Hm|]. intros [a|]; [apply Hf | apply fr_ret]. Qed.
Lemma fr_sub_block {A} ts (m : M A) : fr m -> fr (sub_block ts m).
Proof.
  intros Hm s a s' H. unfold sub_block in H. destruct ts; [discriminate|].
  match type of H with match m ?st with _ => _ end = _ => destruct (m st) as [[x s2]|] eqn:E end; [|discriminate].
  injection H as <- <-. destruct (Hm _ _ _ E) as [_ Ev]. split; [|exact Ev].
  exists []. unfold fwd. cbn [b_all b_rest b_done app rev]. tauto.
Qed.

Ltac fr_auto :=
  repeat first
    [ apply fr_ret | apply fr_peek | apply fr_at_kind
    | apply fr_rest | apply fr_all_tokens | apply fr_parsed | apply fr_current_offset | apply fr_panic | apply fr_textM
    | apply fr_lift | apply fr_bump_any | apply fr_bump | apply fr_consume | apply fr_until
    | apply fr_consume_while | apply fr_error | apply fr_warn
    | match goal with
      | |- fr (event _) => apply fr_event; reflexivity
      | |- fr (sub_block _ _) => apply fr_sub_block
      | |- fr (with_recover _) => apply fr_with_recover
      | |- fr (obindM _ _) => apply fr_obindM; [|intros]
      | |- fr (bind _ _) => apply fr_bind; [|intros]
      | |- fr (match ?x with _ => _ end) => destruct x eqn:?
      | |- fr (if ?x then _ else _) => destruct x eqn:?
      | |- fr (let '(_, _) := ?x in _) => destruct x
      end ].

Section Funs.
  Variable c : pcfg.

  Lemma fr_comp_body : fr comp_body. Proof. unfold comp_body. fr_auto. Qed.
  Lemma fr_note : fr (note c). Proof. unfold note. fr_auto. Qed.
  Lemma fr_check_note : fr (check_note c). Proof. unfold check_note. fr_auto. Qed.
  Lemma fr_parse_alias ts off : fr (parse_alias c ts off).
  Proof. unfold parse_alias. fr_auto. Qed.
  Lemma fr_check_empty_name t : fr (check_empty_name t). Proof. unfold check_empty_name. fr_auto. Qed.
  Lemma fr_parse_inter ts : fr (parse_inter ts).
  Proof. unfold parse_inter. cbv zeta. fr_auto. Qed.
  Lemma fr_modifiers_loop fuel : forall acc, fr (modifiers_loop c fuel acc).
  Proof. induction fuel as [|f IH]; intros acc; cbn [modifiers_loop]; fr_auto; try apply IH. Qed.
  Lemma fr_modifiers : fr (modifiers c).
  Proof. unfold modifiers. fr_auto; try apply fr_modifiers_loop. Qed.
  Lemma fr_parse_mods_loop fuel : forall ts msp mods inter, fr (parse_mods_loop c fuel ts msp mods inter).
  Proof.
    induction fuel as [|f IH]; intros ts msp mods inter; cbn [parse_mods_loop]; [apply fr_panic|].
    destruct ts as [|t r]; [apply fr_ret|]. destruct (mod_bit (kind t)); [|apply fr_panic].
    apply fr_bind.
    - destruct (tk_eqb (kind t) KAnd && has c X_INTERMEDIATE_PREPARATIONS); [apply fr_parse_inter | apply fr_ret].
    - intros [i' r']. destruct (_ =? _); [apply fr_bind; [apply fr_error | intros _; apply IH] | apply IH].
  Qed.
  Lemma fr_parse_modifiers mts mpos : fr (parse_modifiers c mts mpos).
  Proof.
    unfold parse_modifiers. destruct mts as [|m0 mr]; [apply fr_ret|].
    apply fr_bind; [apply fr_parse_mods_loop|]. intros [m i]. apply fr_ret.
  Qed.
  Lemma fr_scaling_lock : fr scaling_lock. Proof. unfold scaling_lock, ws_comments. fr_auto. Qed.
  Lemma fr_parse_value ts : fr (parse_value c ts).
  Proof. unfold parse_value, text_value. fr_auto. Qed.
  Lemma fr_parse_regular_quantity : fr (parse_regular_quantity c).
  Proof.
    unfold parse_regular_quantity, value_p, consume_rest.
    repeat first [apply fr_scaling_lock | apply fr_parse_value | progress fr_auto].
  Qed.
  Lemma fr_parse_advanced_quantity : fr (parse_advanced_quantity c).
  Proof.
    unfold parse_advanced_quantity, ws_comments, consume_rest.
    repeat first [apply fr_scaling_lock | progress fr_auto].
  Qed.
  Lemma fr_parse_quantity ts : fr (parse_quantity c ts).
  Proof.
    unfold parse_quantity.
    repeat first [apply fr_parse_regular_quantity | apply fr_parse_advanced_quantity | progress fr_auto].
  Qed.

  Ltac fr_comp :=
    repeat first [ apply fr_modifiers | apply fr_comp_body | apply fr_note | apply fr_check_note | apply fr_parse_alias
                 | apply fr_check_empty_name | apply fr_parse_quantity | apply fr_parse_modifiers
                 | progress fr_auto ].

  Lemma fr_ingredient_p : fr (ingredient_p c). Proof. unfold ingredient_p. fr_comp. Qed.
  Lemma fr_cookware_p : fr (cookware_p c). Proof. unfold cookware_p. fr_comp. Qed.
  Lemma fr_timer_p : fr (timer_p c). Proof. unfold timer_p. fr_comp. Qed.

  Lemma fr_metadata_entry : fr (metadata_entry c).
  Proof. unfold metadata_entry, consume_rest. fr_auto. Qed.
  Lemma fr_section_p : fr (section_p c).
  Proof. unfold section_p, ws_comments. fr_auto. Qed.
  Lemma fr_text_block_loop fuel : fr (text_block_loop c fuel).
  Proof. induction fuel as [|f IH]; cbn [text_block_loop]; fr_auto; try apply IH. Qed.
  Lemma fr_parse_text_block : fr (parse_text_block c).
  Proof. unfold parse_text_block. fr_auto. apply fr_text_block_loop. Qed.
End Funs.
